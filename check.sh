#!/bin/sh
# usage: check.sh <property id> [quick|thorough]
# Decides one property by static analysis of /repo's current working tree.
# Nothing from /repo is executed. Exit 0 = holds on everything analysed,
# exit 1 + "VIOLATION property=<id> replay=<path>" otherwise.
set -u
cd "$(dirname "$0")" || exit 2
export GOFLAGS=-mod=mod GOPROXY=off GOSUMDB=off GOTOOLCHAIN=local
unset GOWORK
id="$1"
tier="${2:-${VERIF_TIER:-quick}}"
REPO="${XVC_REPO:-/repo}"
if [ ! -x bin/xvc ] || [ -n "$(find xvc -name '*.go' -newer bin/xvc 2>/dev/null | head -1)" ]; then
  mkdir -p bin
  tmp="bin/xvc.$$"
  (cd xvc && go build -o "../$tmp" ./cmd/xvc) || { echo "xvc build failed"; exit 2; }
  mv -f "$tmp" bin/xvc
fi
exec ./bin/xvc -property "$id" -tier "$tier" -repo "$REPO" -verif "$(pwd)"

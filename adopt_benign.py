#!/usr/bin/env python3
"""dev aid: adopt_benign.py <srcroot> <tags e.g. r6,r7> <origin text> [--recheck-all]
Copies confirmed behaviour-preserving refactorings <srcroot>/<id>/<tag>/ into /verif/benign/<id><tag>/ with a meta.json.
check_with = every property whose analysed packages (evidence/<id>.json functions_analysed) contain a patched file's
package. --recheck-all recomputes check_with of every existing benign entry the same way."""
import sys, os, re, json, shutil, glob
src, tags, origin = sys.argv[1], sys.argv[2].split(','), sys.argv[3]
ok_fail = ('TestStateWorkWithLedger', 'TestSMR', 'TestP2PServerV2')
pk = {}
for f in glob.glob('/verif/evidence/C*.json'):
    e = json.load(open(f))
    pk[e['property_id']] = set(fn.split('::')[0] for fn in e['coverage']['functions_analysed'])
def check_with(files, own):
    dirs = set(os.path.dirname(f) for f in files)
    cw = sorted(p for p, s in pk.items() if s & dirs)
    if own not in cw:
        cw = sorted(cw + [own])
    return cw
for i in range(1, 21):
    pid = 'C%02d' % i
    for t in tags:
        d = '%s/%s/%s' % (src, pid, t)
        sid = pid + t
        if not os.path.exists(d + '/confirm.json'):
            print(sid, 'no confirm.json'); continue
        c = json.load(open(d + '/confirm.json'))
        bad = [x for x in re.findall(r'--- FAIL: (\w+)', c.get('suite_failures_with_patch', '')) if x not in ok_fail]
        if c.get('build') or bad or c.get('patch_applied') != 'yes':
            print(sid, 'NOT CONFIRMED', c.get('build'), bad); continue
        out = '/verif/benign/' + sid
        os.makedirs(out, exist_ok=True)
        shutil.copy(d + '/patch.diff', out + '/patch.diff')
        if os.path.exists(d + '/NOTES.md'):
            shutil.copy(d + '/NOTES.md', out + '/NOTES.md')
        pf = sorted(set(re.findall(r'^\+\+\+ b/(.*)$', open(d + '/patch.diff').read(), re.M)))
        title = ''
        if os.path.exists(d + '/NOTES.md'):
            for l in open(d + '/NOTES.md'):
                if l.strip():
                    title = l.strip().lstrip('# ')[:200]; break
        meta = {'id': sid, 'property': pid, 'files': pf, 'origin': origin,
                'confirmed_by_me': {
                    'how': 'scratch worktree of /repo HEAD outside /repo and /verif: patch applied, go build of all packages except the kvdb/badger plugin, full suite go test -vet=off -count=1 ./... ; worktree removed afterwards',
                    'at_commit': c.get('head', ''), 'build_with_change': 'ok',
                    'suite_failures_with_change': c.get('suite_failures_with_patch', ''),
                    'suite_note': "TestStateWorkWithLedger fails on the unchanged tree too (baseline always_fail); TestSMR is the baseline's flaky test; TestP2PServerV2 / p2pv1 'address already in use', where listed, lost their fixed TCP ports to other jobs running at the same time"},
                'expected': 'silent', 'check_with': check_with(pf, pid), 'title': title}
        json.dump(meta, open(out + '/meta.json', 'w'), indent=1)
        print(sid, 'adopted', meta['check_with'])
if '--recheck-all' in sys.argv:
    for m in sorted(glob.glob('/verif/benign/*/meta.json')):
        d = json.load(open(m))
        cw = check_with(d['files'], d['property'])
        if cw != d.get('check_with'):
            print(d['id'], 'check_with', d.get('check_with'), '->', cw)
            d['check_with'] = cw
            json.dump(d, open(m, 'w'), indent=1)

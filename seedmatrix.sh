#!/bin/bash
# dev aid: run every seeded patch (dir/<id>/<x>/patch.diff) against all properties; prints which properties fire
# usage: seedmatrix.sh <dir>   (default /tmp/wt/out)
D=${1:-/tmp/wt/out}
S=/tmp/rv
mkdir -p $S /tmp/rvout; cp /verif/known_findings.json /tmp/rvout/
for pd in $(ls -d $D/*/*/ 2>/dev/null); do
  [ -f $pd/patch.diff ] || continue
  id=$(basename $(dirname $pd))$(basename $pd)
  rsync -a --delete --exclude .git /repo/ $S/
  if ! (cd $S && patch -p1 -s --no-backup-if-mismatch < $pd/patch.diff >/dev/null 2>&1); then echo "$id PATCH-FAILED"; continue; fi
  fired=$(/verif/bin/xvc -property all -repo $S -verif /tmp/rvout 2>/dev/null | grep "^VIOLATION" | sed 's/.*property=\([A-Z0-9]*\).*/\1/' | tr '\n' ' ')
  echo "$id -> ${fired:-MISSED}"
done

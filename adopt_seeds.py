#!/usr/bin/env python3
"""dev aid: adopt_seeds.py <srcroot> <letters> <round> <matrix_now.txt> [first_status.json]
Copies confirmed seeded changes <srcroot>/<id>/<x>/ into /verif/seeded/<id><x>/ with a meta.json.
A seed is adopted only when confirm.json shows: demo ok on HEAD, demo FAIL with the patch, build ok,
suite failures limited to the baseline's always-fail/flaky tests (TestStateWorkWithLedger, TestSMR) or the
port-contention victim TestP2PServerV2."""
import sys, os, re, json, shutil, subprocess
src, letters, rnd, matrix = sys.argv[1:5]
first = json.load(open(sys.argv[5])) if len(sys.argv) > 5 else {}
now = {}
for l in open(matrix):
    m = re.match(r'(C\d\d\w) -> (.*)', l.strip())
    if m:
        now[m.group(1)] = m.group(2).split()
head = subprocess.run(['git', '-C', '/repo', 'rev-parse', '--short', 'HEAD'], capture_output=True, text=True).stdout.strip()
ok_fail = ('TestStateWorkWithLedger', 'TestSMR', 'TestP2PServerV2')
for i in range(1, 21):
    pid = 'C%02d' % i
    for x in letters:
        d = '%s/%s/%s' % (src, pid, x)
        sid = pid + x
        if not os.path.exists(d + '/confirm.json'):
            print(sid, 'no confirm.json'); continue
        c = json.load(open(d + '/confirm.json'))
        if c.get('error'):
            print(sid, 'ERROR', c['error']); continue
        on_head, with_p = c.get('demo_on_head', ''), c.get('demo_with_patch', '')
        bad = [t for t in re.findall(r'--- FAIL: (\w+)', c.get('suite_failures_with_patch', '')) if t not in ok_fail]
        if 'FAIL' in on_head or not on_head.startswith('ok') or 'FAIL' not in with_p or c.get('build') or bad or c.get('patch_applied') != 'yes':
            print(sid, 'NOT CONFIRMED', {'head': on_head[:80], 'patch': with_p[:80], 'build': c.get('build'), 'suite': bad}); continue
        out = '/verif/seeded/' + sid
        os.makedirs(out, exist_ok=True)
        shutil.copy(d + '/patch.diff', out + '/patch.diff')
        for f in ('DEMO.txt', 'NOTES.md'):
            if os.path.exists(d + '/' + f):
                shutil.copy(d + '/' + f, out + '/' + f)
        files = {}
        for f, where in c['files'].items():
            shutil.copy(d + '/' + f, out + '/' + f + '.txt')
            files[f + '.txt'] = where + '/'
        title = open(d + '/NOTES.md').readline().strip()
        m = re.match(r'#\s*%s\s*/\s*%s\s*[-–]\s*(.*)' % (pid, x), title)
        title = m.group(1) if m else title.lstrip('# ')
        pf = sorted(set(re.findall(r'^\+\+\+ b/(.*)$', open(d + '/patch.diff').read(), re.M)))
        fired = now.get(sid, [])
        meta = {
            'id': sid, 'property': pid, 'title': title, 'files': pf,
            'origin': 'fresh sub-agent given only the property text and a scratch worktree (round %s; told which changes the earlier rounds had produced, invited to dress one change as a refactoring)' % rnd,
            'needs_to_manifest': "see NOTES.md (the agent's account of the input/history/schedule needed) and the demonstration",
            'demonstration': {'files': files, 'run': "go test -vet=off -count=1 -run '%s' %s" % (c['run'], ' '.join('./' + p + '/' for p in c['dirs']))},
            'confirmed_by_me': {
                'how': 'scratch worktree of /repo HEAD outside /repo and /verif: demo on the unchanged tree, patch applied, demo again, go build of all packages except the kvdb/badger plugin, full suite go test -vet=off -count=1 ./... ; worktree removed afterwards (confirm_seed.sh)',
                'at_commit': c.get('head', head),
                'demo_on_unchanged_tree': on_head, 'demo_with_change': with_p, 'build_with_change': 'ok',
                'suite_failures_with_change': c.get('suite_failures_with_patch', ''),
                'suite_note': "TestStateWorkWithLedger fails on the unchanged tree too (baseline always_fail: needs wasm2c); TestSMR is the baseline's flaky test; TestP2PServerV2, where listed, lost its fixed TCP ports to another job running at the same time - it passes alone and does not import the changed package",
            },
            'checks_that_report_it': fired,
            'first_round_status': first.get(sid, 'reported by its own property as delivered'),
            'check_with': [pid],
        }
        json.dump(meta, open(out + '/meta.json', 'w'), indent=1, ensure_ascii=False)
        print(sid, 'adopted', 'reported by', fired, '' if pid in fired else '  <-- OWN PROPERTY SILENT')

#!/usr/bin/env python3
"""dev aid: seedtable.py <letters>  - markdown rows (seed | change | first status | rule that now reports it) for DESIGN.md"""
import sys, os, re, json, subprocess, shutil
letters = sys.argv[1]
S = '/tmp/rvtab'
for d in sorted(os.listdir('/verif/seeded')):
    if not re.match(r'C\d\d[%s]$' % letters, d):
        continue
    m = json.load(open('/verif/seeded/%s/meta.json' % d))
    subprocess.run(['rsync', '-a', '--delete', '--exclude', '.git', '/repo/', S + '/'], check=True)
    p = subprocess.run('patch -p1 -s --no-backup-if-mismatch < /verif/seeded/%s/patch.diff' % d, shell=True, cwd=S, capture_output=True, text=True)
    os.makedirs('/tmp/rvtabout', exist_ok=True)
    shutil.copy('/verif/known_findings.json', '/tmp/rvtabout/')
    out = subprocess.run(['/verif/bin/xvc', '-property', m['property'], '-repo', S, '-verif', '/tmp/rvtabout'], capture_output=True, text=True).stdout
    first = ''
    for l in out.split('\n'):
        mm = re.match(r'\s+violated: (\S+)\s+(\S+) \| (.*)', l)
        if mm:
            rule, fn, what = mm.groups()
            fn = fn.split('::')[-1]
            first = '%s `%s`: %s' % (rule, fn, what[:150].replace('|', '\\|'))
            break
    st = m.get('first_round_status', '')
    st = {'reported by its own property as delivered': 'own'}.get(st, st)
    st = st.replace('missed by every check', '**missed**').replace('missed by its own property', '**missed** (own)').replace('reported only by another property', 'other').replace('reported only by other properties', 'other')
    print('| %s | %s | %s | %s |' % (d, m['title'][:110].replace('|', '\\|'), st, first or 'NOT REPORTED'))
shutil.rmtree(S, ignore_errors=True)

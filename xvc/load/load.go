// Package load type-checks /repo's current working tree and builds SSA for it.
// Nothing is executed; dependencies outside the module are type-checked from
// source (LoadAllSyntax) but their function bodies are not built.
package load

import (
	"fmt"
	"go/token"
	"go/types"
	"os"
	"sort"
	"strings"
	"time"

	"golang.org/x/tools/go/packages"
	ssa "xvc/xssa"
	"xvc/xssa/ssautil"
)

// Mod is the module path prefix of the code under analysis.
const Mod = "github.com/xuperchain/xupercore/"

// MinPackages is the number of module packages confirmed by hand for the
// patterns below on the pinned tree; fewer means the load silently lost code.
const MinPackages = 92

var Patterns = []string{"./bcs/...", "./kernel/...", "./lib/..."}

type Program struct {
	Dir        string
	Fset       *token.FileSet
	Pkgs       []*packages.Package          // module packages (initial)
	ByPath     map[string]*packages.Package // import path -> package (module packages only)
	SSA        *ssa.Program
	SSAPkgs    map[string]*ssa.Package  // import path -> ssa package (module packages only)
	Funcs      map[string]*ssa.Function // "<pkg suffix>::<name>" -> function (module, non-anonymous)
	Inlined    []string                 // "caller <- helper" for every call site replaced by the helper's body
	NormFailed string                   // non-empty: the transforms could not be applied cleanly (the caller reloads without them)
	Notes      []string
	Absorbed   []string        // helpers absorbed at all their call sites (no longer analysed on their own)
	AllFns     []*ssa.Function // every module function incl. anonymous, deterministic order
	LoadS      float64
	Errors     []string
}

// Load loads dir (normally /repo). overlay may replace file contents (used by
// the self-test variants only).
func Load(dir string, overlay map[string][]byte) (*Program, error) {
	p, err := load(dir, overlay, true)
	if err == nil && p.NormFailed != "" && os.Getenv("XVC_KEEP_NORM") == "" {
		// the normalising transforms are an aid against false alarms, never a reason to fail:
		// analyse the program as built when they cannot be applied cleanly
		why := p.NormFailed
		p, err = load(dir, overlay, false)
		if err == nil {
			p.Notes = append(p.Notes, "normalising transforms disabled for this run: "+why)
		}
	}
	return p, err
}

func load(dir string, overlay map[string][]byte, normalise bool) (*Program, error) {
	t0 := time.Now()
	env := []string{}
	for _, e := range os.Environ() {
		if strings.HasPrefix(e, "GOWORK=") || strings.HasPrefix(e, "GOFLAGS=") || strings.HasPrefix(e, "GOPROXY=") ||
			strings.HasPrefix(e, "GOSUMDB=") || strings.HasPrefix(e, "GOTOOLCHAIN=") {
			continue
		}
		env = append(env, e)
	}
	env = append(env, "GOFLAGS=-mod=mod", "GOPROXY=off", "GOSUMDB=off", "GOTOOLCHAIN=local", "GOWORK=off")
	cfg := &packages.Config{
		Mode:    packages.LoadAllSyntax,
		Dir:     dir,
		Env:     env,
		Overlay: overlay,
		Tests:   false,
	}
	pkgs, err := packages.Load(cfg, Patterns...)
	if err != nil {
		return nil, fmt.Errorf("packages.Load: %w", err)
	}
	p := &Program{Dir: dir, ByPath: map[string]*packages.Package{}, SSAPkgs: map[string]*ssa.Package{}, Funcs: map[string]*ssa.Function{}}
	for _, pk := range pkgs {
		if !strings.HasPrefix(pk.PkgPath+"/", Mod) && pk.PkgPath+"/" != Mod {
			continue
		}
		for _, e := range pk.Errors {
			p.Errors = append(p.Errors, fmt.Sprintf("%s: %s", pk.PkgPath, e.Error()))
		}
		if pk.IllTyped {
			p.Errors = append(p.Errors, fmt.Sprintf("%s: ill-typed", pk.PkgPath))
		}
		p.Pkgs = append(p.Pkgs, pk)
		p.ByPath[pk.PkgPath] = pk
	}
	sort.Slice(p.Pkgs, func(i, j int) bool { return p.Pkgs[i].PkgPath < p.Pkgs[j].PkgPath })
	if len(p.Pkgs) == 0 {
		return nil, fmt.Errorf("no module packages loaded from %s", dir)
	}
	p.Fset = pkgs[0].Fset
	prog, _ := ssautil.AllPackages(pkgs, ssa.InstantiateGenerics)
	p.SSA = prog
	for _, pk := range p.Pkgs {
		sp := prog.Package(pk.Types)
		if sp == nil {
			p.Errors = append(p.Errors, fmt.Sprintf("%s: no SSA package", pk.PkgPath))
			continue
		}
		sp.Build()
		p.SSAPkgs[pk.PkgPath] = sp
	}
	// module packages outside the patterns (e.g. protos) are built too, so that
	// their trivial getters can be seen through; they are not analysis targets.
	for _, sp := range prog.AllPackages() {
		if sp.Pkg != nil && strings.HasPrefix(sp.Pkg.Path()+"/", Mod) && p.SSAPkgs[sp.Pkg.Path()] == nil {
			sp.Build()
		}
	}
	// index functions
	seen := map[*ssa.Function]bool{}
	var add func(fn *ssa.Function)
	add = func(fn *ssa.Function) {
		if fn == nil || seen[fn] {
			return
		}
		seen[fn] = true
		p.AllFns = append(p.AllFns, fn)
		for _, a := range fn.AnonFuncs {
			add(a)
		}
	}
	for _, pk := range p.Pkgs {
		sp := p.SSAPkgs[pk.PkgPath]
		if sp == nil {
			continue
		}
		suffix := strings.TrimPrefix(pk.PkgPath, Mod)
		var names []string
		for n := range sp.Members {
			names = append(names, n)
		}
		sort.Strings(names)
		for _, n := range names {
			switch m := sp.Members[n].(type) {
			case *ssa.Function:
				p.Funcs[suffix+"::"+m.Name()] = m
				add(m)
			case *ssa.Type:
				for _, T := range []types.Type{m.Type(), types.NewPointer(m.Type())} {
					ms := prog.MethodSets.MethodSet(T)
					for i := 0; i < ms.Len(); i++ {
						fn := prog.MethodValue(ms.At(i))
						if fn == nil || fn.Pkg != sp || fn.Synthetic != "" {
							continue
						}
						p.Funcs[suffix+"::"+FuncName(fn)] = fn
						add(fn)
					}
				}
			}
		}
	}
	if normalise {
		func() {
			defer func() {
				if r := recover(); r != nil {
					p.NormFailed = fmt.Sprintf("panic: %v", r)
				}
			}()
			p.normalise()
		}()
	}
	p.LoadS = time.Since(t0).Seconds()
	return p, nil
}

// KnownName is set by the command before Load: it reports whether an identifier is
// named by some rule (function anchors, callee specs, canonical patterns). A private
// helper whose name no rule knows is absorbed into its callers before analysis, so
// that extracting lines into a new helper (or inlining one) leaves the analysed
// program unchanged. nil disables inlining.
var KnownName func(string) bool

// NonNil is the oracle handed to the normaliser: values that are never nil (error
// constructors, sentinel errors). Set by the command before Load.
var NonNil func(ssa.Value) bool

// normalise applies the forked ssa package's normalising transforms to every
// module function and drops the helpers that were absorbed at all their call sites.
func (p *Program) normalise() {
	if os.Getenv("XVC_NO_NORMALISE") != "" {
		p.Notes = append(p.Notes, "normalising transforms disabled for this run: XVC_NO_NORMALISE is set")
		return
	}
	pol := func(caller, callee *ssa.Function) bool {
		if KnownName == nil || callee.Object() == nil || callee.Object().Exported() {
			return false
		}
		cp := caller
		for cp.Parent() != nil {
			cp = cp.Parent()
		}
		if callee.Pkg == nil || cp.Pkg != callee.Pkg || !strings.HasPrefix(callee.Pkg.Pkg.Path()+"/", Mod) {
			return false
		}
		return !KnownName(callee.Name())
	}
	norm := ssa.NewNormalizer(pol)
	norm.NonNil = NonNil
	norm.Uses = map[*ssa.Function]int{}
	{
		var rands []*ssa.Value
		for _, g := range p.AllFns {
			for _, b := range g.Blocks {
				for _, ins := range b.Instrs {
					rands = ins.Operands(rands[:0])
					for _, r := range rands {
						if f, ok := (*r).(*ssa.Function); ok {
							norm.Uses[f]++
						}
					}
				}
			}
		}
	}
	for _, fn := range p.AllFns {
		if fn.Parent() == nil {
			norm.Normalize(fn)
		}
	}
	p.Inlined = norm.Sites
	for _, fn := range p.AllFns {
		if ok, rep := ssa.SanityCheck(fn); !ok && p.NormFailed == "" {
			p.NormFailed = fmt.Sprintf("normalised SSA of %s fails the sanity check: %s", fn, rep)
		}
	}
	// helpers absorbed everywhere are no longer part of the analysed program
	cand := map[*ssa.Function]bool{}
	for f, n := range norm.Inlined {
		if n > 0 && !ifaceMethodName(f) {
			cand[f] = true
		}
	}
	refs := map[*ssa.Function]map[*ssa.Function]bool{}
	var rands []*ssa.Value
	for _, g := range p.AllFns {
		for _, b := range g.Blocks {
			for _, ins := range b.Instrs {
				rands = ins.Operands(rands[:0])
				for _, r := range rands {
					if f, ok := (*r).(*ssa.Function); ok && cand[f] && f != g {
						if refs[f] == nil {
							refs[f] = map[*ssa.Function]bool{}
						}
						refs[f][g] = true
					}
				}
			}
		}
	}
	for changed := true; changed; {
		changed = false
		for f := range cand {
			for g := range refs[f] {
				top := g
				for top.Parent() != nil {
					top = top.Parent()
				}
				if !cand[top] {
					delete(cand, f)
					changed = true
					break
				}
			}
		}
	}
	if len(cand) > 0 {
		keep := p.AllFns[:0]
		for _, fn := range p.AllFns {
			top := fn
			for top.Parent() != nil {
				top = top.Parent()
			}
			if !cand[top] {
				keep = append(keep, fn)
			}
		}
		p.AllFns = keep
		for k, fn := range p.Funcs {
			if cand[fn] {
				delete(p.Funcs, k)
				p.Absorbed = append(p.Absorbed, k)
			}
		}
		sort.Strings(p.Absorbed)
	}
}

// ifaceMethodName: fn is a method whose name some interface of its package declares
// (it may then be reached by dynamic dispatch even when no static call remains).
func ifaceMethodName(fn *ssa.Function) bool {
	if fn.Signature == nil || fn.Signature.Recv() == nil || fn.Pkg == nil {
		return false
	}
	sc := fn.Pkg.Pkg.Scope()
	for _, n := range sc.Names() {
		tn, ok := sc.Lookup(n).(*types.TypeName)
		if !ok {
			continue
		}
		if it, ok := tn.Type().Underlying().(*types.Interface); ok {
			for i := 0; i < it.NumMethods(); i++ {
				if it.Method(i).Name() == fn.Name() {
					return true
				}
			}
		}
	}
	return false
}

// FuncName renders "(*T).M", "(T).M" or "F" without package qualifiers.
func FuncName(fn *ssa.Function) string {
	if fn.Signature != nil {
		if recv := fn.Signature.Recv(); recv != nil {
			return "(" + types.TypeString(recv.Type(), func(*types.Package) string { return "" }) + ")." + fn.Name()
		}
	}
	return fn.Name()
}

// QualName renders "<pkg suffix>::<FuncName>", with "$n" suffixes for closures.
func QualName(fn *ssa.Function) string {
	if fn == nil {
		return "<nil>"
	}
	if fn.Parent() != nil {
		return QualName(fn.Parent()) + "$" + strings.TrimPrefix(fn.Name(), fn.Parent().Name()+"$")
	}
	pk := ""
	if fn.Pkg != nil {
		pk = strings.TrimPrefix(fn.Pkg.Pkg.Path(), Mod)
	} else if fn.Object() != nil && fn.Object().Pkg() != nil {
		pk = strings.TrimPrefix(fn.Object().Pkg().Path(), Mod)
	}
	return pk + "::" + FuncName(fn)
}

// Pos renders a position relative to the analysed directory.
func (p *Program) Pos(pos token.Pos) string {
	if !pos.IsValid() {
		return "-"
	}
	q := p.Fset.Position(pos)
	return fmt.Sprintf("%s:%d", strings.TrimPrefix(q.Filename, p.Dir+"/"), q.Line)
}

package main

import (
	"encoding/json"
	"fmt"
	"os"
	"os/exec"
	"path/filepath"
	"regexp"
	"sort"
	"strings"
	"sync"
)

// The thorough tier validates the checker itself on every run: each recorded
// variant of /repo is applied IN MEMORY (a temporary copy of only the patched files,
// handed to a child process as an overlay; /repo is never written) and analysed
// with the property's rules. A seeded change (seeded/<id>/, a behaviour-breaking
// edit with its demonstration) must be reported; a benign change (benign/<id>/, a
// behaviour-preserving refactoring) must not. A mismatch says the CHECKER has lost
// power or precision, not that the property is violated: it is printed and
// recorded in the evidence, and never turns into a VIOLATION line or a non-zero exit.
// Variants whose patch no longer applies to the current tree are skipped.

type variantMeta struct {
	ID        string   `json:"id"`
	Property  string   `json:"property"`
	Title     string   `json:"title"`
	CheckWith []string `json:"check_with"`            // benign: every property whose rules read a patched file
	Reported  []string `json:"checks_that_report_it"` // seeded: the properties whose check reports the change
}

type selfResult struct {
	Variant  string   `json:"variant"`
	Kind     string   `json:"kind"` // seeded | benign
	Title    string   `json:"title"`
	Expected string   `json:"expected"`
	Got      string   `json:"got"`
	OK       bool     `json:"ok"`
	Reported []string `json:"reported,omitempty"`
}

var plusRe = regexp.MustCompile(`(?m)^\+\+\+ b/(\S+)`)

func selfTest(verif, repo, id string) map[string]any {
	var jobs []selfResult
	dirs := map[string]string{}
	for _, kind := range []string{"seeded", "benign"} {
		ents, _ := os.ReadDir(filepath.Join(verif, kind))
		for _, e := range ents {
			dir := filepath.Join(verif, kind, e.Name())
			data, err := os.ReadFile(filepath.Join(dir, "meta.json"))
			if err != nil {
				continue
			}
			var m variantMeta
			if json.Unmarshal(data, &m) != nil {
				continue
			}
			list := m.Reported
			if kind == "benign" {
				list = m.CheckWith
			}
			mine := m.Property == id && len(list) == 0
			for _, p := range list {
				if p == id {
					mine = true
				}
			}
			if !mine {
				continue
			}
			exp := "reported"
			if kind == "benign" {
				exp = "silent"
			}
			jobs = append(jobs, selfResult{Variant: kind + "/" + e.Name(), Kind: kind, Title: m.Title, Expected: exp})
			dirs[kind+"/"+e.Name()] = dir
		}
	}
	sort.Slice(jobs, func(i, j int) bool { return jobs[i].Variant < jobs[j].Variant })
	self, _ := os.Executable()
	var wg sync.WaitGroup
	sem := make(chan struct{}, 4)
	for i := range jobs {
		wg.Add(1)
		go func(r *selfResult) {
			defer wg.Done()
			sem <- struct{}{}
			defer func() { <-sem }()
			runVariant(self, verif, repo, id, dirs[r.Variant], r)
		}(&jobs[i])
	}
	wg.Wait()
	cnt := map[string]int{}
	for _, r := range jobs {
		switch {
		case strings.HasPrefix(r.Got, "skipped"):
			cnt["skipped"]++
		case r.Kind == "seeded" && r.OK:
			cnt["seeded_reported"]++
		case r.Kind == "seeded":
			cnt["seeded_missed"]++
		case r.OK:
			cnt["benign_silent"]++
		default:
			cnt["benign_alarm"]++
		}
		if !r.OK && !strings.HasPrefix(r.Got, "skipped") {
			fmt.Printf("SELFTEST-MISMATCH property=%s %s expected=%s got=%s (%s)\n", id, r.Variant, r.Expected, r.Got, r.Title)
		}
	}
	fmt.Printf("selftest property=%s variants=%d seeded reported %d missed %d; benign silent %d alarm %d; skipped %d\n", id, len(jobs),
		cnt["seeded_reported"], cnt["seeded_missed"], cnt["benign_silent"], cnt["benign_alarm"], cnt["skipped"])
	return map[string]any{
		"what":     "checker validation, not exploration of the property: recorded variants of /repo analysed through an in-memory overlay; a seeded (behaviour-breaking, demonstrated) change must be reported, a benign (behaviour-preserving) refactoring must not",
		"variants": len(jobs), "counts": cnt, "results": jobs,
	}
}

func runVariant(self, verif, repo, id, dir string, r *selfResult) {
	patch, err := os.ReadFile(filepath.Join(dir, "patch.diff"))
	if err != nil {
		r.Got = "skipped: no patch.diff"
		return
	}
	tmp, err := os.MkdirTemp("", "xvc-selftest-")
	if err != nil {
		r.Got = "skipped: " + err.Error()
		return
	}
	defer os.RemoveAll(tmp)
	ov := filepath.Join(tmp, "overlay")
	vd := filepath.Join(tmp, "verif")
	os.MkdirAll(vd, 0o755)
	for _, m := range plusRe.FindAllStringSubmatch(string(patch), -1) {
		rel := m[1]
		data, err := os.ReadFile(filepath.Join(repo, rel))
		if err != nil {
			r.Got = "skipped: " + rel + " is not in this tree"
			return
		}
		os.MkdirAll(filepath.Dir(filepath.Join(ov, rel)), 0o755)
		os.WriteFile(filepath.Join(ov, rel), data, 0o644)
	}
	cmd := exec.Command("patch", "-p1", "-s", "--no-backup-if-mismatch", "-d", ov, "-i", filepath.Join(dir, "patch.diff"))
	if out, err := cmd.CombinedOutput(); err != nil {
		r.Got = "skipped: the patch does not apply to the current tree (" + strings.TrimSpace(firstLine(string(out))) + ")"
		return
	}
	if kf, err := os.ReadFile(filepath.Join(verif, "known_findings.json")); err == nil {
		os.WriteFile(filepath.Join(vd, "known_findings.json"), kf, 0o644)
	}
	child := exec.Command(self, "-property", id, "-tier", "quick", "-repo", repo, "-overlay", ov, "-verif", vd)
	child.Env = os.Environ()
	out, _ := child.CombinedOutput()
	code := child.ProcessState.ExitCode()
	switch {
	case code == 0:
		r.Got = "silent"
	case code == 1 && strings.Contains(string(out), "VIOLATION property="+id):
		r.Got = "reported"
		var v struct {
			Violations []struct {
				Key string `json:"key"`
			} `json:"violations"`
		}
		if data, err := os.ReadFile(filepath.Join(vd, "out", id+".violations.json")); err == nil && json.Unmarshal(data, &v) == nil {
			for i, x := range v.Violations {
				if i < 4 {
					r.Reported = append(r.Reported, x.Key)
				}
			}
		}
	default:
		r.Got = fmt.Sprintf("skipped: analysis of the variant did not complete (exit %d: %s)", code, firstLine(string(out)))
	}
	r.OK = r.Got == r.Expected
}

func firstLine(s string) string {
	if i := strings.IndexByte(s, '\n'); i >= 0 {
		s = s[:i]
	}
	if len(s) > 160 {
		s = s[:160]
	}
	return s
}

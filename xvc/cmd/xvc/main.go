// xvc decides the xupercore properties by static analysis of /repo's current
// working tree. It never executes analysed code.
//
//	xvc -property C07 -tier quick
//	xvc -dump 'bcs/ledger/xledger/state/utxo::(*UtxoVM).CheckInputEqualOutput'
package main

import (
	"encoding/json"
	"flag"
	"fmt"
	"os"
	"path/filepath"
	"sort"
	"strconv"
	"strings"
	"time"

	ssa "xvc/xssa"

	"xvc/load"
	"xvc/q"
	"xvc/rules"
)

type knownFile struct {
	Findings []struct {
		Property string `json:"property"`
		Key      string `json:"key"`
		What     string `json:"what"`
		Shown    string `json:"shown_by,omitempty"`
	} `json:"findings"`
	Fixed []string `json:"fixed"`
}

func main() {
	prop := flag.String("property", "", "property id (C01..C20) or 'all'")
	tier := flag.String("tier", "quick", "quick|thorough")
	repo := flag.String("repo", "/repo", "tree to analyse")
	verif := flag.String("verif", "/verif", "verif dir (evidence, out, known findings)")
	dump := flag.String("dump", "", "dump the branch inventory of a function (authoring aid)")
	explain := flag.String("explain", "", "print a violations file in readable form")
	effects := flag.String("effects", "", "dump calls of a function with canonical args and guard sets (authoring aid); fn[@calleespec]")
	list := flag.Bool("v", false, "print every obligation")
	ssadump := flag.String("ssa", "", "authoring aid: print the normalised SSA of a function")
	inl := flag.Bool("inlined", false, "authoring aid: list the helper call sites absorbed by the normalising pass")
	sweep := flag.String("sweep", "", "authoring aid: list module-wide call sites of a callee spec whose verdict is discarded")
	overlay := flag.String("overlay", "", "directory whose files replace the files of the same relative path in -repo (in memory; used by the self-test)")
	flag.Parse()

	if *explain != "" {
		data, err := os.ReadFile(*explain)
		if err != nil {
			fmt.Println(err)
			os.Exit(2)
		}
		var v struct {
			Property   string         `json:"property"`
			Violations []q.Obligation `json:"violations"`
		}
		json.Unmarshal(data, &v)
		for _, o := range v.Violations {
			fmt.Printf("%s %s\n  rule: %s\n  function: %s\n  construct: %s\n  site: %s\n  %s\n", v.Property, o.Status, o.Rule, o.Fn, o.What, o.Site, o.Detail)
		}
		return
	}

	t0 := time.Now()
	var ov map[string][]byte
	if *overlay != "" {
		ov = map[string][]byte{}
		filepath.Walk(*overlay, func(path string, fi os.FileInfo, err error) error {
			if err == nil && fi.Mode().IsRegular() && strings.HasSuffix(path, ".go") {
				rel, _ := filepath.Rel(*overlay, path)
				data, _ := os.ReadFile(path)
				ov[filepath.Join(*repo, rel)] = data
			}
			return nil
		})
	}
	load.KnownName = rules.KnownName
	load.NonNil = q.DefinitelyNonNilErr
	p, err := load.Load(*repo, ov)
	if err != nil {
		fmt.Printf("load failed: %v\n", err)
		if *prop != "" && *prop != "all" {
			fail(*verif, *prop, *tier, t0, "load failed: "+err.Error())
		}
		os.Exit(1)
	}
	if *ssadump != "" {
		if fn := p.Funcs[*ssadump]; fn != nil {
			fn.WriteTo(os.Stdout)
		} else {
			fmt.Println("no such function")
		}
		return
	}
	if *inl {
		for _, s := range p.Inlined {
			fmt.Println("inlined:", s)
		}
		for _, s := range p.Absorbed {
			fmt.Println("absorbed:", s)
		}
		for _, e := range p.Errors {
			fmt.Println("error:", e)
		}
		return
	}
	if *effects != "" {
		name, spec := *effects, ""
		if i := strings.Index(name, "@"); i >= 0 {
			name, spec = name[:i], name[i+1:]
		}
		fn := p.Funcs[name]
		if fn == nil {
			fmt.Println("no such function:", name)
			os.Exit(2)
		}
		c := q.NewCtx(p, "dump", *tier)
		for _, f := range q.WithClosures(fn) {
			fmt.Println("##", load.QualName(f))
			for _, b := range f.Blocks {
				for _, ins := range b.Instrs {
					ci, ok := ins.(ssa.CallInstruction)
					if !ok {
						continue
					}
					cal := q.Callee(ci.Common())
					if cal.Name == "" || (spec != "" && !cal.Match(spec)) {
						continue
					}
					if spec == "" && (strings.HasSuffix(cal.Pkg, "/logs") || cal.Recv == "Logger" || cal.Pkg == "builtin") {
						continue
					}
					var args []string
					for _, a := range ci.Common().Args {
						args = append(args, q.CanonD(a, 9))
					}
					var gs []string
					for _, g := range q.GuardsOf(b) {
						if g.Sense {
							gs = append(gs, g.Canon)
						} else {
							gs = append(gs, "!"+g.Canon)
						}
					}
					fmt.Printf("  %s %s.%s(%s)\n      if %s\n", c.At(ins), cal.Recv, cal.Name, strings.Join(args, " , "), strings.Join(gs, " & "))
				}
			}
		}
		return
	}
	if *sweep != "" {
		c := q.NewCtx(p, "sweep", *tier)
		n := c.ResultSweep(*sweep, nil)
		for _, o := range c.Obs {
			if o.Status != q.Discharged {
				fmt.Printf("  %s | %s @%s %s\n", o.Fn, o.What, o.Site, o.Detail)
			}
		}
		fmt.Println(n, "call sites")
		return
	}
	if *dump != "" {
		c := q.NewCtx(p, "dump", *tier)
		for _, name := range strings.Split(*dump, ",") {
			fn := p.Funcs[name]
			if fn == nil {
				fmt.Println("no such function:", name)
				continue
			}
			fmt.Println("##", name)
			for _, f := range q.WithClosures(fn) {
				if f != fn {
					fmt.Println("  # closure", load.QualName(f))
				}
				for _, l := range q.GuardDump(c, f) {
					fmt.Println("  ", l)
				}
			}
		}
		return
	}
	for _, n := range p.Notes {
		fmt.Println("note:", n)
	}
	ids := []string{*prop}
	if *prop == "all" {
		ids = ids[:0]
		for id := range rules.All {
			ids = append(ids, id)
		}
		sort.Strings(ids)
	}
	var kf knownFile
	if data, err := os.ReadFile(filepath.Join(*verif, "known_findings.json")); err == nil {
		if err := json.Unmarshal(data, &kf); err != nil {
			fmt.Println("known_findings.json unreadable:", err)
			os.Exit(2)
		}
	}
	exit := 0
	for _, id := range ids {
		run, ok := rules.All[id]
		if !ok {
			fmt.Printf("unknown property %s\n", id)
			os.Exit(2)
		}
		t1 := time.Now()
		c := q.NewCtx(p, id, *tier)
		c.Notes = append(c.Notes, p.Notes...)
		// load health is an obligation of every run
		c.Check(len(p.Errors) == 0, "load", "program", "type-checks without error", "-", strings.Join(p.Errors, "; "))
		c.Check(len(p.Pkgs) >= load.MinPackages, "load", "program", fmt.Sprintf("at least %d module packages analysed", load.MinPackages), "-", fmt.Sprintf("%d packages", len(p.Pkgs)))
		func() {
			defer func() {
				if r := recover(); r != nil {
					c.Fail("engine", "xvc", "rule evaluation completes", "-", fmt.Sprintf("analyzer panic: %v", r))
				}
			}()
			run(c)
			c.MustPassAccount()
			rules.Contradictions(c)
			if *tier == "thorough" {
				rules.Sweep(c)
			}
		}()
		known := map[string]string{}
		for _, f := range kf.Findings {
			if f.Property == id {
				known[f.Key] = f.What
			}
		}
		var viol []q.Obligation
		usedKnown := map[string]bool{}
		for i := range c.Obs {
			o := &c.Obs[i]
			if o.Status == q.Discharged {
				continue
			}
			if what, ok := known[o.Key]; ok && o.Status == q.Violated {
				o.Known = true
				usedKnown[o.Key] = true
				fmt.Printf("KNOWN-FINDING: property=%s %s — %s [%s]\n", id, o.Key, what, o.Site)
				continue
			}
			viol = append(viol, *o)
		}
		if *list {
			for _, o := range c.Obs {
				fmt.Printf("  [%s] %s @%s %s\n", o.Status, o.Key, o.Site, o.Detail)
			}
		}
		for k := range known {
			if !usedKnown[k] {
				c.Notes = append(c.Notes, "known finding no longer reported (repaired?): "+k)
				fmt.Printf("note: property=%s listed known finding no longer reported: %s\n", id, k)
			}
		}
		total, dis, _, _ := c.Counts()
		var st map[string]any
		if *tier == "thorough" && *overlay == "" && os.Getenv("XVC_NO_SELFTEST") == "" {
			st = selfTest(*verif, *repo, id)
		}
		writeEvidence(*verif, c, total, dis, len(viol), time.Since(t1).Seconds()+p.LoadS, *tier, st)
		if len(viol) > 0 {
			exit = 1
			path := filepath.Join(*verif, "out", id+".violations.json")
			os.MkdirAll(filepath.Dir(path), 0o755)
			data, _ := json.MarshalIndent(map[string]any{"property": id, "tier": *tier, "violations": viol}, "", " ")
			os.WriteFile(path, data, 0o644)
			for _, o := range viol {
				fmt.Printf("  %s: %s  %s\n      at %s: %s\n", o.Status, o.Rule, o.Fn+" | "+o.What, o.Site, o.Detail)
			}
			fmt.Printf("VIOLATION property=%s replay=%s\n", id, path)
		} else {
			fmt.Printf("ok property=%s tier=%s obligations=%d discharged=%d known=%d functions=%d sites=%d (%.1fs)\n", id, *tier, total, dis, len(usedKnown), len(c.Fns), c.Sites, time.Since(t1).Seconds()+p.LoadS)
		}
	}
	_ = t0
	os.Exit(exit)
}

func fail(verif, id, tier string, t0 time.Time, msg string) {
	path := filepath.Join(verif, "out", id+".violations.json")
	os.MkdirAll(filepath.Dir(path), 0o755)
	data, _ := json.MarshalIndent(map[string]any{"property": id, "violations": []q.Obligation{{Key: "load|program|loads", Rule: "load", Status: q.Violated, Detail: msg}}}, "", " ")
	os.WriteFile(path, data, 0o644)
	ev := map[string]any{
		"property_id": id, "tier": tier, "seed": seed(), "level": "other", "wall_s": time.Since(t0).Seconds(), "violations": 1,
		"coverage": map[string]any{"explanation": "the tree could not be loaded: " + msg, "obligations": 1, "discharged": 0},
	}
	data, _ = json.MarshalIndent(ev, "", " ")
	os.MkdirAll(filepath.Join(verif, "evidence"), 0o755)
	os.WriteFile(filepath.Join(verif, "evidence", id+".json"), data, 0o644)
	fmt.Printf("VIOLATION property=%s replay=%s\n", id, path)
}

func seed() int {
	n, _ := strconv.Atoi(os.Getenv("VERIF_SEED"))
	return n
}

func writeEvidence(verif string, c *q.Ctx, total, dis, nviol int, wall float64, tier string, selftest map[string]any) {
	byRule := map[string]int{}
	distinct := map[string]bool{}
	var samples []any
	perRule := map[string]int{}
	for _, o := range c.Obs {
		byRule[o.Rule]++
		if o.Site != "-" && o.Site != "" {
			distinct[o.Key] = true
		}
		if perRule[o.Rule] < 3 && o.Rule != "load" {
			perRule[o.Rule]++
			samples = append(samples, map[string]any{"rule": o.Rule, "function": o.Fn, "construct": o.What, "site": o.Site, "status": o.Status, "detail": o.Detail, "known_finding": o.Known})
		}
	}
	var known []any
	for _, o := range c.Obs {
		if o.Known {
			known = append(known, map[string]any{"key": o.Key, "site": o.Site, "detail": o.Detail})
		}
	}
	info := rules.Info[c.Prop]
	ev := map[string]any{
		"property_id": c.Prop,
		"tier":        tier,
		"seed":        seed(),
		"level":       "other",
		"wall_s":      wall,
		"violations":  nviol,
		"assumptions": info.Assumptions,
		"coverage": map[string]any{
			"explanation":          info.Explanation,
			"not_decided":          info.NotDecided,
			"obligations":          total,
			"discharged":           dis,
			"evaluations":          total,
			"distinct_nontrivial":  len(distinct),
			"rule":                 "one obligation per rule instance (rule kind | enclosing function | construct); non-trivial = matched at least one real instruction of /repo's current source; distinct = distinct obligation keys",
			"obligations_by_rule":  byRule,
			"known_findings":       known,
			"samples":              samples,
			"functions_analysed":   c.SortedFns(),
			"call_sites":           c.Sites,
			"packages":             len(c.P.Pkgs),
			"functions_in_program": len(c.P.AllFns),
			"exhaustive":           true,
			"normalisation":        map[string]any{"helper_call_sites_inlined": len(c.P.Inlined), "helpers_absorbed": len(c.P.Absorbed), "rule": "private helpers whose name no rule mentions are absorbed into their callers; boolean/nil-decided phi edges are threaded; see DESIGN.md section 2"},
			"checker_cmd":          "bin/xvc -property " + c.Prop + " -tier " + tier,
			"trusted_base":         []string{"go/types type checker", "golang.org/x/tools v0.29.0 go/packages + go/ssa construction and dominators", "the frozen rule tables in xvc/rules (each line confirmed by reading the anchor)", "library axioms listed in assumptions"},
			"notes":                c.Notes,
		},
	}
	if selftest != nil {
		ev["coverage"].(map[string]any)["selftest"] = selftest
	}
	data, _ := json.MarshalIndent(ev, "", " ")
	os.MkdirAll(filepath.Join(verif, "evidence"), 0o755)
	os.WriteFile(filepath.Join(verif, "evidence", c.Prop+".json"), data, 0o644)
}

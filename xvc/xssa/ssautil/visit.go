// Copyright 2013 The Go Authors. All rights reserved.
// Use of this source code is governed by a BSD-style
// license that can be found in the LICENSE file.

package ssautil // import "xvc/xssa/ssautil"

import (
	"go/ast"
	"go/types"

	"xvc/xssa"

	_ "unsafe" // for linkname hack
)

// This file defines utilities for visiting the SSA representation of
// a Program.
//
// TODO(adonovan): test coverage.

// AllFunctions finds and returns the set of functions potentially
// needed by program prog, as determined by a simple linker-style
// reachability algorithm starting from the members and method-sets of
// each package.  The result may include anonymous functions and
// synthetic wrappers.
//
// Precondition: all packages are built.
//
// TODO(adonovan): this function is underspecified. It doesn't
// actually work like a linker, which computes reachability from main
// using something like go/callgraph/cha (without materializing the
// call graph). In fact, it treats all public functions and all
// methods of public non-parameterized types as roots, even though
// they may be unreachable--but only in packages created from syntax.
//
// I think we should deprecate AllFunctions function in favor of two
// clearly defined ones:
//
//  1. The first would efficiently compute CHA reachability from a set
//     of main packages, making it suitable for a whole-program
//     analysis context with InstantiateGenerics, in conjunction with
//     Program.Build.
//
//  2. The second would return only the set of functions corresponding
//     to source Func{Decl,Lit} syntax, like SrcFunctions in
//     go/analysis/passes/buildssa; this is suitable for
//     package-at-a-time (or handful of packages) context.
//     ssa.Package could easily expose it as a field.
//
// We could add them unexported for now and use them via the linkname hack.
func AllFunctions(prog *ssa.Program) map[*ssa.Function]bool {
	seen := make(map[*ssa.Function]bool)

	var function func(fn *ssa.Function)
	function = func(fn *ssa.Function) {
		if !seen[fn] {
			seen[fn] = true
			var buf [10]*ssa.Value // avoid alloc in common case
			for _, b := range fn.Blocks {
				for _, instr := range b.Instrs {
					for _, op := range instr.Operands(buf[:0]) {
						if fn, ok := (*op).(*ssa.Function); ok {
							function(fn)
						}
					}
				}
			}
		}
	}

	// TODO(adonovan): opt: provide a way to share a builder
	// across a sequence of MethodValue calls.

	methodsOf := func(T types.Type) {
		if !types.IsInterface(T) {
			mset := prog.MethodSets.MethodSet(T)
			for i := 0; i < mset.Len(); i++ {
				function(prog.MethodValue(mset.At(i)))
			}
		}
	}

	// Historically, Program.RuntimeTypes used to include the type
	// of any exported member of a package loaded from syntax that
	// has a non-parameterized type, plus all types
	// reachable from that type using reflection, even though
	// these runtime types may not be required for them.
	//
	// Rather than break existing programs that rely on
	// AllFunctions visiting extra methods that are unreferenced
	// by IR and unreachable via reflection, we moved the logic
	// here, unprincipled though it is.
	// (See doc comment for better ideas.)
	//
	// Nonetheless, after the move, we no longer visit every
	// method of any type recursively reachable from T, only the
	// methods of T and *T themselves, and we only apply this to
	// named types T, and not to the type of every exported
	// package member.
	exportedTypeHack := func(t *ssa.Type) {
		if isSyntactic(t.Package()) &&
			ast.IsExported(t.Name()) &&
			!types.IsInterface(t.Type()) {
			// Consider only named types.
			// (Ignore aliases and unsafe.Pointer.)
			if named, ok := t.Type().(*types.Named); ok {
				if named.TypeParams() == nil {
					methodsOf(named)                   //  T
					methodsOf(types.NewPointer(named)) // *T
				}
			}
		}
	}

	for _, pkg := range prog.AllPackages() {
		for _, mem := range pkg.Members {
			switch mem := mem.(type) {
			case *ssa.Function:
				// Visit all package-level declared functions.
				function(mem)

			case *ssa.Type:
				exportedTypeHack(mem)
			}
		}
	}

	// Visit all methods of types for which runtime types were
	// materialized, as they are reachable through reflection.
	for _, T := range prog.RuntimeTypes() {
		methodsOf(T)
	}

	return seen
}

// MainPackages returns the subset of the specified packages
// named "main" that define a main function.
// The result may include synthetic "testmain" packages.
func MainPackages(pkgs []*ssa.Package) []*ssa.Package {
	var mains []*ssa.Package
	for _, pkg := range pkgs {
		if pkg.Pkg.Name() == "main" && pkg.Func("main") != nil {
			mains = append(mains, pkg)
		}
	}
	return mains
}

// TODO(adonovan): propose a principled API for this. One possibility
// is a new field, Package.SrcFunctions []*Function, which would
// contain the list of SrcFunctions described in point 2 of the
// AllFunctions doc comment, or nil if the package is not from syntax.
// But perhaps overloading nil vs empty slice is too subtle.
//
//go:linkname isSyntactic golang.org/x/tools/go/ssa.isSyntactic
func isSyntactic(pkg *ssa.Package) bool

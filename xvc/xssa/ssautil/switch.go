// Copyright 2013 The Go Authors. All rights reserved.
// Use of this source code is governed by a BSD-style
// license that can be found in the LICENSE file.

package ssautil

// This file implements discovery of switch and type-switch constructs
// from low-level control flow.
//
// Many techniques exist for compiling a high-level switch with
// constant cases to efficient machine code.  The optimal choice will
// depend on the data type, the specific case values, the code in the
// body of each case, and the hardware.
// Some examples:
// - a lookup table (for a switch that maps constants to constants)
// - a computed goto
// - a binary tree
// - a perfect hash
// - a two-level switch (to partition constant strings by their first byte).

import (
	"bytes"
	"fmt"
	"go/token"
	"go/types"

	"xvc/xssa"
)

// A ConstCase represents a single constant comparison.
// It is part of a Switch.
type ConstCase struct {
	Block *ssa.BasicBlock // block performing the comparison
	Body  *ssa.BasicBlock // body of the case
	Value *ssa.Const      // case comparand
}

// A TypeCase represents a single type assertion.
// It is part of a Switch.
type TypeCase struct {
	Block   *ssa.BasicBlock // block performing the type assert
	Body    *ssa.BasicBlock // body of the case
	Type    types.Type      // case type
	Binding ssa.Value       // value bound by this case
}

// A Switch is a logical high-level control flow operation
// (a multiway branch) discovered by analysis of a CFG containing
// only if/else chains.  It is not part of the ssa.Instruction set.
//
// One of ConstCases and TypeCases has length >= 2;
// the other is nil.
//
// In a value switch, the list of cases may contain duplicate constants.
// A type switch may contain duplicate types, or types assignable
// to an interface type also in the list.
// TODO(adonovan): eliminate such duplicates.
type Switch struct {
	Start      *ssa.BasicBlock // block containing start of if/else chain
	X          ssa.Value       // the switch operand
	ConstCases []ConstCase     // ordered list of constant comparisons
	TypeCases  []TypeCase      // ordered list of type assertions
	Default    *ssa.BasicBlock // successor if all comparisons fail
}

func (sw *Switch) String() string {
	// We represent each block by the String() of its
	// first Instruction, e.g. "print(42:int)".
	var buf bytes.Buffer
	if sw.ConstCases != nil {
		fmt.Fprintf(&buf, "switch %s {\n", sw.X.Name())
		for _, c := range sw.ConstCases {
			fmt.Fprintf(&buf, "case %s: %s\n", c.Value, c.Body.Instrs[0])
		}
	} else {
		fmt.Fprintf(&buf, "switch %s.(type) {\n", sw.X.Name())
		for _, c := range sw.TypeCases {
			fmt.Fprintf(&buf, "case %s %s: %s\n",
				c.Binding.Name(), c.Type, c.Body.Instrs[0])
		}
	}
	if sw.Default != nil {
		fmt.Fprintf(&buf, "default: %s\n", sw.Default.Instrs[0])
	}
	fmt.Fprintf(&buf, "}")
	return buf.String()
}

// Switches examines the control-flow graph of fn and returns the
// set of inferred value and type switches.  A value switch tests an
// ssa.Value for equality against two or more compile-time constant
// values.  Switches involving link-time constants (addresses) are
// ignored.  A type switch type-asserts an ssa.Value against two or
// more types.
//
// The switches are returned in dominance order.
//
// The resulting switches do not necessarily correspond to uses of the
// 'switch' keyword in the source: for example, a single source-level
// switch statement with non-constant cases may result in zero, one or
// many Switches, one per plural sequence of constant cases.
// Switches may even be inferred from if/else- or goto-based control flow.
// (In general, the control flow constructs of the source program
// cannot be faithfully reproduced from the SSA representation.)
func Switches(fn *ssa.Function) []Switch {
	// Traverse the CFG in dominance order, so we don't
	// enter an if/else-chain in the middle.
	var switches []Switch
	seen := make(map[*ssa.BasicBlock]bool) // TODO(adonovan): opt: use ssa.blockSet
	for _, b := range fn.DomPreorder() {
		if x, k := isComparisonBlock(b); x != nil {
			// Block b starts a switch.
			sw := Switch{Start: b, X: x}
			valueSwitch(&sw, k, seen)
			if len(sw.ConstCases) > 1 {
				switches = append(switches, sw)
			}
		}

		if y, x, T := isTypeAssertBlock(b); y != nil {
			// Block b starts a type switch.
			sw := Switch{Start: b, X: x}
			typeSwitch(&sw, y, T, seen)
			if len(sw.TypeCases) > 1 {
				switches = append(switches, sw)
			}
		}
	}
	return switches
}

func valueSwitch(sw *Switch, k *ssa.Const, seen map[*ssa.BasicBlock]bool) {
	b := sw.Start
	x := sw.X
	for x == sw.X {
		if seen[b] {
			break
		}
		seen[b] = true

		sw.ConstCases = append(sw.ConstCases, ConstCase{
			Block: b,
			Body:  b.Succs[0],
			Value: k,
		})
		b = b.Succs[1]
		if len(b.Instrs) > 2 {
			// Block b contains not just 'if x == k',
			// so it may have side effects that
			// make it unsafe to elide.
			break
		}
		if len(b.Preds) != 1 {
			// Block b has multiple predecessors,
			// so it cannot be treated as a case.
			break
		}
		x, k = isComparisonBlock(b)
	}
	sw.Default = b
}

func typeSwitch(sw *Switch, y ssa.Value, T types.Type, seen map[*ssa.BasicBlock]bool) {
	b := sw.Start
	x := sw.X
	for x == sw.X {
		if seen[b] {
			break
		}
		seen[b] = true

		sw.TypeCases = append(sw.TypeCases, TypeCase{
			Block:   b,
			Body:    b.Succs[0],
			Type:    T,
			Binding: y,
		})
		b = b.Succs[1]
		if len(b.Instrs) > 4 {
			// Block b contains not just
			//  {TypeAssert; Extract #0; Extract #1; If}
			// so it may have side effects that
			// make it unsafe to elide.
			break
		}
		if len(b.Preds) != 1 {
			// Block b has multiple predecessors,
			// so it cannot be treated as a case.
			break
		}
		y, x, T = isTypeAssertBlock(b)
	}
	sw.Default = b
}

// isComparisonBlock returns the operands (v, k) if a block ends with
// a comparison v==k, where k is a compile-time constant.
func isComparisonBlock(b *ssa.BasicBlock) (v ssa.Value, k *ssa.Const) {
	if n := len(b.Instrs); n >= 2 {
		if i, ok := b.Instrs[n-1].(*ssa.If); ok {
			if binop, ok := i.Cond.(*ssa.BinOp); ok && binop.Block() == b && binop.Op == token.EQL {
				if k, ok := binop.Y.(*ssa.Const); ok {
					return binop.X, k
				}
				if k, ok := binop.X.(*ssa.Const); ok {
					return binop.Y, k
				}
			}
		}
	}
	return
}

// isTypeAssertBlock returns the operands (y, x, T) if a block ends with
// a type assertion "if y, ok := x.(T); ok {".
func isTypeAssertBlock(b *ssa.BasicBlock) (y, x ssa.Value, T types.Type) {
	if n := len(b.Instrs); n >= 4 {
		if i, ok := b.Instrs[n-1].(*ssa.If); ok {
			if ext1, ok := i.Cond.(*ssa.Extract); ok && ext1.Block() == b && ext1.Index == 1 {
				if ta, ok := ext1.Tuple.(*ssa.TypeAssert); ok && ta.Block() == b {
					// hack: relies upon instruction ordering.
					if ext0, ok := b.Instrs[n-3].(*ssa.Extract); ok {
						return ext0, ta.X, ta.AssertedType
					}
				}
			}
		}
	}
	return
}

// Copyright 2015 The Go Authors. All rights reserved.
// Use of this source code is governed by a BSD-style
// license that can be found in the LICENSE file.

package ssautil

// This file defines utility functions for constructing programs in SSA form.

import (
	"go/ast"
	"go/token"
	"go/types"

	"golang.org/x/tools/go/packages"
	"xvc/xssa"
)

// Packages creates an SSA program for a set of packages.
//
// The packages must have been loaded from source syntax using the
// [packages.Load] function in [packages.LoadSyntax] or
// [packages.LoadAllSyntax] mode.
//
// Packages creates an SSA package for each well-typed package in the
// initial list, plus all their dependencies. The resulting list of
// packages corresponds to the list of initial packages, and may contain
// a nil if SSA code could not be constructed for the corresponding initial
// package due to type errors.
//
// Code for bodies of functions is not built until [Program.Build] is
// called on the resulting Program. SSA code is constructed only for
// the initial packages with well-typed syntax trees.
//
// The mode parameter controls diagnostics and checking during SSA construction.
func Packages(initial []*packages.Package, mode ssa.BuilderMode) (*ssa.Program, []*ssa.Package) {
	// TODO(adonovan): opt: this calls CreatePackage far more than
	// necessary: for all dependencies, not just the (non-initial)
	// direct dependencies of the initial packages.
	//
	// But can it reasonably be changed without breaking the
	// spirit and/or letter of the law above? Clients may notice
	// if we call CreatePackage less, as methods like
	// Program.FuncValue will return nil. Or must we provide a new
	// function (and perhaps deprecate this one)? Is it worth it?
	//
	// Tim King makes the interesting point that it would be
	// possible to entirely alleviate the client from the burden
	// of calling CreatePackage for non-syntax packages, if we
	// were to treat vars and funcs lazily in the same way we now
	// treat methods. (In essence, try to move away from the
	// notion of ssa.Packages, and make the Program answer
	// all reasonable questions about any types.Object.)

	return doPackages(initial, mode, false)
}

// AllPackages creates an SSA program for a set of packages plus all
// their dependencies.
//
// The packages must have been loaded from source syntax using the
// [packages.Load] function in [packages.LoadAllSyntax] mode.
//
// AllPackages creates an SSA package for each well-typed package in the
// initial list, plus all their dependencies. The resulting list of
// packages corresponds to the list of initial packages, and may contain
// a nil if SSA code could not be constructed for the corresponding
// initial package due to type errors.
//
// Code for bodies of functions is not built until Build is called on
// the resulting Program. SSA code is constructed for all packages with
// well-typed syntax trees.
//
// The mode parameter controls diagnostics and checking during SSA construction.
func AllPackages(initial []*packages.Package, mode ssa.BuilderMode) (*ssa.Program, []*ssa.Package) {
	return doPackages(initial, mode, true)
}

func doPackages(initial []*packages.Package, mode ssa.BuilderMode, deps bool) (*ssa.Program, []*ssa.Package) {

	var fset *token.FileSet
	if len(initial) > 0 {
		fset = initial[0].Fset
	}

	prog := ssa.NewProgram(fset, mode)

	isInitial := make(map[*packages.Package]bool, len(initial))
	for _, p := range initial {
		isInitial[p] = true
	}

	ssamap := make(map[*packages.Package]*ssa.Package)
	packages.Visit(initial, nil, func(p *packages.Package) {
		if p.Types != nil && !p.IllTyped {
			var files []*ast.File
			var info *types.Info
			if deps || isInitial[p] {
				files = p.Syntax
				info = p.TypesInfo
			}
			ssamap[p] = prog.CreatePackage(p.Types, files, info, true)
		}
	})

	var ssapkgs []*ssa.Package
	for _, p := range initial {
		ssapkgs = append(ssapkgs, ssamap[p]) // may be nil
	}
	return prog, ssapkgs
}

// BuildPackage builds an SSA program with SSA intermediate
// representation (IR) for all functions of a single package.
//
// It populates pkg by type-checking the specified file syntax trees.  All
// dependencies are loaded using the importer specified by tc, which
// typically loads compiler export data; SSA code cannot be built for
// those packages.  BuildPackage then constructs an [ssa.Program] with all
// dependency packages created, and builds and returns the SSA package
// corresponding to pkg.
//
// The caller must have set pkg.Path to the import path.
//
// The operation fails if there were any type-checking or import errors.
//
// See ../example_test.go for an example.
func BuildPackage(tc *types.Config, fset *token.FileSet, pkg *types.Package, files []*ast.File, mode ssa.BuilderMode) (*ssa.Package, *types.Info, error) {
	if fset == nil {
		panic("no token.FileSet")
	}
	if pkg.Path() == "" {
		panic("package has no import path")
	}

	info := &types.Info{
		Types:        make(map[ast.Expr]types.TypeAndValue),
		Defs:         make(map[*ast.Ident]types.Object),
		Uses:         make(map[*ast.Ident]types.Object),
		Implicits:    make(map[ast.Node]types.Object),
		Instances:    make(map[*ast.Ident]types.Instance),
		Scopes:       make(map[ast.Node]*types.Scope),
		Selections:   make(map[*ast.SelectorExpr]*types.Selection),
		FileVersions: make(map[*ast.File]string),
	}
	if err := types.NewChecker(tc, fset, pkg, info).Files(files); err != nil {
		return nil, nil, err
	}

	prog := ssa.NewProgram(fset, mode)

	// Create SSA packages for all imports.
	// Order is not significant.
	created := make(map[*types.Package]bool)
	var createAll func(pkgs []*types.Package)
	createAll = func(pkgs []*types.Package) {
		for _, p := range pkgs {
			if !created[p] {
				created[p] = true
				prog.CreatePackage(p, nil, nil, true)
				createAll(p.Imports())
			}
		}
	}
	createAll(pkg.Imports())

	// TODO(adonovan): we could replace createAll with just:
	//
	// // Create SSA packages for all imports.
	// for _, p := range pkg.Imports() {
	// 	prog.CreatePackage(p, nil, nil, true)
	// }
	//
	// (with minor changes to changes to ../builder_test.go as
	// shown in CL 511715 PS 10.) But this would strictly violate
	// the letter of the doc comment above, which says "all
	// dependencies created".
	//
	// Tim makes the good point with some extra work we could
	// remove the need for any CreatePackage calls except the
	// ones with syntax (i.e. primary packages). Of course
	// You wouldn't have ssa.Packages and Members for as
	// many things but no-one really uses that anyway.
	// I wish I had done this from the outset.

	// Create and build the primary package.
	ssapkg := prog.CreatePackage(pkg, files, info, false)
	ssapkg.Build()
	return ssapkg, info, nil
}

// Copyright 2022 The Go Authors. All rights reserved.
// Use of this source code is governed by a BSD-style
// license that can be found in the LICENSE file.

package ssa

import "fmt"

// This file implements the BasicBlock type.

// addEdge adds a control-flow graph edge from from to to.
func addEdge(from, to *BasicBlock) {
	from.Succs = append(from.Succs, to)
	to.Preds = append(to.Preds, from)
}

// Parent returns the function that contains block b.
func (b *BasicBlock) Parent() *Function { return b.parent }

// String returns a human-readable label of this block.
// It is not guaranteed unique within the function.
func (b *BasicBlock) String() string {
	return fmt.Sprintf("%d", b.Index)
}

// emit appends an instruction to the current basic block.
// If the instruction defines a Value, it is returned.
func (b *BasicBlock) emit(i Instruction) Value {
	i.setBlock(b)
	b.Instrs = append(b.Instrs, i)
	v, _ := i.(Value)
	return v
}

// predIndex returns the i such that b.Preds[i] == c or panics if
// there is none.
func (b *BasicBlock) predIndex(c *BasicBlock) int {
	for i, pred := range b.Preds {
		if pred == c {
			return i
		}
	}
	panic(fmt.Sprintf("no edge %s -> %s", c, b))
}

// hasPhi returns true if b.Instrs contains φ-nodes.
func (b *BasicBlock) hasPhi() bool {
	_, ok := b.Instrs[0].(*Phi)
	return ok
}

// phis returns the prefix of b.Instrs containing all the block's φ-nodes.
func (b *BasicBlock) phis() []Instruction {
	for i, instr := range b.Instrs {
		if _, ok := instr.(*Phi); !ok {
			return b.Instrs[:i]
		}
	}
	return nil // unreachable in well-formed blocks
}

// replacePred replaces all occurrences of p in b's predecessor list with q.
// Ordinarily there should be at most one.
func (b *BasicBlock) replacePred(p, q *BasicBlock) {
	for i, pred := range b.Preds {
		if pred == p {
			b.Preds[i] = q
		}
	}
}

// replaceSucc replaces all occurrences of p in b's successor list with q.
// Ordinarily there should be at most one.
func (b *BasicBlock) replaceSucc(p, q *BasicBlock) {
	for i, succ := range b.Succs {
		if succ == p {
			b.Succs[i] = q
		}
	}
}

// removePred removes all occurrences of p in b's
// predecessor list and φ-nodes.
// Ordinarily there should be at most one.
func (b *BasicBlock) removePred(p *BasicBlock) {
	phis := b.phis()

	// We must preserve edge order for φ-nodes.
	j := 0
	for i, pred := range b.Preds {
		if pred != p {
			b.Preds[j] = b.Preds[i]
			// Strike out φ-edge too.
			for _, instr := range phis {
				phi := instr.(*Phi)
				phi.Edges[j] = phi.Edges[i]
			}
			j++
		}
	}
	// Nil out b.Preds[j:] and φ-edges[j:] to aid GC.
	for i := j; i < len(b.Preds); i++ {
		b.Preds[i] = nil
		for _, instr := range phis {
			instr.(*Phi).Edges[i] = nil
		}
	}
	b.Preds = b.Preds[:j]
	for _, instr := range phis {
		phi := instr.(*Phi)
		phi.Edges = phi.Edges[:j]
	}
}

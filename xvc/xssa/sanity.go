// Copyright 2013 The Go Authors. All rights reserved.
// Use of this source code is governed by a BSD-style
// license that can be found in the LICENSE file.

package ssa

// An optional pass for sanity-checking invariants of the SSA representation.
// Currently it checks CFG invariants but little at the instruction level.

import (
	"bytes"
	"fmt"
	"go/ast"
	"go/types"
	"io"
	"os"
	"strings"
)

type sanity struct {
	reporter io.Writer
	fn       *Function
	block    *BasicBlock
	instrs   map[Instruction]unit
	insane   bool
}

// sanityCheck performs integrity checking of the SSA representation
// of the function fn and returns true if it was valid.  Diagnostics
// are written to reporter if non-nil, os.Stderr otherwise.  Some
// diagnostics are only warnings and do not imply a negative result.
//
// Sanity-checking is intended to facilitate the debugging of code
// transformation passes.
func sanityCheck(fn *Function, reporter io.Writer) bool {
	if reporter == nil {
		reporter = os.Stderr
	}
	return (&sanity{reporter: reporter}).checkFunction(fn)
}

// mustSanityCheck is like sanityCheck but panics instead of returning
// a negative result.
func mustSanityCheck(fn *Function, reporter io.Writer) {
	if !sanityCheck(fn, reporter) {
		fn.WriteTo(os.Stderr)
		panic("SanityCheck failed")
	}
}

func (s *sanity) diagnostic(prefix, format string, args ...interface{}) {
	fmt.Fprintf(s.reporter, "%s: function %s", prefix, s.fn)
	if s.block != nil {
		fmt.Fprintf(s.reporter, ", block %s", s.block)
	}
	io.WriteString(s.reporter, ": ")
	fmt.Fprintf(s.reporter, format, args...)
	io.WriteString(s.reporter, "\n")
}

func (s *sanity) errorf(format string, args ...interface{}) {
	s.insane = true
	s.diagnostic("Error", format, args...)
}

func (s *sanity) warnf(format string, args ...interface{}) {
	s.diagnostic("Warning", format, args...)
}

// findDuplicate returns an arbitrary basic block that appeared more
// than once in blocks, or nil if all were unique.
func findDuplicate(blocks []*BasicBlock) *BasicBlock {
	if len(blocks) < 2 {
		return nil
	}
	if blocks[0] == blocks[1] {
		return blocks[0]
	}
	// Slow path:
	m := make(map[*BasicBlock]bool)
	for _, b := range blocks {
		if m[b] {
			return b
		}
		m[b] = true
	}
	return nil
}

func (s *sanity) checkInstr(idx int, instr Instruction) {
	switch instr := instr.(type) {
	case *If, *Jump, *Return, *Panic:
		s.errorf("control flow instruction not at end of block")
	case *Phi:
		if idx == 0 {
			// It suffices to apply this check to just the first phi node.
			if dup := findDuplicate(s.block.Preds); dup != nil {
				s.errorf("phi node in block with duplicate predecessor %s", dup)
			}
		} else {
			prev := s.block.Instrs[idx-1]
			if _, ok := prev.(*Phi); !ok {
				s.errorf("Phi instruction follows a non-Phi: %T", prev)
			}
		}
		if ne, np := len(instr.Edges), len(s.block.Preds); ne != np {
			s.errorf("phi node has %d edges but %d predecessors", ne, np)

		} else {
			for i, e := range instr.Edges {
				if e == nil {
					s.errorf("phi node '%s' has no value for edge #%d from %s", instr.Comment, i, s.block.Preds[i])
				} else if !types.Identical(instr.typ, e.Type()) {
					s.errorf("phi node '%s' has a different type (%s) for edge #%d from %s (%s)",
						instr.Comment, instr.Type(), i, s.block.Preds[i], e.Type())
				}
			}
		}

	case *Alloc:
		if !instr.Heap {
			found := false
			for _, l := range s.fn.Locals {
				if l == instr {
					found = true
					break
				}
			}
			if !found {
				s.errorf("local alloc %s = %s does not appear in Function.Locals", instr.Name(), instr)
			}
		}

	case *BinOp:
	case *Call:
		if common := instr.Call; common.IsInvoke() {
			if !types.IsInterface(common.Value.Type()) {
				s.errorf("invoke on %s (%s) which is not an interface type (or type param)", common.Value, common.Value.Type())
			}
		}
	case *ChangeInterface:
	case *ChangeType:
	case *SliceToArrayPointer:
	case *Convert:
		if from := instr.X.Type(); !isBasicConvTypes(typeSetOf(from)) {
			if to := instr.Type(); !isBasicConvTypes(typeSetOf(to)) {
				s.errorf("convert %s -> %s: at least one type must be basic (or all basic, []byte, or []rune)", from, to)
			}
		}
	case *MultiConvert:
	case *Defer:
	case *Extract:
	case *Field:
	case *FieldAddr:
	case *Go:
	case *Index:
	case *IndexAddr:
	case *Lookup:
	case *MakeChan:
	case *MakeClosure:
		numFree := len(instr.Fn.(*Function).FreeVars)
		numBind := len(instr.Bindings)
		if numFree != numBind {
			s.errorf("MakeClosure has %d Bindings for function %s with %d free vars",
				numBind, instr.Fn, numFree)

		}
		if recv := instr.Type().(*types.Signature).Recv(); recv != nil {
			s.errorf("MakeClosure's type includes receiver %s", recv.Type())
		}

	case *MakeInterface:
	case *MakeMap:
	case *MakeSlice:
	case *MapUpdate:
	case *Next:
	case *Range:
	case *RunDefers:
	case *Select:
	case *Send:
	case *Slice:
	case *Store:
	case *TypeAssert:
	case *UnOp:
	case *DebugRef:
		// TODO(adonovan): implement checks.
	default:
		panic(fmt.Sprintf("Unknown instruction type: %T", instr))
	}

	if call, ok := instr.(CallInstruction); ok {
		if call.Common().Signature() == nil {
			s.errorf("nil signature: %s", call)
		}
	}

	// Check that value-defining instructions have valid types
	// and a valid referrer list.
	if v, ok := instr.(Value); ok {
		t := v.Type()
		if t == nil {
			s.errorf("no type: %s = %s", v.Name(), v)
		} else if t == tRangeIter || t == tDeferStack {
			// not a proper type; ignore.
		} else if b, ok := t.Underlying().(*types.Basic); ok && b.Info()&types.IsUntyped != 0 {
			s.errorf("instruction has 'untyped' result: %s = %s : %s", v.Name(), v, t)
		}
		s.checkReferrerList(v)
	}

	// Untyped constants are legal as instruction Operands(),
	// for example:
	//   _ = "foo"[0]
	// or:
	//   if wordsize==64 {...}

	// All other non-Instruction Values can be found via their
	// enclosing Function or Package.
}

func (s *sanity) checkFinalInstr(instr Instruction) {
	switch instr := instr.(type) {
	case *If:
		if nsuccs := len(s.block.Succs); nsuccs != 2 {
			s.errorf("If-terminated block has %d successors; expected 2", nsuccs)
			return
		}
		if s.block.Succs[0] == s.block.Succs[1] {
			s.errorf("If-instruction has same True, False target blocks: %s", s.block.Succs[0])
			return
		}

	case *Jump:
		if nsuccs := len(s.block.Succs); nsuccs != 1 {
			s.errorf("Jump-terminated block has %d successors; expected 1", nsuccs)
			return
		}

	case *Return:
		if nsuccs := len(s.block.Succs); nsuccs != 0 {
			s.errorf("Return-terminated block has %d successors; expected none", nsuccs)
			return
		}
		if na, nf := len(instr.Results), s.fn.Signature.Results().Len(); nf != na {
			s.errorf("%d-ary return in %d-ary function", na, nf)
		}

	case *Panic:
		if nsuccs := len(s.block.Succs); nsuccs != 0 {
			s.errorf("Panic-terminated block has %d successors; expected none", nsuccs)
			return
		}

	default:
		s.errorf("non-control flow instruction at end of block")
	}
}

func (s *sanity) checkBlock(b *BasicBlock, index int) {
	s.block = b

	if b.Index != index {
		s.errorf("block has incorrect Index %d", b.Index)
	}
	if b.parent != s.fn {
		s.errorf("block has incorrect parent %s", b.parent)
	}

	// Check all blocks are reachable.
	// (The entry block is always implicitly reachable,
	// as is the Recover block, if any.)
	if (index > 0 && b != b.parent.Recover) && len(b.Preds) == 0 {
		s.warnf("unreachable block")
		if b.Instrs == nil {
			// Since this block is about to be pruned,
			// tolerating transient problems in it
			// simplifies other optimizations.
			return
		}
	}

	// Check predecessor and successor relations are dual,
	// and that all blocks in CFG belong to same function.
	for _, a := range b.Preds {
		found := false
		for _, bb := range a.Succs {
			if bb == b {
				found = true
				break
			}
		}
		if !found {
			s.errorf("expected successor edge in predecessor %s; found only: %s", a, a.Succs)
		}
		if a.parent != s.fn {
			s.errorf("predecessor %s belongs to different function %s", a, a.parent)
		}
	}
	for _, c := range b.Succs {
		found := false
		for _, bb := range c.Preds {
			if bb == b {
				found = true
				break
			}
		}
		if !found {
			s.errorf("expected predecessor edge in successor %s; found only: %s", c, c.Preds)
		}
		if c.parent != s.fn {
			s.errorf("successor %s belongs to different function %s", c, c.parent)
		}
	}

	// Check each instruction is sane.
	n := len(b.Instrs)
	if n == 0 {
		s.errorf("basic block contains no instructions")
	}
	var rands [10]*Value // reuse storage
	for j, instr := range b.Instrs {
		if instr == nil {
			s.errorf("nil instruction at index %d", j)
			continue
		}
		if b2 := instr.Block(); b2 == nil {
			s.errorf("nil Block() for instruction at index %d", j)
			continue
		} else if b2 != b {
			s.errorf("wrong Block() (%s) for instruction at index %d ", b2, j)
			continue
		}
		if j < n-1 {
			s.checkInstr(j, instr)
		} else {
			s.checkFinalInstr(instr)
		}

		// Check Instruction.Operands.
	operands:
		for i, op := range instr.Operands(rands[:0]) {
			if op == nil {
				s.errorf("nil operand pointer %d of %s", i, instr)
				continue
			}
			val := *op
			if val == nil {
				continue // a nil operand is ok
			}

			// Check that "untyped" types only appear on constant operands.
			if _, ok := (*op).(*Const); !ok {
				if basic, ok := (*op).Type().Underlying().(*types.Basic); ok {
					if basic.Info()&types.IsUntyped != 0 {
						s.errorf("operand #%d of %s is untyped: %s", i, instr, basic)
					}
				}
			}

			// Check that Operands that are also Instructions belong to same function.
			// TODO(adonovan): also check their block dominates block b.
			if val, ok := val.(Instruction); ok {
				if val.Block() == nil {
					s.errorf("operand %d of %s is an instruction (%s) that belongs to no block", i, instr, val)
				} else if val.Parent() != s.fn {
					s.errorf("operand %d of %s is an instruction (%s) from function %s", i, instr, val, val.Parent())
				}
			}

			// Check that each function-local operand of
			// instr refers back to instr.  (NB: quadratic)
			switch val := val.(type) {
			case *Const, *Global, *Builtin:
				continue // not local
			case *Function:
				if val.parent == nil {
					continue // only anon functions are local
				}
			}

			// TODO(adonovan): check val.Parent() != nil <=> val.Referrers() is defined.

			if refs := val.Referrers(); refs != nil {
				for _, ref := range *refs {
					if ref == instr {
						continue operands
					}
				}
				s.errorf("operand %d of %s (%s) does not refer to us", i, instr, val)
			} else {
				s.errorf("operand %d of %s (%s) has no referrers", i, instr, val)
			}
		}
	}
}

func (s *sanity) checkReferrerList(v Value) {
	refs := v.Referrers()
	if refs == nil {
		s.errorf("%s has missing referrer list", v.Name())
		return
	}
	for i, ref := range *refs {
		if _, ok := s.instrs[ref]; !ok {
			s.errorf("%s.Referrers()[%d] = %s is not an instruction belonging to this function", v.Name(), i, ref)
		}
	}
}

func (s *sanity) checkFunctionParams() {
	signature := s.fn.Signature
	params := s.fn.Params

	// startSigParams is the start of signature.Params() within params.
	startSigParams := 0
	if signature.Recv() != nil {
		startSigParams = 1
	}

	if startSigParams+signature.Params().Len() != len(params) {
		s.errorf("function has %d parameters in signature but has %d after building",
			startSigParams+signature.Params().Len(), len(params))
		return
	}

	for i, param := range params {
		var sigType types.Type
		si := i - startSigParams
		if si < 0 {
			sigType = signature.Recv().Type()
		} else {
			sigType = signature.Params().At(si).Type()
		}

		if !types.Identical(sigType, param.Type()) {
			s.errorf("expect type %s in signature but got type %s in param %d", param.Type(), sigType, i)
		}
	}
}

// checkTransientFields checks whether all transient fields of Function are cleared.
func (s *sanity) checkTransientFields() {
	fn := s.fn
	if fn.build != nil {
		s.errorf("function transient field 'build' is not nil")
	}
	if fn.currentBlock != nil {
		s.errorf("function transient field 'currentBlock' is not nil")
	}
	if fn.vars != nil {
		s.errorf("function transient field 'vars' is not nil")
	}
	if fn.results != nil {
		s.errorf("function transient field 'results' is not nil")
	}
	if fn.returnVars != nil {
		s.errorf("function transient field 'returnVars' is not nil")
	}
	if fn.targets != nil {
		s.errorf("function transient field 'targets' is not nil")
	}
	if fn.lblocks != nil {
		s.errorf("function transient field 'lblocks' is not nil")
	}
	if fn.subst != nil {
		s.errorf("function transient field 'subst' is not nil")
	}
	if fn.jump != nil {
		s.errorf("function transient field 'jump' is not nil")
	}
	if fn.deferstack != nil {
		s.errorf("function transient field 'deferstack' is not nil")
	}
	if fn.source != nil {
		s.errorf("function transient field 'source' is not nil")
	}
	if fn.exits != nil {
		s.errorf("function transient field 'exits' is not nil")
	}
	if fn.uniq != 0 {
		s.errorf("function transient field 'uniq' is not zero")
	}
}

func (s *sanity) checkFunction(fn *Function) bool {
	s.fn = fn
	s.checkFunctionParams()
	s.checkTransientFields()

	// TODO(taking): Sanity check origin, typeparams, and typeargs.
	if fn.Prog == nil {
		s.errorf("nil Prog")
	}

	var buf bytes.Buffer
	_ = fn.String()               // must not crash
	_ = fn.RelString(fn.relPkg()) // must not crash
	WriteFunction(&buf, fn)       // must not crash

	// All functions have a package, except delegates (which are
	// shared across packages, or duplicated as weak symbols in a
	// separate-compilation model), and error.Error.
	if fn.Pkg == nil {
		if strings.HasPrefix(fn.Synthetic, "from type information (on demand)") ||
			strings.HasPrefix(fn.Synthetic, "wrapper ") ||
			strings.HasPrefix(fn.Synthetic, "bound ") ||
			strings.HasPrefix(fn.Synthetic, "thunk ") ||
			strings.HasSuffix(fn.name, "Error") ||
			strings.HasPrefix(fn.Synthetic, "instance ") ||
			strings.HasPrefix(fn.Synthetic, "instantiation ") ||
			(fn.parent != nil && len(fn.typeargs) > 0) /* anon fun in instance */ {
			// ok
		} else {
			s.errorf("nil Pkg")
		}
	}
	if src, syn := fn.Synthetic == "", fn.Syntax() != nil; src != syn {
		if len(fn.typeargs) > 0 && fn.Prog.mode&InstantiateGenerics != 0 {
			// ok (instantiation with InstantiateGenerics on)
		} else if fn.topLevelOrigin != nil && len(fn.typeargs) > 0 {
			// ok (we always have the syntax set for instantiation)
		} else if _, rng := fn.syntax.(*ast.RangeStmt); rng && fn.Synthetic == "range-over-func yield" {
			// ok (range-func-yields are both synthetic and keep syntax)
		} else {
			s.errorf("got fromSource=%t, hasSyntax=%t; want same values", src, syn)
		}
	}

	// Build the set of valid referrers.
	s.instrs = make(map[Instruction]unit)

	// TODO: switch to range-over-func when x/tools updates to 1.23.
	// instrs are the instructions that are present in the function.
	fn.instrs()(func(instr Instruction) bool {
		s.instrs[instr] = unit{}
		return true
	})

	// Check all Locals allocations appear in the function instruction.
	for i, l := range fn.Locals {
		if _, present := s.instrs[l]; !present {
			s.warnf("function doesn't contain Local alloc %s", l.Name())
		}

		if l.Parent() != fn {
			s.errorf("Local %s at index %d has wrong parent", l.Name(), i)
		}
		if l.Heap {
			s.errorf("Local %s at index %d has Heap flag set", l.Name(), i)
		}
	}
	for i, p := range fn.Params {
		if p.Parent() != fn {
			s.errorf("Param %s at index %d has wrong parent", p.Name(), i)
		}
		// Check common suffix of Signature and Params match type.
		if sig := fn.Signature; sig != nil {
			j := i - len(fn.Params) + sig.Params().Len() // index within sig.Params
			if j < 0 {
				continue
			}
			if !types.Identical(p.Type(), sig.Params().At(j).Type()) {
				s.errorf("Param %s at index %d has wrong type (%s, versus %s in Signature)", p.Name(), i, p.Type(), sig.Params().At(j).Type())

			}
		}
		s.checkReferrerList(p)
	}
	for i, fv := range fn.FreeVars {
		if fv.Parent() != fn {
			s.errorf("FreeVar %s at index %d has wrong parent", fv.Name(), i)
		}
		s.checkReferrerList(fv)
	}

	if fn.Blocks != nil && len(fn.Blocks) == 0 {
		// Function _had_ blocks (so it's not external) but
		// they were "optimized" away, even the entry block.
		s.errorf("Blocks slice is non-nil but empty")
	}
	for i, b := range fn.Blocks {
		if b == nil {
			s.warnf("nil *BasicBlock at f.Blocks[%d]", i)
			continue
		}
		s.checkBlock(b, i)
	}
	if fn.Recover != nil && fn.Blocks[fn.Recover.Index] != fn.Recover {
		s.errorf("Recover block is not in Blocks slice")
	}

	s.block = nil
	for i, anon := range fn.AnonFuncs {
		if anon.Parent() != fn {
			s.errorf("AnonFuncs[%d]=%s but %s.Parent()=%s", i, anon, anon, anon.Parent())
		}
		if i != int(anon.anonIdx) {
			s.errorf("AnonFuncs[%d]=%s but %s.anonIdx=%d", i, anon, anon, anon.anonIdx)
		}
	}
	s.fn = nil
	return !s.insane
}

// sanityCheckPackage checks invariants of packages upon creation.
// It does not require that the package is built.
// Unlike sanityCheck (for functions), it just panics at the first error.
func sanityCheckPackage(pkg *Package) {
	if pkg.Pkg == nil {
		panic(fmt.Sprintf("Package %s has no Object", pkg))
	}
	if pkg.info != nil {
		panic(fmt.Sprintf("package %s field 'info' is not cleared", pkg))
	}
	if pkg.files != nil {
		panic(fmt.Sprintf("package %s field 'files' is not cleared", pkg))
	}
	if pkg.created != nil {
		panic(fmt.Sprintf("package %s field 'created' is not cleared", pkg))
	}
	if pkg.initVersion != nil {
		panic(fmt.Sprintf("package %s field 'initVersion' is not cleared", pkg))
	}

	_ = pkg.String() // must not crash

	for name, mem := range pkg.Members {
		if name != mem.Name() {
			panic(fmt.Sprintf("%s: %T.Name() = %s, want %s",
				pkg.Pkg.Path(), mem, mem.Name(), name))
		}
		obj := mem.Object()
		if obj == nil {
			// This check is sound because fields
			// {Global,Function}.object have type
			// types.Object.  (If they were declared as
			// *types.{Var,Func}, we'd have a non-empty
			// interface containing a nil pointer.)

			continue // not all members have typechecker objects
		}
		if obj.Name() != name {
			if obj.Name() == "init" && strings.HasPrefix(mem.Name(), "init#") {
				// Ok.  The name of a declared init function varies between
				// its types.Func ("init") and its ssa.Function ("init#%d").
			} else {
				panic(fmt.Sprintf("%s: %T.Object().Name() = %s, want %s",
					pkg.Pkg.Path(), mem, obj.Name(), name))
			}
		}
		if obj.Pos() != mem.Pos() {
			panic(fmt.Sprintf("%s Pos=%d obj.Pos=%d", mem, mem.Pos(), obj.Pos()))
		}
	}
}

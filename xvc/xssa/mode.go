// Copyright 2015 The Go Authors. All rights reserved.
// Use of this source code is governed by a BSD-style
// license that can be found in the LICENSE file.

package ssa

// This file defines the BuilderMode type and its command-line flag.

import (
	"bytes"
	"fmt"
)

// BuilderMode is a bitmask of options for diagnostics and checking.
//
// *BuilderMode satisfies the flag.Value interface.  Example:
//
//	var mode = ssa.BuilderMode(0)
//	func init() { flag.Var(&mode, "build", ssa.BuilderModeDoc) }
type BuilderMode uint

const (
	PrintPackages        BuilderMode = 1 << iota // Print package inventory to stdout
	PrintFunctions                               // Print function SSA code to stdout
	LogSource                                    // Log source locations as SSA builder progresses
	SanityCheckFunctions                         // Perform sanity checking of function bodies
	NaiveForm                                    // Build naïve SSA form: don't replace local loads/stores with registers
	BuildSerially                                // Build packages serially, not in parallel.
	GlobalDebug                                  // Enable debug info for all packages
	BareInits                                    // Build init functions without guards or calls to dependent inits
	InstantiateGenerics                          // Instantiate generics functions (monomorphize) while building
)

const BuilderModeDoc = `Options controlling the SSA builder.
The value is a sequence of zero or more of these letters:
C	perform sanity [C]hecking of the SSA form.
D	include [D]ebug info for every function.
P	print [P]ackage inventory.
F	print [F]unction SSA code.
S	log [S]ource locations as SSA builder progresses.
L	build distinct packages seria[L]ly instead of in parallel.
N	build [N]aive SSA form: don't replace local loads/stores with registers.
I	build bare [I]nit functions: no init guards or calls to dependent inits.
G   instantiate [G]eneric function bodies via monomorphization
`

func (m BuilderMode) String() string {
	var buf bytes.Buffer
	if m&GlobalDebug != 0 {
		buf.WriteByte('D')
	}
	if m&PrintPackages != 0 {
		buf.WriteByte('P')
	}
	if m&PrintFunctions != 0 {
		buf.WriteByte('F')
	}
	if m&LogSource != 0 {
		buf.WriteByte('S')
	}
	if m&SanityCheckFunctions != 0 {
		buf.WriteByte('C')
	}
	if m&NaiveForm != 0 {
		buf.WriteByte('N')
	}
	if m&BuildSerially != 0 {
		buf.WriteByte('L')
	}
	if m&BareInits != 0 {
		buf.WriteByte('I')
	}
	if m&InstantiateGenerics != 0 {
		buf.WriteByte('G')
	}
	return buf.String()
}

// Set parses the flag characters in s and updates *m.
func (m *BuilderMode) Set(s string) error {
	var mode BuilderMode
	for _, c := range s {
		switch c {
		case 'D':
			mode |= GlobalDebug
		case 'P':
			mode |= PrintPackages
		case 'F':
			mode |= PrintFunctions
		case 'S':
			mode |= LogSource | BuildSerially
		case 'C':
			mode |= SanityCheckFunctions
		case 'N':
			mode |= NaiveForm
		case 'L':
			mode |= BuildSerially
		case 'I':
			mode |= BareInits
		case 'G':
			mode |= InstantiateGenerics
		default:
			return fmt.Errorf("unknown BuilderMode option: %q", c)
		}
	}
	*m = mode
	return nil
}

// Get returns m.
func (m BuilderMode) Get() interface{} { return m }

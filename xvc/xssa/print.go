// Copyright 2013 The Go Authors. All rights reserved.
// Use of this source code is governed by a BSD-style
// license that can be found in the LICENSE file.

package ssa

// This file implements the String() methods for all Value and
// Instruction types.

import (
	"bytes"
	"fmt"
	"go/types"
	"io"
	"reflect"
	"sort"
	"strings"

	"golang.org/x/tools/go/types/typeutil"
	"xvc/xinternal/typeparams"
)

// relName returns the name of v relative to i.
// In most cases, this is identical to v.Name(), but references to
// Functions (including methods) and Globals use RelString and
// all types are displayed with relType, so that only cross-package
// references are package-qualified.
func relName(v Value, i Instruction) string {
	var from *types.Package
	if i != nil {
		from = i.Parent().relPkg()
	}
	switch v := v.(type) {
	case Member: // *Function or *Global
		return v.RelString(from)
	case *Const:
		return v.RelString(from)
	}
	return v.Name()
}

func relType(t types.Type, from *types.Package) string {
	return types.TypeString(t, types.RelativeTo(from))
}

func relTerm(term *types.Term, from *types.Package) string {
	s := relType(term.Type(), from)
	if term.Tilde() {
		return "~" + s
	}
	return s
}

func relString(m Member, from *types.Package) string {
	// NB: not all globals have an Object (e.g. init$guard),
	// so use Package().Object not Object.Package().
	if pkg := m.Package().Pkg; pkg != nil && pkg != from {
		return fmt.Sprintf("%s.%s", pkg.Path(), m.Name())
	}
	return m.Name()
}

// Value.String()
//
// This method is provided only for debugging.
// It never appears in disassembly, which uses Value.Name().

func (v *Parameter) String() string {
	from := v.Parent().relPkg()
	return fmt.Sprintf("parameter %s : %s", v.Name(), relType(v.Type(), from))
}

func (v *FreeVar) String() string {
	from := v.Parent().relPkg()
	return fmt.Sprintf("freevar %s : %s", v.Name(), relType(v.Type(), from))
}

func (v *Builtin) String() string {
	return fmt.Sprintf("builtin %s", v.Name())
}

// Instruction.String()

func (v *Alloc) String() string {
	op := "local"
	if v.Heap {
		op = "new"
	}
	from := v.Parent().relPkg()
	return fmt.Sprintf("%s %s (%s)", op, relType(typeparams.MustDeref(v.Type()), from), v.Comment)
}

func (v *Phi) String() string {
	var b bytes.Buffer
	b.WriteString("phi [")
	for i, edge := range v.Edges {
		if i > 0 {
			b.WriteString(", ")
		}
		// Be robust against malformed CFG.
		if v.block == nil {
			b.WriteString("??")
			continue
		}
		block := -1
		if i < len(v.block.Preds) {
			block = v.block.Preds[i].Index
		}
		fmt.Fprintf(&b, "%d: ", block)
		edgeVal := "<nil>" // be robust
		if edge != nil {
			edgeVal = relName(edge, v)
		}
		b.WriteString(edgeVal)
	}
	b.WriteString("]")
	if v.Comment != "" {
		b.WriteString(" #")
		b.WriteString(v.Comment)
	}
	return b.String()
}

func printCall(v *CallCommon, prefix string, instr Instruction) string {
	var b bytes.Buffer
	b.WriteString(prefix)
	if !v.IsInvoke() {
		b.WriteString(relName(v.Value, instr))
	} else {
		fmt.Fprintf(&b, "invoke %s.%s", relName(v.Value, instr), v.Method.Name())
	}
	b.WriteString("(")
	for i, arg := range v.Args {
		if i > 0 {
			b.WriteString(", ")
		}
		b.WriteString(relName(arg, instr))
	}
	if v.Signature().Variadic() {
		b.WriteString("...")
	}
	b.WriteString(")")
	return b.String()
}

func (c *CallCommon) String() string {
	return printCall(c, "", nil)
}

func (v *Call) String() string {
	return printCall(&v.Call, "", v)
}

func (v *BinOp) String() string {
	return fmt.Sprintf("%s %s %s", relName(v.X, v), v.Op.String(), relName(v.Y, v))
}

func (v *UnOp) String() string {
	return fmt.Sprintf("%s%s%s", v.Op, relName(v.X, v), commaOk(v.CommaOk))
}

func printConv(prefix string, v, x Value) string {
	from := v.Parent().relPkg()
	return fmt.Sprintf("%s %s <- %s (%s)",
		prefix,
		relType(v.Type(), from),
		relType(x.Type(), from),
		relName(x, v.(Instruction)))
}

func (v *ChangeType) String() string          { return printConv("changetype", v, v.X) }
func (v *Convert) String() string             { return printConv("convert", v, v.X) }
func (v *ChangeInterface) String() string     { return printConv("change interface", v, v.X) }
func (v *SliceToArrayPointer) String() string { return printConv("slice to array pointer", v, v.X) }
func (v *MakeInterface) String() string       { return printConv("make", v, v.X) }

func (v *MultiConvert) String() string {
	from := v.Parent().relPkg()

	var b strings.Builder
	b.WriteString(printConv("multiconvert", v, v.X))
	b.WriteString(" [")
	for i, s := range v.from {
		for j, d := range v.to {
			if i != 0 || j != 0 {
				b.WriteString(" | ")
			}
			fmt.Fprintf(&b, "%s <- %s", relTerm(d, from), relTerm(s, from))
		}
	}
	b.WriteString("]")
	return b.String()
}

func (v *MakeClosure) String() string {
	var b bytes.Buffer
	fmt.Fprintf(&b, "make closure %s", relName(v.Fn, v))
	if v.Bindings != nil {
		b.WriteString(" [")
		for i, c := range v.Bindings {
			if i > 0 {
				b.WriteString(", ")
			}
			b.WriteString(relName(c, v))
		}
		b.WriteString("]")
	}
	return b.String()
}

func (v *MakeSlice) String() string {
	from := v.Parent().relPkg()
	return fmt.Sprintf("make %s %s %s",
		relType(v.Type(), from),
		relName(v.Len, v),
		relName(v.Cap, v))
}

func (v *Slice) String() string {
	var b bytes.Buffer
	b.WriteString("slice ")
	b.WriteString(relName(v.X, v))
	b.WriteString("[")
	if v.Low != nil {
		b.WriteString(relName(v.Low, v))
	}
	b.WriteString(":")
	if v.High != nil {
		b.WriteString(relName(v.High, v))
	}
	if v.Max != nil {
		b.WriteString(":")
		b.WriteString(relName(v.Max, v))
	}
	b.WriteString("]")
	return b.String()
}

func (v *MakeMap) String() string {
	res := ""
	if v.Reserve != nil {
		res = relName(v.Reserve, v)
	}
	from := v.Parent().relPkg()
	return fmt.Sprintf("make %s %s", relType(v.Type(), from), res)
}

func (v *MakeChan) String() string {
	from := v.Parent().relPkg()
	return fmt.Sprintf("make %s %s", relType(v.Type(), from), relName(v.Size, v))
}

func (v *FieldAddr) String() string {
	// Be robust against a bad index.
	name := "?"
	if fld := fieldOf(typeparams.MustDeref(v.X.Type()), v.Field); fld != nil {
		name = fld.Name()
	}
	return fmt.Sprintf("&%s.%s [#%d]", relName(v.X, v), name, v.Field)
}

func (v *Field) String() string {
	// Be robust against a bad index.
	name := "?"
	if fld := fieldOf(v.X.Type(), v.Field); fld != nil {
		name = fld.Name()
	}
	return fmt.Sprintf("%s.%s [#%d]", relName(v.X, v), name, v.Field)
}

func (v *IndexAddr) String() string {
	return fmt.Sprintf("&%s[%s]", relName(v.X, v), relName(v.Index, v))
}

func (v *Index) String() string {
	return fmt.Sprintf("%s[%s]", relName(v.X, v), relName(v.Index, v))
}

func (v *Lookup) String() string {
	return fmt.Sprintf("%s[%s]%s", relName(v.X, v), relName(v.Index, v), commaOk(v.CommaOk))
}

func (v *Range) String() string {
	return "range " + relName(v.X, v)
}

func (v *Next) String() string {
	return "next " + relName(v.Iter, v)
}

func (v *TypeAssert) String() string {
	from := v.Parent().relPkg()
	return fmt.Sprintf("typeassert%s %s.(%s)", commaOk(v.CommaOk), relName(v.X, v), relType(v.AssertedType, from))
}

func (v *Extract) String() string {
	return fmt.Sprintf("extract %s #%d", relName(v.Tuple, v), v.Index)
}

func (s *Jump) String() string {
	// Be robust against malformed CFG.
	block := -1
	if s.block != nil && len(s.block.Succs) == 1 {
		block = s.block.Succs[0].Index
	}
	return fmt.Sprintf("jump %d", block)
}

func (s *If) String() string {
	// Be robust against malformed CFG.
	tblock, fblock := -1, -1
	if s.block != nil && len(s.block.Succs) == 2 {
		tblock = s.block.Succs[0].Index
		fblock = s.block.Succs[1].Index
	}
	return fmt.Sprintf("if %s goto %d else %d", relName(s.Cond, s), tblock, fblock)
}

func (s *Go) String() string {
	return printCall(&s.Call, "go ", s)
}

func (s *Panic) String() string {
	return "panic " + relName(s.X, s)
}

func (s *Return) String() string {
	var b bytes.Buffer
	b.WriteString("return")
	for i, r := range s.Results {
		if i == 0 {
			b.WriteString(" ")
		} else {
			b.WriteString(", ")
		}
		b.WriteString(relName(r, s))
	}
	return b.String()
}

func (*RunDefers) String() string {
	return "rundefers"
}

func (s *Send) String() string {
	return fmt.Sprintf("send %s <- %s", relName(s.Chan, s), relName(s.X, s))
}

func (s *Defer) String() string {
	prefix := "defer "
	if s.DeferStack != nil {
		prefix += "[" + relName(s.DeferStack, s) + "] "
	}
	c := printCall(&s.Call, prefix, s)
	return c
}

func (s *Select) String() string {
	var b bytes.Buffer
	for i, st := range s.States {
		if i > 0 {
			b.WriteString(", ")
		}
		if st.Dir == types.RecvOnly {
			b.WriteString("<-")
			b.WriteString(relName(st.Chan, s))
		} else {
			b.WriteString(relName(st.Chan, s))
			b.WriteString("<-")
			b.WriteString(relName(st.Send, s))
		}
	}
	non := ""
	if !s.Blocking {
		non = "non"
	}
	return fmt.Sprintf("select %sblocking [%s]", non, b.String())
}

func (s *Store) String() string {
	return fmt.Sprintf("*%s = %s", relName(s.Addr, s), relName(s.Val, s))
}

func (s *MapUpdate) String() string {
	return fmt.Sprintf("%s[%s] = %s", relName(s.Map, s), relName(s.Key, s), relName(s.Value, s))
}

func (s *DebugRef) String() string {
	p := s.Parent().Prog.Fset.Position(s.Pos())
	var descr interface{}
	if s.object != nil {
		descr = s.object // e.g. "var x int"
	} else {
		descr = reflect.TypeOf(s.Expr) // e.g. "*ast.CallExpr"
	}
	var addr string
	if s.IsAddr {
		addr = "address of "
	}
	return fmt.Sprintf("; %s%s @ %d:%d is %s", addr, descr, p.Line, p.Column, s.X.Name())
}

func (p *Package) String() string {
	return "package " + p.Pkg.Path()
}

var _ io.WriterTo = (*Package)(nil) // *Package implements io.Writer

func (p *Package) WriteTo(w io.Writer) (int64, error) {
	var buf bytes.Buffer
	WritePackage(&buf, p)
	n, err := w.Write(buf.Bytes())
	return int64(n), err
}

// WritePackage writes to buf a human-readable summary of p.
func WritePackage(buf *bytes.Buffer, p *Package) {
	fmt.Fprintf(buf, "%s:\n", p)

	var names []string
	maxname := 0
	for name := range p.Members {
		if l := len(name); l > maxname {
			maxname = l
		}
		names = append(names, name)
	}

	from := p.Pkg
	sort.Strings(names)
	for _, name := range names {
		switch mem := p.Members[name].(type) {
		case *NamedConst:
			fmt.Fprintf(buf, "  const %-*s %s = %s\n",
				maxname, name, mem.Name(), mem.Value.RelString(from))

		case *Function:
			fmt.Fprintf(buf, "  func  %-*s %s\n",
				maxname, name, relType(mem.Type(), from))

		case *Type:
			fmt.Fprintf(buf, "  type  %-*s %s\n",
				maxname, name, relType(mem.Type().Underlying(), from))
			for _, meth := range typeutil.IntuitiveMethodSet(mem.Type(), &p.Prog.MethodSets) {
				fmt.Fprintf(buf, "    %s\n", types.SelectionString(meth, types.RelativeTo(from)))
			}

		case *Global:
			fmt.Fprintf(buf, "  var   %-*s %s\n",
				maxname, name, relType(typeparams.MustDeref(mem.Type()), from))
		}
	}

	fmt.Fprintf(buf, "\n")
}

func commaOk(x bool) string {
	if x {
		return ",ok"
	}
	return ""
}

// Copyright 2013 The Go Authors. All rights reserved.
// Use of this source code is governed by a BSD-style
// license that can be found in the LICENSE file.

package ssa

// This file implements the Function type.

import (
	"bytes"
	"fmt"
	"go/ast"
	"go/token"
	"go/types"
	"io"
	"os"
	"strings"

	"xvc/xinternal/typeparams"
)

// Like ObjectOf, but panics instead of returning nil.
// Only valid during f's create and build phases.
func (f *Function) objectOf(id *ast.Ident) types.Object {
	if o := f.info.ObjectOf(id); o != nil {
		return o
	}
	panic(fmt.Sprintf("no types.Object for ast.Ident %s @ %s",
		id.Name, f.Prog.Fset.Position(id.Pos())))
}

// Like TypeOf, but panics instead of returning nil.
// Only valid during f's create and build phases.
func (f *Function) typeOf(e ast.Expr) types.Type {
	if T := f.info.TypeOf(e); T != nil {
		return f.typ(T)
	}
	panic(fmt.Sprintf("no type for %T @ %s", e, f.Prog.Fset.Position(e.Pos())))
}

// typ is the locally instantiated type of T.
// If f is not an instantiation, then f.typ(T)==T.
func (f *Function) typ(T types.Type) types.Type {
	return f.subst.typ(T)
}

// If id is an Instance, returns info.Instances[id].Type.
// Otherwise returns f.typeOf(id).
func (f *Function) instanceType(id *ast.Ident) types.Type {
	if t, ok := f.info.Instances[id]; ok {
		return t.Type
	}
	return f.typeOf(id)
}

// selection returns a *selection corresponding to f.info.Selections[selector]
// with potential updates for type substitution.
func (f *Function) selection(selector *ast.SelectorExpr) *selection {
	sel := f.info.Selections[selector]
	if sel == nil {
		return nil
	}

	switch sel.Kind() {
	case types.MethodExpr, types.MethodVal:
		if recv := f.typ(sel.Recv()); recv != sel.Recv() {
			// recv changed during type substitution.
			pkg := f.declaredPackage().Pkg
			obj, index, indirect := types.LookupFieldOrMethod(recv, true, pkg, sel.Obj().Name())

			// sig replaces sel.Type(). See (types.Selection).Typ() for details.
			sig := obj.Type().(*types.Signature)
			sig = changeRecv(sig, newVar(sig.Recv().Name(), recv))
			if sel.Kind() == types.MethodExpr {
				sig = recvAsFirstArg(sig)
			}
			return &selection{
				kind:     sel.Kind(),
				recv:     recv,
				typ:      sig,
				obj:      obj,
				index:    index,
				indirect: indirect,
			}
		}
	}
	return toSelection(sel)
}

// Destinations associated with unlabelled for/switch/select stmts.
// We push/pop one of these as we enter/leave each construct and for
// each BranchStmt we scan for the innermost target of the right type.
type targets struct {
	tail         *targets // rest of stack
	_break       *BasicBlock
	_continue    *BasicBlock
	_fallthrough *BasicBlock
}

// Destinations associated with a labelled block.
// We populate these as labels are encountered in forward gotos or
// labelled statements.
// Forward gotos are resolved once it is known which statement they
// are associated with inside the Function.
type lblock struct {
	label     *types.Label // Label targeted by the blocks.
	resolved  bool         // _goto block encountered (back jump or resolved fwd jump)
	_goto     *BasicBlock
	_break    *BasicBlock
	_continue *BasicBlock
}

// label returns the symbol denoted by a label identifier.
//
// label should be a non-blank identifier (label.Name != "_").
func (f *Function) label(label *ast.Ident) *types.Label {
	return f.objectOf(label).(*types.Label)
}

// lblockOf returns the branch target associated with the
// specified label, creating it if needed.
func (f *Function) lblockOf(label *types.Label) *lblock {
	lb := f.lblocks[label]
	if lb == nil {
		lb = &lblock{
			label: label,
			_goto: f.newBasicBlock(label.Name()),
		}
		if f.lblocks == nil {
			f.lblocks = make(map[*types.Label]*lblock)
		}
		f.lblocks[label] = lb
	}
	return lb
}

// labelledBlock searches f for the block of the specified label.
//
// If f is a yield function, it additionally searches ancestor Functions
// corresponding to enclosing range-over-func statements within the
// same source function, so the returned block may belong to a different Function.
func labelledBlock(f *Function, label *types.Label, tok token.Token) *BasicBlock {
	if lb := f.lblocks[label]; lb != nil {
		var block *BasicBlock
		switch tok {
		case token.BREAK:
			block = lb._break
		case token.CONTINUE:
			block = lb._continue
		case token.GOTO:
			block = lb._goto
		}
		if block != nil {
			return block
		}
	}
	// Search ancestors if this is a yield function.
	if f.jump != nil {
		return labelledBlock(f.parent, label, tok)
	}
	return nil
}

// targetedBlock looks for the nearest block in f.targets
// (and f's ancestors) that matches tok's type, and returns
// the block and function it was found in.
func targetedBlock(f *Function, tok token.Token) *BasicBlock {
	if f == nil {
		return nil
	}
	for t := f.targets; t != nil; t = t.tail {
		var block *BasicBlock
		switch tok {
		case token.BREAK:
			block = t._break
		case token.CONTINUE:
			block = t._continue
		case token.FALLTHROUGH:
			block = t._fallthrough
		}
		if block != nil {
			return block
		}
	}
	// Search f's ancestors (in case f is a yield function).
	return targetedBlock(f.parent, tok)
}

// instrs returns an iterator that returns each reachable instruction of the SSA function.
// TODO: return an iter.Seq once x/tools is on 1.23
func (f *Function) instrs() func(yield func(i Instruction) bool) {
	return func(yield func(i Instruction) bool) {
		for _, block := range f.Blocks {
			for _, instr := range block.Instrs {
				if !yield(instr) {
					return
				}
			}
		}
	}
}

// addResultVar adds a result for a variable v to f.results and v to f.returnVars.
func (f *Function) addResultVar(v *types.Var) {
	result := emitLocalVar(f, v)
	f.results = append(f.results, result)
	f.returnVars = append(f.returnVars, v)
}

// addParamVar adds a parameter to f.Params.
func (f *Function) addParamVar(v *types.Var) *Parameter {
	name := v.Name()
	if name == "" {
		name = fmt.Sprintf("arg%d", len(f.Params))
	}
	param := &Parameter{
		name:   name,
		object: v,
		typ:    f.typ(v.Type()),
		parent: f,
	}
	f.Params = append(f.Params, param)
	return param
}

// addSpilledParam declares a parameter that is pre-spilled to the
// stack; the function body will load/store the spilled location.
// Subsequent lifting will eliminate spills where possible.
func (f *Function) addSpilledParam(obj *types.Var) {
	param := f.addParamVar(obj)
	spill := emitLocalVar(f, obj)
	f.emit(&Store{Addr: spill, Val: param})
}

// startBody initializes the function prior to generating SSA code for its body.
// Precondition: f.Type() already set.
func (f *Function) startBody() {
	f.currentBlock = f.newBasicBlock("entry")
	f.vars = make(map[*types.Var]Value) // needed for some synthetics, e.g. init
}

// createSyntacticParams populates f.Params and generates code (spills
// and named result locals) for all the parameters declared in the
// syntax.  In addition it populates the f.objects mapping.
//
// Preconditions:
// f.startBody() was called. f.info != nil.
// Postcondition:
// len(f.Params) == len(f.Signature.Params) + (f.Signature.Recv() ? 1 : 0)
func (f *Function) createSyntacticParams(recv *ast.FieldList, functype *ast.FuncType) {
	// Receiver (at most one inner iteration).
	if recv != nil {
		for _, field := range recv.List {
			for _, n := range field.Names {
				f.addSpilledParam(identVar(f, n))
			}
			// Anonymous receiver?  No need to spill.
			if field.Names == nil {
				f.addParamVar(f.Signature.Recv())
			}
		}
	}

	// Parameters.
	if functype.Params != nil {
		n := len(f.Params) // 1 if has recv, 0 otherwise
		for _, field := range functype.Params.List {
			for _, n := range field.Names {
				f.addSpilledParam(identVar(f, n))
			}
			// Anonymous parameter?  No need to spill.
			if field.Names == nil {
				f.addParamVar(f.Signature.Params().At(len(f.Params) - n))
			}
		}
	}

	// Results.
	if functype.Results != nil {
		for _, field := range functype.Results.List {
			// Implicit "var" decl of locals for named results.
			for _, n := range field.Names {
				v := identVar(f, n)
				f.addResultVar(v)
			}
			// Implicit "var" decl of local for an unnamed result.
			if field.Names == nil {
				v := f.Signature.Results().At(len(f.results))
				f.addResultVar(v)
			}
		}
	}
}

// createDeferStack initializes fn.deferstack to local variable
// initialized to a ssa:deferstack() call.
func (fn *Function) createDeferStack() {
	// Each syntactic function makes a call to ssa:deferstack,
	// which is spilled to a local. Unused ones are later removed.
	fn.deferstack = newVar("defer$stack", tDeferStack)
	call := &Call{Call: CallCommon{Value: vDeferStack}}
	call.setType(tDeferStack)
	deferstack := fn.emit(call)
	spill := emitLocalVar(fn, fn.deferstack)
	emitStore(fn, spill, deferstack, token.NoPos)
}

type setNumable interface {
	setNum(int)
}

// numberRegisters assigns numbers to all SSA registers
// (value-defining Instructions) in f, to aid debugging.
// (Non-Instruction Values are named at construction.)
func numberRegisters(f *Function) {
	v := 0
	for _, b := range f.Blocks {
		for _, instr := range b.Instrs {
			switch instr.(type) {
			case Value:
				instr.(setNumable).setNum(v)
				v++
			}
		}
	}
}

// buildReferrers populates the def/use information in all non-nil
// Value.Referrers slice.
// Precondition: all such slices are initially empty.
func buildReferrers(f *Function) {
	var rands []*Value
	for _, b := range f.Blocks {
		for _, instr := range b.Instrs {
			rands = instr.Operands(rands[:0]) // recycle storage
			for _, rand := range rands {
				if r := *rand; r != nil {
					if ref := r.Referrers(); ref != nil {
						*ref = append(*ref, instr)
					}
				}
			}
		}
	}
}

// finishBody() finalizes the contents of the function after SSA code generation of its body.
//
// The function is not done being built until done() is called.
func (f *Function) finishBody() {
	f.currentBlock = nil
	f.lblocks = nil
	f.returnVars = nil
	f.jump = nil
	f.source = nil
	f.exits = nil

	// Remove from f.Locals any Allocs that escape to the heap.
	j := 0
	for _, l := range f.Locals {
		if !l.Heap {
			f.Locals[j] = l
			j++
		}
	}
	// Nil out f.Locals[j:] to aid GC.
	for i := j; i < len(f.Locals); i++ {
		f.Locals[i] = nil
	}
	f.Locals = f.Locals[:j]

	optimizeBlocks(f)

	buildReferrers(f)

	buildDomTree(f)

	if f.Prog.mode&NaiveForm == 0 {
		// For debugging pre-state of lifting pass:
		// numberRegisters(f)
		// f.WriteTo(os.Stderr)
		lift(f)
	}

	// clear remaining builder state
	f.results = nil    // (used by lifting)
	f.deferstack = nil // (used by lifting)
	f.vars = nil       // (used by lifting)
	f.subst = nil

	numberRegisters(f) // uses f.namedRegisters
}

// done marks the building of f's SSA body complete,
// along with any nested functions, and optionally prints them.
func (f *Function) done() {
	assert(f.parent == nil, "done called on an anonymous function")

	var visit func(*Function)
	visit = func(f *Function) {
		for _, anon := range f.AnonFuncs {
			visit(anon) // anon is done building before f.
		}

		f.uniq = 0    // done with uniq
		f.build = nil // function is built

		if f.Prog.mode&PrintFunctions != 0 {
			printMu.Lock()
			f.WriteTo(os.Stdout)
			printMu.Unlock()
		}

		if f.Prog.mode&SanityCheckFunctions != 0 {
			mustSanityCheck(f, nil)
		}
	}
	visit(f)
}

// removeNilBlocks eliminates nils from f.Blocks and updates each
// BasicBlock.Index.  Use this after any pass that may delete blocks.
func (f *Function) removeNilBlocks() {
	j := 0
	for _, b := range f.Blocks {
		if b != nil {
			b.Index = j
			f.Blocks[j] = b
			j++
		}
	}
	// Nil out f.Blocks[j:] to aid GC.
	for i := j; i < len(f.Blocks); i++ {
		f.Blocks[i] = nil
	}
	f.Blocks = f.Blocks[:j]
}

// SetDebugMode sets the debug mode for package pkg.  If true, all its
// functions will include full debug info.  This greatly increases the
// size of the instruction stream, and causes Functions to depend upon
// the ASTs, potentially keeping them live in memory for longer.
func (pkg *Package) SetDebugMode(debug bool) {
	pkg.debug = debug
}

// debugInfo reports whether debug info is wanted for this function.
func (f *Function) debugInfo() bool {
	// debug info for instantiations follows the debug info of their origin.
	p := f.declaredPackage()
	return p != nil && p.debug
}

// lookup returns the address of the named variable identified by obj
// that is local to function f or one of its enclosing functions.
// If escaping, the reference comes from a potentially escaping pointer
// expression and the referent must be heap-allocated.
// We assume the referent is a *Alloc or *Phi.
// (The only Phis at this stage are those created directly by go1.22 "for" loops.)
func (f *Function) lookup(obj *types.Var, escaping bool) Value {
	if v, ok := f.vars[obj]; ok {
		if escaping {
			switch v := v.(type) {
			case *Alloc:
				v.Heap = true
			case *Phi:
				for _, edge := range v.Edges {
					if alloc, ok := edge.(*Alloc); ok {
						alloc.Heap = true
					}
				}
			}
		}
		return v // function-local var (address)
	}

	// Definition must be in an enclosing function;
	// plumb it through intervening closures.
	if f.parent == nil {
		panic("no ssa.Value for " + obj.String())
	}
	outer := f.parent.lookup(obj, true) // escaping
	v := &FreeVar{
		name:   obj.Name(),
		typ:    outer.Type(),
		pos:    outer.Pos(),
		outer:  outer,
		parent: f,
	}
	f.vars[obj] = v
	f.FreeVars = append(f.FreeVars, v)
	return v
}

// emit emits the specified instruction to function f.
func (f *Function) emit(instr Instruction) Value {
	return f.currentBlock.emit(instr)
}

// RelString returns the full name of this function, qualified by
// package name, receiver type, etc.
//
// The specific formatting rules are not guaranteed and may change.
//
// Examples:
//
//	"math.IsNaN"                  // a package-level function
//	"(*bytes.Buffer).Bytes"       // a declared method or a wrapper
//	"(*bytes.Buffer).Bytes$thunk" // thunk (func wrapping method; receiver is param 0)
//	"(*bytes.Buffer).Bytes$bound" // bound (func wrapping method; receiver supplied by closure)
//	"main.main$1"                 // an anonymous function in main
//	"main.init#1"                 // a declared init function
//	"main.init"                   // the synthesized package initializer
//
// When these functions are referred to from within the same package
// (i.e. from == f.Pkg.Object), they are rendered without the package path.
// For example: "IsNaN", "(*Buffer).Bytes", etc.
//
// All non-synthetic functions have distinct package-qualified names.
// (But two methods may have the same name "(T).f" if one is a synthetic
// wrapper promoting a non-exported method "f" from another package; in
// that case, the strings are equal but the identifiers "f" are distinct.)
func (f *Function) RelString(from *types.Package) string {
	// Anonymous?
	if f.parent != nil {
		// An anonymous function's Name() looks like "parentName$1",
		// but its String() should include the type/package/etc.
		parent := f.parent.RelString(from)
		for i, anon := range f.parent.AnonFuncs {
			if anon == f {
				return fmt.Sprintf("%s$%d", parent, 1+i)
			}
		}

		return f.name // should never happen
	}

	// Method (declared or wrapper)?
	if recv := f.Signature.Recv(); recv != nil {
		return f.relMethod(from, recv.Type())
	}

	// Thunk?
	if f.method != nil {
		return f.relMethod(from, f.method.recv)
	}

	// Bound?
	if len(f.FreeVars) == 1 && strings.HasSuffix(f.name, "$bound") {
		return f.relMethod(from, f.FreeVars[0].Type())
	}

	// Package-level function?
	// Prefix with package name for cross-package references only.
	if p := f.relPkg(); p != nil && p != from {
		return fmt.Sprintf("%s.%s", p.Path(), f.name)
	}

	// Unknown.
	return f.name
}

func (f *Function) relMethod(from *types.Package, recv types.Type) string {
	return fmt.Sprintf("(%s).%s", relType(recv, from), f.name)
}

// writeSignature writes to buf the signature sig in declaration syntax.
func writeSignature(buf *bytes.Buffer, from *types.Package, name string, sig *types.Signature) {
	buf.WriteString("func ")
	if recv := sig.Recv(); recv != nil {
		buf.WriteString("(")
		if name := recv.Name(); name != "" {
			buf.WriteString(name)
			buf.WriteString(" ")
		}
		types.WriteType(buf, recv.Type(), types.RelativeTo(from))
		buf.WriteString(") ")
	}
	buf.WriteString(name)
	types.WriteSignature(buf, sig, types.RelativeTo(from))
}

// declaredPackage returns the package fn is declared in or nil if the
// function is not declared in a package.
func (fn *Function) declaredPackage() *Package {
	switch {
	case fn.Pkg != nil:
		return fn.Pkg // non-generic function  (does that follow??)
	case fn.topLevelOrigin != nil:
		return fn.topLevelOrigin.Pkg // instance of a named generic function
	case fn.parent != nil:
		return fn.parent.declaredPackage() // instance of an anonymous [generic] function
	default:
		return nil // function is not declared in a package, e.g. a wrapper.
	}
}

// relPkg returns types.Package fn is printed in relationship to.
func (fn *Function) relPkg() *types.Package {
	if p := fn.declaredPackage(); p != nil {
		return p.Pkg
	}
	return nil
}

var _ io.WriterTo = (*Function)(nil) // *Function implements io.Writer

func (f *Function) WriteTo(w io.Writer) (int64, error) {
	var buf bytes.Buffer
	WriteFunction(&buf, f)
	n, err := w.Write(buf.Bytes())
	return int64(n), err
}

// WriteFunction writes to buf a human-readable "disassembly" of f.
func WriteFunction(buf *bytes.Buffer, f *Function) {
	fmt.Fprintf(buf, "# Name: %s\n", f.String())
	if f.Pkg != nil {
		fmt.Fprintf(buf, "# Package: %s\n", f.Pkg.Pkg.Path())
	}
	if syn := f.Synthetic; syn != "" {
		fmt.Fprintln(buf, "# Synthetic:", syn)
	}
	if pos := f.Pos(); pos.IsValid() {
		fmt.Fprintf(buf, "# Location: %s\n", f.Prog.Fset.Position(pos))
	}

	if f.parent != nil {
		fmt.Fprintf(buf, "# Parent: %s\n", f.parent.Name())
	}

	if f.Recover != nil {
		fmt.Fprintf(buf, "# Recover: %s\n", f.Recover)
	}

	from := f.relPkg()

	if f.FreeVars != nil {
		buf.WriteString("# Free variables:\n")
		for i, fv := range f.FreeVars {
			fmt.Fprintf(buf, "# % 3d:\t%s %s\n", i, fv.Name(), relType(fv.Type(), from))
		}
	}

	if len(f.Locals) > 0 {
		buf.WriteString("# Locals:\n")
		for i, l := range f.Locals {
			fmt.Fprintf(buf, "# % 3d:\t%s %s\n", i, l.Name(), relType(typeparams.MustDeref(l.Type()), from))
		}
	}
	writeSignature(buf, from, f.Name(), f.Signature)
	buf.WriteString(":\n")

	if f.Blocks == nil {
		buf.WriteString("\t(external)\n")
	}

	// NB. column calculations are confused by non-ASCII
	// characters and assume 8-space tabs.
	const punchcard = 80 // for old time's sake.
	const tabwidth = 8
	for _, b := range f.Blocks {
		if b == nil {
			// Corrupt CFG.
			fmt.Fprintf(buf, ".nil:\n")
			continue
		}
		n, _ := fmt.Fprintf(buf, "%d:", b.Index)
		bmsg := fmt.Sprintf("%s P:%d S:%d", b.Comment, len(b.Preds), len(b.Succs))
		fmt.Fprintf(buf, "%*s%s\n", punchcard-1-n-len(bmsg), "", bmsg)

		if false { // CFG debugging
			fmt.Fprintf(buf, "\t# CFG: %s --> %s --> %s\n", b.Preds, b, b.Succs)
		}
		for _, instr := range b.Instrs {
			buf.WriteString("\t")
			switch v := instr.(type) {
			case Value:
				l := punchcard - tabwidth
				// Left-align the instruction.
				if name := v.Name(); name != "" {
					n, _ := fmt.Fprintf(buf, "%s = ", name)
					l -= n
				}
				n, _ := buf.WriteString(instr.String())
				l -= n
				// Right-align the type if there's space.
				if t := v.Type(); t != nil {
					buf.WriteByte(' ')
					ts := relType(t, from)
					l -= len(ts) + len("  ") // (spaces before and after type)
					if l > 0 {
						fmt.Fprintf(buf, "%*s", l, "")
					}
					buf.WriteString(ts)
				}
			case nil:
				// Be robust against bad transforms.
				buf.WriteString("<deleted>")
			default:
				buf.WriteString(instr.String())
			}
			// -mode=S: show line numbers
			if f.Prog.mode&LogSource != 0 {
				if pos := instr.Pos(); pos.IsValid() {
					fmt.Fprintf(buf, " L%d", f.Prog.Fset.Position(pos).Line)
				}
			}
			buf.WriteString("\n")
		}
	}
	fmt.Fprintf(buf, "\n")
}

// newBasicBlock adds to f a new basic block and returns it.  It does
// not automatically become the current block for subsequent calls to emit.
// comment is an optional string for more readable debugging output.
func (f *Function) newBasicBlock(comment string) *BasicBlock {
	b := &BasicBlock{
		Index:   len(f.Blocks),
		Comment: comment,
		parent:  f,
	}
	b.Succs = b.succs2[:0]
	f.Blocks = append(f.Blocks, b)
	return b
}

// NewFunction returns a new synthetic Function instance belonging to
// prog, with its name and signature fields set as specified.
//
// The caller is responsible for initializing the remaining fields of
// the function object, e.g. Pkg, Params, Blocks.
//
// It is practically impossible for clients to construct well-formed
// SSA functions/packages/programs directly, so we assume this is the
// job of the Builder alone.  NewFunction exists to provide clients a
// little flexibility.  For example, analysis tools may wish to
// construct fake Functions for the root of the callgraph, a fake
// "reflect" package, etc.
//
// TODO(adonovan): think harder about the API here.
func (prog *Program) NewFunction(name string, sig *types.Signature, provenance string) *Function {
	return &Function{Prog: prog, name: name, Signature: sig, Synthetic: provenance}
}

// Syntax returns the function's syntax (*ast.Func{Decl,Lit})
// if it was produced from syntax or an *ast.RangeStmt if
// it is a range-over-func yield function.
func (f *Function) Syntax() ast.Node { return f.syntax }

// identVar returns the variable defined by id.
func identVar(fn *Function, id *ast.Ident) *types.Var {
	return fn.info.Defs[id].(*types.Var)
}

// unique returns a unique positive int within the source tree of f.
// The source tree of f includes all of f's ancestors by parent and all
// of the AnonFuncs contained within these.
func unique(f *Function) int64 {
	f.uniq++
	return f.uniq
}

// exit is a change of control flow going from a range-over-func
// yield function to an ancestor function caused by a break, continue,
// goto, or return statement.
//
// There are 3 types of exits:
// * return from the source function (from ReturnStmt),
// * jump to a block (from break and continue statements [labelled/unlabelled]),
// * go to a label (from goto statements).
//
// As the builder does one pass over the ast, it is unclear whether
// a forward goto statement will leave a range-over-func body.
// The function being exited to is unresolved until the end
// of building the range-over-func body.
type exit struct {
	id   int64     // unique value for exit within from and to
	from *Function // the function the exit starts from
	to   *Function // the function being exited to (nil if unresolved)
	pos  token.Pos

	block *BasicBlock  // basic block within to being jumped to.
	label *types.Label // forward label being jumped to via goto.
	// block == nil && label == nil => return
}

// storeVar emits to function f code to store a value v to a *types.Var x.
func storeVar(f *Function, x *types.Var, v Value, pos token.Pos) {
	emitStore(f, f.lookup(x, true), v, pos)
}

// labelExit creates a new exit to a yield fn to exit the function using a label.
func labelExit(fn *Function, label *types.Label, pos token.Pos) *exit {
	e := &exit{
		id:    unique(fn),
		from:  fn,
		to:    nil,
		pos:   pos,
		label: label,
	}
	fn.exits = append(fn.exits, e)
	return e
}

// blockExit creates a new exit to a yield fn that jumps to a basic block.
func blockExit(fn *Function, block *BasicBlock, pos token.Pos) *exit {
	e := &exit{
		id:    unique(fn),
		from:  fn,
		to:    block.parent,
		pos:   pos,
		block: block,
	}
	fn.exits = append(fn.exits, e)
	return e
}

// blockExit creates a new exit to a yield fn that returns the source function.
func returnExit(fn *Function, pos token.Pos) *exit {
	e := &exit{
		id:   unique(fn),
		from: fn,
		to:   fn.source,
		pos:  pos,
	}
	fn.exits = append(fn.exits, e)
	return e
}

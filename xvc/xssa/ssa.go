// Copyright 2013 The Go Authors. All rights reserved.
// Use of this source code is governed by a BSD-style
// license that can be found in the LICENSE file.

package ssa

// This package defines a high-level intermediate representation for
// Go programs using static single-assignment (SSA) form.

import (
	"fmt"
	"go/ast"
	"go/constant"
	"go/token"
	"go/types"
	"sync"

	"golang.org/x/tools/go/types/typeutil"
	"xvc/xinternal/typeparams"
)

// A Program is a partial or complete Go program converted to SSA form.
type Program struct {
	Fset       *token.FileSet              // position information for the files of this Program
	imported   map[string]*Package         // all importable Packages, keyed by import path
	packages   map[*types.Package]*Package // all created Packages
	mode       BuilderMode                 // set of mode bits for SSA construction
	MethodSets typeutil.MethodSetCache     // cache of type-checker's method-sets

	canon *canonizer     // type canonicalization map
	ctxt  *types.Context // cache for type checking instantiations

	methodsMu  sync.Mutex
	methodSets typeutil.Map // maps type to its concrete *methodSet

	// memoization of whether a type refers to type parameters
	hasParamsMu sync.Mutex
	hasParams   typeparams.Free

	// set of concrete types used as MakeInterface operands
	makeInterfaceTypesMu sync.Mutex
	makeInterfaceTypes   map[types.Type]unit // (may contain redundant identical types)

	// objectMethods is a memoization of objectMethod
	// to avoid creation of duplicate methods from type information.
	objectMethodsMu sync.Mutex
	objectMethods   map[*types.Func]*Function
}

// A Package is a single analyzed Go package containing Members for
// all package-level functions, variables, constants and types it
// declares.  These may be accessed directly via Members, or via the
// type-specific accessor methods Func, Type, Var and Const.
//
// Members also contains entries for "init" (the synthetic package
// initializer) and "init#%d", the nth declared init function,
// and unspecified other things too.
type Package struct {
	Prog    *Program                // the owning program
	Pkg     *types.Package          // the corresponding go/types.Package
	Members map[string]Member       // all package members keyed by name (incl. init and init#%d)
	objects map[types.Object]Member // mapping of package objects to members (incl. methods). Contains *NamedConst, *Global, *Function (values but not types)
	init    *Function               // Func("init"); the package's init function
	debug   bool                    // include full debug info in this package
	syntax  bool                    // package was loaded from syntax

	// The following fields are set transiently, then cleared
	// after building.
	buildOnce   sync.Once           // ensures package building occurs once
	ninit       int32               // number of init functions
	info        *types.Info         // package type information
	files       []*ast.File         // package ASTs
	created     []*Function         // members created as a result of building this package (includes declared functions, wrappers)
	initVersion map[ast.Expr]string // goversion to use for each global var init expr
}

// A Member is a member of a Go package, implemented by *NamedConst,
// *Global, *Function, or *Type; they are created by package-level
// const, var, func and type declarations respectively.
type Member interface {
	Name() string                    // declared name of the package member
	String() string                  // package-qualified name of the package member
	RelString(*types.Package) string // like String, but relative refs are unqualified
	Object() types.Object            // typechecker's object for this member, if any
	Pos() token.Pos                  // position of member's declaration, if known
	Type() types.Type                // type of the package member
	Token() token.Token              // token.{VAR,FUNC,CONST,TYPE}
	Package() *Package               // the containing package
}

// A Type is a Member of a Package representing a package-level named type.
type Type struct {
	object *types.TypeName
	pkg    *Package
}

// A NamedConst is a Member of a Package representing a package-level
// named constant.
//
// Pos() returns the position of the declaring ast.ValueSpec.Names[*]
// identifier.
//
// NB: a NamedConst is not a Value; it contains a constant Value, which
// it augments with the name and position of its 'const' declaration.
type NamedConst struct {
	object *types.Const
	Value  *Const
	pkg    *Package
}

// A Value is an SSA value that can be referenced by an instruction.
type Value interface {
	// Name returns the name of this value, and determines how
	// this Value appears when used as an operand of an
	// Instruction.
	//
	// This is the same as the source name for Parameters,
	// Builtins, Functions, FreeVars, Globals.
	// For constants, it is a representation of the constant's value
	// and type.  For all other Values this is the name of the
	// virtual register defined by the instruction.
	//
	// The name of an SSA Value is not semantically significant,
	// and may not even be unique within a function.
	Name() string

	// If this value is an Instruction, String returns its
	// disassembled form; otherwise it returns unspecified
	// human-readable information about the Value, such as its
	// kind, name and type.
	String() string

	// Type returns the type of this value.  Many instructions
	// (e.g. IndexAddr) change their behaviour depending on the
	// types of their operands.
	Type() types.Type

	// Parent returns the function to which this Value belongs.
	// It returns nil for named Functions, Builtin, Const and Global.
	Parent() *Function

	// Referrers returns the list of instructions that have this
	// value as one of their operands; it may contain duplicates
	// if an instruction has a repeated operand.
	//
	// Referrers actually returns a pointer through which the
	// caller may perform mutations to the object's state.
	//
	// Referrers is currently only defined if Parent()!=nil,
	// i.e. for the function-local values FreeVar, Parameter,
	// Functions (iff anonymous) and all value-defining instructions.
	// It returns nil for named Functions, Builtin, Const and Global.
	//
	// Instruction.Operands contains the inverse of this relation.
	Referrers() *[]Instruction

	// Pos returns the location of the AST token most closely
	// associated with the operation that gave rise to this value,
	// or token.NoPos if it was not explicit in the source.
	//
	// For each ast.Node type, a particular token is designated as
	// the closest location for the expression, e.g. the Lparen
	// for an *ast.CallExpr.  This permits a compact but
	// approximate mapping from Values to source positions for use
	// in diagnostic messages, for example.
	//
	// (Do not use this position to determine which Value
	// corresponds to an ast.Expr; use Function.ValueForExpr
	// instead.  NB: it requires that the function was built with
	// debug information.)
	Pos() token.Pos
}

// An Instruction is an SSA instruction that computes a new Value or
// has some effect.
//
// An Instruction that defines a value (e.g. BinOp) also implements
// the Value interface; an Instruction that only has an effect (e.g. Store)
// does not.
type Instruction interface {
	// String returns the disassembled form of this value.
	//
	// Examples of Instructions that are Values:
	//       "x + y"     (BinOp)
	//       "len([])"   (Call)
	// Note that the name of the Value is not printed.
	//
	// Examples of Instructions that are not Values:
	//       "return x"  (Return)
	//       "*y = x"    (Store)
	//
	// (The separation Value.Name() from Value.String() is useful
	// for some analyses which distinguish the operation from the
	// value it defines, e.g., 'y = local int' is both an allocation
	// of memory 'local int' and a definition of a pointer y.)
	String() string

	// Parent returns the function to which this instruction
	// belongs.
	Parent() *Function

	// Block returns the basic block to which this instruction
	// belongs.
	Block() *BasicBlock

	// setBlock sets the basic block to which this instruction belongs.
	setBlock(*BasicBlock)

	// Operands returns the operands of this instruction: the
	// set of Values it references.
	//
	// Specifically, it appends their addresses to rands, a
	// user-provided slice, and returns the resulting slice,
	// permitting avoidance of memory allocation.
	//
	// The operands are appended in undefined order, but the order
	// is consistent for a given Instruction; the addresses are
	// always non-nil but may point to a nil Value.  Clients may
	// store through the pointers, e.g. to effect a value
	// renaming.
	//
	// Value.Referrers is a subset of the inverse of this
	// relation.  (Referrers are not tracked for all types of
	// Values.)
	Operands(rands []*Value) []*Value

	// Pos returns the location of the AST token most closely
	// associated with the operation that gave rise to this
	// instruction, or token.NoPos if it was not explicit in the
	// source.
	//
	// For each ast.Node type, a particular token is designated as
	// the closest location for the expression, e.g. the Go token
	// for an *ast.GoStmt.  This permits a compact but approximate
	// mapping from Instructions to source positions for use in
	// diagnostic messages, for example.
	//
	// (Do not use this position to determine which Instruction
	// corresponds to an ast.Expr; see the notes for Value.Pos.
	// This position may be used to determine which non-Value
	// Instruction corresponds to some ast.Stmts, but not all: If
	// and Jump instructions have no Pos(), for example.)
	Pos() token.Pos
}

// A Node is a node in the SSA value graph.  Every concrete type that
// implements Node is also either a Value, an Instruction, or both.
//
// Node contains the methods common to Value and Instruction, plus the
// Operands and Referrers methods generalized to return nil for
// non-Instructions and non-Values, respectively.
//
// Node is provided to simplify SSA graph algorithms.  Clients should
// use the more specific and informative Value or Instruction
// interfaces where appropriate.
type Node interface {
	// Common methods:
	String() string
	Pos() token.Pos
	Parent() *Function

	// Partial methods:
	Operands(rands []*Value) []*Value // nil for non-Instructions
	Referrers() *[]Instruction        // nil for non-Values
}

// Function represents the parameters, results, and code of a function
// or method.
//
// If Blocks is nil, this indicates an external function for which no
// Go source code is available.  In this case, FreeVars, Locals, and
// Params are nil too.  Clients performing whole-program analysis must
// handle external functions specially.
//
// Blocks contains the function's control-flow graph (CFG).
// Blocks[0] is the function entry point; block order is not otherwise
// semantically significant, though it may affect the readability of
// the disassembly.
// To iterate over the blocks in dominance order, use DomPreorder().
//
// Recover is an optional second entry point to which control resumes
// after a recovered panic.  The Recover block may contain only a return
// statement, preceded by a load of the function's named return
// parameters, if any.
//
// A nested function (Parent()!=nil) that refers to one or more
// lexically enclosing local variables ("free variables") has FreeVars.
// Such functions cannot be called directly but require a
// value created by MakeClosure which, via its Bindings, supplies
// values for these parameters.
//
// If the function is a method (Signature.Recv() != nil) then the first
// element of Params is the receiver parameter.
//
// A Go package may declare many functions called "init".
// For each one, Object().Name() returns "init" but Name() returns
// "init#1", etc, in declaration order.
//
// Pos() returns the declaring ast.FuncLit.Type.Func or the position
// of the ast.FuncDecl.Name, if the function was explicit in the
// source. Synthetic wrappers, for which Synthetic != "", may share
// the same position as the function they wrap.
// Syntax.Pos() always returns the position of the declaring "func" token.
//
// When the operand of a range statement is an iterator function,
// the loop body is transformed into a synthetic anonymous function
// that is passed as the yield argument in a call to the iterator.
// In that case, Function.Pos is the position of the "range" token,
// and Function.Syntax is the ast.RangeStmt.
//
// Synthetic functions, for which Synthetic != "", are functions
// that do not appear in the source AST. These include:
//   - method wrappers,
//   - thunks,
//   - bound functions,
//   - empty functions built from loaded type information,
//   - yield functions created from range-over-func loops,
//   - package init functions, and
//   - instantiations of generic functions.
//
// Synthetic wrapper functions may share the same position
// as the function they wrap.
//
// Type() returns the function's Signature.
//
// A generic function is a function or method that has uninstantiated type
// parameters (TypeParams() != nil). Consider a hypothetical generic
// method, (*Map[K,V]).Get. It may be instantiated with all
// non-parameterized types as (*Map[string,int]).Get or with
// parameterized types as (*Map[string,U]).Get, where U is a type parameter.
// In both instantiations, Origin() refers to the instantiated generic
// method, (*Map[K,V]).Get, TypeParams() refers to the parameters [K,V] of
// the generic method. TypeArgs() refers to [string,U] or [string,int],
// respectively, and is nil in the generic method.
type Function struct {
	name      string
	object    *types.Func // symbol for declared function (nil for FuncLit or synthetic init)
	method    *selection  // info about provenance of synthetic methods; thunk => non-nil
	Signature *types.Signature
	pos       token.Pos

	// source information
	Synthetic string      // provenance of synthetic function; "" for true source functions
	syntax    ast.Node    // *ast.Func{Decl,Lit}, if from syntax (incl. generic instances) or (*ast.RangeStmt if a yield function)
	info      *types.Info // type annotations (if syntax != nil)
	goversion string      // Go version of syntax (NB: init is special)

	parent *Function // enclosing function if anon; nil if global
	Pkg    *Package  // enclosing package; nil for shared funcs (wrappers and error.Error)
	Prog   *Program  // enclosing program

	buildshared *task // wait for a shared function to be done building (may be nil if <=1 builder ever needs to wait)

	// These fields are populated only when the function body is built:

	Params    []*Parameter  // function parameters; for methods, includes receiver
	FreeVars  []*FreeVar    // free variables whose values must be supplied by closure
	Locals    []*Alloc      // frame-allocated variables of this function
	Blocks    []*BasicBlock // basic blocks of the function; nil => external
	Recover   *BasicBlock   // optional; control transfers here after recovered panic
	AnonFuncs []*Function   // anonymous functions (from FuncLit,RangeStmt) directly beneath this one
	referrers []Instruction // referring instructions (iff Parent() != nil)
	anonIdx   int32         // position of a nested function in parent's AnonFuncs. fn.Parent()!=nil => fn.Parent().AnonFunc[fn.anonIdx] == fn.

	typeparams     *types.TypeParamList // type parameters of this function. typeparams.Len() > 0 => generic or instance of generic function
	typeargs       []types.Type         // type arguments that instantiated typeparams. len(typeargs) > 0 => instance of generic function
	topLevelOrigin *Function            // the origin function if this is an instance of a source function. nil if Parent()!=nil.
	generic        *generic             // instances of this function, if generic

	// The following fields are cleared after building.
	build        buildFunc                // algorithm to build function body (nil => built)
	currentBlock *BasicBlock              // where to emit code
	vars         map[*types.Var]Value     // addresses of local variables
	results      []*Alloc                 // result allocations of the current function
	returnVars   []*types.Var             // variables for a return statement. Either results or for range-over-func a parent's results
	targets      *targets                 // linked stack of branch targets
	lblocks      map[*types.Label]*lblock // labelled blocks
	subst        *subster                 // type parameter substitutions (if non-nil)
	jump         *types.Var               // synthetic variable for the yield state (non-nil => range-over-func)
	deferstack   *types.Var               // synthetic variable holding enclosing ssa:deferstack()
	source       *Function                // nearest enclosing source function
	exits        []*exit                  // exits of the function that need to be resolved
	uniq         int64                    // source of unique ints within the source tree while building
}

// BasicBlock represents an SSA basic block.
//
// The final element of Instrs is always an explicit transfer of
// control (If, Jump, Return, or Panic).
//
// A block may contain no Instructions only if it is unreachable,
// i.e., Preds is nil.  Empty blocks are typically pruned.
//
// BasicBlocks and their Preds/Succs relation form a (possibly cyclic)
// graph independent of the SSA Value graph: the control-flow graph or
// CFG.  It is illegal for multiple edges to exist between the same
// pair of blocks.
//
// Each BasicBlock is also a node in the dominator tree of the CFG.
// The tree may be navigated using Idom()/Dominees() and queried using
// Dominates().
//
// The order of Preds and Succs is significant (to Phi and If
// instructions, respectively).
type BasicBlock struct {
	Index        int            // index of this block within Parent().Blocks
	Comment      string         // optional label; no semantic significance
	parent       *Function      // parent function
	Instrs       []Instruction  // instructions in order
	Preds, Succs []*BasicBlock  // predecessors and successors
	succs2       [2]*BasicBlock // initial space for Succs
	dom          domInfo        // dominator tree info
	gaps         int            // number of nil Instrs (transient)
	rundefers    int            // number of rundefers (transient)
}

// Pure values ----------------------------------------

// A FreeVar represents a free variable of the function to which it
// belongs.
//
// FreeVars are used to implement anonymous functions, whose free
// variables are lexically captured in a closure formed by
// MakeClosure.  The value of such a free var is an Alloc or another
// FreeVar and is considered a potentially escaping heap address, with
// pointer type.
//
// FreeVars are also used to implement bound method closures.  Such a
// free var represents the receiver value and may be of any type that
// has concrete methods.
//
// Pos() returns the position of the value that was captured, which
// belongs to an enclosing function.
type FreeVar struct {
	name      string
	typ       types.Type
	pos       token.Pos
	parent    *Function
	referrers []Instruction

	// Transiently needed during building.
	outer Value // the Value captured from the enclosing context.
}

// A Parameter represents an input parameter of a function.
type Parameter struct {
	name      string
	object    *types.Var // non-nil
	typ       types.Type
	parent    *Function
	referrers []Instruction
}

// A Const represents a value known at build time.
//
// Consts include true constants of boolean, numeric, and string types, as
// defined by the Go spec; these are represented by a non-nil Value field.
//
// Consts also include the "zero" value of any type, of which the nil values
// of various pointer-like types are a special case; these are represented
// by a nil Value field.
//
// Pos() returns token.NoPos.
//
// Example printed forms:
//
//		42:int
//		"hello":untyped string
//		3+4i:MyComplex
//		nil:*int
//		nil:[]string
//		[3]int{}:[3]int
//		struct{x string}{}:struct{x string}
//	    0:interface{int|int64}
//	    nil:interface{bool|int} // no go/constant representation
type Const struct {
	typ   types.Type
	Value constant.Value
}

// A Global is a named Value holding the address of a package-level
// variable.
//
// Pos() returns the position of the ast.ValueSpec.Names[*]
// identifier.
type Global struct {
	name   string
	object types.Object // a *types.Var; may be nil for synthetics e.g. init$guard
	typ    types.Type
	pos    token.Pos

	Pkg *Package
}

// A Builtin represents a specific use of a built-in function, e.g. len.
//
// Builtins are immutable values.  Builtins do not have addresses.
// Builtins can only appear in CallCommon.Value.
//
// Name() indicates the function: one of the built-in functions from the
// Go spec (excluding "make" and "new") or one of these ssa-defined
// intrinsics:
//
//	// wrapnilchk returns ptr if non-nil, panics otherwise.
//	// (For use in indirection wrappers.)
//	func ssa:wrapnilchk(ptr *T, recvType, methodName string) *T
//
// Object() returns a *types.Builtin for built-ins defined by the spec,
// nil for others.
//
// Type() returns a *types.Signature representing the effective
// signature of the built-in for this call.
type Builtin struct {
	name string
	sig  *types.Signature
}

// Value-defining instructions  ----------------------------------------

// The Alloc instruction reserves space for a variable of the given type,
// zero-initializes it, and yields its address.
//
// Alloc values are always addresses, and have pointer types, so the
// type of the allocated variable is actually
// Type().Underlying().(*types.Pointer).Elem().
//
// If Heap is false, Alloc zero-initializes the same local variable in
// the call frame and returns its address; in this case the Alloc must
// be present in Function.Locals. We call this a "local" alloc.
//
// If Heap is true, Alloc allocates a new zero-initialized variable
// each time the instruction is executed. We call this a "new" alloc.
//
// When Alloc is applied to a channel, map or slice type, it returns
// the address of an uninitialized (nil) reference of that kind; store
// the result of MakeSlice, MakeMap or MakeChan in that location to
// instantiate these types.
//
// Pos() returns the ast.CompositeLit.Lbrace for a composite literal,
// or the ast.CallExpr.Rparen for a call to new() or for a call that
// allocates a varargs slice.
//
// Example printed form:
//
//	t0 = local int
//	t1 = new int
type Alloc struct {
	register
	Comment string
	Heap    bool
	index   int // dense numbering; for lifting
}

// The Phi instruction represents an SSA φ-node, which combines values
// that differ across incoming control-flow edges and yields a new
// value.  Within a block, all φ-nodes must appear before all non-φ
// nodes.
//
// Pos() returns the position of the && or || for short-circuit
// control-flow joins, or that of the *Alloc for φ-nodes inserted
// during SSA renaming.
//
// Example printed form:
//
//	t2 = phi [0: t0, 1: t1]
type Phi struct {
	register
	Comment string  // a hint as to its purpose
	Edges   []Value // Edges[i] is value for Block().Preds[i]
}

// The Call instruction represents a function or method call.
//
// The Call instruction yields the function result if there is exactly
// one.  Otherwise it returns a tuple, the components of which are
// accessed via Extract.
//
// See CallCommon for generic function call documentation.
//
// Pos() returns the ast.CallExpr.Lparen, if explicit in the source.
//
// Example printed form:
//
//	t2 = println(t0, t1)
//	t4 = t3()
//	t7 = invoke t5.Println(...t6)
type Call struct {
	register
	Call CallCommon
}

// The BinOp instruction yields the result of binary operation X Op Y.
//
// Pos() returns the ast.BinaryExpr.OpPos, if explicit in the source.
//
// Example printed form:
//
//	t1 = t0 + 1:int
type BinOp struct {
	register
	// One of:
	// ADD SUB MUL QUO REM          + - * / %
	// AND OR XOR SHL SHR AND_NOT   & | ^ << >> &^
	// EQL NEQ LSS LEQ GTR GEQ      == != < <= < >=
	Op   token.Token
	X, Y Value
}

// The UnOp instruction yields the result of Op X.
// ARROW is channel receive.
// MUL is pointer indirection (load).
// XOR is bitwise complement.
// SUB is negation.
// NOT is logical negation.
//
// If CommaOk and Op=ARROW, the result is a 2-tuple of the value above
// and a boolean indicating the success of the receive.  The
// components of the tuple are accessed using Extract.
//
// Pos() returns the ast.UnaryExpr.OpPos, if explicit in the source.
// For receive operations (ARROW) implicit in ranging over a channel,
// Pos() returns the ast.RangeStmt.For.
// For implicit memory loads (STAR), Pos() returns the position of the
// most closely associated source-level construct; the details are not
// specified.
//
// Example printed form:
//
//	t0 = *x
//	t2 = <-t1,ok
type UnOp struct {
	register
	Op      token.Token // One of: NOT SUB ARROW MUL XOR ! - <- * ^
	X       Value
	CommaOk bool
}

// The ChangeType instruction applies to X a value-preserving type
// change to Type().
//
// Type changes are permitted:
//   - between a named type and its underlying type.
//   - between two named types of the same underlying type.
//   - between (possibly named) pointers to identical base types.
//   - from a bidirectional channel to a read- or write-channel,
//     optionally adding/removing a name.
//   - between a type (t) and an instance of the type (tσ), i.e.
//     Type() == σ(X.Type()) (or X.Type()== σ(Type())) where
//     σ is the type substitution of Parent().TypeParams by
//     Parent().TypeArgs.
//
// This operation cannot fail dynamically.
//
// Type changes may to be to or from a type parameter (or both). All
// types in the type set of X.Type() have a value-preserving type
// change to all types in the type set of Type().
//
// Pos() returns the ast.CallExpr.Lparen, if the instruction arose
// from an explicit conversion in the source.
//
// Example printed form:
//
//	t1 = changetype *int <- IntPtr (t0)
type ChangeType struct {
	register
	X Value
}

// The Convert instruction yields the conversion of value X to type
// Type().  One or both of those types is basic (but possibly named).
//
// A conversion may change the value and representation of its operand.
// Conversions are permitted:
//   - between real numeric types.
//   - between complex numeric types.
//   - between string and []byte or []rune.
//   - between pointers and unsafe.Pointer.
//   - between unsafe.Pointer and uintptr.
//   - from (Unicode) integer to (UTF-8) string.
//
// A conversion may imply a type name change also.
//
// Conversions may to be to or from a type parameter. All types in
// the type set of X.Type() can be converted to all types in the type
// set of Type().
//
// This operation cannot fail dynamically.
//
// Conversions of untyped string/number/bool constants to a specific
// representation are eliminated during SSA construction.
//
// Pos() returns the ast.CallExpr.Lparen, if the instruction arose
// from an explicit conversion in the source.
//
// Example printed form:
//
//	t1 = convert []byte <- string (t0)
type Convert struct {
	register
	X Value
}

// The MultiConvert instruction yields the conversion of value X to type
// Type(). Either X.Type() or Type() must be a type parameter. Each
// type in the type set of X.Type() can be converted to each type in the
// type set of Type().
//
// See the documentation for Convert, ChangeType, and SliceToArrayPointer
// for the conversions that are permitted. Additionally conversions of
// slices to arrays are permitted.
//
// This operation can fail dynamically (see SliceToArrayPointer).
//
// Pos() returns the ast.CallExpr.Lparen, if the instruction arose
// from an explicit conversion in the source.
//
// Example printed form:
//
//	t1 = multiconvert D <- S (t0) [*[2]rune <- []rune | string <- []rune]
type MultiConvert struct {
	register
	X    Value
	from []*types.Term
	to   []*types.Term
}

// ChangeInterface constructs a value of one interface type from a
// value of another interface type known to be assignable to it.
// This operation cannot fail.
//
// Pos() returns the ast.CallExpr.Lparen if the instruction arose from
// an explicit T(e) conversion; the ast.TypeAssertExpr.Lparen if the
// instruction arose from an explicit e.(T) operation; or token.NoPos
// otherwise.
//
// Example printed form:
//
//	t1 = change interface interface{} <- I (t0)
type ChangeInterface struct {
	register
	X Value
}

// The SliceToArrayPointer instruction yields the conversion of slice X to
// array pointer.
//
// Pos() returns the ast.CallExpr.Lparen, if the instruction arose
// from an explicit conversion in the source.
//
// Conversion may to be to or from a type parameter. All types in
// the type set of X.Type() must be a slice types that can be converted to
// all types in the type set of Type() which must all be pointer to array
// types.
//
// This operation can fail dynamically if the length of the slice is less
// than the length of the array.
//
// Example printed form:
//
//	t1 = slice to array pointer *[4]byte <- []byte (t0)
type SliceToArrayPointer struct {
	register
	X Value
}

// MakeInterface constructs an instance of an interface type from a
// value of a concrete type.
//
// Use Program.MethodSets.MethodSet(X.Type()) to find the method-set
// of X, and Program.MethodValue(m) to find the implementation of a method.
//
// To construct the zero value of an interface type T, use:
//
//	NewConst(constant.MakeNil(), T, pos)
//
// Pos() returns the ast.CallExpr.Lparen, if the instruction arose
// from an explicit conversion in the source.
//
// Example printed form:
//
//	t1 = make interface{} <- int (42:int)
//	t2 = make Stringer <- t0
type MakeInterface struct {
	register
	X Value
}

// The MakeClosure instruction yields a closure value whose code is
// Fn and whose free variables' values are supplied by Bindings.
//
// Type() returns a (possibly named) *types.Signature.
//
// Pos() returns the ast.FuncLit.Type.Func for a function literal
// closure or the ast.SelectorExpr.Sel for a bound method closure.
//
// Example printed form:
//
//	t0 = make closure anon@1.2 [x y z]
//	t1 = make closure bound$(main.I).add [i]
type MakeClosure struct {
	register
	Fn       Value   // always a *Function
	Bindings []Value // values for each free variable in Fn.FreeVars
}

// The MakeMap instruction creates a new hash-table-based map object
// and yields a value of kind map.
//
// Type() returns a (possibly named) *types.Map.
//
// Pos() returns the ast.CallExpr.Lparen, if created by make(map), or
// the ast.CompositeLit.Lbrack if created by a literal.
//
// Example printed form:
//
//	t1 = make map[string]int t0
//	t1 = make StringIntMap t0
type MakeMap struct {
	register
	Reserve Value // initial space reservation; nil => default
}

// The MakeChan instruction creates a new channel object and yields a
// value of kind chan.
//
// Type() returns a (possibly named) *types.Chan.
//
// Pos() returns the ast.CallExpr.Lparen for the make(chan) that
// created it.
//
// Example printed form:
//
//	t0 = make chan int 0
//	t0 = make IntChan 0
type MakeChan struct {
	register
	Size Value // int; size of buffer; zero => synchronous.
}

// The MakeSlice instruction yields a slice of length Len backed by a
// newly allocated array of length Cap.
//
// Both Len and Cap must be non-nil Values of integer type.
//
// (Alloc(types.Array) followed by Slice will not suffice because
// Alloc can only create arrays of constant length.)
//
// Type() returns a (possibly named) *types.Slice.
//
// Pos() returns the ast.CallExpr.Lparen for the make([]T) that
// created it.
//
// Example printed form:
//
//	t1 = make []string 1:int t0
//	t1 = make StringSlice 1:int t0
type MakeSlice struct {
	register
	Len Value
	Cap Value
}

// The Slice instruction yields a slice of an existing string, slice
// or *array X between optional integer bounds Low and High.
//
// Dynamically, this instruction panics if X evaluates to a nil *array
// pointer.
//
// Type() returns string if the type of X was string, otherwise a
// *types.Slice with the same element type as X.
//
// Pos() returns the ast.SliceExpr.Lbrack if created by a x[:] slice
// operation, the ast.CompositeLit.Lbrace if created by a literal, or
// NoPos if not explicit in the source (e.g. a variadic argument slice).
//
// Example printed form:
//
//	t1 = slice t0[1:]
type Slice struct {
	register
	X              Value // slice, string, or *array
	Low, High, Max Value // each may be nil
}

// The FieldAddr instruction yields the address of Field of *struct X.
//
// The field is identified by its index within the field list of the
// struct type of X.
//
// Dynamically, this instruction panics if X evaluates to a nil
// pointer.
//
// Type() returns a (possibly named) *types.Pointer.
//
// Pos() returns the position of the ast.SelectorExpr.Sel for the
// field, if explicit in the source. For implicit selections, returns
// the position of the inducing explicit selection. If produced for a
// struct literal S{f: e}, it returns the position of the colon; for
// S{e} it returns the start of expression e.
//
// Example printed form:
//
//	t1 = &t0.name [#1]
type FieldAddr struct {
	register
	X     Value // *struct
	Field int   // index into CoreType(CoreType(X.Type()).(*types.Pointer).Elem()).(*types.Struct).Fields
}

// The Field instruction yields the Field of struct X.
//
// The field is identified by its index within the field list of the
// struct type of X; by using numeric indices we avoid ambiguity of
// package-local identifiers and permit compact representations.
//
// Pos() returns the position of the ast.SelectorExpr.Sel for the
// field, if explicit in the source. For implicit selections, returns
// the position of the inducing explicit selection.

// Example printed form:
//
//	t1 = t0.name [#1]
type Field struct {
	register
	X     Value // struct
	Field int   // index into CoreType(X.Type()).(*types.Struct).Fields
}

// The IndexAddr instruction yields the address of the element at
// index Index of collection X.  Index is an integer expression.
//
// The elements of maps and strings are not addressable; use Lookup (map),
// Index (string), or MapUpdate instead.
//
// Dynamically, this instruction panics if X evaluates to a nil *array
// pointer.
//
// Type() returns a (possibly named) *types.Pointer.
//
// Pos() returns the ast.IndexExpr.Lbrack for the index operation, if
// explicit in the source.
//
// Example printed form:
//
//	t2 = &t0[t1]
type IndexAddr struct {
	register
	X     Value // *array, slice or type parameter with types array, *array, or slice.
	Index Value // numeric index
}

// The Index instruction yields element Index of collection X, an array,
// string or type parameter containing an array, a string, a pointer to an,
// array or a slice.
//
// Pos() returns the ast.IndexExpr.Lbrack for the index operation, if
// explicit in the source.
//
// Example printed form:
//
//	t2 = t0[t1]
type Index struct {
	register
	X     Value // array, string or type parameter with types array, *array, slice, or string.
	Index Value // integer index
}

// The Lookup instruction yields element Index of collection map X.
// Index is the appropriate key type.
//
// If CommaOk, the result is a 2-tuple of the value above and a
// boolean indicating the result of a map membership test for the key.
// The components of the tuple are accessed using Extract.
//
// Pos() returns the ast.IndexExpr.Lbrack, if explicit in the source.
//
// Example printed form:
//
//	t2 = t0[t1]
//	t5 = t3[t4],ok
type Lookup struct {
	register
	X       Value // map
	Index   Value // key-typed index
	CommaOk bool  // return a value,ok pair
}

// SelectState is a helper for Select.
// It represents one goal state and its corresponding communication.
type SelectState struct {
	Dir       types.ChanDir // direction of case (SendOnly or RecvOnly)
	Chan      Value         // channel to use (for send or receive)
	Send      Value         // value to send (for send)
	Pos       token.Pos     // position of token.ARROW
	DebugNode ast.Node      // ast.SendStmt or ast.UnaryExpr(<-) [debug mode]
}

// The Select instruction tests whether (or blocks until) one
// of the specified sent or received states is entered.
//
// Let n be the number of States for which Dir==RECV and T_i (0<=i<n)
// be the element type of each such state's Chan.
// Select returns an n+2-tuple
//
//	(index int, recvOk bool, r_0 T_0, ... r_n-1 T_n-1)
//
// The tuple's components, described below, must be accessed via the
// Extract instruction.
//
// If Blocking, select waits until exactly one state holds, i.e. a
// channel becomes ready for the designated operation of sending or
// receiving; select chooses one among the ready states
// pseudorandomly, performs the send or receive operation, and sets
// 'index' to the index of the chosen channel.
//
// If !Blocking, select doesn't block if no states hold; instead it
// returns immediately with index equal to -1.
//
// If the chosen channel was used for a receive, the r_i component is
// set to the received value, where i is the index of that state among
// all n receive states; otherwise r_i has the zero value of type T_i.
// Note that the receive index i is not the same as the state
// index index.
//
// The second component of the triple, recvOk, is a boolean whose value
// is true iff the selected operation was a receive and the receive
// successfully yielded a value.
//
// Pos() returns the ast.SelectStmt.Select.
//
// Example printed form:
//
//	t3 = select nonblocking [<-t0, t1<-t2]
//	t4 = select blocking []
type Select struct {
	register
	States   []*SelectState
	Blocking bool
}

// The Range instruction yields an iterator over the domain and range
// of X, which must be a string or map.
//
// Elements are accessed via Next.
//
// Type() returns an opaque and degenerate "rangeIter" type.
//
// Pos() returns the ast.RangeStmt.For.
//
// Example printed form:
//
//	t0 = range "hello":string
type Range struct {
	register
	X Value // string or map
}

// The Next instruction reads and advances the (map or string)
// iterator Iter and returns a 3-tuple value (ok, k, v).  If the
// iterator is not exhausted, ok is true and k and v are the next
// elements of the domain and range, respectively.  Otherwise ok is
// false and k and v are undefined.
//
// Components of the tuple are accessed using Extract.
//
// The IsString field distinguishes iterators over strings from those
// over maps, as the Type() alone is insufficient: consider
// map[int]rune.
//
// Type() returns a *types.Tuple for the triple (ok, k, v).
// The types of k and/or v may be types.Invalid.
//
// Example printed form:
//
//	t1 = next t0
type Next struct {
	register
	Iter     Value
	IsString bool // true => string iterator; false => map iterator.
}

// The TypeAssert instruction tests whether interface value X has type
// AssertedType.
//
// If !CommaOk, on success it returns v, the result of the conversion
// (defined below); on failure it panics.
//
// If CommaOk: on success it returns a pair (v, true) where v is the
// result of the conversion; on failure it returns (z, false) where z
// is AssertedType's zero value.  The components of the pair must be
// accessed using the Extract instruction.
//
// If Underlying: tests whether interface value X has the underlying
// type AssertedType.
//
// If AssertedType is a concrete type, TypeAssert checks whether the
// dynamic type in interface X is equal to it, and if so, the result
// of the conversion is a copy of the value in the interface.
//
// If AssertedType is an interface, TypeAssert checks whether the
// dynamic type of the interface is assignable to it, and if so, the
// result of the conversion is a copy of the interface value X.
// If AssertedType is a superinterface of X.Type(), the operation will
// fail iff the operand is nil.  (Contrast with ChangeInterface, which
// performs no nil-check.)
//
// Type() reflects the actual type of the result, possibly a
// 2-types.Tuple; AssertedType is the asserted type.
//
// Depending on the TypeAssert's purpose, Pos may return:
//   - the ast.CallExpr.Lparen of an explicit T(e) conversion;
//   - the ast.TypeAssertExpr.Lparen of an explicit e.(T) operation;
//   - the ast.CaseClause.Case of a case of a type-switch statement;
//   - the Ident(m).NamePos of an interface method value i.m
//     (for which TypeAssert may be used to effect the nil check).
//
// Example printed form:
//
//	t1 = typeassert t0.(int)
//	t3 = typeassert,ok t2.(T)
type TypeAssert struct {
	register
	X            Value
	AssertedType types.Type
	CommaOk      bool
}

// The Extract instruction yields component Index of Tuple.
//
// This is used to access the results of instructions with multiple
// return values, such as Call, TypeAssert, Next, UnOp(ARROW) and
// IndexExpr(Map).
//
// Example printed form:
//
//	t1 = extract t0 #1
type Extract struct {
	register
	Tuple Value
	Index int
}

// Instructions executed for effect.  They do not yield a value. --------------------

// The Jump instruction transfers control to the sole successor of its
// owning block.
//
// A Jump must be the last instruction of its containing BasicBlock.
//
// Pos() returns NoPos.
//
// Example printed form:
//
//	jump done
type Jump struct {
	anInstruction
}

// The If instruction transfers control to one of the two successors
// of its owning block, depending on the boolean Cond: the first if
// true, the second if false.
//
// An If instruction must be the last instruction of its containing
// BasicBlock.
//
// Pos() returns NoPos.
//
// Example printed form:
//
//	if t0 goto done else body
type If struct {
	anInstruction
	Cond Value
}

// The Return instruction returns values and control back to the calling
// function.
//
// len(Results) is always equal to the number of results in the
// function's signature.
//
// If len(Results) > 1, Return returns a tuple value with the specified
// components which the caller must access using Extract instructions.
//
// There is no instruction to return a ready-made tuple like those
// returned by a "value,ok"-mode TypeAssert, Lookup or UnOp(ARROW) or
// a tail-call to a function with multiple result parameters.
//
// Return must be the last instruction of its containing BasicBlock.
// Such a block has no successors.
//
// Pos() returns the ast.ReturnStmt.Return, if explicit in the source.
//
// Example printed form:
//
//	return
//	return nil:I, 2:int
type Return struct {
	anInstruction
	Results []Value
	pos     token.Pos
}

// The RunDefers instruction pops and invokes the entire stack of
// procedure calls pushed by Defer instructions in this function.
//
// It is legal to encounter multiple 'rundefers' instructions in a
// single control-flow path through a function; this is useful in
// the combined init() function, for example.
//
// Pos() returns NoPos.
//
// Example printed form:
//
//	rundefers
type RunDefers struct {
	anInstruction
}

// The Panic instruction initiates a panic with value X.
//
// A Panic instruction must be the last instruction of its containing
// BasicBlock, which must have no successors.
//
// NB: 'go panic(x)' and 'defer panic(x)' do not use this instruction;
// they are treated as calls to a built-in function.
//
// Pos() returns the ast.CallExpr.Lparen if this panic was explicit
// in the source.
//
// Example printed form:
//
//	panic t0
type Panic struct {
	anInstruction
	X   Value // an interface{}
	pos token.Pos
}

// The Go instruction creates a new goroutine and calls the specified
// function within it.
//
// See CallCommon for generic function call documentation.
//
// Pos() returns the ast.GoStmt.Go.
//
// Example printed form:
//
//	go println(t0, t1)
//	go t3()
//	go invoke t5.Println(...t6)
type Go struct {
	anInstruction
	Call CallCommon
	pos  token.Pos
}

// The Defer instruction pushes the specified call onto a stack of
// functions to be called by a RunDefers instruction or by a panic.
//
// If DeferStack != nil, it indicates the defer list that the defer is
// added to. Defer list values come from the Builtin function
// ssa:deferstack. Calls to ssa:deferstack() produces the defer stack
// of the current function frame. DeferStack allows for deferring into an
// alternative function stack than the current function.
//
// See CallCommon for generic function call documentation.
//
// Pos() returns the ast.DeferStmt.Defer.
//
// Example printed form:
//
//	defer println(t0, t1)
//	defer t3()
//	defer invoke t5.Println(...t6)
type Defer struct {
	anInstruction
	Call       CallCommon
	DeferStack Value // stack of deferred functions (from ssa:deferstack() intrinsic) onto which this function is pushed
	pos        token.Pos
}

// The Send instruction sends X on channel Chan.
//
// Pos() returns the ast.SendStmt.Arrow, if explicit in the source.
//
// Example printed form:
//
//	send t0 <- t1
type Send struct {
	anInstruction
	Chan, X Value
	pos     token.Pos
}

// The Store instruction stores Val at address Addr.
// Stores can be of arbitrary types.
//
// Pos() returns the position of the source-level construct most closely
// associated with the memory store operation.
// Since implicit memory stores are numerous and varied and depend upon
// implementation choices, the details are not specified.
//
// Example printed form:
//
//	*x = y
type Store struct {
	anInstruction
	Addr Value
	Val  Value
	pos  token.Pos
}

// The MapUpdate instruction updates the association of Map[Key] to
// Value.
//
// Pos() returns the ast.KeyValueExpr.Colon or ast.IndexExpr.Lbrack,
// if explicit in the source.
//
// Example printed form:
//
//	t0[t1] = t2
type MapUpdate struct {
	anInstruction
	Map   Value
	Key   Value
	Value Value
	pos   token.Pos
}

// A DebugRef instruction maps a source-level expression Expr to the
// SSA value X that represents the value (!IsAddr) or address (IsAddr)
// of that expression.
//
// DebugRef is a pseudo-instruction: it has no dynamic effect.
//
// Pos() returns Expr.Pos(), the start position of the source-level
// expression.  This is not the same as the "designated" token as
// documented at Value.Pos(). e.g. CallExpr.Pos() does not return the
// position of the ("designated") Lparen token.
//
// If Expr is an *ast.Ident denoting a var or func, Object() returns
// the object; though this information can be obtained from the type
// checker, including it here greatly facilitates debugging.
// For non-Ident expressions, Object() returns nil.
//
// DebugRefs are generated only for functions built with debugging
// enabled; see Package.SetDebugMode() and the GlobalDebug builder
// mode flag.
//
// DebugRefs are not emitted for ast.Idents referring to constants or
// predeclared identifiers, since they are trivial and numerous.
// Nor are they emitted for ast.ParenExprs.
//
// (By representing these as instructions, rather than out-of-band,
// consistency is maintained during transformation passes by the
// ordinary SSA renaming machinery.)
//
// Example printed form:
//
//	; *ast.CallExpr @ 102:9 is t5
//	; var x float64 @ 109:72 is x
//	; address of *ast.CompositeLit @ 216:10 is t0
type DebugRef struct {
	// TODO(generics): Reconsider what DebugRefs are for generics.
	anInstruction
	Expr   ast.Expr     // the referring expression (never *ast.ParenExpr)
	object types.Object // the identity of the source var/func
	IsAddr bool         // Expr is addressable and X is the address it denotes
	X      Value        // the value or address of Expr
}

// Embeddable mix-ins and helpers for common parts of other structs. -----------

// register is a mix-in embedded by all SSA values that are also
// instructions, i.e. virtual registers, and provides a uniform
// implementation of most of the Value interface: Value.Name() is a
// numbered register (e.g. "t0"); the other methods are field accessors.
//
// Temporary names are automatically assigned to each register on
// completion of building a function in SSA form.
//
// Clients must not assume that the 'id' value (and the Name() derived
// from it) is unique within a function.  As always in this API,
// semantics are determined only by identity; names exist only to
// facilitate debugging.
type register struct {
	anInstruction
	num       int        // "name" of virtual register, e.g. "t0".  Not guaranteed unique.
	typ       types.Type // type of virtual register
	pos       token.Pos  // position of source expression, or NoPos
	referrers []Instruction
}

// anInstruction is a mix-in embedded by all Instructions.
// It provides the implementations of the Block and setBlock methods.
type anInstruction struct {
	block *BasicBlock // the basic block of this instruction
}

// CallCommon is contained by Go, Defer and Call to hold the
// common parts of a function or method call.
//
// Each CallCommon exists in one of two modes, function call and
// interface method invocation, or "call" and "invoke" for short.
//
// 1. "call" mode: when Method is nil (!IsInvoke), a CallCommon
// represents an ordinary function call of the value in Value,
// which may be a *Builtin, a *Function or any other value of kind
// 'func'.
//
// Value may be one of:
//
//	(a) a *Function, indicating a statically dispatched call
//	    to a package-level function, an anonymous function, or
//	    a method of a named type.
//	(b) a *MakeClosure, indicating an immediately applied
//	    function literal with free variables.
//	(c) a *Builtin, indicating a statically dispatched call
//	    to a built-in function.
//	(d) any other value, indicating a dynamically dispatched
//	    function call.
//
// StaticCallee returns the identity of the callee in cases
// (a) and (b), nil otherwise.
//
// Args contains the arguments to the call.  If Value is a method,
// Args[0] contains the receiver parameter.
//
// Example printed form:
//
//	t2 = println(t0, t1)
//	go t3()
//	defer t5(...t6)
//
// 2. "invoke" mode: when Method is non-nil (IsInvoke), a CallCommon
// represents a dynamically dispatched call to an interface method.
// In this mode, Value is the interface value and Method is the
// interface's abstract method. The interface value may be a type
// parameter. Note: an interface method may be shared by multiple
// interfaces due to embedding; Value.Type() provides the specific
// interface used for this call.
//
// Value is implicitly supplied to the concrete method implementation
// as the receiver parameter; in other words, Args[0] holds not the
// receiver but the first true argument.
//
// Example printed form:
//
//	t1 = invoke t0.String()
//	go invoke t3.Run(t2)
//	defer invoke t4.Handle(...t5)
//
// For all calls to variadic functions (Signature().Variadic()),
// the last element of Args is a slice.
type CallCommon struct {
	Value  Value       // receiver (invoke mode) or func value (call mode)
	Method *types.Func // interface method (invoke mode)
	Args   []Value     // actual parameters (in static method call, includes receiver)
	pos    token.Pos   // position of CallExpr.Lparen, iff explicit in source
}

// IsInvoke returns true if this call has "invoke" (not "call") mode.
func (c *CallCommon) IsInvoke() bool {
	return c.Method != nil
}

func (c *CallCommon) Pos() token.Pos { return c.pos }

// Signature returns the signature of the called function.
//
// For an "invoke"-mode call, the signature of the interface method is
// returned.
//
// In either "call" or "invoke" mode, if the callee is a method, its
// receiver is represented by sig.Recv, not sig.Params().At(0).
func (c *CallCommon) Signature() *types.Signature {
	if c.Method != nil {
		return c.Method.Type().(*types.Signature)
	}
	return typeparams.CoreType(c.Value.Type()).(*types.Signature)
}

// StaticCallee returns the callee if this is a trivially static
// "call"-mode call to a function.
func (c *CallCommon) StaticCallee() *Function {
	switch fn := c.Value.(type) {
	case *Function:
		return fn
	case *MakeClosure:
		return fn.Fn.(*Function)
	}
	return nil
}

// Description returns a description of the mode of this call suitable
// for a user interface, e.g., "static method call".
func (c *CallCommon) Description() string {
	switch fn := c.Value.(type) {
	case *Builtin:
		return "built-in function call"
	case *MakeClosure:
		return "static function closure call"
	case *Function:
		if fn.Signature.Recv() != nil {
			return "static method call"
		}
		return "static function call"
	}
	if c.IsInvoke() {
		return "dynamic method call" // ("invoke" mode)
	}
	return "dynamic function call"
}

// The CallInstruction interface, implemented by *Go, *Defer and *Call,
// exposes the common parts of function-calling instructions,
// yet provides a way back to the Value defined by *Call alone.
type CallInstruction interface {
	Instruction
	Common() *CallCommon // returns the common parts of the call
	Value() *Call        // returns the result value of the call (*Call) or nil (*Go, *Defer)
}

func (s *Call) Common() *CallCommon  { return &s.Call }
func (s *Defer) Common() *CallCommon { return &s.Call }
func (s *Go) Common() *CallCommon    { return &s.Call }

func (s *Call) Value() *Call  { return s }
func (s *Defer) Value() *Call { return nil }
func (s *Go) Value() *Call    { return nil }

func (v *Builtin) Type() types.Type        { return v.sig }
func (v *Builtin) Name() string            { return v.name }
func (*Builtin) Referrers() *[]Instruction { return nil }
func (v *Builtin) Pos() token.Pos          { return token.NoPos }
func (v *Builtin) Object() types.Object    { return types.Universe.Lookup(v.name) }
func (v *Builtin) Parent() *Function       { return nil }

func (v *FreeVar) Type() types.Type          { return v.typ }
func (v *FreeVar) Name() string              { return v.name }
func (v *FreeVar) Referrers() *[]Instruction { return &v.referrers }
func (v *FreeVar) Pos() token.Pos            { return v.pos }
func (v *FreeVar) Parent() *Function         { return v.parent }

func (v *Global) Type() types.Type                     { return v.typ }
func (v *Global) Name() string                         { return v.name }
func (v *Global) Parent() *Function                    { return nil }
func (v *Global) Pos() token.Pos                       { return v.pos }
func (v *Global) Referrers() *[]Instruction            { return nil }
func (v *Global) Token() token.Token                   { return token.VAR }
func (v *Global) Object() types.Object                 { return v.object }
func (v *Global) String() string                       { return v.RelString(nil) }
func (v *Global) Package() *Package                    { return v.Pkg }
func (v *Global) RelString(from *types.Package) string { return relString(v, from) }

func (v *Function) Name() string       { return v.name }
func (v *Function) Type() types.Type   { return v.Signature }
func (v *Function) Pos() token.Pos     { return v.pos }
func (v *Function) Token() token.Token { return token.FUNC }
func (v *Function) Object() types.Object {
	if v.object != nil {
		return types.Object(v.object)
	}
	return nil
}
func (v *Function) String() string    { return v.RelString(nil) }
func (v *Function) Package() *Package { return v.Pkg }
func (v *Function) Parent() *Function { return v.parent }
func (v *Function) Referrers() *[]Instruction {
	if v.parent != nil {
		return &v.referrers
	}
	return nil
}

// TypeParams are the function's type parameters if generic or the
// type parameters that were instantiated if fn is an instantiation.
func (fn *Function) TypeParams() *types.TypeParamList {
	return fn.typeparams
}

// TypeArgs are the types that TypeParams() were instantiated by to create fn
// from fn.Origin().
func (fn *Function) TypeArgs() []types.Type { return fn.typeargs }

// Origin returns the generic function from which fn was instantiated,
// or nil if fn is not an instantiation.
func (fn *Function) Origin() *Function {
	if fn.parent != nil && len(fn.typeargs) > 0 {
		// Nested functions are BUILT at a different time than their instances.
		// Build declared package if not yet BUILT. This is not an expected use
		// case, but is simple and robust.
		fn.declaredPackage().Build()
	}
	return origin(fn)
}

// origin is the function that fn is an instantiation of. Returns nil if fn is
// not an instantiation.
//
// Precondition: fn and the origin function are done building.
func origin(fn *Function) *Function {
	if fn.parent != nil && len(fn.typeargs) > 0 {
		return origin(fn.parent).AnonFuncs[fn.anonIdx]
	}
	return fn.topLevelOrigin
}

func (v *Parameter) Type() types.Type          { return v.typ }
func (v *Parameter) Name() string              { return v.name }
func (v *Parameter) Object() types.Object      { return v.object }
func (v *Parameter) Referrers() *[]Instruction { return &v.referrers }
func (v *Parameter) Pos() token.Pos            { return v.object.Pos() }
func (v *Parameter) Parent() *Function         { return v.parent }

func (v *Alloc) Type() types.Type          { return v.typ }
func (v *Alloc) Referrers() *[]Instruction { return &v.referrers }
func (v *Alloc) Pos() token.Pos            { return v.pos }

func (v *register) Type() types.Type          { return v.typ }
func (v *register) setType(typ types.Type)    { v.typ = typ }
func (v *register) Name() string              { return fmt.Sprintf("t%d", v.num) }
func (v *register) setNum(num int)            { v.num = num }
func (v *register) Referrers() *[]Instruction { return &v.referrers }
func (v *register) Pos() token.Pos            { return v.pos }
func (v *register) setPos(pos token.Pos)      { v.pos = pos }

func (v *anInstruction) Parent() *Function          { return v.block.parent }
func (v *anInstruction) Block() *BasicBlock         { return v.block }
func (v *anInstruction) setBlock(block *BasicBlock) { v.block = block }
func (v *anInstruction) Referrers() *[]Instruction  { return nil }

func (t *Type) Name() string                         { return t.object.Name() }
func (t *Type) Pos() token.Pos                       { return t.object.Pos() }
func (t *Type) Type() types.Type                     { return t.object.Type() }
func (t *Type) Token() token.Token                   { return token.TYPE }
func (t *Type) Object() types.Object                 { return t.object }
func (t *Type) String() string                       { return t.RelString(nil) }
func (t *Type) Package() *Package                    { return t.pkg }
func (t *Type) RelString(from *types.Package) string { return relString(t, from) }

func (c *NamedConst) Name() string                         { return c.object.Name() }
func (c *NamedConst) Pos() token.Pos                       { return c.object.Pos() }
func (c *NamedConst) String() string                       { return c.RelString(nil) }
func (c *NamedConst) Type() types.Type                     { return c.object.Type() }
func (c *NamedConst) Token() token.Token                   { return token.CONST }
func (c *NamedConst) Object() types.Object                 { return c.object }
func (c *NamedConst) Package() *Package                    { return c.pkg }
func (c *NamedConst) RelString(from *types.Package) string { return relString(c, from) }

func (d *DebugRef) Object() types.Object { return d.object }

// Func returns the package-level function of the specified name,
// or nil if not found.
func (p *Package) Func(name string) (f *Function) {
	f, _ = p.Members[name].(*Function)
	return
}

// Var returns the package-level variable of the specified name,
// or nil if not found.
func (p *Package) Var(name string) (g *Global) {
	g, _ = p.Members[name].(*Global)
	return
}

// Const returns the package-level constant of the specified name,
// or nil if not found.
func (p *Package) Const(name string) (c *NamedConst) {
	c, _ = p.Members[name].(*NamedConst)
	return
}

// Type returns the package-level type of the specified name,
// or nil if not found.
func (p *Package) Type(name string) (t *Type) {
	t, _ = p.Members[name].(*Type)
	return
}

func (v *Call) Pos() token.Pos      { return v.Call.pos }
func (s *Defer) Pos() token.Pos     { return s.pos }
func (s *Go) Pos() token.Pos        { return s.pos }
func (s *MapUpdate) Pos() token.Pos { return s.pos }
func (s *Panic) Pos() token.Pos     { return s.pos }
func (s *Return) Pos() token.Pos    { return s.pos }
func (s *Send) Pos() token.Pos      { return s.pos }
func (s *Store) Pos() token.Pos     { return s.pos }
func (s *If) Pos() token.Pos        { return token.NoPos }
func (s *Jump) Pos() token.Pos      { return token.NoPos }
func (s *RunDefers) Pos() token.Pos { return token.NoPos }
func (s *DebugRef) Pos() token.Pos  { return s.Expr.Pos() }

// Operands.

func (v *Alloc) Operands(rands []*Value) []*Value {
	return rands
}

func (v *BinOp) Operands(rands []*Value) []*Value {
	return append(rands, &v.X, &v.Y)
}

func (c *CallCommon) Operands(rands []*Value) []*Value {
	rands = append(rands, &c.Value)
	for i := range c.Args {
		rands = append(rands, &c.Args[i])
	}
	return rands
}

func (s *Go) Operands(rands []*Value) []*Value {
	return s.Call.Operands(rands)
}

func (s *Call) Operands(rands []*Value) []*Value {
	return s.Call.Operands(rands)
}

func (s *Defer) Operands(rands []*Value) []*Value {
	return append(s.Call.Operands(rands), &s.DeferStack)
}

func (v *ChangeInterface) Operands(rands []*Value) []*Value {
	return append(rands, &v.X)
}

func (v *ChangeType) Operands(rands []*Value) []*Value {
	return append(rands, &v.X)
}

func (v *Convert) Operands(rands []*Value) []*Value {
	return append(rands, &v.X)
}

func (v *MultiConvert) Operands(rands []*Value) []*Value {
	return append(rands, &v.X)
}

func (v *SliceToArrayPointer) Operands(rands []*Value) []*Value {
	return append(rands, &v.X)
}

func (s *DebugRef) Operands(rands []*Value) []*Value {
	return append(rands, &s.X)
}

func (v *Extract) Operands(rands []*Value) []*Value {
	return append(rands, &v.Tuple)
}

func (v *Field) Operands(rands []*Value) []*Value {
	return append(rands, &v.X)
}

func (v *FieldAddr) Operands(rands []*Value) []*Value {
	return append(rands, &v.X)
}

func (s *If) Operands(rands []*Value) []*Value {
	return append(rands, &s.Cond)
}

func (v *Index) Operands(rands []*Value) []*Value {
	return append(rands, &v.X, &v.Index)
}

func (v *IndexAddr) Operands(rands []*Value) []*Value {
	return append(rands, &v.X, &v.Index)
}

func (*Jump) Operands(rands []*Value) []*Value {
	return rands
}

func (v *Lookup) Operands(rands []*Value) []*Value {
	return append(rands, &v.X, &v.Index)
}

func (v *MakeChan) Operands(rands []*Value) []*Value {
	return append(rands, &v.Size)
}

func (v *MakeClosure) Operands(rands []*Value) []*Value {
	rands = append(rands, &v.Fn)
	for i := range v.Bindings {
		rands = append(rands, &v.Bindings[i])
	}
	return rands
}

func (v *MakeInterface) Operands(rands []*Value) []*Value {
	return append(rands, &v.X)
}

func (v *MakeMap) Operands(rands []*Value) []*Value {
	return append(rands, &v.Reserve)
}

func (v *MakeSlice) Operands(rands []*Value) []*Value {
	return append(rands, &v.Len, &v.Cap)
}

func (v *MapUpdate) Operands(rands []*Value) []*Value {
	return append(rands, &v.Map, &v.Key, &v.Value)
}

func (v *Next) Operands(rands []*Value) []*Value {
	return append(rands, &v.Iter)
}

func (s *Panic) Operands(rands []*Value) []*Value {
	return append(rands, &s.X)
}

func (v *Phi) Operands(rands []*Value) []*Value {
	for i := range v.Edges {
		rands = append(rands, &v.Edges[i])
	}
	return rands
}

func (v *Range) Operands(rands []*Value) []*Value {
	return append(rands, &v.X)
}

func (s *Return) Operands(rands []*Value) []*Value {
	for i := range s.Results {
		rands = append(rands, &s.Results[i])
	}
	return rands
}

func (*RunDefers) Operands(rands []*Value) []*Value {
	return rands
}

func (v *Select) Operands(rands []*Value) []*Value {
	for i := range v.States {
		rands = append(rands, &v.States[i].Chan, &v.States[i].Send)
	}
	return rands
}

func (s *Send) Operands(rands []*Value) []*Value {
	return append(rands, &s.Chan, &s.X)
}

func (v *Slice) Operands(rands []*Value) []*Value {
	return append(rands, &v.X, &v.Low, &v.High, &v.Max)
}

func (s *Store) Operands(rands []*Value) []*Value {
	return append(rands, &s.Addr, &s.Val)
}

func (v *TypeAssert) Operands(rands []*Value) []*Value {
	return append(rands, &v.X)
}

func (v *UnOp) Operands(rands []*Value) []*Value {
	return append(rands, &v.X)
}

// Non-Instruction Values:
func (v *Builtin) Operands(rands []*Value) []*Value   { return rands }
func (v *FreeVar) Operands(rands []*Value) []*Value   { return rands }
func (v *Const) Operands(rands []*Value) []*Value     { return rands }
func (v *Function) Operands(rands []*Value) []*Value  { return rands }
func (v *Global) Operands(rands []*Value) []*Value    { return rands }
func (v *Parameter) Operands(rands []*Value) []*Value { return rands }

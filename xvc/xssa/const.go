// Copyright 2013 The Go Authors. All rights reserved.
// Use of this source code is governed by a BSD-style
// license that can be found in the LICENSE file.

package ssa

// This file defines the Const SSA value type.

import (
	"fmt"
	"go/constant"
	"go/token"
	"go/types"
	"strconv"

	"xvc/xinternal/typeparams"
	"xvc/xinternal/typesinternal"
)

// NewConst returns a new constant of the specified value and type.
// val must be valid according to the specification of Const.Value.
func NewConst(val constant.Value, typ types.Type) *Const {
	if val == nil {
		switch soleTypeKind(typ) {
		case types.IsBoolean:
			val = constant.MakeBool(false)
		case types.IsInteger:
			val = constant.MakeInt64(0)
		case types.IsString:
			val = constant.MakeString("")
		}
	}
	return &Const{typ, val}
}

// soleTypeKind returns a BasicInfo for which constant.Value can
// represent all zero values for the types in the type set.
//
//	types.IsBoolean for false is a representative.
//	types.IsInteger for 0
//	types.IsString for ""
//	0 otherwise.
func soleTypeKind(typ types.Type) types.BasicInfo {
	// State records the set of possible zero values (false, 0, "").
	// Candidates (perhaps all) are eliminated during the type-set
	// iteration, which executes at least once.
	state := types.IsBoolean | types.IsInteger | types.IsString
	underIs(typeSetOf(typ), func(ut types.Type) bool {
		var c types.BasicInfo
		if t, ok := ut.(*types.Basic); ok {
			c = t.Info()
		}
		if c&types.IsNumeric != 0 { // int/float/complex
			c = types.IsInteger
		}
		state = state & c
		return state != 0
	})
	return state
}

// intConst returns an 'int' constant that evaluates to i.
// (i is an int64 in case the host is narrower than the target.)
func intConst(i int64) *Const {
	return NewConst(constant.MakeInt64(i), tInt)
}

// stringConst returns a 'string' constant that evaluates to s.
func stringConst(s string) *Const {
	return NewConst(constant.MakeString(s), tString)
}

// zeroConst returns a new "zero" constant of the specified type.
func zeroConst(t types.Type) *Const {
	return NewConst(nil, t)
}

func (c *Const) RelString(from *types.Package) string {
	var s string
	if c.Value == nil {
		s, _ = typesinternal.ZeroString(c.typ, types.RelativeTo(from))
	} else if c.Value.Kind() == constant.String {
		s = constant.StringVal(c.Value)
		const max = 20
		// TODO(adonovan): don't cut a rune in half.
		if len(s) > max {
			s = s[:max-3] + "..." // abbreviate
		}
		s = strconv.Quote(s)
	} else {
		s = c.Value.String()
	}
	return s + ":" + relType(c.Type(), from)
}

func (c *Const) Name() string {
	return c.RelString(nil)
}

func (c *Const) String() string {
	return c.Name()
}

func (c *Const) Type() types.Type {
	return c.typ
}

func (c *Const) Referrers() *[]Instruction {
	return nil
}

func (c *Const) Parent() *Function { return nil }

func (c *Const) Pos() token.Pos {
	return token.NoPos
}

// IsNil returns true if this constant is a nil value of
// a nillable reference type (pointer, slice, channel, map, or function),
// a basic interface type, or
// a type parameter all of whose possible instantiations are themselves nillable.
func (c *Const) IsNil() bool {
	return c.Value == nil && nillable(c.typ)
}

// nillable reports whether *new(T) == nil is legal for type T.
func nillable(t types.Type) bool {
	if typeparams.IsTypeParam(t) {
		return underIs(typeSetOf(t), func(u types.Type) bool {
			// empty type set (u==nil) => any underlying types => not nillable
			return u != nil && nillable(u)
		})
	}
	switch t.Underlying().(type) {
	case *types.Pointer, *types.Slice, *types.Chan, *types.Map, *types.Signature:
		return true
	case *types.Interface:
		return true // basic interface.
	default:
		return false
	}
}

// TODO(adonovan): move everything below into golang.org/x/tools/go/ssa/interp.

// Int64 returns the numeric value of this constant truncated to fit
// a signed 64-bit integer.
func (c *Const) Int64() int64 {
	switch x := constant.ToInt(c.Value); x.Kind() {
	case constant.Int:
		if i, ok := constant.Int64Val(x); ok {
			return i
		}
		return 0
	case constant.Float:
		f, _ := constant.Float64Val(x)
		return int64(f)
	}
	panic(fmt.Sprintf("unexpected constant value: %T", c.Value))
}

// Uint64 returns the numeric value of this constant truncated to fit
// an unsigned 64-bit integer.
func (c *Const) Uint64() uint64 {
	switch x := constant.ToInt(c.Value); x.Kind() {
	case constant.Int:
		if u, ok := constant.Uint64Val(x); ok {
			return u
		}
		return 0
	case constant.Float:
		f, _ := constant.Float64Val(x)
		return uint64(f)
	}
	panic(fmt.Sprintf("unexpected constant value: %T", c.Value))
}

// Float64 returns the numeric value of this constant truncated to fit
// a float64.
func (c *Const) Float64() float64 {
	x := constant.ToFloat(c.Value) // (c.Value == nil) => x.Kind() == Unknown
	f, _ := constant.Float64Val(x)
	return f
}

// Complex128 returns the complex value of this constant truncated to
// fit a complex128.
func (c *Const) Complex128() complex128 {
	x := constant.ToComplex(c.Value) // (c.Value == nil) => x.Kind() == Unknown
	re, _ := constant.Float64Val(constant.Real(x))
	im, _ := constant.Float64Val(constant.Imag(x))
	return complex(re, im)
}

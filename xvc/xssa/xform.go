// Normalising transforms added to the forked go/ssa package for xvc (not part of
// upstream x/tools). They rewrite a built function in place so that source edits
// that leave behaviour unchanged - extracting lines into a private helper, writing
// `a && b` as a value before branching on it - produce the same control flow and
// the same value graph as the code they replace:
//
//   - Inline: a static call to a helper chosen by the caller-supplied policy is
//     replaced by a copy of the helper's (already normalised) body;
//   - threadBoolPhis: an If on a boolean phi whose edges are constants is bypassed
//     on those edges (value-context short-circuit becomes control flow);
//   - single-edge phis are replaced by their operand.
//
// Afterwards predecessors/successors, block indices, referrers and the dominator
// tree are rebuilt. The transforms preserve semantics; positions of cloned
// instructions are those of the helper's source.

package ssa

import (
	"go/types"
	"reflect"
)

// InlinePolicy reports whether the static call of callee inside caller may be
// replaced by callee's body.
type InlinePolicy func(caller, callee *Function) bool

// Normalizer carries the per-program state of the normalising pass.
type Normalizer struct {
	Policy   InlinePolicy
	Uses     map[*Function]int // operand references to each function in the whole program (set by the caller)
	NonNil   func(Value) bool  // oracle: the value is never nil (error constructors, sentinels)
	MaxInstr int               // callees with more instructions are left alone (0 = 400)
	state    map[*Function]int // 0 new, 1 in progress, 2 done
	// Inlined counts, per callee, the call sites that were replaced by its body.
	Inlined map[*Function]int
	// Sites lists "caller <- callee" for the evidence.
	Sites []string
}

func NewNormalizer(pol InlinePolicy) *Normalizer {
	return &Normalizer{Policy: pol, state: map[*Function]int{}, Inlined: map[*Function]int{}}
}

// Normalize rewrites fn (and, first, every helper it absorbs) in place.
func (n *Normalizer) Normalize(fn *Function) {
	if fn == nil || len(fn.Blocks) == 0 || n.state[fn] != 0 {
		return
	}
	n.state[fn] = 1
	for _, anon := range fn.AnonFuncs {
		n.Normalize(anon)
	}
	changed := false
	for round := 0; round < 64; round++ {
		site := n.findSite(fn)
		if site == nil {
			break
		}
		n.inlineCall(fn, site)
		changed = true
	}
	if changed {
		rebuild(fn)
	}
	if forwardLocalLoads(fn) {
		rebuild(fn)
	}
	// threading needs a valid dominator tree; each round is followed by a rebuild
	for i := 0; i < 6; i++ {
		if !threadPhis(fn, n.NonNil) {
			break
		}
		rebuild(fn)
	}
	// a return block that merges several exits through phis (the shape a helper that ends in `return x` leaves when it
	// is absorbed into `return helper()`) is given back one return per incoming edge, so that exits are classified
	// per path again
	if splitReturns(fn) {
		rebuild(fn)
	}
	n.state[fn] = 2
}

func (n *Normalizer) inlinable(caller, callee *Function) bool {
	if callee == nil || callee == caller || len(callee.Blocks) == 0 || callee.Synthetic != "" {
		return false
	}
	if len(callee.FreeVars) > 0 || callee.Recover != nil {
		return false
	}
	// a helper that owns closures is absorbed only when this call is its single use in the program:
	// its closures then simply change parent
	if len(callee.AnonFuncs) > 0 && (n.Uses == nil || n.Uses[callee] != 1) {
		return false
	}
	if callee.typeparams.Len() > 0 || len(callee.typeargs) > 0 {
		return false
	}
	if n.state[callee] == 1 { // recursion
		return false
	}
	if n.Policy == nil || !n.Policy(caller, callee) {
		return false
	}
	n.Normalize(callee)
	max := n.MaxInstr
	if max == 0 {
		max = 400
	}
	cnt, rets := 0, 0
	for _, b := range callee.Blocks {
		cnt += len(b.Instrs)
		for _, ins := range b.Instrs {
			switch ins.(type) {
			case *Defer, *RunDefers, *Select:
				return false
			case *Return:
				rets++
			}
		}
	}
	return cnt <= max && rets > 0
}

func (n *Normalizer) findSite(fn *Function) *Call {
	for _, b := range fn.Blocks {
		for _, ins := range b.Instrs {
			call, ok := ins.(*Call)
			if !ok || call.Call.IsInvoke() {
				continue
			}
			callee := call.Call.StaticCallee()
			if callee == nil {
				continue
			}
			if mc, isClosure := call.Call.Value.(*MakeClosure); isClosure {
				// a local closure that is called on the spot (`f := func(){...}; f()`) is its body
				if n.inlinableClosure(fn, mc, call) {
					return call
				}
				continue
			}
			if len(call.Call.Args) != len(callee.Params) {
				continue
			}
			if n.inlinable(fn, callee) {
				return call
			}
		}
	}
	return nil
}

func cloneInstr(ins Instruction) Instruction {
	v := reflect.ValueOf(ins).Elem()
	c := reflect.New(v.Type())
	c.Elem().Set(v)
	out := c.Interface().(Instruction)
	switch x := out.(type) {
	case *Phi:
		x.Edges = append([]Value(nil), x.Edges...)
	case *Call:
		x.Call.Args = append([]Value(nil), x.Call.Args...)
	case *Go:
		x.Call.Args = append([]Value(nil), x.Call.Args...)
	case *MakeClosure:
		x.Bindings = append([]Value(nil), x.Bindings...)
	case *Return:
		x.Results = append([]Value(nil), x.Results...)
	}
	if val, ok := out.(Value); ok {
		if r := val.Referrers(); r != nil {
			*r = nil
		}
	}
	return out
}

// inlinableClosure: a closure of fn itself, without closures, defers or recover of its own, small, called directly.
func (n *Normalizer) inlinableClosure(fn *Function, mc *MakeClosure, call *Call) bool {
	callee, ok := mc.Fn.(*Function)
	if !ok || callee.parent != fn || len(callee.Blocks) == 0 || len(callee.AnonFuncs) > 0 || callee.Recover != nil {
		return false
	}
	if len(call.Call.Args) != len(callee.Params) || len(mc.Bindings) != len(callee.FreeVars) {
		return false
	}
	if n.state[callee] == 1 {
		return false
	}
	n.Normalize(callee)
	cnt, rets := 0, 0
	for _, b := range callee.Blocks {
		cnt += len(b.Instrs)
		for _, ins := range b.Instrs {
			switch ins.(type) {
			case *Defer, *RunDefers, *Go:
				return false
			case *Return:
				rets++
			}
		}
	}
	return cnt <= 200 && rets > 0
}

func (n *Normalizer) inlineCall(fn *Function, call *Call) {
	callee := call.Call.StaticCallee()
	n.Inlined[callee]++
	n.Sites = append(n.Sites, fn.String()+" <- "+callee.String())
	B := call.Block()
	idx := -1
	for i, ins := range B.Instrs {
		if ins == Instruction(call) {
			idx = i
		}
	}
	// value map: parameters -> arguments
	vmap := map[Value]Value{}
	for i, p := range callee.Params {
		vmap[p] = call.Call.Args[i]
	}
	// a closure called on the spot: its free variables are the cells bound at its creation
	if mc, isClosure := call.Call.Value.(*MakeClosure); isClosure {
		for i, fv := range callee.FreeVars {
			vmap[fv] = mc.Bindings[i]
		}
	}
	// clone blocks
	bmap := map[*BasicBlock]*BasicBlock{}
	var clones []*BasicBlock
	for _, b := range callee.Blocks {
		nb := &BasicBlock{Comment: "inl." + callee.Name() + "." + b.Comment, parent: fn}
		bmap[b] = nb
		clones = append(clones, nb)
	}
	for _, b := range callee.Blocks {
		nb := bmap[b]
		for _, ins := range b.Instrs {
			c := cloneInstr(ins)
			c.setBlock(nb)
			nb.Instrs = append(nb.Instrs, c)
			if v, ok := ins.(Value); ok {
				vmap[v] = c.(Value)
			}
			if a, ok := c.(*Alloc); ok && !a.Heap {
				fn.Locals = append(fn.Locals, a)
			}
		}
		for _, s := range b.Succs {
			nb.Succs = append(nb.Succs, bmap[s])
		}
		for _, p := range b.Preds {
			nb.Preds = append(nb.Preds, bmap[p])
		}
	}
	// remap operands of the clones
	var rands []*Value
	for _, nb := range clones {
		for _, ins := range nb.Instrs {
			rands = ins.Operands(rands[:0])
			for _, r := range rands {
				if *r != nil {
					if m, ok := vmap[*r]; ok {
						*r = m
					}
				}
			}
		}
	}
	// continuation block: the instructions after the call
	C := &BasicBlock{Comment: "inl.cont." + callee.Name(), parent: fn}
	post := append([]Instruction(nil), B.Instrs[idx+1:]...)
	C.Succs = append([]*BasicBlock(nil), B.Succs...)
	for _, s := range C.Succs {
		s.replacePred(B, C)
	}
	// B: instructions before the call, then a jump into the clone of the entry block
	B.Instrs = append([]Instruction(nil), B.Instrs[:idx]...)
	j := new(Jump)
	j.setBlock(B)
	B.Instrs = append(B.Instrs, j)
	entry := bmap[callee.Blocks[0]]
	B.Succs = []*BasicBlock{entry}
	entry.Preds = append(entry.Preds, B)
	// returns become jumps to C
	nres := callee.Signature.Results().Len()
	var retVals [][]Value
	for _, nb := range clones {
		last := nb.Instrs[len(nb.Instrs)-1]
		if ret, ok := last.(*Return); ok {
			retVals = append(retVals, ret.Results)
			jj := new(Jump)
			jj.setBlock(nb)
			nb.Instrs[len(nb.Instrs)-1] = jj
			nb.Succs = []*BasicBlock{C}
			C.Preds = append(C.Preds, nb)
		}
	}
	// result values
	results := make([]Value, nres)
	for i := 0; i < nres; i++ {
		if len(retVals) == 1 {
			results[i] = retVals[0][i]
			continue
		}
		phi := &Phi{Comment: "inl." + callee.Name()}
		phi.setType(callee.Signature.Results().At(i).Type())
		phi.setPos(call.Pos())
		phi.setBlock(C)
		for _, rv := range retVals {
			phi.Edges = append(phi.Edges, rv[i])
		}
		C.Instrs = append(C.Instrs, phi)
		results[i] = phi
	}
	for _, ins := range post {
		ins.setBlock(C)
	}
	C.Instrs = append(C.Instrs, post...)
	fn.Blocks = append(fn.Blocks, clones...)
	fn.Blocks = append(fn.Blocks, C)
	// replace the uses of the call
	repl := map[Value]Value{}
	if nres == 1 {
		repl[call] = results[0]
	} else if nres > 1 {
		for _, b := range fn.Blocks {
			for _, ins := range b.Instrs {
				if ex, ok := ins.(*Extract); ok && ex.Tuple == Value(call) {
					repl[ex] = results[ex.Index]
				}
			}
		}
	}
	if len(repl) > 0 {
		// chains: an Extract replaced by a value that is itself replaced cannot occur (results are clone values)
		for _, b := range fn.Blocks {
			k := 0
			for _, ins := range b.Instrs {
				if ex, ok := ins.(*Extract); ok && ex.Tuple == Value(call) {
					continue // drop
				}
				rands = ins.Operands(rands[:0])
				for _, r := range rands {
					if *r != nil {
						if m, ok := repl[*r]; ok {
							*r = m
						}
					}
				}
				b.Instrs[k] = ins
				k++
			}
			b.Instrs = b.Instrs[:k]
		}
	}
	for i, b := range fn.Blocks {
		b.Index = i
	}
	// closures of a helper absorbed at its single use now belong to the caller
	if len(callee.AnonFuncs) > 0 {
		for _, anon := range callee.AnonFuncs {
			anon.parent = fn
			anon.anonIdx = int32(len(fn.AnonFuncs))
			fn.AnonFuncs = append(fn.AnonFuncs, anon)
		}
		callee.AnonFuncs = nil
	}
}

// threadPhis: M = [phis..., pure condition chain, If] where the condition is a
// function of one phi of M (through !, == nil, != nil, == true/false). A
// predecessor whose phi operand decides the condition - a boolean constant, a nil
// constant, a value the predecessor is known to hold non-nil / nil / true / false
// because a dominating branch tested it, or a value the caller's oracle knows to
// be non-nil - jumps straight to the successor the condition selects, provided no
// value defined in M is used on the way from there (so no new phi is needed).
// This turns `ok := a && b; if ok`, and the merged results of an inlined helper
// (`if err := helper(); err != nil`), back into plain control flow.
func threadPhis(fn *Function, nonNil func(Value) bool) bool {
	changed := false
	// per phi of a bypassed block: the value it stands for at each split-edge block created so far
	altDefs := map[*Phi]map[*BasicBlock]Value{}
	for again, rounds := true, 0; again && rounds < 32; rounds++ {
		again = false
		for _, M := range fn.Blocks {
			if len(M.Succs) != 2 || M.Succs[0] == M.Succs[1] || len(M.Preds) < 1 {
				continue
			}
			ifi, ok := M.Instrs[len(M.Instrs)-1].(*If)
			if !ok {
				continue
			}
			// split M into phis and the condition chain
			nphi := 0
			for nphi < len(M.Instrs) {
				if _, ok := M.Instrs[nphi].(*Phi); !ok {
					break
				}
				nphi++
			}
			if nphi == 0 {
				continue
			}
			chainOK := true
			var mStores []*Store
			for _, ins := range M.Instrs[nphi : len(M.Instrs)-1] {
				switch x := ins.(type) {
				case *Store:
					// a spill of the merged value into a variable (a named result that a deferred closure
					// reads): re-executed on every threaded edge with that edge's operand
					if _, isAlloc := x.Addr.(*Alloc); !isAlloc {
						chainOK = false
					}
					mStores = append(mStores, x)
				case *UnOp:
					if x.Op.String() != "!" {
						chainOK = false
					}
				case *BinOp:
					if s := x.Op.String(); s != "==" && s != "!=" {
						chainOK = false
					}
				default:
					chainOK = false
				}
			}
			if !chainOK {
				continue
			}
			inM := map[Value]bool{}
			for _, ins := range M.Instrs {
				if v, ok := ins.(Value); ok {
					inM[v] = true
				}
			}
			for k := 0; k < len(M.Preds); k++ {
				P := M.Preds[k]
				if P == M {
					continue
				}
				cnt := 0
				for _, s := range P.Succs {
					if s == M {
						cnt++
					}
				}
				if cnt != 1 {
					continue
				}
				res, known := evalCond(ifi.Cond, M, k, P, nonNil, 0)
				var targets []*BasicBlock
				var matCond Value // materialise: P itself branches on this value
				if known {
					if res {
						targets = []*BasicBlock{M.Succs[0]}
					} else {
						targets = []*BasicBlock{M.Succs[1]}
					}
				} else {
					// the condition is the phi itself (or its negation) and P only jumps to M:
					// P can branch on its own operand directly
					var cphi *Phi
					neg := false
					if ph, ok := ifi.Cond.(*Phi); ok && ph.Block() == M {
						cphi = ph
					} else if u, ok := ifi.Cond.(*UnOp); ok && u.Block() == M && u.Op.String() == "!" {
						if ph, ok := u.X.(*Phi); ok && ph.Block() == M && len(M.Instrs) == nphi+2 {
							cphi, neg = ph, true
						}
					}
					if cphi == nil || len(P.Succs) != 1 {
						continue
					}
					if _, isJump := P.Instrs[len(P.Instrs)-1].(*Jump); !isJump {
						continue
					}
					v := cphi.Edges[k]
					if _, isConst := v.(*Const); isConst {
						continue
					}
					if bt, ok := v.Type().Underlying().(*types.Basic); !ok || bt.Info()&types.IsBoolean == 0 {
						continue
					}
					matCond = v
					targets = []*BasicBlock{M.Succs[0], M.Succs[1]}
					if neg {
						targets = []*BasicBlock{M.Succs[1], M.Succs[0]}
					}
				}
				skip := false
				for _, T := range targets {
					if T == M {
						skip = true
					}
					if matCond == nil {
						for _, s := range P.Succs {
							if s == T {
								skip = true
							}
						}
					}
				}
				if skip {
					continue
				}
				// values of the condition chain must not be needed anywhere else
				chainUsed := false
				for _, ins := range M.Instrs[nphi : len(M.Instrs)-1] {
					cv, isVal := ins.(Value)
					if !isVal {
						continue
					}
					if usedElsewhere(fn, cv, nil) && usedOutside(fn, cv, M) {
						chainUsed = true
					}
				}
				if chainUsed {
					continue
				}
				// split each new edge P -> T with an empty block E (the place where M's phis take P's operands)
				var Es []*BasicBlock
				for _, T := range targets {
					E := &BasicBlock{Comment: "thread." + M.Comment, parent: fn}
					for _, ms := range mStores {
						v := ms.Val
						if mp, isPhi := v.(*Phi); isPhi && mp.Block() == M {
							v = mp.Edges[k]
						}
						ns := &Store{Addr: ms.Addr, Val: v, pos: ms.pos}
						ns.setBlock(E)
						E.Instrs = append(E.Instrs, ns)
					}
					jj := new(Jump)
					jj.setBlock(E)
					E.Instrs = append(E.Instrs, jj)
					E.Preds = []*BasicBlock{P}
					E.Succs = []*BasicBlock{T}
					mi := T.predIndex(M)
					for _, ins := range T.Instrs {
						tphi, ok := ins.(*Phi)
						if !ok {
							break
						}
						v := tphi.Edges[mi]
						if mp, isPhi := v.(*Phi); isPhi && mp.Block() == M {
							v = mp.Edges[k]
						}
						tphi.Edges = append(tphi.Edges, v)
					}
					T.Preds = append(T.Preds, E)
					fn.Blocks = append(fn.Blocks, E)
					E.Index = len(fn.Blocks) - 1
					Es = append(Es, E)
				}
				if matCond == nil {
					for i, s := range P.Succs {
						if s == M {
							P.Succs[i] = Es[0]
						}
					}
				} else {
					br := &If{Cond: matCond}
					br.setBlock(P)
					P.Instrs[len(P.Instrs)-1] = br
					P.Succs = []*BasicBlock{Es[0], Es[1]}
				}
				var phis []*Phi
				var vals []Value
				for _, ins := range M.Instrs[:nphi] {
					ph := ins.(*Phi)
					phis = append(phis, ph)
					vals = append(vals, ph.Edges[k])
				}
				M.Preds = append(M.Preds[:k:k], M.Preds[k+1:]...)
				for _, ph := range phis {
					ph.Edges = append(ph.Edges[:k:k], ph.Edges[k+1:]...)
				}
				for i, ph := range phis {
					if altDefs[ph] == nil {
						altDefs[ph] = map[*BasicBlock]Value{}
					}
					for _, E := range Es {
						altDefs[ph][E] = vals[i]
					}
					repairUses(fn, ph, M, altDefs[ph])
				}
				changed, again = true, true
				k--
			}
		}
	}
	return changed
}

// evalCond evaluates a condition of block M for control arriving from its k-th
// predecessor P.
func evalCond(v Value, M *BasicBlock, k int, P *BasicBlock, nonNil func(Value) bool, depth int) (res, known bool) {
	if depth > 6 {
		return false, false
	}
	switch x := v.(type) {
	case *Phi:
		if x.Block() != M {
			return knownBool(v, P)
		}
		e := x.Edges[k]
		if c, ok := e.(*Const); ok && c.Value != nil {
			if bt, ok := c.Type().Underlying().(*types.Basic); ok && bt.Info()&types.IsBoolean != 0 {
				return constantBool(c), true
			}
			return false, false
		}
		return knownBool(e, P)
	case *UnOp:
		if x.Block() == M && x.Op.String() == "!" {
			r, ok := evalCond(x.X, M, k, P, nonNil, depth+1)
			return !r, ok
		}
	case *BinOp:
		if x.Block() != M {
			return knownBool(v, P)
		}
		op := x.Op.String()
		if op != "==" && op != "!=" {
			return false, false
		}
		for _, pr := range [][2]Value{{x.X, x.Y}, {x.Y, x.X}} {
			a, b := pr[0], pr[1]
			c, isConst := b.(*Const)
			if !isConst {
				continue
			}
			if c.Value != nil { // comparison with a boolean constant
				if bt, ok := c.Type().Underlying().(*types.Basic); ok && bt.Info()&types.IsBoolean != 0 {
					r, ok := evalCond(a, M, k, P, nonNil, depth+1)
					if !ok {
						return false, false
					}
					return (r == constantBool(c)) == (op == "=="), true
				}
				return false, false
			}
			// comparison with nil
			val := a
			if ph, ok := a.(*Phi); ok && ph.Block() == M {
				val = ph.Edges[k]
			} else if _, isIns := a.(Instruction); isIns && a.(Instruction).Block() == M {
				return false, false
			}
			isNil, ok := knownNil(val, P, nonNil)
			if !ok {
				return false, false
			}
			return isNil == (op == "=="), true
		}
	}
	return false, false
}

// knownNil: whether v is nil when control leaves P (towards M).
func knownNil(v Value, P *BasicBlock, nonNil func(Value) bool) (isNil, known bool) {
	if c, ok := v.(*Const); ok {
		if c.Value == nil {
			return true, true
		}
		return false, false
	}
	if nonNil != nil && nonNil(v) {
		return false, true
	}
	// a dominating branch on (v == nil) / (v != nil)
	for x := P; x != nil; x = x.dom.idom {
		d := x.dom.idom
		if d == nil {
			break
		}
		if len(x.Preds) != 1 || x.Preds[0] != d || len(d.Succs) != 2 || d.Succs[0] == d.Succs[1] {
			continue
		}
		ifi, ok := d.Instrs[len(d.Instrs)-1].(*If)
		if !ok {
			continue
		}
		bo, ok := ifi.Cond.(*BinOp)
		if !ok {
			continue
		}
		op := bo.Op.String()
		if op != "==" && op != "!=" {
			continue
		}
		var other Value
		if bo.X == v {
			other = bo.Y
		} else if bo.Y == v {
			other = bo.X
		} else {
			continue
		}
		if c, ok := other.(*Const); !ok || c.Value != nil {
			continue
		}
		onTrue := d.Succs[0] == x
		return (op == "==") == onTrue, true
	}
	return false, false
}

// knownBool: the value of a boolean v when control leaves P, if a dominating
// branch on v itself decides it.
func knownBool(v Value, P *BasicBlock) (val, known bool) {
	if c, ok := v.(*Const); ok && c.Value != nil {
		if bt, ok := c.Type().Underlying().(*types.Basic); ok && bt.Info()&types.IsBoolean != 0 {
			return constantBool(c), true
		}
	}
	for x := P; x != nil; x = x.dom.idom {
		d := x.dom.idom
		if d == nil {
			break
		}
		if len(x.Preds) != 1 || x.Preds[0] != d || len(d.Succs) != 2 || d.Succs[0] == d.Succs[1] {
			continue
		}
		ifi, ok := d.Instrs[len(d.Instrs)-1].(*If)
		if !ok || ifi.Cond != v {
			continue
		}
		return d.Succs[0] == x, true
	}
	return false, false
}

// usedOutside: v is used by an instruction of another block than M.
func usedOutside(fn *Function, v Value, M *BasicBlock) bool {
	var rands []*Value
	for _, b := range fn.Blocks {
		if b == M {
			continue
		}
		for _, ins := range b.Instrs {
			rands = ins.Operands(rands[:0])
			for _, r := range rands {
				if *r == v {
					return true
				}
			}
		}
	}
	return false
}

// repairUses restores the SSA property for phi (defined in M) after control from
// the split-edge blocks in alts may reach its uses without passing M: on those ways
// the value is alts[block]. Uses are
// rewritten to the reaching definition, with new phis where the two meet.
func repairUses(fn *Function, phi *Phi, M *BasicBlock, alts map[*BasicBlock]Value) {
	entry := map[*BasicBlock]Value{}
	depth := 0
	var atEntry func(b *BasicBlock) Value
	atExit := func(b *BasicBlock) Value {
		if b == M {
			return phi
		}
		if v, ok := alts[b]; ok {
			return v
		}
		return atEntry(b)
	}
	atEntry = func(b *BasicBlock) Value {
		if v, ok := entry[b]; ok {
			return v
		}
		switch len(b.Preds) {
		case 0:
			entry[b] = phi
			return phi
		case 1:
			// a reachable cycle always contains a join, whose placeholder phi is memoised before its
			// operands are resolved; only an unreachable cycle could recurse for ever
			depth++
			if depth > 20000 {
				return phi
			}
			v := atExit(b.Preds[0])
			depth--
			entry[b] = v
			return v
		}
		np := &Phi{Comment: "thread"}
		np.setType(phi.Type())
		np.setPos(phi.Pos())
		np.setBlock(b)
		entry[b] = np
		for _, p := range b.Preds {
			np.Edges = append(np.Edges, atExit(p))
		}
		b.Instrs = append([]Instruction{np}, b.Instrs...)
		return np
	}
	var rands []*Value
	for _, b := range fn.Blocks {
		if _, isSplit := alts[b]; b == M || isSplit {
			continue
		}
		// snapshot: atEntry may prepend phis to b.Instrs
		instrs := append([]Instruction(nil), b.Instrs...)
		for _, ins := range instrs {
			if ph, ok := ins.(*Phi); ok {
				if ph.Comment == "thread" && ph.Type() == phi.Type() && entry[b] == Value(ph) {
					continue
				}
				for i := range ph.Edges {
					if ph.Edges[i] == Value(phi) && b.Preds[i] != M {
						ph.Edges[i] = atExit(b.Preds[i])
					}
				}
				continue
			}
			rands = ins.Operands(rands[:0])
			for _, r := range rands {
				if *r == Value(phi) {
					*r = atEntry(b)
				}
			}
		}
	}
}

// usesFrom: some instruction reachable from T without passing through M uses a
// value defined in M (phi operands count at the predecessor they belong to).
func usesFrom(T, M *BasicBlock, inM map[Value]bool) bool {
	seen := map[*BasicBlock]bool{M: true}
	stack := []*BasicBlock{T}
	var rands []*Value
	for len(stack) > 0 {
		b := stack[len(stack)-1]
		stack = stack[:len(stack)-1]
		if seen[b] {
			continue
		}
		seen[b] = true
		for _, ins := range b.Instrs {
			if ph, ok := ins.(*Phi); ok {
				for i, e := range ph.Edges {
					if inM[e] && b.Preds[i] != M {
						return true
					}
				}
				continue
			}
			rands = ins.Operands(rands[:0])
			for _, r := range rands {
				if *r != nil && inM[*r] {
					return true
				}
			}
		}
		stack = append(stack, b.Succs...)
	}
	return false
}

func constantBool(c *Const) bool {
	return c.Value != nil && c.Value.String() == "true"
}

func usedElsewhere(fn *Function, v Value, except Instruction) bool {
	var rands []*Value
	for _, b := range fn.Blocks {
		for _, ins := range b.Instrs {
			if ins == except {
				continue
			}
			rands = ins.Operands(rands[:0])
			for _, r := range rands {
				if *r == v {
					return true
				}
			}
		}
	}
	return false
}

// rebuild restores the derived structures after a transform.
func rebuild(fn *Function) {
	for i, b := range fn.Blocks {
		b.Index = i
	}
	// single-edge phis -> their operand
	var rands []*Value
	for {
		repl := map[Value]Value{}
		for _, b := range fn.Blocks {
			for _, ins := range b.Instrs {
				phi, ok := ins.(*Phi)
				if !ok {
					break
				}
				// all operands (other than the phi itself) are one value
				var only Value
				same := len(phi.Edges) > 0
				for _, e := range phi.Edges {
					if e == Value(phi) {
						continue
					}
					if only == nil {
						only = e
					} else if only != e {
						same = false
					}
				}
				if same && only != nil {
					if _, dying := repl[only]; !dying {
						repl[phi] = only
					}
				}
			}
		}
		if len(repl) == 0 {
			break
		}
		resolve := func(v Value) Value {
			for i := 0; i < 16; i++ {
				m, ok := repl[v]
				if !ok {
					break
				}
				v = m
			}
			return v
		}
		for _, b := range fn.Blocks {
			k := 0
			for _, ins := range b.Instrs {
				if phi, ok := ins.(*Phi); ok {
					if _, gone := repl[phi]; gone {
						continue
					}
				}
				rands = ins.Operands(rands[:0])
				for _, r := range rands {
					if *r != nil {
						if _, ok := repl[*r]; ok {
							*r = resolve(*r)
						}
					}
				}
				b.Instrs[k] = ins
				k++
			}
			b.Instrs = b.Instrs[:k]
		}
	}
	optimizeBlocks(fn)
	// referrers
	clear := func(v Value) {
		if r := v.Referrers(); r != nil {
			*r = nil
		}
	}
	for _, p := range fn.Params {
		clear(p)
	}
	for _, fv := range fn.FreeVars {
		clear(fv)
	}
	for _, b := range fn.Blocks {
		for _, ins := range b.Instrs {
			if v, ok := ins.(Value); ok {
				clear(v)
			}
		}
	}
	buildReferrers(fn)
	buildDomTree(fn)
	numberRegisters(fn)
}

// SanityCheck exposes the package's structural checker for transformed functions.
func SanityCheck(fn *Function) (ok bool, report string) {
	var buf reportBuf
	ok = sanityCheck(fn, &buf)
	if ok {
		if msg := checkDominance(fn); msg != "" {
			return false, msg
		}
	}
	return ok, string(buf)
}

// checkDominance verifies the SSA property upstream's checker leaves as a TODO:
// every use is dominated by its definition (phi operands at the predecessor).
func checkDominance(fn *Function) string {
	pos := map[Instruction]int{}
	for _, b := range fn.Blocks {
		for i, ins := range b.Instrs {
			pos[ins] = i
		}
	}
	var rands []*Value
	for _, b := range fn.Blocks {
		if b == fn.Recover {
			continue // entered by an implicit edge; upstream's dominator tree does not model it
		}
		for i, ins := range b.Instrs {
			if ph, ok := ins.(*Phi); ok {
				if len(ph.Edges) != len(b.Preds) {
					return "phi " + ph.Name() + " in " + b.String() + ": edges/preds mismatch"
				}
				for k, e := range ph.Edges {
					def, ok := e.(Instruction)
					if !ok || def.Block() == nil || def.Parent() != fn {
						continue
					}
					if !def.Block().Dominates(b.Preds[k]) {
						return "phi operand " + e.Name() + " of " + ph.Name() + " does not dominate predecessor " + b.Preds[k].String()
					}
				}
				continue
			}
			rands = ins.Operands(rands[:0])
			for _, r := range rands {
				if *r == nil {
					continue
				}
				def, ok := (*r).(Instruction)
				if !ok || def.Block() == nil || def.Parent() != fn {
					continue
				}
				if def.Block() == b {
					if pos[def] >= i {
						return "use of " + (*r).Name() + " before its definition in " + b.String()
					}
				} else if !def.Block().Dominates(b) {
					return "definition of " + (*r).Name() + " does not dominate its use in " + b.String()
				}
			}
		}
	}
	return ""
}

type reportBuf []byte

func (b *reportBuf) Write(p []byte) (int, error) { *b = append(*b, p...); return len(p), nil }

// splitReturns: for a block [phi..., (spill of the results, rundefers, reload)?, return] with several predecessors
// whose values are used inside the block only, each predecessor gets its own copy of the block with the phi operands
// of its edge.
func splitReturns(fn *Function) bool {
	changed := false
	blocks := append([]*BasicBlock(nil), fn.Blocks...)
	for _, M := range blocks {
		if len(M.Preds) < 2 || len(M.Instrs) == 0 || M == fn.Recover {
			continue
		}
		if _, ok := M.Instrs[len(M.Instrs)-1].(*Return); !ok {
			continue
		}
		nphi := 0
		for _, ins := range M.Instrs {
			if _, ok := ins.(*Phi); !ok {
				break
			}
			nphi++
		}
		if nphi == 0 {
			continue
		}
		okShape := true
		inM := map[Instruction]bool{}
		for _, ins := range M.Instrs {
			inM[ins] = true
		}
		for _, ins := range M.Instrs[nphi : len(M.Instrs)-1] {
			switch x := ins.(type) {
			case *RunDefers:
			case *Store:
				if _, isAlloc := x.Addr.(*Alloc); !isAlloc {
					okShape = false
				}
			case *UnOp:
				if _, isAlloc := x.X.(*Alloc); !isAlloc || x.Op.String() != "*" {
					okShape = false
				}
			default:
				okShape = false
			}
		}
		// values defined in M are used in M only
		for _, ins := range M.Instrs {
			v, isVal := ins.(Value)
			if !isVal || v.Referrers() == nil {
				continue
			}
			for _, r := range *v.Referrers() {
				if !inM[r] {
					okShape = false
				}
			}
		}
		for _, P := range M.Preds {
			cnt := 0
			for _, sb := range P.Succs {
				if sb == M {
					cnt++
				}
			}
			if cnt != 1 || P == M {
				okShape = false
			}
		}
		if !okShape {
			continue
		}
		var rands []*Value
		for k, P := range M.Preds {
			E := &BasicBlock{Comment: "ret." + M.Comment, parent: fn}
			vmap := map[Value]Value{}
			for _, ins := range M.Instrs[:nphi] {
				ph := ins.(*Phi)
				vmap[ph] = ph.Edges[k]
			}
			for _, ins := range M.Instrs[nphi:] {
				var ni Instruction
				switch x := ins.(type) {
				case *RunDefers:
					ni = new(RunDefers)
				case *Store:
					ni = &Store{Addr: x.Addr, Val: x.Val, pos: x.pos}
				case *UnOp:
					nu := &UnOp{Op: x.Op, X: x.X, CommaOk: x.CommaOk}
					nu.setType(x.Type())
					nu.setPos(x.Pos())
					vmap[x] = nu
					ni = nu
				case *Return:
					ni = &Return{Results: append([]Value(nil), x.Results...), pos: x.pos}
				}
				rands = ni.Operands(rands[:0])
				for _, r := range rands {
					if *r != nil {
						if nv, ok := vmap[*r]; ok {
							*r = nv
						}
					}
				}
				ni.setBlock(E)
				E.Instrs = append(E.Instrs, ni)
			}
			E.Preds = []*BasicBlock{P}
			for i, sb := range P.Succs {
				if sb == M {
					P.Succs[i] = E
				}
			}
			fn.Blocks = append(fn.Blocks, E)
			E.Index = len(fn.Blocks) - 1
		}
		M.Preds = nil
		for i, b := range fn.Blocks {
			if b == M {
				fn.Blocks = append(fn.Blocks[:i:i], fn.Blocks[i+1:]...)
				break
			}
		}
		changed = true
	}
	return changed
}

// forwardLocalLoads: `*a = v; x = *a` in one block with nothing in between that could write a (no call, no store, no
// rundefers): x is v. Removes the spill/reload that a captured named result puts between a merged value and its test.
func forwardLocalLoads(fn *Function) bool {
	changed := false
	var rands []*Value
	for _, b := range fn.Blocks {
		last := map[*Alloc]Value{}
		repl := map[Value]Value{}
		for _, ins := range b.Instrs {
			switch x := ins.(type) {
			case *Store:
				if a, ok := x.Addr.(*Alloc); ok {
					last[a] = x.Val
				} else {
					last = map[*Alloc]Value{}
				}
			case *UnOp:
				if a, ok := x.X.(*Alloc); ok && x.Op.String() == "*" {
					if v, ok := last[a]; ok {
						repl[x] = v
					}
				}
			case *Call, *Defer, *Go, *RunDefers, *MapUpdate, *Send, *Select, *Panic:
				last = map[*Alloc]Value{}
			}
		}
		if len(repl) == 0 {
			continue
		}
		changed = true
		resolve := func(v Value) Value {
			for i := 0; i < 8; i++ {
				m, ok := repl[v]
				if !ok {
					break
				}
				v = m
			}
			return v
		}
		for _, ob := range fn.Blocks {
			k := 0
			for _, ins := range ob.Instrs {
				if v, ok := ins.(Value); ok {
					if _, dead := repl[v]; dead {
						continue
					}
				}
				rands = ins.Operands(rands[:0])
				for _, r := range rands {
					if *r != nil {
						if _, ok := repl[*r]; ok {
							*r = resolve(*r)
						}
					}
				}
				ob.Instrs[k] = ins
				k++
			}
			ob.Instrs = ob.Instrs[:k]
		}
	}
	return changed
}

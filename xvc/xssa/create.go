// Copyright 2013 The Go Authors. All rights reserved.
// Use of this source code is governed by a BSD-style
// license that can be found in the LICENSE file.

package ssa

// This file implements the CREATE phase of SSA construction.
// See builder.go for explanation.

import (
	"fmt"
	"go/ast"
	"go/token"
	"go/types"
	"os"
	"sync"

	"xvc/xinternal/versions"
)

// NewProgram returns a new SSA Program.
//
// mode controls diagnostics and checking during SSA construction.
//
// To construct an SSA program:
//
//   - Call NewProgram to create an empty Program.
//   - Call CreatePackage providing typed syntax for each package
//     you want to build, and call it with types but not
//     syntax for each of those package's direct dependencies.
//   - Call [Package.Build] on each syntax package you wish to build,
//     or [Program.Build] to build all of them.
//
// See the Example tests for simple examples.
func NewProgram(fset *token.FileSet, mode BuilderMode) *Program {
	return &Program{
		Fset:     fset,
		imported: make(map[string]*Package),
		packages: make(map[*types.Package]*Package),
		mode:     mode,
		canon:    newCanonizer(),
		ctxt:     types.NewContext(),
	}
}

// memberFromObject populates package pkg with a member for the
// typechecker object obj.
//
// For objects from Go source code, syntax is the associated syntax
// tree (for funcs and vars only) and goversion defines the
// appropriate interpretation; they will be used during the build
// phase.
func memberFromObject(pkg *Package, obj types.Object, syntax ast.Node, goversion string) {
	name := obj.Name()
	switch obj := obj.(type) {
	case *types.Builtin:
		if pkg.Pkg != types.Unsafe {
			panic("unexpected builtin object: " + obj.String())
		}

	case *types.TypeName:
		if name != "_" {
			pkg.Members[name] = &Type{
				object: obj,
				pkg:    pkg,
			}
		}

	case *types.Const:
		c := &NamedConst{
			object: obj,
			Value:  NewConst(obj.Val(), obj.Type()),
			pkg:    pkg,
		}
		pkg.objects[obj] = c
		if name != "_" {
			pkg.Members[name] = c
		}

	case *types.Var:
		g := &Global{
			Pkg:    pkg,
			name:   name,
			object: obj,
			typ:    types.NewPointer(obj.Type()), // address
			pos:    obj.Pos(),
		}
		pkg.objects[obj] = g
		if name != "_" {
			pkg.Members[name] = g
		}

	case *types.Func:
		sig := obj.Type().(*types.Signature)
		if sig.Recv() == nil && name == "init" {
			pkg.ninit++
			name = fmt.Sprintf("init#%d", pkg.ninit)
		}
		fn := createFunction(pkg.Prog, obj, name, syntax, pkg.info, goversion)
		fn.Pkg = pkg
		pkg.created = append(pkg.created, fn)
		pkg.objects[obj] = fn
		if name != "_" && sig.Recv() == nil {
			pkg.Members[name] = fn // package-level function
		}

	default: // (incl. *types.Package)
		panic("unexpected Object type: " + obj.String())
	}
}

// createFunction creates a function or method. It supports both
// CreatePackage (with or without syntax) and the on-demand creation
// of methods in non-created packages based on their types.Func.
func createFunction(prog *Program, obj *types.Func, name string, syntax ast.Node, info *types.Info, goversion string) *Function {
	sig := obj.Type().(*types.Signature)

	// Collect type parameters.
	var tparams *types.TypeParamList
	if rtparams := sig.RecvTypeParams(); rtparams.Len() > 0 {
		tparams = rtparams // method of generic type
	} else if sigparams := sig.TypeParams(); sigparams.Len() > 0 {
		tparams = sigparams // generic function
	}

	/* declared function/method (from syntax or export data) */
	fn := &Function{
		name:       name,
		object:     obj,
		Signature:  sig,
		build:      (*builder).buildFromSyntax,
		syntax:     syntax,
		info:       info,
		goversion:  goversion,
		pos:        obj.Pos(),
		Pkg:        nil, // may be set by caller
		Prog:       prog,
		typeparams: tparams,
	}
	if fn.syntax == nil {
		fn.Synthetic = "from type information"
		fn.build = (*builder).buildParamsOnly
	}
	if tparams.Len() > 0 {
		fn.generic = new(generic)
	}
	return fn
}

// membersFromDecl populates package pkg with members for each
// typechecker object (var, func, const or type) associated with the
// specified decl.
func membersFromDecl(pkg *Package, decl ast.Decl, goversion string) {
	switch decl := decl.(type) {
	case *ast.GenDecl: // import, const, type or var
		switch decl.Tok {
		case token.CONST:
			for _, spec := range decl.Specs {
				for _, id := range spec.(*ast.ValueSpec).Names {
					memberFromObject(pkg, pkg.info.Defs[id], nil, "")
				}
			}

		case token.VAR:
			for _, spec := range decl.Specs {
				for _, rhs := range spec.(*ast.ValueSpec).Values {
					pkg.initVersion[rhs] = goversion
				}
				for _, id := range spec.(*ast.ValueSpec).Names {
					memberFromObject(pkg, pkg.info.Defs[id], spec, goversion)
				}
			}

		case token.TYPE:
			for _, spec := range decl.Specs {
				id := spec.(*ast.TypeSpec).Name
				memberFromObject(pkg, pkg.info.Defs[id], nil, "")
			}
		}

	case *ast.FuncDecl:
		id := decl.Name
		memberFromObject(pkg, pkg.info.Defs[id], decl, goversion)
	}
}

// CreatePackage creates and returns an SSA Package from the
// specified type-checked, error-free file ASTs, and populates its
// Members mapping.
//
// importable determines whether this package should be returned by a
// subsequent call to ImportedPackage(pkg.Path()).
//
// The real work of building SSA form for each function is not done
// until a subsequent call to Package.Build.
func (prog *Program) CreatePackage(pkg *types.Package, files []*ast.File, info *types.Info, importable bool) *Package {
	if pkg == nil {
		panic("nil pkg") // otherwise pkg.Scope below returns types.Universe!
	}
	p := &Package{
		Prog:    prog,
		Members: make(map[string]Member),
		objects: make(map[types.Object]Member),
		Pkg:     pkg,
		syntax:  info != nil,
		// transient values (cleared after Package.Build)
		info:        info,
		files:       files,
		initVersion: make(map[ast.Expr]string),
	}

	/* synthesized package initializer */
	p.init = &Function{
		name:      "init",
		Signature: new(types.Signature),
		Synthetic: "package initializer",
		Pkg:       p,
		Prog:      prog,
		build:     (*builder).buildPackageInit,
		info:      p.info,
		goversion: "", // See Package.build for details.
	}
	p.Members[p.init.name] = p.init
	p.created = append(p.created, p.init)

	// Allocate all package members: vars, funcs, consts and types.
	if len(files) > 0 {
		// Go source package.
		for _, file := range files {
			goversion := versions.Lang(versions.FileVersion(p.info, file))
			for _, decl := range file.Decls {
				membersFromDecl(p, decl, goversion)
			}
		}
	} else {
		// GC-compiled binary package (or "unsafe")
		// No code.
		// No position information.
		scope := p.Pkg.Scope()
		for _, name := range scope.Names() {
			obj := scope.Lookup(name)
			memberFromObject(p, obj, nil, "")
			if obj, ok := obj.(*types.TypeName); ok {
				// No Unalias: aliases should not duplicate methods.
				if named, ok := obj.Type().(*types.Named); ok {
					for i, n := 0, named.NumMethods(); i < n; i++ {
						memberFromObject(p, named.Method(i), nil, "")
					}
				}
			}
		}
	}

	if prog.mode&BareInits == 0 {
		// Add initializer guard variable.
		initguard := &Global{
			Pkg:  p,
			name: "init$guard",
			typ:  types.NewPointer(tBool),
		}
		p.Members[initguard.Name()] = initguard
	}

	if prog.mode&GlobalDebug != 0 {
		p.SetDebugMode(true)
	}

	if prog.mode&PrintPackages != 0 {
		printMu.Lock()
		p.WriteTo(os.Stdout)
		printMu.Unlock()
	}

	if importable {
		prog.imported[p.Pkg.Path()] = p
	}
	prog.packages[p.Pkg] = p

	return p
}

// printMu serializes printing of Packages/Functions to stdout.
var printMu sync.Mutex

// AllPackages returns a new slice containing all packages created by
// prog.CreatePackage in unspecified order.
func (prog *Program) AllPackages() []*Package {
	pkgs := make([]*Package, 0, len(prog.packages))
	for _, pkg := range prog.packages {
		pkgs = append(pkgs, pkg)
	}
	return pkgs
}

// ImportedPackage returns the importable Package whose PkgPath
// is path, or nil if no such Package has been created.
//
// A parameter to CreatePackage determines whether a package should be
// considered importable. For example, no import declaration can resolve
// to the ad-hoc main package created by 'go build foo.go'.
//
// TODO(adonovan): rethink this function and the "importable" concept;
// most packages are importable. This function assumes that all
// types.Package.Path values are unique within the ssa.Program, which is
// false---yet this function remains very convenient.
// Clients should use (*Program).Package instead where possible.
// SSA doesn't really need a string-keyed map of packages.
//
// Furthermore, the graph of packages may contain multiple variants
// (e.g. "p" vs "p as compiled for q.test"), and each has a different
// view of its dependencies.
func (prog *Program) ImportedPackage(path string) *Package {
	return prog.imported[path]
}

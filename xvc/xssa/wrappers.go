// Copyright 2013 The Go Authors. All rights reserved.
// Use of this source code is governed by a BSD-style
// license that can be found in the LICENSE file.

package ssa

// This file defines synthesis of Functions that delegate to declared
// methods; they come in three kinds:
//
// (1) wrappers: methods that wrap declared methods, performing
//     implicit pointer indirections and embedded field selections.
//
// (2) thunks: funcs that wrap declared methods.  Like wrappers,
//     thunks perform indirections and field selections. The thunk's
//     first parameter is used as the receiver for the method call.
//
// (3) bounds: funcs that wrap declared methods.  The bound's sole
//     free variable, supplied by a closure, is used as the receiver
//     for the method call.  No indirections or field selections are
//     performed since they can be done before the call.

import (
	"fmt"

	"go/token"
	"go/types"

	"xvc/xinternal/typeparams"
)

// -- wrappers -----------------------------------------------------------

// createWrapper returns a synthetic method that delegates to the
// declared method denoted by meth.Obj(), first performing any
// necessary pointer indirections or field selections implied by meth.
//
// The resulting method's receiver type is meth.Recv().
//
// This function is versatile but quite subtle!  Consider the
// following axes of variation when making changes:
//   - optional receiver indirection
//   - optional implicit field selections
//   - meth.Obj() may denote a concrete or an interface method
//   - the result may be a thunk or a wrapper.
func createWrapper(prog *Program, sel *selection) *Function {
	obj := sel.obj.(*types.Func)      // the declared function
	sig := sel.typ.(*types.Signature) // type of this wrapper

	var recv *types.Var // wrapper's receiver or thunk's params[0]
	name := obj.Name()
	var description string
	if sel.kind == types.MethodExpr {
		name += "$thunk"
		description = "thunk"
		recv = sig.Params().At(0)
	} else {
		description = "wrapper"
		recv = sig.Recv()
	}

	description = fmt.Sprintf("%s for %s", description, sel.obj)
	if prog.mode&LogSource != 0 {
		defer logStack("create %s to (%s)", description, recv.Type())()
	}
	/* method wrapper */
	return &Function{
		name:      name,
		method:    sel,
		object:    obj,
		Signature: sig,
		Synthetic: description,
		Prog:      prog,
		pos:       obj.Pos(),
		// wrappers have no syntax
		build:     (*builder).buildWrapper,
		syntax:    nil,
		info:      nil,
		goversion: "",
	}
}

// buildWrapper builds fn.Body for a method wrapper.
func (b *builder) buildWrapper(fn *Function) {
	var recv *types.Var // wrapper's receiver or thunk's params[0]
	var start int       // first regular param
	if fn.method.kind == types.MethodExpr {
		recv = fn.Signature.Params().At(0)
		start = 1
	} else {
		recv = fn.Signature.Recv()
	}

	fn.startBody()
	fn.addSpilledParam(recv)
	createParams(fn, start)

	indices := fn.method.index

	var v Value = fn.Locals[0] // spilled receiver
	if isPointer(fn.method.recv) {
		v = emitLoad(fn, v)

		// For simple indirection wrappers, perform an informative nil-check:
		// "value method (T).f called using nil *T pointer"
		if len(indices) == 1 && !isPointer(recvType(fn.object)) {
			var c Call
			c.Call.Value = &Builtin{
				name: "ssa:wrapnilchk",
				sig: types.NewSignature(nil,
					types.NewTuple(anonVar(fn.method.recv), anonVar(tString), anonVar(tString)),
					types.NewTuple(anonVar(fn.method.recv)), false),
			}
			c.Call.Args = []Value{
				v,
				stringConst(typeparams.MustDeref(fn.method.recv).String()),
				stringConst(fn.method.obj.Name()),
			}
			c.setType(v.Type())
			v = fn.emit(&c)
		}
	}

	// Invariant: v is a pointer, either
	//   value of *A receiver param, or
	// address of  A spilled receiver.

	// We use pointer arithmetic (FieldAddr possibly followed by
	// Load) in preference to value extraction (Field possibly
	// preceded by Load).

	v = emitImplicitSelections(fn, v, indices[:len(indices)-1], token.NoPos)

	// Invariant: v is a pointer, either
	//   value of implicit *C field, or
	// address of implicit  C field.

	var c Call
	if r := recvType(fn.object); !types.IsInterface(r) { // concrete method
		if !isPointer(r) {
			v = emitLoad(fn, v)
		}
		c.Call.Value = fn.Prog.objectMethod(fn.object, b)
		c.Call.Args = append(c.Call.Args, v)
	} else {
		c.Call.Method = fn.object
		c.Call.Value = emitLoad(fn, v) // interface (possibly a typeparam)
	}
	for _, arg := range fn.Params[1:] {
		c.Call.Args = append(c.Call.Args, arg)
	}
	emitTailCall(fn, &c)
	fn.finishBody()
}

// createParams creates parameters for wrapper method fn based on its
// Signature.Params, which do not include the receiver.
// start is the index of the first regular parameter to use.
func createParams(fn *Function, start int) {
	tparams := fn.Signature.Params()
	for i, n := start, tparams.Len(); i < n; i++ {
		fn.addParamVar(tparams.At(i))
	}
}

// -- bounds -----------------------------------------------------------

// createBound returns a bound method wrapper (or "bound"), a synthetic
// function that delegates to a concrete or interface method denoted
// by obj.  The resulting function has no receiver, but has one free
// variable which will be used as the method's receiver in the
// tail-call.
//
// Use MakeClosure with such a wrapper to construct a bound method
// closure.  e.g.:
//
//	type T int          or:  type T interface { meth() }
//	func (t T) meth()
//	var t T
//	f := t.meth
//	f() // calls t.meth()
//
// f is a closure of a synthetic wrapper defined as if by:
//
//	f := func() { return t.meth() }
//
// Unlike createWrapper, createBound need perform no indirection or field
// selections because that can be done before the closure is
// constructed.
func createBound(prog *Program, obj *types.Func) *Function {
	description := fmt.Sprintf("bound method wrapper for %s", obj)
	if prog.mode&LogSource != 0 {
		defer logStack("%s", description)()
	}
	/* bound method wrapper */
	fn := &Function{
		name:      obj.Name() + "$bound",
		object:    obj,
		Signature: changeRecv(obj.Type().(*types.Signature), nil), // drop receiver
		Synthetic: description,
		Prog:      prog,
		pos:       obj.Pos(),
		// wrappers have no syntax
		build:     (*builder).buildBound,
		syntax:    nil,
		info:      nil,
		goversion: "",
	}
	fn.FreeVars = []*FreeVar{{name: "recv", typ: recvType(obj), parent: fn}} // (cyclic)
	return fn
}

// buildBound builds fn.Body for a bound method closure.
func (b *builder) buildBound(fn *Function) {
	fn.startBody()
	createParams(fn, 0)
	var c Call

	recv := fn.FreeVars[0]
	if !types.IsInterface(recvType(fn.object)) { // concrete
		c.Call.Value = fn.Prog.objectMethod(fn.object, b)
		c.Call.Args = []Value{recv}
	} else {
		c.Call.Method = fn.object
		c.Call.Value = recv // interface (possibly a typeparam)
	}
	for _, arg := range fn.Params {
		c.Call.Args = append(c.Call.Args, arg)
	}
	emitTailCall(fn, &c)
	fn.finishBody()
}

// -- thunks -----------------------------------------------------------

// createThunk returns a thunk, a synthetic function that delegates to a
// concrete or interface method denoted by sel.obj.  The resulting
// function has no receiver, but has an additional (first) regular
// parameter.
//
// Precondition: sel.kind == types.MethodExpr.
//
//	type T int          or:  type T interface { meth() }
//	func (t T) meth()
//	f := T.meth
//	var t T
//	f(t) // calls t.meth()
//
// f is a synthetic wrapper defined as if by:
//
//	f := func(t T) { return t.meth() }
func createThunk(prog *Program, sel *selection) *Function {
	if sel.kind != types.MethodExpr {
		panic(sel)
	}

	fn := createWrapper(prog, sel)
	if fn.Signature.Recv() != nil {
		panic(fn) // unexpected receiver
	}

	return fn
}

func changeRecv(s *types.Signature, recv *types.Var) *types.Signature {
	return types.NewSignature(recv, s.Params(), s.Results(), s.Variadic())
}

// A local version of *types.Selection.
// Needed for some additional control, such as creating a MethodExpr for an instantiation.
type selection struct {
	kind     types.SelectionKind
	recv     types.Type
	typ      types.Type
	obj      types.Object
	index    []int
	indirect bool
}

func toSelection(sel *types.Selection) *selection {
	return &selection{
		kind:     sel.Kind(),
		recv:     sel.Recv(),
		typ:      sel.Type(),
		obj:      sel.Obj(),
		index:    sel.Index(),
		indirect: sel.Indirect(),
	}
}

// -- instantiations --------------------------------------------------

// buildInstantiationWrapper builds the body of an instantiation
// wrapper fn. The body calls the original generic function,
// bracketed by ChangeType conversions on its arguments and results.
func (b *builder) buildInstantiationWrapper(fn *Function) {
	orig := fn.topLevelOrigin
	sig := fn.Signature

	fn.startBody()
	if sig.Recv() != nil {
		fn.addParamVar(sig.Recv())
	}
	createParams(fn, 0)

	// Create body. Add a call to origin generic function
	// and make type changes between argument and parameters,
	// as well as return values.
	var c Call
	c.Call.Value = orig
	if res := orig.Signature.Results(); res.Len() == 1 {
		c.typ = res.At(0).Type()
	} else {
		c.typ = res
	}

	// parameter of instance becomes an argument to the call
	// to the original generic function.
	argOffset := 0
	for i, arg := range fn.Params {
		var typ types.Type
		if i == 0 && sig.Recv() != nil {
			typ = orig.Signature.Recv().Type()
			argOffset = 1
		} else {
			typ = orig.Signature.Params().At(i - argOffset).Type()
		}
		c.Call.Args = append(c.Call.Args, emitTypeCoercion(fn, arg, typ))
	}

	results := fn.emit(&c)
	var ret Return
	switch res := sig.Results(); res.Len() {
	case 0:
		// no results, do nothing.
	case 1:
		ret.Results = []Value{emitTypeCoercion(fn, results, res.At(0).Type())}
	default:
		for i := 0; i < sig.Results().Len(); i++ {
			v := emitExtract(fn, results, i)
			ret.Results = append(ret.Results, emitTypeCoercion(fn, v, res.At(i).Type()))
		}
	}

	fn.emit(&ret)
	fn.currentBlock = nil

	fn.finishBody()
}

// Copyright 2013 The Go Authors. All rights reserved.
// Use of this source code is governed by a BSD-style
// license that can be found in the LICENSE file.

package ssa

// This file defines a number of miscellaneous utility functions.

import (
	"fmt"
	"go/ast"
	"go/token"
	"go/types"
	"io"
	"os"
	"sync"
	_ "unsafe" // for go:linkname hack

	"golang.org/x/tools/go/types/typeutil"
	"xvc/xinternal/typeparams"
	"xvc/xinternal/typesinternal"
)

type unit struct{}

//// Sanity checking utilities

// assert panics with the mesage msg if p is false.
// Avoid combining with expensive string formatting.
func assert(p bool, msg string) {
	if !p {
		panic(msg)
	}
}

//// AST utilities

func unparen(e ast.Expr) ast.Expr { return ast.Unparen(e) }

// isBlankIdent returns true iff e is an Ident with name "_".
// They have no associated types.Object, and thus no type.
func isBlankIdent(e ast.Expr) bool {
	id, ok := e.(*ast.Ident)
	return ok && id.Name == "_"
}

//// Type utilities.  Some of these belong in go/types.

// isNonTypeParamInterface reports whether t is an interface type but not a type parameter.
func isNonTypeParamInterface(t types.Type) bool {
	return !typeparams.IsTypeParam(t) && types.IsInterface(t)
}

// isBasic reports whether t is a basic type.
// t is assumed to be an Underlying type (not Named or Alias).
func isBasic(t types.Type) bool {
	_, ok := t.(*types.Basic)
	return ok
}

// isString reports whether t is exactly a string type.
// t is assumed to be an Underlying type (not Named or Alias).
func isString(t types.Type) bool {
	basic, ok := t.(*types.Basic)
	return ok && basic.Info()&types.IsString != 0
}

// isByteSlice reports whether t is of the form []~bytes.
// t is assumed to be an Underlying type (not Named or Alias).
func isByteSlice(t types.Type) bool {
	if b, ok := t.(*types.Slice); ok {
		e, _ := b.Elem().Underlying().(*types.Basic)
		return e != nil && e.Kind() == types.Byte
	}
	return false
}

// isRuneSlice reports whether t is of the form []~runes.
// t is assumed to be an Underlying type (not Named or Alias).
func isRuneSlice(t types.Type) bool {
	if b, ok := t.(*types.Slice); ok {
		e, _ := b.Elem().Underlying().(*types.Basic)
		return e != nil && e.Kind() == types.Rune
	}
	return false
}

// isBasicConvTypes returns true when a type set can be
// one side of a Convert operation. This is when:
// - All are basic, []byte, or []rune.
// - At least 1 is basic.
// - At most 1 is []byte or []rune.
func isBasicConvTypes(tset termList) bool {
	basics := 0
	all := underIs(tset, func(t types.Type) bool {
		if isBasic(t) {
			basics++
			return true
		}
		return isByteSlice(t) || isRuneSlice(t)
	})
	return all && basics >= 1 && tset.Len()-basics <= 1
}

// isPointer reports whether t's underlying type is a pointer.
func isPointer(t types.Type) bool {
	return is[*types.Pointer](t.Underlying())
}

// isPointerCore reports whether t's core type is a pointer.
//
// (Most pointer manipulation is related to receivers, in which case
// isPointer is appropriate. tecallers can use isPointer(t).
func isPointerCore(t types.Type) bool {
	return is[*types.Pointer](typeparams.CoreType(t))
}

func is[T any](x any) bool {
	_, ok := x.(T)
	return ok
}

// recvType returns the receiver type of method obj.
func recvType(obj *types.Func) types.Type {
	return obj.Type().(*types.Signature).Recv().Type()
}

// fieldOf returns the index'th field of the (core type of) a struct type;
// otherwise returns nil.
func fieldOf(typ types.Type, index int) *types.Var {
	if st, ok := typeparams.CoreType(typ).(*types.Struct); ok {
		if 0 <= index && index < st.NumFields() {
			return st.Field(index)
		}
	}
	return nil
}

// isUntyped reports whether typ is the type of an untyped constant.
func isUntyped(typ types.Type) bool {
	// No Underlying/Unalias: untyped constant types cannot be Named or Alias.
	b, ok := typ.(*types.Basic)
	return ok && b.Info()&types.IsUntyped != 0
}

// declaredWithin reports whether an object is declared within a function.
//
// obj must not be a method or a field.
func declaredWithin(obj types.Object, fn *types.Func) bool {
	if obj.Pos() != token.NoPos {
		return fn.Scope().Contains(obj.Pos()) // trust the positions if they exist.
	}
	if fn.Pkg() != obj.Pkg() {
		return false // fast path for different packages
	}

	// Traverse Parent() scopes for fn.Scope().
	for p := obj.Parent(); p != nil; p = p.Parent() {
		if p == fn.Scope() {
			return true
		}
	}
	return false
}

// logStack prints the formatted "start" message to stderr and
// returns a closure that prints the corresponding "end" message.
// Call using 'defer logStack(...)()' to show builder stack on panic.
// Don't forget trailing parens!
func logStack(format string, args ...interface{}) func() {
	msg := fmt.Sprintf(format, args...)
	io.WriteString(os.Stderr, msg)
	io.WriteString(os.Stderr, "\n")
	return func() {
		io.WriteString(os.Stderr, msg)
		io.WriteString(os.Stderr, " end\n")
	}
}

// newVar creates a 'var' for use in a types.Tuple.
func newVar(name string, typ types.Type) *types.Var {
	return types.NewParam(token.NoPos, nil, name, typ)
}

// anonVar creates an anonymous 'var' for use in a types.Tuple.
func anonVar(typ types.Type) *types.Var {
	return newVar("", typ)
}

var lenResults = types.NewTuple(anonVar(tInt))

// makeLen returns the len builtin specialized to type func(T)int.
func makeLen(T types.Type) *Builtin {
	lenParams := types.NewTuple(anonVar(T))
	return &Builtin{
		name: "len",
		sig:  types.NewSignature(nil, lenParams, lenResults, false),
	}
}

// receiverTypeArgs returns the type arguments to a method's receiver.
// Returns an empty list if the receiver does not have type arguments.
func receiverTypeArgs(method *types.Func) []types.Type {
	recv := method.Type().(*types.Signature).Recv()
	_, named := typesinternal.ReceiverNamed(recv)
	if named == nil {
		return nil // recv is anonymous struct/interface
	}
	ts := named.TypeArgs()
	if ts.Len() == 0 {
		return nil
	}
	targs := make([]types.Type, ts.Len())
	for i := 0; i < ts.Len(); i++ {
		targs[i] = ts.At(i)
	}
	return targs
}

// recvAsFirstArg takes a method signature and returns a function
// signature with receiver as the first parameter.
func recvAsFirstArg(sig *types.Signature) *types.Signature {
	params := make([]*types.Var, 0, 1+sig.Params().Len())
	params = append(params, sig.Recv())
	for i := 0; i < sig.Params().Len(); i++ {
		params = append(params, sig.Params().At(i))
	}
	return types.NewSignatureType(nil, nil, nil, types.NewTuple(params...), sig.Results(), sig.Variadic())
}

// instance returns whether an expression is a simple or qualified identifier
// that is a generic instantiation.
func instance(info *types.Info, expr ast.Expr) bool {
	// Compare the logic here against go/types.instantiatedIdent,
	// which also handles  *IndexExpr and *IndexListExpr.
	var id *ast.Ident
	switch x := expr.(type) {
	case *ast.Ident:
		id = x
	case *ast.SelectorExpr:
		id = x.Sel
	default:
		return false
	}
	_, ok := info.Instances[id]
	return ok
}

// instanceArgs returns the Instance[id].TypeArgs as a slice.
func instanceArgs(info *types.Info, id *ast.Ident) []types.Type {
	targList := info.Instances[id].TypeArgs
	if targList == nil {
		return nil
	}

	targs := make([]types.Type, targList.Len())
	for i, n := 0, targList.Len(); i < n; i++ {
		targs[i] = targList.At(i)
	}
	return targs
}

// Mapping of a type T to a canonical instance C s.t. types.Identical(T, C).
// Thread-safe.
type canonizer struct {
	mu    sync.Mutex
	types typeutil.Map // map from type to a canonical instance
	lists typeListMap  // map from a list of types to a canonical instance
}

func newCanonizer() *canonizer {
	c := &canonizer{}
	h := typeutil.MakeHasher()
	c.types.SetHasher(h)
	c.lists.hasher = h
	return c
}

// List returns a canonical representative of a list of types.
// Representative of the empty list is nil.
func (c *canonizer) List(ts []types.Type) *typeList {
	if len(ts) == 0 {
		return nil
	}

	unaliasAll := func(ts []types.Type) []types.Type {
		// Is there some top level alias?
		var found bool
		for _, t := range ts {
			if _, ok := t.(*types.Alias); ok {
				found = true
				break
			}
		}
		if !found {
			return ts // no top level alias
		}

		cp := make([]types.Type, len(ts)) // copy with top level aliases removed.
		for i, t := range ts {
			cp[i] = types.Unalias(t)
		}
		return cp
	}
	l := unaliasAll(ts)

	c.mu.Lock()
	defer c.mu.Unlock()
	return c.lists.rep(l)
}

// Type returns a canonical representative of type T.
// Removes top-level aliases.
//
// For performance, reasons the canonical instance is order-dependent,
// and may contain deeply nested aliases.
func (c *canonizer) Type(T types.Type) types.Type {
	T = types.Unalias(T) // remove the top level alias.

	c.mu.Lock()
	defer c.mu.Unlock()

	if r := c.types.At(T); r != nil {
		return r.(types.Type)
	}
	c.types.Set(T, T)
	return T
}

// A type for representing a canonized list of types.
type typeList []types.Type

func (l *typeList) identical(ts []types.Type) bool {
	if l == nil {
		return len(ts) == 0
	}
	n := len(*l)
	if len(ts) != n {
		return false
	}
	for i, left := range *l {
		right := ts[i]
		if !types.Identical(left, right) {
			return false
		}
	}
	return true
}

type typeListMap struct {
	hasher  typeutil.Hasher
	buckets map[uint32][]*typeList
}

// rep returns a canonical representative of a slice of types.
func (m *typeListMap) rep(ts []types.Type) *typeList {
	if m == nil || len(ts) == 0 {
		return nil
	}

	if m.buckets == nil {
		m.buckets = make(map[uint32][]*typeList)
	}

	h := m.hash(ts)
	bucket := m.buckets[h]
	for _, l := range bucket {
		if l.identical(ts) {
			return l
		}
	}

	// not present. create a representative.
	cp := make(typeList, len(ts))
	copy(cp, ts)
	rep := &cp

	m.buckets[h] = append(bucket, rep)
	return rep
}

func (m *typeListMap) hash(ts []types.Type) uint32 {
	if m == nil {
		return 0
	}
	// Some smallish prime far away from typeutil.Hash.
	n := len(ts)
	h := uint32(13619) + 2*uint32(n)
	for i := 0; i < n; i++ {
		h += 3 * m.hasher.Hash(ts[i])
	}
	return h
}

// instantiateMethod instantiates m with targs and returns a canonical representative for this method.
func (canon *canonizer) instantiateMethod(m *types.Func, targs []types.Type, ctxt *types.Context) *types.Func {
	recv := recvType(m)
	if p, ok := types.Unalias(recv).(*types.Pointer); ok {
		recv = p.Elem()
	}
	named := types.Unalias(recv).(*types.Named)
	inst, err := types.Instantiate(ctxt, named.Origin(), targs, false)
	if err != nil {
		panic(err)
	}
	rep := canon.Type(inst)
	obj, _, _ := types.LookupFieldOrMethod(rep, true, m.Pkg(), m.Name())
	return obj.(*types.Func)
}

// Exposed to ssautil using the linkname hack.
//
//go:linkname isSyntactic golang.org/x/tools/go/ssa.isSyntactic
func isSyntactic(pkg *Package) bool { return pkg.syntax }

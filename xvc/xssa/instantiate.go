// Copyright 2022 The Go Authors. All rights reserved.
// Use of this source code is governed by a BSD-style
// license that can be found in the LICENSE file.

package ssa

import (
	"fmt"
	"go/types"
	"sync"
)

// A generic records information about a generic origin function,
// including a cache of existing instantiations.
type generic struct {
	instancesMu sync.Mutex
	instances   map[*typeList]*Function // canonical type arguments to an instance.
}

// instance returns a Function that is the instantiation of generic
// origin function fn with the type arguments targs.
//
// Any created instance is added to cr.
//
// Acquires fn.generic.instancesMu.
func (fn *Function) instance(targs []types.Type, b *builder) *Function {
	key := fn.Prog.canon.List(targs)

	gen := fn.generic

	gen.instancesMu.Lock()
	defer gen.instancesMu.Unlock()
	inst, ok := gen.instances[key]
	if !ok {
		inst = createInstance(fn, targs)
		inst.buildshared = b.shared()
		b.enqueue(inst)

		if gen.instances == nil {
			gen.instances = make(map[*typeList]*Function)
		}
		gen.instances[key] = inst
	} else {
		b.waitForSharedFunction(inst)
	}
	return inst
}

// createInstance returns the instantiation of generic function fn using targs.
//
// Requires fn.generic.instancesMu.
func createInstance(fn *Function, targs []types.Type) *Function {
	prog := fn.Prog

	// Compute signature.
	var sig *types.Signature
	var obj *types.Func
	if recv := fn.Signature.Recv(); recv != nil {
		// method
		obj = prog.canon.instantiateMethod(fn.object, targs, prog.ctxt)
		sig = obj.Type().(*types.Signature)
	} else {
		// function
		instSig, err := types.Instantiate(prog.ctxt, fn.Signature, targs, false)
		if err != nil {
			panic(err)
		}
		instance, ok := instSig.(*types.Signature)
		if !ok {
			panic("Instantiate of a Signature returned a non-signature")
		}
		obj = fn.object // instantiation does not exist yet
		sig = prog.canon.Type(instance).(*types.Signature)
	}

	// Choose strategy (instance or wrapper).
	var (
		synthetic string
		subst     *subster
		build     buildFunc
	)
	if prog.mode&InstantiateGenerics != 0 && !prog.isParameterized(targs...) {
		synthetic = fmt.Sprintf("instance of %s", fn.Name())
		if fn.syntax != nil {
			subst = makeSubster(prog.ctxt, obj, fn.typeparams, targs, false)
			build = (*builder).buildFromSyntax
		} else {
			build = (*builder).buildParamsOnly
		}
	} else {
		synthetic = fmt.Sprintf("instantiation wrapper of %s", fn.Name())
		build = (*builder).buildInstantiationWrapper
	}

	/* generic instance or instantiation wrapper */
	return &Function{
		name:           fmt.Sprintf("%s%s", fn.Name(), targs), // may not be unique
		object:         obj,
		Signature:      sig,
		Synthetic:      synthetic,
		syntax:         fn.syntax,    // \
		info:           fn.info,      //  } empty for non-created packages
		goversion:      fn.goversion, // /
		build:          build,
		topLevelOrigin: fn,
		pos:            obj.Pos(),
		Pkg:            nil,
		Prog:           fn.Prog,
		typeparams:     fn.typeparams, // share with origin
		typeargs:       targs,
		subst:          subst,
	}
}

// isParameterized reports whether any of the specified types contains
// a free type parameter. It is safe to call concurrently.
func (prog *Program) isParameterized(ts ...types.Type) bool {
	prog.hasParamsMu.Lock()
	defer prog.hasParamsMu.Unlock()

	// TODO(adonovan): profile. If this operation is expensive,
	// handle the most common but shallow cases such as T, pkg.T,
	// *T without consulting the cache under the lock.

	for _, t := range ts {
		if prog.hasParams.Has(t) {
			return true
		}
	}
	return false
}

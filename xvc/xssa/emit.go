// Copyright 2013 The Go Authors. All rights reserved.
// Use of this source code is governed by a BSD-style
// license that can be found in the LICENSE file.

package ssa

// Helpers for emitting SSA instructions.

import (
	"fmt"
	"go/ast"
	"go/token"
	"go/types"

	"xvc/xinternal/typeparams"
)

// emitAlloc emits to f a new Alloc instruction allocating a variable
// of type typ.
//
// The caller must set Alloc.Heap=true (for an heap-allocated variable)
// or add the Alloc to f.Locals (for a frame-allocated variable).
//
// During building, a variable in f.Locals may have its Heap flag
// set when it is discovered that its address is taken.
// These Allocs are removed from f.Locals at the end.
//
// The builder should generally call one of the emit{New,Local,LocalVar} wrappers instead.
func emitAlloc(f *Function, typ types.Type, pos token.Pos, comment string) *Alloc {
	v := &Alloc{Comment: comment}
	v.setType(types.NewPointer(typ))
	v.setPos(pos)
	f.emit(v)
	return v
}

// emitNew emits to f a new Alloc instruction heap-allocating a
// variable of type typ. pos is the optional source location.
func emitNew(f *Function, typ types.Type, pos token.Pos, comment string) *Alloc {
	alloc := emitAlloc(f, typ, pos, comment)
	alloc.Heap = true
	return alloc
}

// emitLocal creates a local var for (t, pos, comment) and
// emits an Alloc instruction for it.
//
// (Use this function or emitNew for synthetic variables;
// for source-level variables in the same function, use emitLocalVar.)
func emitLocal(f *Function, t types.Type, pos token.Pos, comment string) *Alloc {
	local := emitAlloc(f, t, pos, comment)
	f.Locals = append(f.Locals, local)
	return local
}

// emitLocalVar creates a local var for v and emits an Alloc instruction for it.
// Subsequent calls to f.lookup(v) return it.
// It applies the appropriate generic instantiation to the type.
func emitLocalVar(f *Function, v *types.Var) *Alloc {
	alloc := emitLocal(f, f.typ(v.Type()), v.Pos(), v.Name())
	f.vars[v] = alloc
	return alloc
}

// emitLoad emits to f an instruction to load the address addr into a
// new temporary, and returns the value so defined.
func emitLoad(f *Function, addr Value) *UnOp {
	v := &UnOp{Op: token.MUL, X: addr}
	v.setType(typeparams.MustDeref(addr.Type()))
	f.emit(v)
	return v
}

// emitDebugRef emits to f a DebugRef pseudo-instruction associating
// expression e with value v.
func emitDebugRef(f *Function, e ast.Expr, v Value, isAddr bool) {
	if !f.debugInfo() {
		return // debugging not enabled
	}
	if v == nil || e == nil {
		panic("nil")
	}
	var obj types.Object
	e = unparen(e)
	if id, ok := e.(*ast.Ident); ok {
		if isBlankIdent(id) {
			return
		}
		obj = f.objectOf(id)
		switch obj.(type) {
		case *types.Nil, *types.Const, *types.Builtin:
			return
		}
	}
	f.emit(&DebugRef{
		X:      v,
		Expr:   e,
		IsAddr: isAddr,
		object: obj,
	})
}

// emitArith emits to f code to compute the binary operation op(x, y)
// where op is an eager shift, logical or arithmetic operation.
// (Use emitCompare() for comparisons and Builder.logicalBinop() for
// non-eager operations.)
func emitArith(f *Function, op token.Token, x, y Value, t types.Type, pos token.Pos) Value {
	switch op {
	case token.SHL, token.SHR:
		x = emitConv(f, x, t)
		// y may be signed or an 'untyped' constant.

		// There is a runtime panic if y is signed and <0. Instead of inserting a check for y<0
		// and converting to an unsigned value (like the compiler) leave y as is.

		if isUntyped(y.Type().Underlying()) {
			// Untyped conversion:
			// Spec https://go.dev/ref/spec#Operators:
			// The right operand in a shift expression must have integer type or be an untyped constant
			// representable by a value of type uint.
			y = emitConv(f, y, types.Typ[types.Uint])
		}

	case token.ADD, token.SUB, token.MUL, token.QUO, token.REM, token.AND, token.OR, token.XOR, token.AND_NOT:
		x = emitConv(f, x, t)
		y = emitConv(f, y, t)

	default:
		panic("illegal op in emitArith: " + op.String())

	}
	v := &BinOp{
		Op: op,
		X:  x,
		Y:  y,
	}
	v.setPos(pos)
	v.setType(t)
	return f.emit(v)
}

// emitCompare emits to f code compute the boolean result of
// comparison 'x op y'.
func emitCompare(f *Function, op token.Token, x, y Value, pos token.Pos) Value {
	xt := x.Type().Underlying()
	yt := y.Type().Underlying()

	// Special case to optimise a tagless SwitchStmt so that
	// these are equivalent
	//   switch { case e: ...}
	//   switch true { case e: ... }
	//   if e==true { ... }
	// even in the case when e's type is an interface.
	// TODO(adonovan): opt: generalise to x==true, false!=y, etc.
	if x == vTrue && op == token.EQL {
		if yt, ok := yt.(*types.Basic); ok && yt.Info()&types.IsBoolean != 0 {
			return y
		}
	}

	if types.Identical(xt, yt) {
		// no conversion necessary
	} else if isNonTypeParamInterface(x.Type()) {
		y = emitConv(f, y, x.Type())
	} else if isNonTypeParamInterface(y.Type()) {
		x = emitConv(f, x, y.Type())
	} else if _, ok := x.(*Const); ok {
		x = emitConv(f, x, y.Type())
	} else if _, ok := y.(*Const); ok {
		y = emitConv(f, y, x.Type())
	} else {
		// other cases, e.g. channels.  No-op.
	}

	v := &BinOp{
		Op: op,
		X:  x,
		Y:  y,
	}
	v.setPos(pos)
	v.setType(tBool)
	return f.emit(v)
}

// isValuePreserving returns true if a conversion from ut_src to
// ut_dst is value-preserving, i.e. just a change of type.
// Precondition: neither argument is a named or alias type.
func isValuePreserving(ut_src, ut_dst types.Type) bool {
	// Identical underlying types?
	if types.IdenticalIgnoreTags(ut_dst, ut_src) {
		return true
	}

	switch ut_dst.(type) {
	case *types.Chan:
		// Conversion between channel types?
		_, ok := ut_src.(*types.Chan)
		return ok

	case *types.Pointer:
		// Conversion between pointers with identical base types?
		_, ok := ut_src.(*types.Pointer)
		return ok
	}
	return false
}

// emitConv emits to f code to convert Value val to exactly type typ,
// and returns the converted value.  Implicit conversions are required
// by language assignability rules in assignments, parameter passing,
// etc.
func emitConv(f *Function, val Value, typ types.Type) Value {
	t_src := val.Type()

	// Identical types?  Conversion is a no-op.
	if types.Identical(t_src, typ) {
		return val
	}
	ut_dst := typ.Underlying()
	ut_src := t_src.Underlying()

	// Conversion to, or construction of a value of, an interface type?
	if isNonTypeParamInterface(typ) {
		// Interface name change?
		if isValuePreserving(ut_src, ut_dst) {
			c := &ChangeType{X: val}
			c.setType(typ)
			return f.emit(c)
		}

		// Assignment from one interface type to another?
		if isNonTypeParamInterface(t_src) {
			c := &ChangeInterface{X: val}
			c.setType(typ)
			return f.emit(c)
		}

		// Untyped nil constant?  Return interface-typed nil constant.
		if ut_src == tUntypedNil {
			return zeroConst(typ)
		}

		// Convert (non-nil) "untyped" literals to their default type.
		if t, ok := ut_src.(*types.Basic); ok && t.Info()&types.IsUntyped != 0 {
			val = emitConv(f, val, types.Default(ut_src))
		}

		// Record the types of operands to MakeInterface, if
		// non-parameterized, as they are the set of runtime types.
		t := val.Type()
		if f.typeparams.Len() == 0 || !f.Prog.isParameterized(t) {
			addMakeInterfaceType(f.Prog, t)
		}

		mi := &MakeInterface{X: val}
		mi.setType(typ)
		return f.emit(mi)
	}

	// In the common case, the typesets of src and dst are singletons
	// and we emit an appropriate conversion. But if either contains
	// a type parameter, the conversion may represent a cross product,
	// in which case which we emit a MultiConvert.
	dst_terms := typeSetOf(ut_dst)
	src_terms := typeSetOf(ut_src)

	// conversionCase describes an instruction pattern that maybe emitted to
	// model d <- s for d in dst_terms and s in src_terms.
	// Multiple conversions can match the same pattern.
	type conversionCase uint8
	const (
		changeType conversionCase = 1 << iota
		sliceToArray
		sliceToArrayPtr
		sliceTo0Array
		sliceTo0ArrayPtr
		convert
	)
	// classify the conversion case of a source type us to a destination type ud.
	// us and ud are underlying types (not *Named or *Alias)
	classify := func(us, ud types.Type) conversionCase {
		// Just a change of type, but not value or representation?
		if isValuePreserving(us, ud) {
			return changeType
		}

		// Conversion from slice to array or slice to array pointer?
		if slice, ok := us.(*types.Slice); ok {
			var arr *types.Array
			var ptr bool
			// Conversion from slice to array pointer?
			switch d := ud.(type) {
			case *types.Array:
				arr = d
			case *types.Pointer:
				arr, _ = d.Elem().Underlying().(*types.Array)
				ptr = true
			}
			if arr != nil && types.Identical(slice.Elem(), arr.Elem()) {
				if arr.Len() == 0 {
					if ptr {
						return sliceTo0ArrayPtr
					} else {
						return sliceTo0Array
					}
				}
				if ptr {
					return sliceToArrayPtr
				} else {
					return sliceToArray
				}
			}
		}

		// The only remaining case in well-typed code is a representation-
		// changing conversion of basic types (possibly with []byte/[]rune).
		if !isBasic(us) && !isBasic(ud) {
			panic(fmt.Sprintf("in %s: cannot convert term %s (%s [within %s]) to type %s [within %s]", f, val, val.Type(), us, typ, ud))
		}
		return convert
	}

	var classifications conversionCase
	for _, s := range src_terms {
		us := s.Type().Underlying()
		for _, d := range dst_terms {
			ud := d.Type().Underlying()
			classifications |= classify(us, ud)
		}
	}
	if classifications == 0 {
		panic(fmt.Sprintf("in %s: cannot convert %s (%s) to %s", f, val, val.Type(), typ))
	}

	// Conversion of a compile-time constant value?
	if c, ok := val.(*Const); ok {
		// Conversion to a basic type?
		if isBasic(ut_dst) {
			// Conversion of a compile-time constant to
			// another constant type results in a new
			// constant of the destination type and
			// (initially) the same abstract value.
			// We don't truncate the value yet.
			return NewConst(c.Value, typ)
		}
		// Can we always convert from zero value without panicking?
		const mayPanic = sliceToArray | sliceToArrayPtr
		if c.Value == nil && classifications&mayPanic == 0 {
			return NewConst(nil, typ)
		}

		// We're converting from constant to non-constant type,
		// e.g. string -> []byte/[]rune.
	}

	switch classifications {
	case changeType: // representation-preserving change
		c := &ChangeType{X: val}
		c.setType(typ)
		return f.emit(c)

	case sliceToArrayPtr, sliceTo0ArrayPtr: // slice to array pointer
		c := &SliceToArrayPointer{X: val}
		c.setType(typ)
		return f.emit(c)

	case sliceToArray: // slice to arrays (not zero-length)
		ptype := types.NewPointer(typ)
		p := &SliceToArrayPointer{X: val}
		p.setType(ptype)
		x := f.emit(p)
		unOp := &UnOp{Op: token.MUL, X: x}
		unOp.setType(typ)
		return f.emit(unOp)

	case sliceTo0Array: // slice to zero-length arrays (constant)
		return zeroConst(typ)

	case convert: // representation-changing conversion
		c := &Convert{X: val}
		c.setType(typ)
		return f.emit(c)

	default: // multiple conversion
		c := &MultiConvert{X: val, from: src_terms, to: dst_terms}
		c.setType(typ)
		return f.emit(c)
	}
}

// emitTypeCoercion emits to f code to coerce the type of a
// Value v to exactly type typ, and returns the coerced value.
//
// Requires that coercing v.Typ() to typ is a value preserving change.
//
// Currently used only when v.Type() is a type instance of typ or vice versa.
// A type v is a type instance of a type t if there exists a
// type parameter substitution σ s.t. σ(v) == t. Example:
//
//	σ(func(T) T) == func(int) int for σ == [T ↦ int]
//
// This happens in instantiation wrappers for conversion
// from an instantiation to a parameterized type (and vice versa)
// with σ substituting f.typeparams by f.typeargs.
func emitTypeCoercion(f *Function, v Value, typ types.Type) Value {
	if types.Identical(v.Type(), typ) {
		return v // no coercion needed
	}
	// TODO(taking): for instances should we record which side is the instance?
	c := &ChangeType{
		X: v,
	}
	c.setType(typ)
	f.emit(c)
	return c
}

// emitStore emits to f an instruction to store value val at location
// addr, applying implicit conversions as required by assignability rules.
func emitStore(f *Function, addr, val Value, pos token.Pos) *Store {
	typ := typeparams.MustDeref(addr.Type())
	s := &Store{
		Addr: addr,
		Val:  emitConv(f, val, typ),
		pos:  pos,
	}
	f.emit(s)
	return s
}

// emitJump emits to f a jump to target, and updates the control-flow graph.
// Postcondition: f.currentBlock is nil.
func emitJump(f *Function, target *BasicBlock) {
	b := f.currentBlock
	b.emit(new(Jump))
	addEdge(b, target)
	f.currentBlock = nil
}

// emitIf emits to f a conditional jump to tblock or fblock based on
// cond, and updates the control-flow graph.
// Postcondition: f.currentBlock is nil.
func emitIf(f *Function, cond Value, tblock, fblock *BasicBlock) {
	b := f.currentBlock
	b.emit(&If{Cond: cond})
	addEdge(b, tblock)
	addEdge(b, fblock)
	f.currentBlock = nil
}

// emitExtract emits to f an instruction to extract the index'th
// component of tuple.  It returns the extracted value.
func emitExtract(f *Function, tuple Value, index int) Value {
	e := &Extract{Tuple: tuple, Index: index}
	e.setType(tuple.Type().(*types.Tuple).At(index).Type())
	return f.emit(e)
}

// emitTypeAssert emits to f a type assertion value := x.(t) and
// returns the value.  x.Type() must be an interface.
func emitTypeAssert(f *Function, x Value, t types.Type, pos token.Pos) Value {
	a := &TypeAssert{X: x, AssertedType: t}
	a.setPos(pos)
	a.setType(t)
	return f.emit(a)
}

// emitTypeTest emits to f a type test value,ok := x.(t) and returns
// a (value, ok) tuple.  x.Type() must be an interface.
func emitTypeTest(f *Function, x Value, t types.Type, pos token.Pos) Value {
	a := &TypeAssert{
		X:            x,
		AssertedType: t,
		CommaOk:      true,
	}
	a.setPos(pos)
	a.setType(types.NewTuple(
		newVar("value", t),
		varOk,
	))
	return f.emit(a)
}

// emitTailCall emits to f a function call in tail position.  The
// caller is responsible for all fields of 'call' except its type.
// Intended for wrapper methods.
// Precondition: f does/will not use deferred procedure calls.
// Postcondition: f.currentBlock is nil.
func emitTailCall(f *Function, call *Call) {
	tresults := f.Signature.Results()
	nr := tresults.Len()
	if nr == 1 {
		call.typ = tresults.At(0).Type()
	} else {
		call.typ = tresults
	}
	tuple := f.emit(call)
	var ret Return
	switch nr {
	case 0:
		// no-op
	case 1:
		ret.Results = []Value{tuple}
	default:
		for i := 0; i < nr; i++ {
			v := emitExtract(f, tuple, i)
			// TODO(adonovan): in principle, this is required:
			//   v = emitConv(f, o.Type, f.Signature.Results[i].Type)
			// but in practice emitTailCall is only used when
			// the types exactly match.
			ret.Results = append(ret.Results, v)
		}
	}
	f.emit(&ret)
	f.currentBlock = nil
}

// emitImplicitSelections emits to f code to apply the sequence of
// implicit field selections specified by indices to base value v, and
// returns the selected value.
//
// If v is the address of a struct, the result will be the address of
// a field; if it is the value of a struct, the result will be the
// value of a field.
func emitImplicitSelections(f *Function, v Value, indices []int, pos token.Pos) Value {
	for _, index := range indices {
		if isPointerCore(v.Type()) {
			fld := fieldOf(typeparams.MustDeref(v.Type()), index)
			instr := &FieldAddr{
				X:     v,
				Field: index,
			}
			instr.setPos(pos)
			instr.setType(types.NewPointer(fld.Type()))
			v = f.emit(instr)
			// Load the field's value iff indirectly embedded.
			if isPointerCore(fld.Type()) {
				v = emitLoad(f, v)
			}
		} else {
			fld := fieldOf(v.Type(), index)
			instr := &Field{
				X:     v,
				Field: index,
			}
			instr.setPos(pos)
			instr.setType(fld.Type())
			v = f.emit(instr)
		}
	}
	return v
}

// emitFieldSelection emits to f code to select the index'th field of v.
//
// If wantAddr, the input must be a pointer-to-struct and the result
// will be the field's address; otherwise the result will be the
// field's value.
// Ident id is used for position and debug info.
func emitFieldSelection(f *Function, v Value, index int, wantAddr bool, id *ast.Ident) Value {
	if isPointerCore(v.Type()) {
		fld := fieldOf(typeparams.MustDeref(v.Type()), index)
		instr := &FieldAddr{
			X:     v,
			Field: index,
		}
		instr.setPos(id.Pos())
		instr.setType(types.NewPointer(fld.Type()))
		v = f.emit(instr)
		// Load the field's value iff we don't want its address.
		if !wantAddr {
			v = emitLoad(f, v)
		}
	} else {
		fld := fieldOf(v.Type(), index)
		instr := &Field{
			X:     v,
			Field: index,
		}
		instr.setPos(id.Pos())
		instr.setType(fld.Type())
		v = f.emit(instr)
	}
	emitDebugRef(f, id, v, wantAddr)
	return v
}

// createRecoverBlock emits to f a block of code to return after a
// recovered panic, and sets f.Recover to it.
//
// If f's result parameters are named, the code loads and returns
// their current values, otherwise it returns the zero values of their
// type.
//
// Idempotent.
func createRecoverBlock(f *Function) {
	if f.Recover != nil {
		return // already created
	}
	saved := f.currentBlock

	f.Recover = f.newBasicBlock("recover")
	f.currentBlock = f.Recover

	var results []Value
	// Reload NRPs to form value tuple.
	for _, nr := range f.results {
		results = append(results, emitLoad(f, nr))
	}

	f.emit(&Return{Results: results})

	f.currentBlock = saved
}

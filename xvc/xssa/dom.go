// Copyright 2013 The Go Authors. All rights reserved.
// Use of this source code is governed by a BSD-style
// license that can be found in the LICENSE file.

package ssa

// This file defines algorithms related to dominance.

// Dominator tree construction ----------------------------------------
//
// We use the algorithm described in Lengauer & Tarjan. 1979.  A fast
// algorithm for finding dominators in a flowgraph.
// http://doi.acm.org/10.1145/357062.357071
//
// We also apply the optimizations to SLT described in Georgiadis et
// al, Finding Dominators in Practice, JGAA 2006,
// http://jgaa.info/accepted/2006/GeorgiadisTarjanWerneck2006.10.1.pdf
// to avoid the need for buckets of size > 1.

import (
	"bytes"
	"fmt"
	"math/big"
	"os"
	"sort"
)

// Idom returns the block that immediately dominates b:
// its parent in the dominator tree, if any.
// Neither the entry node (b.Index==0) nor recover node
// (b==b.Parent().Recover()) have a parent.
func (b *BasicBlock) Idom() *BasicBlock { return b.dom.idom }

// Dominees returns the list of blocks that b immediately dominates:
// its children in the dominator tree.
func (b *BasicBlock) Dominees() []*BasicBlock { return b.dom.children }

// Dominates reports whether b dominates c.
func (b *BasicBlock) Dominates(c *BasicBlock) bool {
	return b.dom.pre <= c.dom.pre && c.dom.post <= b.dom.post
}

// DomPreorder returns a new slice containing the blocks of f
// in a preorder traversal of the dominator tree.
func (f *Function) DomPreorder() []*BasicBlock {
	slice := append([]*BasicBlock(nil), f.Blocks...)
	sort.Slice(slice, func(i, j int) bool {
		return slice[i].dom.pre < slice[j].dom.pre
	})
	return slice
}

// DomPostorder returns a new slice containing the blocks of f
// in a postorder traversal of the dominator tree.
// (This is not the same as a postdominance order.)
func (f *Function) DomPostorder() []*BasicBlock {
	slice := append([]*BasicBlock(nil), f.Blocks...)
	sort.Slice(slice, func(i, j int) bool {
		return slice[i].dom.post < slice[j].dom.post
	})
	return slice
}

// domInfo contains a BasicBlock's dominance information.
type domInfo struct {
	idom      *BasicBlock   // immediate dominator (parent in domtree)
	children  []*BasicBlock // nodes immediately dominated by this one
	pre, post int32         // pre- and post-order numbering within domtree
}

// ltState holds the working state for Lengauer-Tarjan algorithm
// (during which domInfo.pre is repurposed for CFG DFS preorder number).
type ltState struct {
	// Each slice is indexed by b.Index.
	sdom     []*BasicBlock // b's semidominator
	parent   []*BasicBlock // b's parent in DFS traversal of CFG
	ancestor []*BasicBlock // b's ancestor with least sdom
}

// dfs implements the depth-first search part of the LT algorithm.
func (lt *ltState) dfs(v *BasicBlock, i int32, preorder []*BasicBlock) int32 {
	preorder[i] = v
	v.dom.pre = i // For now: DFS preorder of spanning tree of CFG
	i++
	lt.sdom[v.Index] = v
	lt.link(nil, v)
	for _, w := range v.Succs {
		if lt.sdom[w.Index] == nil {
			lt.parent[w.Index] = v
			i = lt.dfs(w, i, preorder)
		}
	}
	return i
}

// eval implements the EVAL part of the LT algorithm.
func (lt *ltState) eval(v *BasicBlock) *BasicBlock {
	// TODO(adonovan): opt: do path compression per simple LT.
	u := v
	for ; lt.ancestor[v.Index] != nil; v = lt.ancestor[v.Index] {
		if lt.sdom[v.Index].dom.pre < lt.sdom[u.Index].dom.pre {
			u = v
		}
	}
	return u
}

// link implements the LINK part of the LT algorithm.
func (lt *ltState) link(v, w *BasicBlock) {
	lt.ancestor[w.Index] = v
}

// buildDomTree computes the dominator tree of f using the LT algorithm.
// Precondition: all blocks are reachable (e.g. optimizeBlocks has been run).
func buildDomTree(f *Function) {
	// The step numbers refer to the original LT paper; the
	// reordering is due to Georgiadis.

	// Clear any previous domInfo.
	for _, b := range f.Blocks {
		b.dom = domInfo{}
	}

	n := len(f.Blocks)
	// Allocate space for 5 contiguous [n]*BasicBlock arrays:
	// sdom, parent, ancestor, preorder, buckets.
	space := make([]*BasicBlock, 5*n)
	lt := ltState{
		sdom:     space[0:n],
		parent:   space[n : 2*n],
		ancestor: space[2*n : 3*n],
	}

	// Step 1.  Number vertices by depth-first preorder.
	preorder := space[3*n : 4*n]
	root := f.Blocks[0]
	prenum := lt.dfs(root, 0, preorder)
	recover := f.Recover
	if recover != nil {
		lt.dfs(recover, prenum, preorder)
	}

	buckets := space[4*n : 5*n]
	copy(buckets, preorder)

	// In reverse preorder...
	for i := int32(n) - 1; i > 0; i-- {
		w := preorder[i]

		// Step 3. Implicitly define the immediate dominator of each node.
		for v := buckets[i]; v != w; v = buckets[v.dom.pre] {
			u := lt.eval(v)
			if lt.sdom[u.Index].dom.pre < i {
				v.dom.idom = u
			} else {
				v.dom.idom = w
			}
		}

		// Step 2. Compute the semidominators of all nodes.
		lt.sdom[w.Index] = lt.parent[w.Index]
		for _, v := range w.Preds {
			u := lt.eval(v)
			if lt.sdom[u.Index].dom.pre < lt.sdom[w.Index].dom.pre {
				lt.sdom[w.Index] = lt.sdom[u.Index]
			}
		}

		lt.link(lt.parent[w.Index], w)

		if lt.parent[w.Index] == lt.sdom[w.Index] {
			w.dom.idom = lt.parent[w.Index]
		} else {
			buckets[i] = buckets[lt.sdom[w.Index].dom.pre]
			buckets[lt.sdom[w.Index].dom.pre] = w
		}
	}

	// The final 'Step 3' is now outside the loop.
	for v := buckets[0]; v != root; v = buckets[v.dom.pre] {
		v.dom.idom = root
	}

	// Step 4. Explicitly define the immediate dominator of each
	// node, in preorder.
	for _, w := range preorder[1:] {
		if w == root || w == recover {
			w.dom.idom = nil
		} else {
			if w.dom.idom != lt.sdom[w.Index] {
				w.dom.idom = w.dom.idom.dom.idom
			}
			// Calculate Children relation as inverse of Idom.
			w.dom.idom.dom.children = append(w.dom.idom.dom.children, w)
		}
	}

	pre, post := numberDomTree(root, 0, 0)
	if recover != nil {
		numberDomTree(recover, pre, post)
	}

	// printDomTreeDot(os.Stderr, f)        // debugging
	// printDomTreeText(os.Stderr, root, 0) // debugging

	if f.Prog.mode&SanityCheckFunctions != 0 {
		sanityCheckDomTree(f)
	}
}

// numberDomTree sets the pre- and post-order numbers of a depth-first
// traversal of the dominator tree rooted at v.  These are used to
// answer dominance queries in constant time.
func numberDomTree(v *BasicBlock, pre, post int32) (int32, int32) {
	v.dom.pre = pre
	pre++
	for _, child := range v.dom.children {
		pre, post = numberDomTree(child, pre, post)
	}
	v.dom.post = post
	post++
	return pre, post
}

// Testing utilities ----------------------------------------

// sanityCheckDomTree checks the correctness of the dominator tree
// computed by the LT algorithm by comparing against the dominance
// relation computed by a naive Kildall-style forward dataflow
// analysis (Algorithm 10.16 from the "Dragon" book).
func sanityCheckDomTree(f *Function) {
	n := len(f.Blocks)

	// D[i] is the set of blocks that dominate f.Blocks[i],
	// represented as a bit-set of block indices.
	D := make([]big.Int, n)

	one := big.NewInt(1)

	// all is the set of all blocks; constant.
	var all big.Int
	all.Set(one).Lsh(&all, uint(n)).Sub(&all, one)

	// Initialization.
	for i, b := range f.Blocks {
		if i == 0 || b == f.Recover {
			// A root is dominated only by itself.
			D[i].SetBit(&D[0], 0, 1)
		} else {
			// All other blocks are (initially) dominated
			// by every block.
			D[i].Set(&all)
		}
	}

	// Iteration until fixed point.
	for changed := true; changed; {
		changed = false
		for i, b := range f.Blocks {
			if i == 0 || b == f.Recover {
				continue
			}
			// Compute intersection across predecessors.
			var x big.Int
			x.Set(&all)
			for _, pred := range b.Preds {
				x.And(&x, &D[pred.Index])
			}
			x.SetBit(&x, i, 1) // a block always dominates itself.
			if D[i].Cmp(&x) != 0 {
				D[i].Set(&x)
				changed = true
			}
		}
	}

	// Check the entire relation.  O(n^2).
	// The Recover block (if any) must be treated specially so we skip it.
	ok := true
	for i := 0; i < n; i++ {
		for j := 0; j < n; j++ {
			b, c := f.Blocks[i], f.Blocks[j]
			if c == f.Recover {
				continue
			}
			actual := b.Dominates(c)
			expected := D[j].Bit(i) == 1
			if actual != expected {
				fmt.Fprintf(os.Stderr, "dominates(%s, %s)==%t, want %t\n", b, c, actual, expected)
				ok = false
			}
		}
	}

	preorder := f.DomPreorder()
	for _, b := range f.Blocks {
		if got := preorder[b.dom.pre]; got != b {
			fmt.Fprintf(os.Stderr, "preorder[%d]==%s, want %s\n", b.dom.pre, got, b)
			ok = false
		}
	}

	if !ok {
		panic("sanityCheckDomTree failed for " + f.String())
	}

}

// Printing functions ----------------------------------------

// printDomTreeText prints the dominator tree as text, using indentation.
func printDomTreeText(buf *bytes.Buffer, v *BasicBlock, indent int) {
	fmt.Fprintf(buf, "%*s%s\n", 4*indent, "", v)
	for _, child := range v.dom.children {
		printDomTreeText(buf, child, indent+1)
	}
}

// printDomTreeDot prints the dominator tree of f in AT&T GraphViz
// (.dot) format.
// (unused; retained for debugging)
func printDomTreeDot(buf *bytes.Buffer, f *Function) {
	fmt.Fprintln(buf, "//", f)
	fmt.Fprintln(buf, "digraph domtree {")
	for i, b := range f.Blocks {
		v := b.dom
		fmt.Fprintf(buf, "\tn%d [label=\"%s (%d, %d)\",shape=\"rectangle\"];\n", v.pre, b, v.pre, v.post)
		// TODO(adonovan): improve appearance of edges
		// belonging to both dominator tree and CFG.

		// Dominator tree edge.
		if i != 0 {
			fmt.Fprintf(buf, "\tn%d -> n%d [style=\"solid\",weight=100];\n", v.idom.dom.pre, v.pre)
		}
		// CFG edges.
		for _, pred := range b.Preds {
			fmt.Fprintf(buf, "\tn%d -> n%d [style=\"dotted\",weight=0];\n", pred.dom.pre, v.pre)
		}
	}
	fmt.Fprintln(buf, "}")
}

// Copyright 2013 The Go Authors. All rights reserved.
// Use of this source code is governed by a BSD-style
// license that can be found in the LICENSE file.

package ssa

// lvalues are the union of addressable expressions and map-index
// expressions.

import (
	"go/ast"
	"go/token"
	"go/types"

	"xvc/xinternal/typeparams"
)

// An lvalue represents an assignable location that may appear on the
// left-hand side of an assignment.  This is a generalization of a
// pointer to permit updates to elements of maps.
type lvalue interface {
	store(fn *Function, v Value) // stores v into the location
	load(fn *Function) Value     // loads the contents of the location
	address(fn *Function) Value  // address of the location
	typ() types.Type             // returns the type of the location
}

// An address is an lvalue represented by a true pointer.
type address struct {
	addr Value     // must have a pointer core type.
	pos  token.Pos // source position
	expr ast.Expr  // source syntax of the value (not address) [debug mode]
}

func (a *address) load(fn *Function) Value {
	load := emitLoad(fn, a.addr)
	load.pos = a.pos
	return load
}

func (a *address) store(fn *Function, v Value) {
	store := emitStore(fn, a.addr, v, a.pos)
	if a.expr != nil {
		// store.Val is v, converted for assignability.
		emitDebugRef(fn, a.expr, store.Val, false)
	}
}

func (a *address) address(fn *Function) Value {
	if a.expr != nil {
		emitDebugRef(fn, a.expr, a.addr, true)
	}
	return a.addr
}

func (a *address) typ() types.Type {
	return typeparams.MustDeref(a.addr.Type())
}

// An element is an lvalue represented by m[k], the location of an
// element of a map.  These locations are not addressable
// since pointers cannot be formed from them, but they do support
// load() and store().
type element struct {
	m, k Value      // map
	t    types.Type // map element type
	pos  token.Pos  // source position of colon ({k:v}) or lbrack (m[k]=v)
}

func (e *element) load(fn *Function) Value {
	l := &Lookup{
		X:     e.m,
		Index: e.k,
	}
	l.setPos(e.pos)
	l.setType(e.t)
	return fn.emit(l)
}

func (e *element) store(fn *Function, v Value) {
	up := &MapUpdate{
		Map:   e.m,
		Key:   e.k,
		Value: emitConv(fn, v, e.t),
	}
	up.pos = e.pos
	fn.emit(up)
}

func (e *element) address(fn *Function) Value {
	panic("map elements are not addressable")
}

func (e *element) typ() types.Type {
	return e.t
}

// A lazyAddress is an lvalue whose address is the result of an instruction.
// These work like an *address except a new address.address() Value
// is created on each load, store and address call.
// A lazyAddress can be used to control when a side effect (nil pointer
// dereference, index out of bounds) of using a location happens.
type lazyAddress struct {
	addr func(fn *Function) Value // emit to fn the computation of the address
	t    types.Type               // type of the location
	pos  token.Pos                // source position
	expr ast.Expr                 // source syntax of the value (not address) [debug mode]
}

func (l *lazyAddress) load(fn *Function) Value {
	load := emitLoad(fn, l.addr(fn))
	load.pos = l.pos
	return load
}

func (l *lazyAddress) store(fn *Function, v Value) {
	store := emitStore(fn, l.addr(fn), v, l.pos)
	if l.expr != nil {
		// store.Val is v, converted for assignability.
		emitDebugRef(fn, l.expr, store.Val, false)
	}
}

func (l *lazyAddress) address(fn *Function) Value {
	addr := l.addr(fn)
	if l.expr != nil {
		emitDebugRef(fn, l.expr, addr, true)
	}
	return addr
}

func (l *lazyAddress) typ() types.Type { return l.t }

// A blank is a dummy variable whose name is "_".
// It is not reified: loads are illegal and stores are ignored.
type blank struct{}

func (bl blank) load(fn *Function) Value {
	panic("blank.load is illegal")
}

func (bl blank) store(fn *Function, v Value) {
	// no-op
}

func (bl blank) address(fn *Function) Value {
	panic("blank var is not addressable")
}

func (bl blank) typ() types.Type {
	// This should be the type of the blank Ident; the typechecker
	// doesn't provide this yet, but fortunately, we don't need it
	// yet either.
	panic("blank.typ is unimplemented")
}

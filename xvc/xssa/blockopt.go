// Copyright 2013 The Go Authors. All rights reserved.
// Use of this source code is governed by a BSD-style
// license that can be found in the LICENSE file.

package ssa

// Simple block optimizations to simplify the control flow graph.

// TODO(adonovan): opt: instead of creating several "unreachable" blocks
// per function in the Builder, reuse a single one (e.g. at Blocks[1])
// to reduce garbage.

import (
	"fmt"
	"os"
)

// If true, perform sanity checking and show progress at each
// successive iteration of optimizeBlocks.  Very verbose.
const debugBlockOpt = false

// markReachable sets Index=-1 for all blocks reachable from b.
func markReachable(b *BasicBlock) {
	b.Index = -1
	for _, succ := range b.Succs {
		if succ.Index == 0 {
			markReachable(succ)
		}
	}
}

// deleteUnreachableBlocks marks all reachable blocks of f and
// eliminates (nils) all others, including possibly cyclic subgraphs.
func deleteUnreachableBlocks(f *Function) {
	const white, black = 0, -1
	// We borrow b.Index temporarily as the mark bit.
	for _, b := range f.Blocks {
		b.Index = white
	}
	markReachable(f.Blocks[0])
	if f.Recover != nil {
		markReachable(f.Recover)
	}
	for i, b := range f.Blocks {
		if b.Index == white {
			for _, c := range b.Succs {
				if c.Index == black {
					c.removePred(b) // delete white->black edge
				}
			}
			if debugBlockOpt {
				fmt.Fprintln(os.Stderr, "unreachable", b)
			}
			f.Blocks[i] = nil // delete b
		}
	}
	f.removeNilBlocks()
}

// jumpThreading attempts to apply simple jump-threading to block b,
// in which a->b->c become a->c if b is just a Jump.
// The result is true if the optimization was applied.
func jumpThreading(f *Function, b *BasicBlock) bool {
	if b.Index == 0 {
		return false // don't apply to entry block
	}
	if b.Instrs == nil {
		return false
	}
	if _, ok := b.Instrs[0].(*Jump); !ok {
		return false // not just a jump
	}
	c := b.Succs[0]
	if c == b {
		return false // don't apply to degenerate jump-to-self.
	}
	if c.hasPhi() {
		return false // not sound without more effort
	}
	for j, a := range b.Preds {
		a.replaceSucc(b, c)

		// If a now has two edges to c, replace its degenerate If by Jump.
		if len(a.Succs) == 2 && a.Succs[0] == c && a.Succs[1] == c {
			jump := new(Jump)
			jump.setBlock(a)
			a.Instrs[len(a.Instrs)-1] = jump
			a.Succs = a.Succs[:1]
			c.removePred(b)
		} else {
			if j == 0 {
				c.replacePred(b, a)
			} else {
				c.Preds = append(c.Preds, a)
			}
		}

		if debugBlockOpt {
			fmt.Fprintln(os.Stderr, "jumpThreading", a, b, c)
		}
	}
	f.Blocks[b.Index] = nil // delete b
	return true
}

// fuseBlocks attempts to apply the block fusion optimization to block
// a, in which a->b becomes ab if len(a.Succs)==len(b.Preds)==1.
// The result is true if the optimization was applied.
func fuseBlocks(f *Function, a *BasicBlock) bool {
	if len(a.Succs) != 1 {
		return false
	}
	b := a.Succs[0]
	if len(b.Preds) != 1 {
		return false
	}

	// Degenerate &&/|| ops may result in a straight-line CFG
	// containing φ-nodes. (Ideally we'd replace such them with
	// their sole operand but that requires Referrers, built later.)
	if b.hasPhi() {
		return false // not sound without further effort
	}

	// Eliminate jump at end of A, then copy all of B across.
	a.Instrs = append(a.Instrs[:len(a.Instrs)-1], b.Instrs...)
	for _, instr := range b.Instrs {
		instr.setBlock(a)
	}

	// A inherits B's successors
	a.Succs = append(a.succs2[:0], b.Succs...)

	// Fix up Preds links of all successors of B.
	for _, c := range b.Succs {
		c.replacePred(b, a)
	}

	if debugBlockOpt {
		fmt.Fprintln(os.Stderr, "fuseBlocks", a, b)
	}

	f.Blocks[b.Index] = nil // delete b
	return true
}

// optimizeBlocks() performs some simple block optimizations on a
// completed function: dead block elimination, block fusion, jump
// threading.
func optimizeBlocks(f *Function) {
	deleteUnreachableBlocks(f)

	// Loop until no further progress.
	changed := true
	for changed {
		changed = false

		if debugBlockOpt {
			f.WriteTo(os.Stderr)
			mustSanityCheck(f, nil)
		}

		for _, b := range f.Blocks {
			// f.Blocks will temporarily contain nils to indicate
			// deleted blocks; we remove them at the end.
			if b == nil {
				continue
			}

			// Fuse blocks.  b->c becomes bc.
			if fuseBlocks(f, b) {
				changed = true
			}

			// a->b->c becomes a->c if b contains only a Jump.
			if jumpThreading(f, b) {
				changed = true
				continue // (b was disconnected)
			}
		}
	}
	f.removeNilBlocks()
}

// Copyright 2022 The Go Authors. All rights reserved.
// Use of this source code is governed by a BSD-style
// license that can be found in the LICENSE file.

package ssa

import (
	"go/types"

	"golang.org/x/tools/go/types/typeutil"
	"xvc/xinternal/aliases"
)

// subster defines a type substitution operation of a set of type parameters
// to type parameter free replacement types. Substitution is done within
// the context of a package-level function instantiation. *Named types
// declared in the function are unique to the instantiation.
//
// For example, given a parameterized function F
//
//	  func F[S, T any]() any {
//	    type X struct{ s S; next *X }
//		var p *X
//	    return p
//	  }
//
// calling the instantiation F[string, int]() returns an interface
// value (*X[string,int], nil) where the underlying value of
// X[string,int] is a struct{s string; next *X[string,int]}.
//
// A nil *subster is a valid, empty substitution map. It always acts as
// the identity function. This allows for treating parameterized and
// non-parameterized functions identically while compiling to ssa.
//
// Not concurrency-safe.
//
// Note: Some may find it helpful to think through some of the most
// complex substitution cases using lambda calculus inspired notation.
// subst.typ() solves evaluating a type expression E
// within the body of a function Fn[m] with the type parameters m
// once we have applied the type arguments N.
// We can succinctly write this as a function application:
//
//	((λm. E) N)
//
// go/types does not provide this interface directly.
// So what subster provides is a type substitution operation
//
//	E[m:=N]
type subster struct {
	replacements map[*types.TypeParam]types.Type // values should contain no type params
	cache        map[types.Type]types.Type       // cache of subst results
	origin       *types.Func                     // types.Objects declared within this origin function are unique within this context
	ctxt         *types.Context                  // speeds up repeated instantiations
	uniqueness   typeutil.Map                    // determines the uniqueness of the instantiations within the function
	// TODO(taking): consider adding Pos
}

// Returns a subster that replaces tparams[i] with targs[i]. Uses ctxt as a cache.
// targs should not contain any types in tparams.
// fn is the generic function for which we are substituting.
func makeSubster(ctxt *types.Context, fn *types.Func, tparams *types.TypeParamList, targs []types.Type, debug bool) *subster {
	assert(tparams.Len() == len(targs), "makeSubster argument count must match")

	subst := &subster{
		replacements: make(map[*types.TypeParam]types.Type, tparams.Len()),
		cache:        make(map[types.Type]types.Type),
		origin:       fn.Origin(),
		ctxt:         ctxt,
	}
	for i := 0; i < tparams.Len(); i++ {
		subst.replacements[tparams.At(i)] = targs[i]
	}
	return subst
}

// typ returns the type of t with the type parameter tparams[i] substituted
// for the type targs[i] where subst was created using tparams and targs.
func (subst *subster) typ(t types.Type) (res types.Type) {
	if subst == nil {
		return t // A nil subst is type preserving.
	}
	if r, ok := subst.cache[t]; ok {
		return r
	}
	defer func() {
		subst.cache[t] = res
	}()

	switch t := t.(type) {
	case *types.TypeParam:
		if r := subst.replacements[t]; r != nil {
			return r
		}
		return t

	case *types.Basic:
		return t

	case *types.Array:
		if r := subst.typ(t.Elem()); r != t.Elem() {
			return types.NewArray(r, t.Len())
		}
		return t

	case *types.Slice:
		if r := subst.typ(t.Elem()); r != t.Elem() {
			return types.NewSlice(r)
		}
		return t

	case *types.Pointer:
		if r := subst.typ(t.Elem()); r != t.Elem() {
			return types.NewPointer(r)
		}
		return t

	case *types.Tuple:
		return subst.tuple(t)

	case *types.Struct:
		return subst.struct_(t)

	case *types.Map:
		key := subst.typ(t.Key())
		elem := subst.typ(t.Elem())
		if key != t.Key() || elem != t.Elem() {
			return types.NewMap(key, elem)
		}
		return t

	case *types.Chan:
		if elem := subst.typ(t.Elem()); elem != t.Elem() {
			return types.NewChan(t.Dir(), elem)
		}
		return t

	case *types.Signature:
		return subst.signature(t)

	case *types.Union:
		return subst.union(t)

	case *types.Interface:
		return subst.interface_(t)

	case *types.Alias:
		return subst.alias(t)

	case *types.Named:
		return subst.named(t)

	case *opaqueType:
		return t // opaque types are never substituted

	default:
		panic("unreachable")
	}
}

// types returns the result of {subst.typ(ts[i])}.
func (subst *subster) types(ts []types.Type) []types.Type {
	res := make([]types.Type, len(ts))
	for i := range ts {
		res[i] = subst.typ(ts[i])
	}
	return res
}

func (subst *subster) tuple(t *types.Tuple) *types.Tuple {
	if t != nil {
		if vars := subst.varlist(t); vars != nil {
			return types.NewTuple(vars...)
		}
	}
	return t
}

type varlist interface {
	At(i int) *types.Var
	Len() int
}

// fieldlist is an adapter for structs for the varlist interface.
type fieldlist struct {
	str *types.Struct
}

func (fl fieldlist) At(i int) *types.Var { return fl.str.Field(i) }
func (fl fieldlist) Len() int            { return fl.str.NumFields() }

func (subst *subster) struct_(t *types.Struct) *types.Struct {
	if t != nil {
		if fields := subst.varlist(fieldlist{t}); fields != nil {
			tags := make([]string, t.NumFields())
			for i, n := 0, t.NumFields(); i < n; i++ {
				tags[i] = t.Tag(i)
			}
			return types.NewStruct(fields, tags)
		}
	}
	return t
}

// varlist returns subst(in[i]) or return nils if subst(v[i]) == v[i] for all i.
func (subst *subster) varlist(in varlist) []*types.Var {
	var out []*types.Var // nil => no updates
	for i, n := 0, in.Len(); i < n; i++ {
		v := in.At(i)
		w := subst.var_(v)
		if v != w && out == nil {
			out = make([]*types.Var, n)
			for j := 0; j < i; j++ {
				out[j] = in.At(j)
			}
		}
		if out != nil {
			out[i] = w
		}
	}
	return out
}

func (subst *subster) var_(v *types.Var) *types.Var {
	if v != nil {
		if typ := subst.typ(v.Type()); typ != v.Type() {
			if v.IsField() {
				return types.NewField(v.Pos(), v.Pkg(), v.Name(), typ, v.Embedded())
			}
			return types.NewVar(v.Pos(), v.Pkg(), v.Name(), typ)
		}
	}
	return v
}

func (subst *subster) union(u *types.Union) *types.Union {
	var out []*types.Term // nil => no updates

	for i, n := 0, u.Len(); i < n; i++ {
		t := u.Term(i)
		r := subst.typ(t.Type())
		if r != t.Type() && out == nil {
			out = make([]*types.Term, n)
			for j := 0; j < i; j++ {
				out[j] = u.Term(j)
			}
		}
		if out != nil {
			out[i] = types.NewTerm(t.Tilde(), r)
		}
	}

	if out != nil {
		return types.NewUnion(out)
	}
	return u
}

func (subst *subster) interface_(iface *types.Interface) *types.Interface {
	if iface == nil {
		return nil
	}

	// methods for the interface. Initially nil if there is no known change needed.
	// Signatures for the method where recv is nil. NewInterfaceType fills in the receivers.
	var methods []*types.Func
	initMethods := func(n int) { // copy first n explicit methods
		methods = make([]*types.Func, iface.NumExplicitMethods())
		for i := 0; i < n; i++ {
			f := iface.ExplicitMethod(i)
			norecv := changeRecv(f.Type().(*types.Signature), nil)
			methods[i] = types.NewFunc(f.Pos(), f.Pkg(), f.Name(), norecv)
		}
	}
	for i := 0; i < iface.NumExplicitMethods(); i++ {
		f := iface.ExplicitMethod(i)
		// On interfaces, we need to cycle break on anonymous interface types
		// being in a cycle with their signatures being in cycles with their receivers
		// that do not go through a Named.
		norecv := changeRecv(f.Type().(*types.Signature), nil)
		sig := subst.typ(norecv)
		if sig != norecv && methods == nil {
			initMethods(i)
		}
		if methods != nil {
			methods[i] = types.NewFunc(f.Pos(), f.Pkg(), f.Name(), sig.(*types.Signature))
		}
	}

	var embeds []types.Type
	initEmbeds := func(n int) { // copy first n embedded types
		embeds = make([]types.Type, iface.NumEmbeddeds())
		for i := 0; i < n; i++ {
			embeds[i] = iface.EmbeddedType(i)
		}
	}
	for i := 0; i < iface.NumEmbeddeds(); i++ {
		e := iface.EmbeddedType(i)
		r := subst.typ(e)
		if e != r && embeds == nil {
			initEmbeds(i)
		}
		if embeds != nil {
			embeds[i] = r
		}
	}

	if methods == nil && embeds == nil {
		return iface
	}
	if methods == nil {
		initMethods(iface.NumExplicitMethods())
	}
	if embeds == nil {
		initEmbeds(iface.NumEmbeddeds())
	}
	return types.NewInterfaceType(methods, embeds).Complete()
}

func (subst *subster) alias(t *types.Alias) types.Type {
	// See subster.named. This follows the same strategy.
	tparams := aliases.TypeParams(t)
	targs := aliases.TypeArgs(t)
	tname := t.Obj()
	torigin := aliases.Origin(t)

	if !declaredWithin(tname, subst.origin) {
		// t is declared outside of the function origin. So t is a package level type alias.
		if targs.Len() == 0 {
			// No type arguments so no instantiation needed.
			return t
		}

		// Instantiate with the substituted type arguments.
		newTArgs := subst.typelist(targs)
		return subst.instantiate(torigin, newTArgs)
	}

	if targs.Len() == 0 {
		// t is declared within the function origin and has no type arguments.
		//
		// Example: This corresponds to A or B in F, but not A[int]:
		//
		//     func F[T any]() {
		//       type A[S any] = struct{t T, s S}
		//       type B = T
		//       var x A[int]
		//       ...
		//     }
		//
		// This is somewhat different than *Named as *Alias cannot be created recursively.

		// Copy and substitute type params.
		var newTParams []*types.TypeParam
		for i := 0; i < tparams.Len(); i++ {
			cur := tparams.At(i)
			cobj := cur.Obj()
			cname := types.NewTypeName(cobj.Pos(), cobj.Pkg(), cobj.Name(), nil)
			ntp := types.NewTypeParam(cname, nil)
			subst.cache[cur] = ntp // See the comment "Note: Subtle" in subster.named.
			newTParams = append(newTParams, ntp)
		}

		// Substitute rhs.
		rhs := subst.typ(aliases.Rhs(t))

		// Create the fresh alias.
		//
		// Until 1.27, the result of aliases.NewAlias(...).Type() cannot guarantee it is a *types.Alias.
		// However, as t is an *alias.Alias and t is well-typed, then aliases must have been enabled.
		// Follow this decision, and always enable aliases here.
		const enabled = true
		obj := aliases.NewAlias(enabled, tname.Pos(), tname.Pkg(), tname.Name(), rhs, newTParams)

		// Substitute into all of the constraints after they are created.
		for i, ntp := range newTParams {
			bound := tparams.At(i).Constraint()
			ntp.SetConstraint(subst.typ(bound))
		}
		return obj.Type()
	}

	// t is declared within the function origin and has type arguments.
	//
	// Example: This corresponds to A[int] in F. Cases A and B are handled above.
	//     func F[T any]() {
	//       type A[S any] = struct{t T, s S}
	//       type B = T
	//       var x A[int]
	//       ...
	//     }
	subOrigin := subst.typ(torigin)
	subTArgs := subst.typelist(targs)
	return subst.instantiate(subOrigin, subTArgs)
}

func (subst *subster) named(t *types.Named) types.Type {
	// A Named type is a user defined type.
	// Ignoring generics, Named types are canonical: they are identical if
	// and only if they have the same defining symbol.
	// Generics complicate things, both if the type definition itself is
	// parameterized, and if the type is defined within the scope of a
	// parameterized function. In this case, two named types are identical if
	// and only if their identifying symbols are identical, and all type
	// arguments bindings in scope of the named type definition (including the
	// type parameters of the definition itself) are equivalent.
	//
	// Notably:
	// 1. For type definition type T[P1 any] struct{}, T[A] and T[B] are identical
	//    only if A and B are identical.
	// 2. Inside the generic func Fn[m any]() any { type T struct{}; return T{} },
	//    the result of Fn[A] and Fn[B] have identical type if and only if A and
	//    B are identical.
	// 3. Both 1 and 2 could apply, such as in
	//    func F[m any]() any { type T[x any] struct{}; return T{} }
	//
	// A subster replaces type parameters within a function scope, and therefore must
	// also replace free type parameters in the definitions of local types.
	//
	// Note: There are some detailed notes sprinkled throughout that borrow from
	// lambda calculus notation. These contain some over simplifying math.
	//
	// LC: One way to think about subster is that it is  a way of evaluating
	//   ((λm. E) N) as E[m:=N].
	// Each Named type t has an object *TypeName within a scope S that binds an
	// underlying type expression U. U can refer to symbols within S (+ S's ancestors).
	// Let x = t.TypeParams() and A = t.TypeArgs().
	// Each Named type t is then either:
	//   U              where len(x) == 0 && len(A) == 0
	//   λx. U          where len(x) != 0 && len(A) == 0
	//   ((λx. U) A)    where len(x) == len(A)
	// In each case, we will evaluate t[m:=N].
	tparams := t.TypeParams() // x
	targs := t.TypeArgs()     // A

	if !declaredWithin(t.Obj(), subst.origin) {
		// t is declared outside of Fn[m].
		//
		// In this case, we can skip substituting t.Underlying().
		// The underlying type cannot refer to the type parameters.
		//
		// LC: Let free(E) be the set of free type parameters in an expression E.
		// Then whenever m ∉ free(E), then E = E[m:=N].
		// t ∉ Scope(fn) so therefore m ∉ free(U) and m ∩ x = ∅.
		if targs.Len() == 0 {
			// t has no type arguments. So it does not need to be instantiated.
			//
			// This is the normal case in real Go code, where t is not parameterized,
			// declared at some package scope, and m is a TypeParam from a parameterized
			// function F[m] or method.
			//
			// LC: m ∉ free(A) lets us conclude m ∉ free(t). So t=t[m:=N].
			return t
		}

		// t is declared outside of Fn[m] and has type arguments.
		// The type arguments may contain type parameters m so
		// substitute the type arguments, and instantiate the substituted
		// type arguments.
		//
		// LC: Evaluate this as ((λx. U) A') where A' = A[m := N].
		newTArgs := subst.typelist(targs)
		return subst.instantiate(t.Origin(), newTArgs)
	}

	// t is declared within Fn[m].

	if targs.Len() == 0 { // no type arguments?
		assert(t == t.Origin(), "local parameterized type abstraction must be an origin type")

		// t has no type arguments.
		// The underlying type of t may contain the function's type parameters,
		// replace these, and create a new type.
		//
		// Subtle: We short circuit substitution and use a newly created type in
		// subst, i.e. cache[t]=fresh, to preemptively replace t with fresh
		// in recursive types during traversal. This both breaks infinite cycles
		// and allows for constructing types with the replacement applied in
		// subst.typ(U).
		//
		// A new copy of the Named and Typename (and constraints) per function
		// instantiation matches the semantics of Go, which treats all function
		// instantiations F[N] as having distinct local types.
		//
		// LC: x.Len()=0 can be thought of as a special case of λx. U.
		// LC: Evaluate (λx. U)[m:=N] as (λx'. U') where U'=U[x:=x',m:=N].
		tname := t.Obj()
		obj := types.NewTypeName(tname.Pos(), tname.Pkg(), tname.Name(), nil)
		fresh := types.NewNamed(obj, nil, nil)
		var newTParams []*types.TypeParam
		for i := 0; i < tparams.Len(); i++ {
			cur := tparams.At(i)
			cobj := cur.Obj()
			cname := types.NewTypeName(cobj.Pos(), cobj.Pkg(), cobj.Name(), nil)
			ntp := types.NewTypeParam(cname, nil)
			subst.cache[cur] = ntp
			newTParams = append(newTParams, ntp)
		}
		fresh.SetTypeParams(newTParams)
		subst.cache[t] = fresh
		subst.cache[fresh] = fresh
		fresh.SetUnderlying(subst.typ(t.Underlying()))
		// Substitute into all of the constraints after they are created.
		for i, ntp := range newTParams {
			bound := tparams.At(i).Constraint()
			ntp.SetConstraint(subst.typ(bound))
		}
		return fresh
	}

	// t is defined within Fn[m] and t has type arguments (an instantiation).
	// We reduce this to the two cases above:
	// (1) substitute the function's type parameters into t.Origin().
	// (2) substitute t's type arguments A and instantiate the updated t.Origin() with these.
	//
	// LC: Evaluate ((λx. U) A)[m:=N] as (t' A') where t' = (λx. U)[m:=N] and A'=A [m:=N]
	subOrigin := subst.typ(t.Origin())
	subTArgs := subst.typelist(targs)
	return subst.instantiate(subOrigin, subTArgs)
}

func (subst *subster) instantiate(orig types.Type, targs []types.Type) types.Type {
	i, err := types.Instantiate(subst.ctxt, orig, targs, false)
	assert(err == nil, "failed to Instantiate named (Named or Alias) type")
	if c, _ := subst.uniqueness.At(i).(types.Type); c != nil {
		return c.(types.Type)
	}
	subst.uniqueness.Set(i, i)
	return i
}

func (subst *subster) typelist(l *types.TypeList) []types.Type {
	res := make([]types.Type, l.Len())
	for i := 0; i < l.Len(); i++ {
		res[i] = subst.typ(l.At(i))
	}
	return res
}

func (subst *subster) signature(t *types.Signature) types.Type {
	tparams := t.TypeParams()

	// We are choosing not to support tparams.Len() > 0 until a need has been observed in practice.
	//
	// There are some known usages for types.Types coming from types.{Eval,CheckExpr}.
	// To support tparams.Len() > 0, we just need to do the following [psuedocode]:
	//   targs := {subst.replacements[tparams[i]]]}; Instantiate(ctxt, t, targs, false)

	assert(tparams.Len() == 0, "Substituting types.Signatures with generic functions are currently unsupported.")

	// Either:
	// (1)non-generic function.
	//    no type params to substitute
	// (2)generic method and recv needs to be substituted.

	// Receivers can be either:
	// named
	// pointer to named
	// interface
	// nil
	// interface is the problematic case. We need to cycle break there!
	recv := subst.var_(t.Recv())
	params := subst.tuple(t.Params())
	results := subst.tuple(t.Results())
	if recv != t.Recv() || params != t.Params() || results != t.Results() {
		return types.NewSignatureType(recv, nil, nil, params, results, t.Variadic())
	}
	return t
}

// reaches returns true if a type t reaches any type t' s.t. c[t'] == true.
// It updates c to cache results.
//
// reaches is currently only part of the wellFormed debug logic, and
// in practice c is initially only type parameters. It is not currently
// relied on in production.
func reaches(t types.Type, c map[types.Type]bool) (res bool) {
	if c, ok := c[t]; ok {
		return c
	}

	// c is populated with temporary false entries as types are visited.
	// This avoids repeat visits and break cycles.
	c[t] = false
	defer func() {
		c[t] = res
	}()

	switch t := t.(type) {
	case *types.TypeParam, *types.Basic:
		return false
	case *types.Array:
		return reaches(t.Elem(), c)
	case *types.Slice:
		return reaches(t.Elem(), c)
	case *types.Pointer:
		return reaches(t.Elem(), c)
	case *types.Tuple:
		for i := 0; i < t.Len(); i++ {
			if reaches(t.At(i).Type(), c) {
				return true
			}
		}
	case *types.Struct:
		for i := 0; i < t.NumFields(); i++ {
			if reaches(t.Field(i).Type(), c) {
				return true
			}
		}
	case *types.Map:
		return reaches(t.Key(), c) || reaches(t.Elem(), c)
	case *types.Chan:
		return reaches(t.Elem(), c)
	case *types.Signature:
		if t.Recv() != nil && reaches(t.Recv().Type(), c) {
			return true
		}
		return reaches(t.Params(), c) || reaches(t.Results(), c)
	case *types.Union:
		for i := 0; i < t.Len(); i++ {
			if reaches(t.Term(i).Type(), c) {
				return true
			}
		}
	case *types.Interface:
		for i := 0; i < t.NumEmbeddeds(); i++ {
			if reaches(t.Embedded(i), c) {
				return true
			}
		}
		for i := 0; i < t.NumExplicitMethods(); i++ {
			if reaches(t.ExplicitMethod(i).Type(), c) {
				return true
			}
		}
	case *types.Named, *types.Alias:
		return reaches(t.Underlying(), c)
	default:
		panic("unreachable")
	}
	return false
}

// Copyright 2013 The Go Authors. All rights reserved.
// Use of this source code is governed by a BSD-style
// license that can be found in the LICENSE file.

package ssa

// This file defines the lifting pass which tries to "lift" Alloc
// cells (new/local variables) into SSA registers, replacing loads
// with the dominating stored value, eliminating loads and stores, and
// inserting φ-nodes as needed.

// Cited papers and resources:
//
// Ron Cytron et al. 1991. Efficiently computing SSA form...
// http://doi.acm.org/10.1145/115372.115320
//
// Cooper, Harvey, Kennedy.  2001.  A Simple, Fast Dominance Algorithm.
// Software Practice and Experience 2001, 4:1-10.
// http://www.hipersoft.rice.edu/grads/publications/dom14.pdf
//
// Daniel Berlin, llvmdev mailing list, 2012.
// http://lists.cs.uiuc.edu/pipermail/llvmdev/2012-January/046638.html
// (Be sure to expand the whole thread.)

// TODO(adonovan): opt: there are many optimizations worth evaluating, and
// the conventional wisdom for SSA construction is that a simple
// algorithm well engineered often beats those of better asymptotic
// complexity on all but the most egregious inputs.
//
// Danny Berlin suggests that the Cooper et al. algorithm for
// computing the dominance frontier is superior to Cytron et al.
// Furthermore he recommends that rather than computing the DF for the
// whole function then renaming all alloc cells, it may be cheaper to
// compute the DF for each alloc cell separately and throw it away.
//
// Consider exploiting liveness information to avoid creating dead
// φ-nodes which we then immediately remove.
//
// Also see many other "TODO: opt" suggestions in the code.

import (
	"fmt"
	"go/token"
	"math/big"
	"os"

	"xvc/xinternal/typeparams"
)

// If true, show diagnostic information at each step of lifting.
// Very verbose.
const debugLifting = false

// domFrontier maps each block to the set of blocks in its dominance
// frontier.  The outer slice is conceptually a map keyed by
// Block.Index.  The inner slice is conceptually a set, possibly
// containing duplicates.
//
// TODO(adonovan): opt: measure impact of dups; consider a packed bit
// representation, e.g. big.Int, and bitwise parallel operations for
// the union step in the Children loop.
//
// domFrontier's methods mutate the slice's elements but not its
// length, so their receivers needn't be pointers.
type domFrontier [][]*BasicBlock

func (df domFrontier) add(u, v *BasicBlock) {
	p := &df[u.Index]
	*p = append(*p, v)
}

// build builds the dominance frontier df for the dominator (sub)tree
// rooted at u, using the Cytron et al. algorithm.
//
// TODO(adonovan): opt: consider Berlin approach, computing pruned SSA
// by pruning the entire IDF computation, rather than merely pruning
// the DF -> IDF step.
func (df domFrontier) build(u *BasicBlock) {
	// Encounter each node u in postorder of dom tree.
	for _, child := range u.dom.children {
		df.build(child)
	}
	for _, vb := range u.Succs {
		if v := vb.dom; v.idom != u {
			df.add(u, vb)
		}
	}
	for _, w := range u.dom.children {
		for _, vb := range df[w.Index] {
			// TODO(adonovan): opt: use word-parallel bitwise union.
			if v := vb.dom; v.idom != u {
				df.add(u, vb)
			}
		}
	}
}

func buildDomFrontier(fn *Function) domFrontier {
	df := make(domFrontier, len(fn.Blocks))
	df.build(fn.Blocks[0])
	if fn.Recover != nil {
		df.build(fn.Recover)
	}
	return df
}

func removeInstr(refs []Instruction, instr Instruction) []Instruction {
	return removeInstrsIf(refs, func(i Instruction) bool { return i == instr })
}

func removeInstrsIf(refs []Instruction, p func(Instruction) bool) []Instruction {
	// TODO(taking): replace with go1.22 slices.DeleteFunc.
	i := 0
	for _, ref := range refs {
		if p(ref) {
			continue
		}
		refs[i] = ref
		i++
	}
	for j := i; j != len(refs); j++ {
		refs[j] = nil // aid GC
	}
	return refs[:i]
}

// lift replaces local and new Allocs accessed only with
// load/store by SSA registers, inserting φ-nodes where necessary.
// The result is a program in classical pruned SSA form.
//
// Preconditions:
// - fn has no dead blocks (blockopt has run).
// - Def/use info (Operands and Referrers) is up-to-date.
// - The dominator tree is up-to-date.
func lift(fn *Function) {
	// TODO(adonovan): opt: lots of little optimizations may be
	// worthwhile here, especially if they cause us to avoid
	// buildDomFrontier.  For example:
	//
	// - Alloc never loaded?  Eliminate.
	// - Alloc never stored?  Replace all loads with a zero constant.
	// - Alloc stored once?  Replace loads with dominating store;
	//   don't forget that an Alloc is itself an effective store
	//   of zero.
	// - Alloc used only within a single block?
	//   Use degenerate algorithm avoiding φ-nodes.
	// - Consider synergy with scalar replacement of aggregates (SRA).
	//   e.g. *(&x.f) where x is an Alloc.
	//   Perhaps we'd get better results if we generated this as x.f
	//   i.e. Field(x, .f) instead of Load(FieldIndex(x, .f)).
	//   Unclear.
	//
	// But we will start with the simplest correct code.
	df := buildDomFrontier(fn)

	if debugLifting {
		title := false
		for i, blocks := range df {
			if blocks != nil {
				if !title {
					fmt.Fprintf(os.Stderr, "Dominance frontier of %s:\n", fn)
					title = true
				}
				fmt.Fprintf(os.Stderr, "\t%s: %s\n", fn.Blocks[i], blocks)
			}
		}
	}

	newPhis := make(newPhiMap)

	// During this pass we will replace some BasicBlock.Instrs
	// (allocs, loads and stores) with nil, keeping a count in
	// BasicBlock.gaps.  At the end we will reset Instrs to the
	// concatenation of all non-dead newPhis and non-nil Instrs
	// for the block, reusing the original array if space permits.

	// While we're here, we also eliminate 'rundefers'
	// instructions and ssa:deferstack() in functions that contain no
	// 'defer' instructions. For now, we also eliminate
	// 's = ssa:deferstack()' calls if s doesn't escape, replacing s
	// with nil in Defer{DeferStack: s}. This has the same meaning,
	// but allows eliminating the intrinsic function `ssa:deferstack()`
	// (unless it is needed due to range-over-func instances). This gives
	// ssa users more time to support range-over-func.
	usesDefer := false
	deferstackAlloc, deferstackCall := deferstackPreamble(fn)
	eliminateDeferStack := deferstackAlloc != nil && !deferstackAlloc.Heap

	// A counter used to generate ~unique ids for Phi nodes, as an
	// aid to debugging.  We use large numbers to make them highly
	// visible.  All nodes are renumbered later.
	fresh := 1000

	// Determine which allocs we can lift and number them densely.
	// The renaming phase uses this numbering for compact maps.
	numAllocs := 0
	for _, b := range fn.Blocks {
		b.gaps = 0
		b.rundefers = 0
		for _, instr := range b.Instrs {
			switch instr := instr.(type) {
			case *Alloc:
				index := -1
				if liftAlloc(df, instr, newPhis, &fresh) {
					index = numAllocs
					numAllocs++
				}
				instr.index = index
			case *Defer:
				usesDefer = true
				if eliminateDeferStack {
					// Clear DeferStack and remove references to loads
					if instr.DeferStack != nil {
						if refs := instr.DeferStack.Referrers(); refs != nil {
							*refs = removeInstr(*refs, instr)
						}
						instr.DeferStack = nil
					}
				}
			case *RunDefers:
				b.rundefers++
			}
		}
	}

	// renaming maps an alloc (keyed by index) to its replacement
	// value.  Initially the renaming contains nil, signifying the
	// zero constant of the appropriate type; we construct the
	// Const lazily at most once on each path through the domtree.
	// TODO(adonovan): opt: cache per-function not per subtree.
	renaming := make([]Value, numAllocs)

	// Renaming.
	rename(fn.Blocks[0], renaming, newPhis)

	// Eliminate dead φ-nodes.
	removeDeadPhis(fn.Blocks, newPhis)

	// Eliminate ssa:deferstack() call.
	if eliminateDeferStack {
		b := deferstackCall.block
		for i, instr := range b.Instrs {
			if instr == deferstackCall {
				b.Instrs[i] = nil
				b.gaps++
				break
			}
		}
	}

	// Prepend remaining live φ-nodes to each block.
	for _, b := range fn.Blocks {
		nps := newPhis[b]
		j := len(nps)

		rundefersToKill := b.rundefers
		if usesDefer {
			rundefersToKill = 0
		}

		if j+b.gaps+rundefersToKill == 0 {
			continue // fast path: no new phis or gaps
		}

		// Compact nps + non-nil Instrs into a new slice.
		// TODO(adonovan): opt: compact in situ (rightwards)
		// if Instrs has sufficient space or slack.
		dst := make([]Instruction, len(b.Instrs)+j-b.gaps-rundefersToKill)
		for i, np := range nps {
			dst[i] = np.phi
		}
		for _, instr := range b.Instrs {
			if instr == nil {
				continue
			}
			if !usesDefer {
				if _, ok := instr.(*RunDefers); ok {
					continue
				}
			}
			dst[j] = instr
			j++
		}
		b.Instrs = dst
	}

	// Remove any fn.Locals that were lifted.
	j := 0
	for _, l := range fn.Locals {
		if l.index < 0 {
			fn.Locals[j] = l
			j++
		}
	}
	// Nil out fn.Locals[j:] to aid GC.
	for i := j; i < len(fn.Locals); i++ {
		fn.Locals[i] = nil
	}
	fn.Locals = fn.Locals[:j]
}

// removeDeadPhis removes φ-nodes not transitively needed by a
// non-Phi, non-DebugRef instruction.
func removeDeadPhis(blocks []*BasicBlock, newPhis newPhiMap) {
	// First pass: find the set of "live" φ-nodes: those reachable
	// from some non-Phi instruction.
	//
	// We compute reachability in reverse, starting from each φ,
	// rather than forwards, starting from each live non-Phi
	// instruction, because this way visits much less of the
	// Value graph.
	livePhis := make(map[*Phi]bool)
	for _, npList := range newPhis {
		for _, np := range npList {
			phi := np.phi
			if !livePhis[phi] && phiHasDirectReferrer(phi) {
				markLivePhi(livePhis, phi)
			}
		}
	}

	// Existing φ-nodes due to && and || operators
	// are all considered live (see Go issue 19622).
	for _, b := range blocks {
		for _, phi := range b.phis() {
			markLivePhi(livePhis, phi.(*Phi))
		}
	}

	// Second pass: eliminate unused phis from newPhis.
	for block, npList := range newPhis {
		j := 0
		for _, np := range npList {
			if livePhis[np.phi] {
				npList[j] = np
				j++
			} else {
				// discard it, first removing it from referrers
				for _, val := range np.phi.Edges {
					if refs := val.Referrers(); refs != nil {
						*refs = removeInstr(*refs, np.phi)
					}
				}
				np.phi.block = nil
			}
		}
		newPhis[block] = npList[:j]
	}
}

// markLivePhi marks phi, and all φ-nodes transitively reachable via
// its Operands, live.
func markLivePhi(livePhis map[*Phi]bool, phi *Phi) {
	livePhis[phi] = true
	for _, rand := range phi.Operands(nil) {
		if q, ok := (*rand).(*Phi); ok {
			if !livePhis[q] {
				markLivePhi(livePhis, q)
			}
		}
	}
}

// phiHasDirectReferrer reports whether phi is directly referred to by
// a non-Phi instruction.  Such instructions are the
// roots of the liveness traversal.
func phiHasDirectReferrer(phi *Phi) bool {
	for _, instr := range *phi.Referrers() {
		if _, ok := instr.(*Phi); !ok {
			return true
		}
	}
	return false
}

type blockSet struct{ big.Int } // (inherit methods from Int)

// add adds b to the set and returns true if the set changed.
func (s *blockSet) add(b *BasicBlock) bool {
	i := b.Index
	if s.Bit(i) != 0 {
		return false
	}
	s.SetBit(&s.Int, i, 1)
	return true
}

// take removes an arbitrary element from a set s and
// returns its index, or returns -1 if empty.
func (s *blockSet) take() int {
	l := s.BitLen()
	for i := 0; i < l; i++ {
		if s.Bit(i) == 1 {
			s.SetBit(&s.Int, i, 0)
			return i
		}
	}
	return -1
}

// newPhi is a pair of a newly introduced φ-node and the lifted Alloc
// it replaces.
type newPhi struct {
	phi   *Phi
	alloc *Alloc
}

// newPhiMap records for each basic block, the set of newPhis that
// must be prepended to the block.
type newPhiMap map[*BasicBlock][]newPhi

// liftAlloc determines whether alloc can be lifted into registers,
// and if so, it populates newPhis with all the φ-nodes it may require
// and returns true.
//
// fresh is a source of fresh ids for phi nodes.
func liftAlloc(df domFrontier, alloc *Alloc, newPhis newPhiMap, fresh *int) bool {
	// Don't lift result values in functions that defer
	// calls that may recover from panic.
	if fn := alloc.Parent(); fn.Recover != nil {
		for _, nr := range fn.results {
			if nr == alloc {
				return false
			}
		}
	}

	// Compute defblocks, the set of blocks containing a
	// definition of the alloc cell.
	var defblocks blockSet
	for _, instr := range *alloc.Referrers() {
		// Bail out if we discover the alloc is not liftable;
		// the only operations permitted to use the alloc are
		// loads/stores into the cell, and DebugRef.
		switch instr := instr.(type) {
		case *Store:
			if instr.Val == alloc {
				return false // address used as value
			}
			if instr.Addr != alloc {
				panic("Alloc.Referrers is inconsistent")
			}
			defblocks.add(instr.Block())
		case *UnOp:
			if instr.Op != token.MUL {
				return false // not a load
			}
			if instr.X != alloc {
				panic("Alloc.Referrers is inconsistent")
			}
		case *DebugRef:
			// ok
		default:
			return false // some other instruction
		}
	}
	// The Alloc itself counts as a (zero) definition of the cell.
	defblocks.add(alloc.Block())

	if debugLifting {
		fmt.Fprintln(os.Stderr, "\tlifting ", alloc, alloc.Name())
	}

	fn := alloc.Parent()

	// Φ-insertion.
	//
	// What follows is the body of the main loop of the insert-φ
	// function described by Cytron et al, but instead of using
	// counter tricks, we just reset the 'hasAlready' and 'work'
	// sets each iteration.  These are bitmaps so it's pretty cheap.
	//
	// TODO(adonovan): opt: recycle slice storage for W,
	// hasAlready, defBlocks across liftAlloc calls.
	var hasAlready blockSet

	// Initialize W and work to defblocks.
	var work blockSet = defblocks // blocks seen
	var W blockSet                // blocks to do
	W.Set(&defblocks.Int)

	// Traverse iterated dominance frontier, inserting φ-nodes.
	for i := W.take(); i != -1; i = W.take() {
		u := fn.Blocks[i]
		for _, v := range df[u.Index] {
			if hasAlready.add(v) {
				// Create φ-node.
				// It will be prepended to v.Instrs later, if needed.
				phi := &Phi{
					Edges:   make([]Value, len(v.Preds)),
					Comment: alloc.Comment,
				}
				// This is merely a debugging aid:
				phi.setNum(*fresh)
				*fresh++

				phi.pos = alloc.Pos()
				phi.setType(typeparams.MustDeref(alloc.Type()))
				phi.block = v
				if debugLifting {
					fmt.Fprintf(os.Stderr, "\tplace %s = %s at block %s\n", phi.Name(), phi, v)
				}
				newPhis[v] = append(newPhis[v], newPhi{phi, alloc})

				if work.add(v) {
					W.add(v)
				}
			}
		}
	}

	return true
}

// replaceAll replaces all intraprocedural uses of x with y,
// updating x.Referrers and y.Referrers.
// Precondition: x.Referrers() != nil, i.e. x must be local to some function.
func replaceAll(x, y Value) {
	var rands []*Value
	pxrefs := x.Referrers()
	pyrefs := y.Referrers()
	for _, instr := range *pxrefs {
		rands = instr.Operands(rands[:0]) // recycle storage
		for _, rand := range rands {
			if *rand != nil {
				if *rand == x {
					*rand = y
				}
			}
		}
		if pyrefs != nil {
			*pyrefs = append(*pyrefs, instr) // dups ok
		}
	}
	*pxrefs = nil // x is now unreferenced
}

// renamed returns the value to which alloc is being renamed,
// constructing it lazily if it's the implicit zero initialization.
func renamed(renaming []Value, alloc *Alloc) Value {
	v := renaming[alloc.index]
	if v == nil {
		v = zeroConst(typeparams.MustDeref(alloc.Type()))
		renaming[alloc.index] = v
	}
	return v
}

// rename implements the (Cytron et al) SSA renaming algorithm, a
// preorder traversal of the dominator tree replacing all loads of
// Alloc cells with the value stored to that cell by the dominating
// store instruction.  For lifting, we need only consider loads,
// stores and φ-nodes.
//
// renaming is a map from *Alloc (keyed by index number) to its
// dominating stored value; newPhis[x] is the set of new φ-nodes to be
// prepended to block x.
func rename(u *BasicBlock, renaming []Value, newPhis newPhiMap) {
	// Each φ-node becomes the new name for its associated Alloc.
	for _, np := range newPhis[u] {
		phi := np.phi
		alloc := np.alloc
		renaming[alloc.index] = phi
	}

	// Rename loads and stores of allocs.
	for i, instr := range u.Instrs {
		switch instr := instr.(type) {
		case *Alloc:
			if instr.index >= 0 { // store of zero to Alloc cell
				// Replace dominated loads by the zero value.
				renaming[instr.index] = nil
				if debugLifting {
					fmt.Fprintf(os.Stderr, "\tkill alloc %s\n", instr)
				}
				// Delete the Alloc.
				u.Instrs[i] = nil
				u.gaps++
			}

		case *Store:
			if alloc, ok := instr.Addr.(*Alloc); ok && alloc.index >= 0 { // store to Alloc cell
				// Replace dominated loads by the stored value.
				renaming[alloc.index] = instr.Val
				if debugLifting {
					fmt.Fprintf(os.Stderr, "\tkill store %s; new value: %s\n",
						instr, instr.Val.Name())
				}
				// Remove the store from the referrer list of the stored value.
				if refs := instr.Val.Referrers(); refs != nil {
					*refs = removeInstr(*refs, instr)
				}
				// Delete the Store.
				u.Instrs[i] = nil
				u.gaps++
			}

		case *UnOp:
			if instr.Op == token.MUL {
				if alloc, ok := instr.X.(*Alloc); ok && alloc.index >= 0 { // load of Alloc cell
					newval := renamed(renaming, alloc)
					if debugLifting {
						fmt.Fprintf(os.Stderr, "\tupdate load %s = %s with %s\n",
							instr.Name(), instr, newval.Name())
					}
					// Replace all references to
					// the loaded value by the
					// dominating stored value.
					replaceAll(instr, newval)
					// Delete the Load.
					u.Instrs[i] = nil
					u.gaps++
				}
			}

		case *DebugRef:
			if alloc, ok := instr.X.(*Alloc); ok && alloc.index >= 0 { // ref of Alloc cell
				if instr.IsAddr {
					instr.X = renamed(renaming, alloc)
					instr.IsAddr = false

					// Add DebugRef to instr.X's referrers.
					if refs := instr.X.Referrers(); refs != nil {
						*refs = append(*refs, instr)
					}
				} else {
					// A source expression denotes the address
					// of an Alloc that was optimized away.
					instr.X = nil

					// Delete the DebugRef.
					u.Instrs[i] = nil
					u.gaps++
				}
			}
		}
	}

	// For each φ-node in a CFG successor, rename the edge.
	for _, v := range u.Succs {
		phis := newPhis[v]
		if len(phis) == 0 {
			continue
		}
		i := v.predIndex(u)
		for _, np := range phis {
			phi := np.phi
			alloc := np.alloc
			newval := renamed(renaming, alloc)
			if debugLifting {
				fmt.Fprintf(os.Stderr, "\tsetphi %s edge %s -> %s (#%d) (alloc=%s) := %s\n",
					phi.Name(), u, v, i, alloc.Name(), newval.Name())
			}
			phi.Edges[i] = newval
			if prefs := newval.Referrers(); prefs != nil {
				*prefs = append(*prefs, phi)
			}
		}
	}

	// Continue depth-first recursion over domtree, pushing a
	// fresh copy of the renaming map for each subtree.
	for i, v := range u.dom.children {
		r := renaming
		if i < len(u.dom.children)-1 {
			// On all but the final iteration, we must make
			// a copy to avoid destructive update.
			r = make([]Value, len(renaming))
			copy(r, renaming)
		}
		rename(v, r, newPhis)
	}

}

// deferstackPreamble returns the *Alloc and ssa:deferstack() call for fn.deferstack.
func deferstackPreamble(fn *Function) (*Alloc, *Call) {
	if alloc, _ := fn.vars[fn.deferstack].(*Alloc); alloc != nil {
		for _, ref := range *alloc.Referrers() {
			if ref, _ := ref.(*Store); ref != nil && ref.Addr == alloc {
				if call, _ := ref.Val.(*Call); call != nil {
					return alloc, call
				}
			}
		}
	}
	return nil, nil
}

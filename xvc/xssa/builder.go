// Copyright 2013 The Go Authors. All rights reserved.
// Use of this source code is governed by a BSD-style
// license that can be found in the LICENSE file.

package ssa

// This file defines the builder, which builds SSA-form IR for function bodies.
//
// SSA construction has two phases, "create" and "build". First, one
// or more packages are created in any order by a sequence of calls to
// CreatePackage, either from syntax or from mere type information.
// Each created package has a complete set of Members (const, var,
// type, func) that can be accessed through methods like
// Program.FuncValue.
//
// It is not necessary to call CreatePackage for all dependencies of
// each syntax package, only for its direct imports. (In future
// perhaps even this restriction may be lifted.)
//
// Second, packages created from syntax are built, by one or more
// calls to Package.Build, which may be concurrent; or by a call to
// Program.Build, which builds all packages in parallel. Building
// traverses the type-annotated syntax tree of each function body and
// creates SSA-form IR, a control-flow graph of instructions,
// populating fields such as Function.Body, .Params, and others.
//
// Building may create additional methods, including:
// - wrapper methods (e.g. for embeddding, or implicit &recv)
// - bound method closures (e.g. for use(recv.f))
// - thunks (e.g. for use(I.f) or use(T.f))
// - generic instances (e.g. to produce f[int] from f[any]).
// As these methods are created, they are added to the build queue,
// and then processed in turn, until a fixed point is reached,
// Since these methods might belong to packages that were not
// created (by a call to CreatePackage), their Pkg field is unset.
//
// Instances of generic functions may be either instantiated (f[int]
// is a copy of f[T] with substitutions) or wrapped (f[int] delegates
// to f[T]), depending on the availability of generic syntax and the
// InstantiateGenerics mode flag.
//
// Each package has an initializer function named "init" that calls
// the initializer functions of each direct import, computes and
// assigns the initial value of each global variable, and calls each
// source-level function named "init". (These generate SSA functions
// named "init#1", "init#2", etc.)
//
// Runtime types
//
// Each MakeInterface operation is a conversion from a non-interface
// type to an interface type. The semantics of this operation requires
// a runtime type descriptor, which is the type portion of an
// interface, and the value abstracted by reflect.Type.
//
// The program accumulates all non-parameterized types that are
// encountered as MakeInterface operands, along with all types that
// may be derived from them using reflection. This set is available as
// Program.RuntimeTypes, and the methods of these types may be
// reachable via interface calls or reflection even if they are never
// referenced from the SSA IR. (In practice, algorithms such as RTA
// that compute reachability from package main perform their own
// tracking of runtime types at a finer grain, so this feature is not
// very useful.)
//
// Function literals
//
// Anonymous functions must be built as soon as they are encountered,
// as it may affect locals of the enclosing function, but they are not
// marked 'built' until the end of the outermost enclosing function.
// (Among other things, this causes them to be logged in top-down order.)
//
// The Function.build fields determines the algorithm for building the
// function body. It is cleared to mark that building is complete.

import (
	"fmt"
	"go/ast"
	"go/constant"
	"go/token"
	"go/types"
	"os"
	"runtime"
	"sync"

	"xvc/xinternal/typeparams"
	"xvc/xinternal/versions"
)

type opaqueType struct{ name string }

func (t *opaqueType) String() string         { return t.name }
func (t *opaqueType) Underlying() types.Type { return t }

var (
	varOk    = newVar("ok", tBool)
	varIndex = newVar("index", tInt)

	// Type constants.
	tBool       = types.Typ[types.Bool]
	tByte       = types.Typ[types.Byte]
	tInt        = types.Typ[types.Int]
	tInvalid    = types.Typ[types.Invalid]
	tString     = types.Typ[types.String]
	tUntypedNil = types.Typ[types.UntypedNil]

	tRangeIter  = &opaqueType{"iter"}                         // the type of all "range" iterators
	tDeferStack = types.NewPointer(&opaqueType{"deferStack"}) // the type of a "deferStack" from ssa:deferstack()
	tEface      = types.NewInterfaceType(nil, nil).Complete()

	// SSA Value constants.
	vZero  = intConst(0)
	vOne   = intConst(1)
	vTrue  = NewConst(constant.MakeBool(true), tBool)
	vFalse = NewConst(constant.MakeBool(false), tBool)

	jReady = intConst(0)  // range-over-func jump is READY
	jBusy  = intConst(-1) // range-over-func jump is BUSY
	jDone  = intConst(-2) // range-over-func jump is DONE

	// The ssa:deferstack intrinsic returns the current function's defer stack.
	vDeferStack = &Builtin{
		name: "ssa:deferstack",
		sig:  types.NewSignatureType(nil, nil, nil, nil, types.NewTuple(anonVar(tDeferStack)), false),
	}
)

// builder holds state associated with the package currently being built.
// Its methods contain all the logic for AST-to-SSA conversion.
//
// All Functions belong to the same Program.
//
// builders are not thread-safe.
type builder struct {
	fns []*Function // Functions that have finished their CREATE phases.

	finished int // finished is the length of the prefix of fns containing built functions.

	// The task of building shared functions within the builder.
	// Shared functions are ones the the builder may either create or lookup.
	// These may be built by other builders in parallel.
	// The task is done when the builder has finished iterating, and it
	// waits for all shared functions to finish building.
	// nil implies there are no hared functions to wait on.
	buildshared *task
}

// shared is done when the builder has built all of the
// enqueued functions to a fixed-point.
func (b *builder) shared() *task {
	if b.buildshared == nil { // lazily-initialize
		b.buildshared = &task{done: make(chan unit)}
	}
	return b.buildshared
}

// enqueue fn to be built by the builder.
func (b *builder) enqueue(fn *Function) {
	b.fns = append(b.fns, fn)
}

// waitForSharedFunction indicates that the builder should wait until
// the potentially shared function fn has finished building.
//
// This should include any functions that may be built by other
// builders.
func (b *builder) waitForSharedFunction(fn *Function) {
	if fn.buildshared != nil { // maybe need to wait?
		s := b.shared()
		s.addEdge(fn.buildshared)
	}
}

// cond emits to fn code to evaluate boolean condition e and jump
// to t or f depending on its value, performing various simplifications.
//
// Postcondition: fn.currentBlock is nil.
func (b *builder) cond(fn *Function, e ast.Expr, t, f *BasicBlock) {
	switch e := e.(type) {
	case *ast.ParenExpr:
		b.cond(fn, e.X, t, f)
		return

	case *ast.BinaryExpr:
		switch e.Op {
		case token.LAND:
			ltrue := fn.newBasicBlock("cond.true")
			b.cond(fn, e.X, ltrue, f)
			fn.currentBlock = ltrue
			b.cond(fn, e.Y, t, f)
			return

		case token.LOR:
			lfalse := fn.newBasicBlock("cond.false")
			b.cond(fn, e.X, t, lfalse)
			fn.currentBlock = lfalse
			b.cond(fn, e.Y, t, f)
			return
		}

	case *ast.UnaryExpr:
		if e.Op == token.NOT {
			b.cond(fn, e.X, f, t)
			return
		}
	}

	// A traditional compiler would simplify "if false" (etc) here
	// but we do not, for better fidelity to the source code.
	//
	// The value of a constant condition may be platform-specific,
	// and may cause blocks that are reachable in some configuration
	// to be hidden from subsequent analyses such as bug-finding tools.
	emitIf(fn, b.expr(fn, e), t, f)
}

// logicalBinop emits code to fn to evaluate e, a &&- or
// ||-expression whose reified boolean value is wanted.
// The value is returned.
func (b *builder) logicalBinop(fn *Function, e *ast.BinaryExpr) Value {
	rhs := fn.newBasicBlock("binop.rhs")
	done := fn.newBasicBlock("binop.done")

	// T(e) = T(e.X) = T(e.Y) after untyped constants have been
	// eliminated.
	// TODO(adonovan): not true; MyBool==MyBool yields UntypedBool.
	t := fn.typeOf(e)

	var short Value // value of the short-circuit path
	switch e.Op {
	case token.LAND:
		b.cond(fn, e.X, rhs, done)
		short = NewConst(constant.MakeBool(false), t)

	case token.LOR:
		b.cond(fn, e.X, done, rhs)
		short = NewConst(constant.MakeBool(true), t)
	}

	// Is rhs unreachable?
	if rhs.Preds == nil {
		// Simplify false&&y to false, true||y to true.
		fn.currentBlock = done
		return short
	}

	// Is done unreachable?
	if done.Preds == nil {
		// Simplify true&&y (or false||y) to y.
		fn.currentBlock = rhs
		return b.expr(fn, e.Y)
	}

	// All edges from e.X to done carry the short-circuit value.
	var edges []Value
	for range done.Preds {
		edges = append(edges, short)
	}

	// The edge from e.Y to done carries the value of e.Y.
	fn.currentBlock = rhs
	edges = append(edges, b.expr(fn, e.Y))
	emitJump(fn, done)
	fn.currentBlock = done

	phi := &Phi{Edges: edges, Comment: e.Op.String()}
	phi.pos = e.OpPos
	phi.typ = t
	return done.emit(phi)
}

// exprN lowers a multi-result expression e to SSA form, emitting code
// to fn and returning a single Value whose type is a *types.Tuple.
// The caller must access the components via Extract.
//
// Multi-result expressions include CallExprs in a multi-value
// assignment or return statement, and "value,ok" uses of
// TypeAssertExpr, IndexExpr (when X is a map), and UnaryExpr (when Op
// is token.ARROW).
func (b *builder) exprN(fn *Function, e ast.Expr) Value {
	typ := fn.typeOf(e).(*types.Tuple)
	switch e := e.(type) {
	case *ast.ParenExpr:
		return b.exprN(fn, e.X)

	case *ast.CallExpr:
		// Currently, no built-in function nor type conversion
		// has multiple results, so we can avoid some of the
		// cases for single-valued CallExpr.
		var c Call
		b.setCall(fn, e, &c.Call)
		c.typ = typ
		return fn.emit(&c)

	case *ast.IndexExpr:
		mapt := typeparams.CoreType(fn.typeOf(e.X)).(*types.Map) // ,ok must be a map.
		lookup := &Lookup{
			X:       b.expr(fn, e.X),
			Index:   emitConv(fn, b.expr(fn, e.Index), mapt.Key()),
			CommaOk: true,
		}
		lookup.setType(typ)
		lookup.setPos(e.Lbrack)
		return fn.emit(lookup)

	case *ast.TypeAssertExpr:
		return emitTypeTest(fn, b.expr(fn, e.X), typ.At(0).Type(), e.Lparen)

	case *ast.UnaryExpr: // must be receive <-
		unop := &UnOp{
			Op:      token.ARROW,
			X:       b.expr(fn, e.X),
			CommaOk: true,
		}
		unop.setType(typ)
		unop.setPos(e.OpPos)
		return fn.emit(unop)
	}
	panic(fmt.Sprintf("exprN(%T) in %s", e, fn))
}

// builtin emits to fn SSA instructions to implement a call to the
// built-in function obj with the specified arguments
// and return type.  It returns the value defined by the result.
//
// The result is nil if no special handling was required; in this case
// the caller should treat this like an ordinary library function
// call.
func (b *builder) builtin(fn *Function, obj *types.Builtin, args []ast.Expr, typ types.Type, pos token.Pos) Value {
	typ = fn.typ(typ)
	switch obj.Name() {
	case "make":
		switch ct := typeparams.CoreType(typ).(type) {
		case *types.Slice:
			n := b.expr(fn, args[1])
			m := n
			if len(args) == 3 {
				m = b.expr(fn, args[2])
			}
			if m, ok := m.(*Const); ok {
				// treat make([]T, n, m) as new([m]T)[:n]
				cap := m.Int64()
				at := types.NewArray(ct.Elem(), cap)
				v := &Slice{
					X:    emitNew(fn, at, pos, "makeslice"),
					High: n,
				}
				v.setPos(pos)
				v.setType(typ)
				return fn.emit(v)
			}
			v := &MakeSlice{
				Len: n,
				Cap: m,
			}
			v.setPos(pos)
			v.setType(typ)
			return fn.emit(v)

		case *types.Map:
			var res Value
			if len(args) == 2 {
				res = b.expr(fn, args[1])
			}
			v := &MakeMap{Reserve: res}
			v.setPos(pos)
			v.setType(typ)
			return fn.emit(v)

		case *types.Chan:
			var sz Value = vZero
			if len(args) == 2 {
				sz = b.expr(fn, args[1])
			}
			v := &MakeChan{Size: sz}
			v.setPos(pos)
			v.setType(typ)
			return fn.emit(v)
		}

	case "new":
		return emitNew(fn, typeparams.MustDeref(typ), pos, "new")

	case "len", "cap":
		// Special case: len or cap of an array or *array is
		// based on the type, not the value which may be nil.
		// We must still evaluate the value, though.  (If it
		// was side-effect free, the whole call would have
		// been constant-folded.)
		t := typeparams.Deref(fn.typeOf(args[0]))
		if at, ok := typeparams.CoreType(t).(*types.Array); ok {
			b.expr(fn, args[0]) // for effects only
			return intConst(at.Len())
		}
		// Otherwise treat as normal.

	case "panic":
		fn.emit(&Panic{
			X:   emitConv(fn, b.expr(fn, args[0]), tEface),
			pos: pos,
		})
		fn.currentBlock = fn.newBasicBlock("unreachable")
		return vTrue // any non-nil Value will do
	}
	return nil // treat all others as a regular function call
}

// addr lowers a single-result addressable expression e to SSA form,
// emitting code to fn and returning the location (an lvalue) defined
// by the expression.
//
// If escaping is true, addr marks the base variable of the
// addressable expression e as being a potentially escaping pointer
// value.  For example, in this code:
//
//	a := A{
//	  b: [1]B{B{c: 1}}
//	}
//	return &a.b[0].c
//
// the application of & causes a.b[0].c to have its address taken,
// which means that ultimately the local variable a must be
// heap-allocated.  This is a simple but very conservative escape
// analysis.
//
// Operations forming potentially escaping pointers include:
// - &x, including when implicit in method call or composite literals.
// - a[:] iff a is an array (not *array)
// - references to variables in lexically enclosing functions.
func (b *builder) addr(fn *Function, e ast.Expr, escaping bool) lvalue {
	switch e := e.(type) {
	case *ast.Ident:
		if isBlankIdent(e) {
			return blank{}
		}
		obj := fn.objectOf(e).(*types.Var)
		var v Value
		if g := fn.Prog.packageLevelMember(obj); g != nil {
			v = g.(*Global) // var (address)
		} else {
			v = fn.lookup(obj, escaping)
		}
		return &address{addr: v, pos: e.Pos(), expr: e}

	case *ast.CompositeLit:
		typ := typeparams.Deref(fn.typeOf(e))
		var v *Alloc
		if escaping {
			v = emitNew(fn, typ, e.Lbrace, "complit")
		} else {
			v = emitLocal(fn, typ, e.Lbrace, "complit")
		}
		var sb storebuf
		b.compLit(fn, v, e, true, &sb)
		sb.emit(fn)
		return &address{addr: v, pos: e.Lbrace, expr: e}

	case *ast.ParenExpr:
		return b.addr(fn, e.X, escaping)

	case *ast.SelectorExpr:
		sel := fn.selection(e)
		if sel == nil {
			// qualified identifier
			return b.addr(fn, e.Sel, escaping)
		}
		if sel.kind != types.FieldVal {
			panic(sel)
		}
		wantAddr := true
		v := b.receiver(fn, e.X, wantAddr, escaping, sel)
		index := sel.index[len(sel.index)-1]
		fld := fieldOf(typeparams.MustDeref(v.Type()), index) // v is an addr.

		// Due to the two phases of resolving AssignStmt, a panic from x.f = p()
		// when x is nil is required to come after the side-effects of
		// evaluating x and p().
		emit := func(fn *Function) Value {
			return emitFieldSelection(fn, v, index, true, e.Sel)
		}
		return &lazyAddress{addr: emit, t: fld.Type(), pos: e.Sel.Pos(), expr: e.Sel}

	case *ast.IndexExpr:
		xt := fn.typeOf(e.X)
		elem, mode := indexType(xt)
		var x Value
		var et types.Type
		switch mode {
		case ixArrVar: // array, array|slice, array|*array, or array|*array|slice.
			x = b.addr(fn, e.X, escaping).address(fn)
			et = types.NewPointer(elem)
		case ixVar: // *array, slice, *array|slice
			x = b.expr(fn, e.X)
			et = types.NewPointer(elem)
		case ixMap:
			mt := typeparams.CoreType(xt).(*types.Map)
			return &element{
				m:   b.expr(fn, e.X),
				k:   emitConv(fn, b.expr(fn, e.Index), mt.Key()),
				t:   mt.Elem(),
				pos: e.Lbrack,
			}
		default:
			panic("unexpected container type in IndexExpr: " + xt.String())
		}
		index := b.expr(fn, e.Index)
		if isUntyped(index.Type()) {
			index = emitConv(fn, index, tInt)
		}
		// Due to the two phases of resolving AssignStmt, a panic from x[i] = p()
		// when x is nil or i is out-of-bounds is required to come after the
		// side-effects of evaluating x, i and p().
		emit := func(fn *Function) Value {
			v := &IndexAddr{
				X:     x,
				Index: index,
			}
			v.setPos(e.Lbrack)
			v.setType(et)
			return fn.emit(v)
		}
		return &lazyAddress{addr: emit, t: typeparams.MustDeref(et), pos: e.Lbrack, expr: e}

	case *ast.StarExpr:
		return &address{addr: b.expr(fn, e.X), pos: e.Star, expr: e}
	}

	panic(fmt.Sprintf("unexpected address expression: %T", e))
}

type store struct {
	lhs lvalue
	rhs Value
}

type storebuf struct{ stores []store }

func (sb *storebuf) store(lhs lvalue, rhs Value) {
	sb.stores = append(sb.stores, store{lhs, rhs})
}

func (sb *storebuf) emit(fn *Function) {
	for _, s := range sb.stores {
		s.lhs.store(fn, s.rhs)
	}
}

// assign emits to fn code to initialize the lvalue loc with the value
// of expression e.  If isZero is true, assign assumes that loc holds
// the zero value for its type.
//
// This is equivalent to loc.store(fn, b.expr(fn, e)), but may generate
// better code in some cases, e.g., for composite literals in an
// addressable location.
//
// If sb is not nil, assign generates code to evaluate expression e, but
// not to update loc.  Instead, the necessary stores are appended to the
// storebuf sb so that they can be executed later.  This allows correct
// in-place update of existing variables when the RHS is a composite
// literal that may reference parts of the LHS.
func (b *builder) assign(fn *Function, loc lvalue, e ast.Expr, isZero bool, sb *storebuf) {
	// Can we initialize it in place?
	if e, ok := unparen(e).(*ast.CompositeLit); ok {
		// A CompositeLit never evaluates to a pointer,
		// so if the type of the location is a pointer,
		// an &-operation is implied.
		if !is[blank](loc) && isPointerCore(loc.typ()) { // avoid calling blank.typ()
			ptr := b.addr(fn, e, true).address(fn)
			// copy address
			if sb != nil {
				sb.store(loc, ptr)
			} else {
				loc.store(fn, ptr)
			}
			return
		}

		if _, ok := loc.(*address); ok {
			if isNonTypeParamInterface(loc.typ()) {
				// e.g. var x interface{} = T{...}
				// Can't in-place initialize an interface value.
				// Fall back to copying.
			} else {
				// x = T{...} or x := T{...}
				addr := loc.address(fn)
				if sb != nil {
					b.compLit(fn, addr, e, isZero, sb)
				} else {
					var sb storebuf
					b.compLit(fn, addr, e, isZero, &sb)
					sb.emit(fn)
				}

				// Subtle: emit debug ref for aggregate types only;
				// slice and map are handled by store ops in compLit.
				switch typeparams.CoreType(loc.typ()).(type) {
				case *types.Struct, *types.Array:
					emitDebugRef(fn, e, addr, true)
				}

				return
			}
		}
	}

	// simple case: just copy
	rhs := b.expr(fn, e)
	if sb != nil {
		sb.store(loc, rhs)
	} else {
		loc.store(fn, rhs)
	}
}

// expr lowers a single-result expression e to SSA form, emitting code
// to fn and returning the Value defined by the expression.
func (b *builder) expr(fn *Function, e ast.Expr) Value {
	e = unparen(e)

	tv := fn.info.Types[e]

	// Is expression a constant?
	if tv.Value != nil {
		return NewConst(tv.Value, fn.typ(tv.Type))
	}

	var v Value
	if tv.Addressable() {
		// Prefer pointer arithmetic ({Index,Field}Addr) followed
		// by Load over subelement extraction (e.g. Index, Field),
		// to avoid large copies.
		v = b.addr(fn, e, false).load(fn)
	} else {
		v = b.expr0(fn, e, tv)
	}
	if fn.debugInfo() {
		emitDebugRef(fn, e, v, false)
	}
	return v
}

func (b *builder) expr0(fn *Function, e ast.Expr, tv types.TypeAndValue) Value {
	switch e := e.(type) {
	case *ast.BasicLit:
		panic("non-constant BasicLit") // unreachable

	case *ast.FuncLit:
		/* function literal */
		anon := &Function{
			name:           fmt.Sprintf("%s$%d", fn.Name(), 1+len(fn.AnonFuncs)),
			Signature:      fn.typeOf(e.Type).(*types.Signature),
			pos:            e.Type.Func,
			parent:         fn,
			anonIdx:        int32(len(fn.AnonFuncs)),
			Pkg:            fn.Pkg,
			Prog:           fn.Prog,
			syntax:         e,
			info:           fn.info,
			goversion:      fn.goversion,
			build:          (*builder).buildFromSyntax,
			topLevelOrigin: nil,           // use anonIdx to lookup an anon instance's origin.
			typeparams:     fn.typeparams, // share the parent's type parameters.
			typeargs:       fn.typeargs,   // share the parent's type arguments.
			subst:          fn.subst,      // share the parent's type substitutions.
			uniq:           fn.uniq,       // start from parent's unique values
		}
		fn.AnonFuncs = append(fn.AnonFuncs, anon)
		// Build anon immediately, as it may cause fn's locals to escape.
		// (It is not marked 'built' until the end of the enclosing FuncDecl.)
		anon.build(b, anon)
		fn.uniq = anon.uniq // resume after anon's unique values
		if anon.FreeVars == nil {
			return anon
		}
		v := &MakeClosure{Fn: anon}
		v.setType(fn.typ(tv.Type))
		for _, fv := range anon.FreeVars {
			v.Bindings = append(v.Bindings, fv.outer)
			fv.outer = nil
		}
		return fn.emit(v)

	case *ast.TypeAssertExpr: // single-result form only
		return emitTypeAssert(fn, b.expr(fn, e.X), fn.typ(tv.Type), e.Lparen)

	case *ast.CallExpr:
		if fn.info.Types[e.Fun].IsType() {
			// Explicit type conversion, e.g. string(x) or big.Int(x)
			x := b.expr(fn, e.Args[0])
			y := emitConv(fn, x, fn.typ(tv.Type))
			if y != x {
				switch y := y.(type) {
				case *Convert:
					y.pos = e.Lparen
				case *ChangeType:
					y.pos = e.Lparen
				case *MakeInterface:
					y.pos = e.Lparen
				case *SliceToArrayPointer:
					y.pos = e.Lparen
				case *UnOp: // conversion from slice to array.
					y.pos = e.Lparen
				}
			}
			return y
		}
		// Call to "intrinsic" built-ins, e.g. new, make, panic.
		if id, ok := unparen(e.Fun).(*ast.Ident); ok {
			if obj, ok := fn.info.Uses[id].(*types.Builtin); ok {
				if v := b.builtin(fn, obj, e.Args, fn.typ(tv.Type), e.Lparen); v != nil {
					return v
				}
			}
		}
		// Regular function call.
		var v Call
		b.setCall(fn, e, &v.Call)
		v.setType(fn.typ(tv.Type))
		return fn.emit(&v)

	case *ast.UnaryExpr:
		switch e.Op {
		case token.AND: // &X --- potentially escaping.
			addr := b.addr(fn, e.X, true)
			if _, ok := unparen(e.X).(*ast.StarExpr); ok {
				// &*p must panic if p is nil (http://golang.org/s/go12nil).
				// For simplicity, we'll just (suboptimally) rely
				// on the side effects of a load.
				// TODO(adonovan): emit dedicated nilcheck.
				addr.load(fn)
			}
			return addr.address(fn)
		case token.ADD:
			return b.expr(fn, e.X)
		case token.NOT, token.ARROW, token.SUB, token.XOR: // ! <- - ^
			v := &UnOp{
				Op: e.Op,
				X:  b.expr(fn, e.X),
			}
			v.setPos(e.OpPos)
			v.setType(fn.typ(tv.Type))
			return fn.emit(v)
		default:
			panic(e.Op)
		}

	case *ast.BinaryExpr:
		switch e.Op {
		case token.LAND, token.LOR:
			return b.logicalBinop(fn, e)
		case token.SHL, token.SHR:
			fallthrough
		case token.ADD, token.SUB, token.MUL, token.QUO, token.REM, token.AND, token.OR, token.XOR, token.AND_NOT:
			return emitArith(fn, e.Op, b.expr(fn, e.X), b.expr(fn, e.Y), fn.typ(tv.Type), e.OpPos)

		case token.EQL, token.NEQ, token.GTR, token.LSS, token.LEQ, token.GEQ:
			cmp := emitCompare(fn, e.Op, b.expr(fn, e.X), b.expr(fn, e.Y), e.OpPos)
			// The type of x==y may be UntypedBool.
			return emitConv(fn, cmp, types.Default(fn.typ(tv.Type)))
		default:
			panic("illegal op in BinaryExpr: " + e.Op.String())
		}

	case *ast.SliceExpr:
		var low, high, max Value
		var x Value
		xtyp := fn.typeOf(e.X)
		switch typeparams.CoreType(xtyp).(type) {
		case *types.Array:
			// Potentially escaping.
			x = b.addr(fn, e.X, true).address(fn)
		case *types.Basic, *types.Slice, *types.Pointer: // *array
			x = b.expr(fn, e.X)
		default:
			// core type exception?
			if isBytestring(xtyp) {
				x = b.expr(fn, e.X) // bytestring is handled as string and []byte.
			} else {
				panic("unexpected sequence type in SliceExpr")
			}
		}
		if e.Low != nil {
			low = b.expr(fn, e.Low)
		}
		if e.High != nil {
			high = b.expr(fn, e.High)
		}
		if e.Slice3 {
			max = b.expr(fn, e.Max)
		}
		v := &Slice{
			X:    x,
			Low:  low,
			High: high,
			Max:  max,
		}
		v.setPos(e.Lbrack)
		v.setType(fn.typ(tv.Type))
		return fn.emit(v)

	case *ast.Ident:
		obj := fn.info.Uses[e]
		// Universal built-in or nil?
		switch obj := obj.(type) {
		case *types.Builtin:
			return &Builtin{name: obj.Name(), sig: fn.instanceType(e).(*types.Signature)}
		case *types.Nil:
			return zeroConst(fn.instanceType(e))
		}

		// Package-level func or var?
		// (obj must belong to same package or a direct import.)
		if v := fn.Prog.packageLevelMember(obj); v != nil {
			if g, ok := v.(*Global); ok {
				return emitLoad(fn, g) // var (address)
			}
			callee := v.(*Function) // (func)
			if callee.typeparams.Len() > 0 {
				targs := fn.subst.types(instanceArgs(fn.info, e))
				callee = callee.instance(targs, b)
			}
			return callee
		}
		// Local var.
		return emitLoad(fn, fn.lookup(obj.(*types.Var), false)) // var (address)

	case *ast.SelectorExpr:
		sel := fn.selection(e)
		if sel == nil {
			// builtin unsafe.{Add,Slice}
			if obj, ok := fn.info.Uses[e.Sel].(*types.Builtin); ok {
				return &Builtin{name: obj.Name(), sig: fn.typ(tv.Type).(*types.Signature)}
			}
			// qualified identifier
			return b.expr(fn, e.Sel)
		}
		switch sel.kind {
		case types.MethodExpr:
			// (*T).f or T.f, the method f from the method-set of type T.
			// The result is a "thunk".
			thunk := createThunk(fn.Prog, sel)
			b.enqueue(thunk)
			return emitConv(fn, thunk, fn.typ(tv.Type))

		case types.MethodVal:
			// e.f where e is an expression and f is a method.
			// The result is a "bound".
			obj := sel.obj.(*types.Func)
			rt := fn.typ(recvType(obj))
			wantAddr := isPointer(rt)
			escaping := true
			v := b.receiver(fn, e.X, wantAddr, escaping, sel)

			if types.IsInterface(rt) {
				// If v may be an interface type I (after instantiating),
				// we must emit a check that v is non-nil.
				if recv, ok := types.Unalias(sel.recv).(*types.TypeParam); ok {
					// Emit a nil check if any possible instantiation of the
					// type parameter is an interface type.
					if typeSetOf(recv).Len() > 0 {
						// recv has a concrete term its typeset.
						// So it cannot be instantiated as an interface.
						//
						// Example:
						// func _[T interface{~int; Foo()}] () {
						//    var v T
						//    _ = v.Foo // <-- MethodVal
						// }
					} else {
						// rt may be instantiated as an interface.
						// Emit nil check: typeassert (any(v)).(any).
						emitTypeAssert(fn, emitConv(fn, v, tEface), tEface, token.NoPos)
					}
				} else {
					// non-type param interface
					// Emit nil check: typeassert v.(I).
					emitTypeAssert(fn, v, rt, e.Sel.Pos())
				}
			}
			if targs := receiverTypeArgs(obj); len(targs) > 0 {
				// obj is generic.
				obj = fn.Prog.canon.instantiateMethod(obj, fn.subst.types(targs), fn.Prog.ctxt)
			}
			bound := createBound(fn.Prog, obj)
			b.enqueue(bound)

			c := &MakeClosure{
				Fn:       bound,
				Bindings: []Value{v},
			}
			c.setPos(e.Sel.Pos())
			c.setType(fn.typ(tv.Type))
			return fn.emit(c)

		case types.FieldVal:
			indices := sel.index
			last := len(indices) - 1
			v := b.expr(fn, e.X)
			v = emitImplicitSelections(fn, v, indices[:last], e.Pos())
			v = emitFieldSelection(fn, v, indices[last], false, e.Sel)
			return v
		}

		panic("unexpected expression-relative selector")

	case *ast.IndexListExpr:
		// f[X, Y] must be a generic function
		if !instance(fn.info, e.X) {
			panic("unexpected expression-could not match index list to instantiation")
		}
		return b.expr(fn, e.X) // Handle instantiation within the *Ident or *SelectorExpr cases.

	case *ast.IndexExpr:
		if instance(fn.info, e.X) {
			return b.expr(fn, e.X) // Handle instantiation within the *Ident or *SelectorExpr cases.
		}
		// not a generic instantiation.
		xt := fn.typeOf(e.X)
		switch et, mode := indexType(xt); mode {
		case ixVar:
			// Addressable slice/array; use IndexAddr and Load.
			return b.addr(fn, e, false).load(fn)

		case ixArrVar, ixValue:
			// An array in a register, a string or a combined type that contains
			// either an [_]array (ixArrVar) or string (ixValue).

			// Note: for ixArrVar and CoreType(xt)==nil can be IndexAddr and Load.
			index := b.expr(fn, e.Index)
			if isUntyped(index.Type()) {
				index = emitConv(fn, index, tInt)
			}
			v := &Index{
				X:     b.expr(fn, e.X),
				Index: index,
			}
			v.setPos(e.Lbrack)
			v.setType(et)
			return fn.emit(v)

		case ixMap:
			ct := typeparams.CoreType(xt).(*types.Map)
			v := &Lookup{
				X:     b.expr(fn, e.X),
				Index: emitConv(fn, b.expr(fn, e.Index), ct.Key()),
			}
			v.setPos(e.Lbrack)
			v.setType(ct.Elem())
			return fn.emit(v)
		default:
			panic("unexpected container type in IndexExpr: " + xt.String())
		}

	case *ast.CompositeLit, *ast.StarExpr:
		// Addressable types (lvalues)
		return b.addr(fn, e, false).load(fn)
	}

	panic(fmt.Sprintf("unexpected expr: %T", e))
}

// stmtList emits to fn code for all statements in list.
func (b *builder) stmtList(fn *Function, list []ast.Stmt) {
	for _, s := range list {
		b.stmt(fn, s)
	}
}

// receiver emits to fn code for expression e in the "receiver"
// position of selection e.f (where f may be a field or a method) and
// returns the effective receiver after applying the implicit field
// selections of sel.
//
// wantAddr requests that the result is an address.  If
// !sel.indirect, this may require that e be built in addr() mode; it
// must thus be addressable.
//
// escaping is defined as per builder.addr().
func (b *builder) receiver(fn *Function, e ast.Expr, wantAddr, escaping bool, sel *selection) Value {
	var v Value
	if wantAddr && !sel.indirect && !isPointerCore(fn.typeOf(e)) {
		v = b.addr(fn, e, escaping).address(fn)
	} else {
		v = b.expr(fn, e)
	}

	last := len(sel.index) - 1
	// The position of implicit selection is the position of the inducing receiver expression.
	v = emitImplicitSelections(fn, v, sel.index[:last], e.Pos())
	if types.IsInterface(v.Type()) {
		// When v is an interface, sel.Kind()==MethodValue and v.f is invoked.
		// So v is not loaded, even if v has a pointer core type.
	} else if !wantAddr && isPointerCore(v.Type()) {
		v = emitLoad(fn, v)
	}
	return v
}

// setCallFunc populates the function parts of a CallCommon structure
// (Func, Method, Recv, Args[0]) based on the kind of invocation
// occurring in e.
func (b *builder) setCallFunc(fn *Function, e *ast.CallExpr, c *CallCommon) {
	c.pos = e.Lparen

	// Is this a method call?
	if selector, ok := unparen(e.Fun).(*ast.SelectorExpr); ok {
		sel := fn.selection(selector)
		if sel != nil && sel.kind == types.MethodVal {
			obj := sel.obj.(*types.Func)
			recv := recvType(obj)

			wantAddr := isPointer(recv)
			escaping := true
			v := b.receiver(fn, selector.X, wantAddr, escaping, sel)
			if types.IsInterface(recv) {
				// Invoke-mode call.
				c.Value = v // possibly type param
				c.Method = obj
			} else {
				// "Call"-mode call.
				c.Value = fn.Prog.objectMethod(obj, b)
				c.Args = append(c.Args, v)
			}
			return
		}

		// sel.kind==MethodExpr indicates T.f() or (*T).f():
		// a statically dispatched call to the method f in the
		// method-set of T or *T.  T may be an interface.
		//
		// e.Fun would evaluate to a concrete method, interface
		// wrapper function, or promotion wrapper.
		//
		// For now, we evaluate it in the usual way.
		//
		// TODO(adonovan): opt: inline expr() here, to make the
		// call static and to avoid generation of wrappers.
		// It's somewhat tricky as it may consume the first
		// actual parameter if the call is "invoke" mode.
		//
		// Examples:
		//  type T struct{}; func (T) f() {}   // "call" mode
		//  type T interface { f() }           // "invoke" mode
		//
		//  type S struct{ T }
		//
		//  var s S
		//  S.f(s)
		//  (*S).f(&s)
		//
		// Suggested approach:
		// - consume the first actual parameter expression
		//   and build it with b.expr().
		// - apply implicit field selections.
		// - use MethodVal logic to populate fields of c.
	}

	// Evaluate the function operand in the usual way.
	c.Value = b.expr(fn, e.Fun)
}

// emitCallArgs emits to f code for the actual parameters of call e to
// a (possibly built-in) function of effective type sig.
// The argument values are appended to args, which is then returned.
func (b *builder) emitCallArgs(fn *Function, sig *types.Signature, e *ast.CallExpr, args []Value) []Value {
	// f(x, y, z...): pass slice z straight through.
	if e.Ellipsis != 0 {
		for i, arg := range e.Args {
			v := emitConv(fn, b.expr(fn, arg), sig.Params().At(i).Type())
			args = append(args, v)
		}
		return args
	}

	offset := len(args) // 1 if call has receiver, 0 otherwise

	// Evaluate actual parameter expressions.
	//
	// If this is a chained call of the form f(g()) where g has
	// multiple return values (MRV), they are flattened out into
	// args; a suffix of them may end up in a varargs slice.
	for _, arg := range e.Args {
		v := b.expr(fn, arg)
		if ttuple, ok := v.Type().(*types.Tuple); ok { // MRV chain
			for i, n := 0, ttuple.Len(); i < n; i++ {
				args = append(args, emitExtract(fn, v, i))
			}
		} else {
			args = append(args, v)
		}
	}

	// Actual->formal assignability conversions for normal parameters.
	np := sig.Params().Len() // number of normal parameters
	if sig.Variadic() {
		np--
	}
	for i := 0; i < np; i++ {
		args[offset+i] = emitConv(fn, args[offset+i], sig.Params().At(i).Type())
	}

	// Actual->formal assignability conversions for variadic parameter,
	// and construction of slice.
	if sig.Variadic() {
		varargs := args[offset+np:]
		st := sig.Params().At(np).Type().(*types.Slice)
		vt := st.Elem()
		if len(varargs) == 0 {
			args = append(args, zeroConst(st))
		} else {
			// Replace a suffix of args with a slice containing it.
			at := types.NewArray(vt, int64(len(varargs)))
			a := emitNew(fn, at, token.NoPos, "varargs")
			a.setPos(e.Rparen)
			for i, arg := range varargs {
				iaddr := &IndexAddr{
					X:     a,
					Index: intConst(int64(i)),
				}
				iaddr.setType(types.NewPointer(vt))
				fn.emit(iaddr)
				emitStore(fn, iaddr, arg, arg.Pos())
			}
			s := &Slice{X: a}
			s.setType(st)
			args[offset+np] = fn.emit(s)
			args = args[:offset+np+1]
		}
	}
	return args
}

// setCall emits to fn code to evaluate all the parameters of a function
// call e, and populates *c with those values.
func (b *builder) setCall(fn *Function, e *ast.CallExpr, c *CallCommon) {
	// First deal with the f(...) part and optional receiver.
	b.setCallFunc(fn, e, c)

	// Then append the other actual parameters.
	sig, _ := typeparams.CoreType(fn.typeOf(e.Fun)).(*types.Signature)
	if sig == nil {
		panic(fmt.Sprintf("no signature for call of %s", e.Fun))
	}
	c.Args = b.emitCallArgs(fn, sig, e, c.Args)
}

// assignOp emits to fn code to perform loc <op>= val.
func (b *builder) assignOp(fn *Function, loc lvalue, val Value, op token.Token, pos token.Pos) {
	loc.store(fn, emitArith(fn, op, loc.load(fn), val, loc.typ(), pos))
}

// localValueSpec emits to fn code to define all of the vars in the
// function-local ValueSpec, spec.
func (b *builder) localValueSpec(fn *Function, spec *ast.ValueSpec) {
	switch {
	case len(spec.Values) == len(spec.Names):
		// e.g. var x, y = 0, 1
		// 1:1 assignment
		for i, id := range spec.Names {
			if !isBlankIdent(id) {
				emitLocalVar(fn, identVar(fn, id))
			}
			lval := b.addr(fn, id, false) // non-escaping
			b.assign(fn, lval, spec.Values[i], true, nil)
		}

	case len(spec.Values) == 0:
		// e.g. var x, y int
		// Locals are implicitly zero-initialized.
		for _, id := range spec.Names {
			if !isBlankIdent(id) {
				lhs := emitLocalVar(fn, identVar(fn, id))
				if fn.debugInfo() {
					emitDebugRef(fn, id, lhs, true)
				}
			}
		}

	default:
		// e.g. var x, y = pos()
		tuple := b.exprN(fn, spec.Values[0])
		for i, id := range spec.Names {
			if !isBlankIdent(id) {
				emitLocalVar(fn, identVar(fn, id))
				lhs := b.addr(fn, id, false) // non-escaping
				lhs.store(fn, emitExtract(fn, tuple, i))
			}
		}
	}
}

// assignStmt emits code to fn for a parallel assignment of rhss to lhss.
// isDef is true if this is a short variable declaration (:=).
//
// Note the similarity with localValueSpec.
func (b *builder) assignStmt(fn *Function, lhss, rhss []ast.Expr, isDef bool) {
	// Side effects of all LHSs and RHSs must occur in left-to-right order.
	lvals := make([]lvalue, len(lhss))
	isZero := make([]bool, len(lhss))
	for i, lhs := range lhss {
		var lval lvalue = blank{}
		if !isBlankIdent(lhs) {
			if isDef {
				if obj, ok := fn.info.Defs[lhs.(*ast.Ident)].(*types.Var); ok {
					emitLocalVar(fn, obj)
					isZero[i] = true
				}
			}
			lval = b.addr(fn, lhs, false) // non-escaping
		}
		lvals[i] = lval
	}
	if len(lhss) == len(rhss) {
		// Simple assignment:   x     = f()        (!isDef)
		// Parallel assignment: x, y  = f(), g()   (!isDef)
		// or short var decl:   x, y := f(), g()   (isDef)
		//
		// In all cases, the RHSs may refer to the LHSs,
		// so we need a storebuf.
		var sb storebuf
		for i := range rhss {
			b.assign(fn, lvals[i], rhss[i], isZero[i], &sb)
		}
		sb.emit(fn)
	} else {
		// e.g. x, y = pos()
		tuple := b.exprN(fn, rhss[0])
		emitDebugRef(fn, rhss[0], tuple, false)
		for i, lval := range lvals {
			lval.store(fn, emitExtract(fn, tuple, i))
		}
	}
}

// arrayLen returns the length of the array whose composite literal elements are elts.
func (b *builder) arrayLen(fn *Function, elts []ast.Expr) int64 {
	var max int64 = -1
	var i int64 = -1
	for _, e := range elts {
		if kv, ok := e.(*ast.KeyValueExpr); ok {
			i = b.expr(fn, kv.Key).(*Const).Int64()
		} else {
			i++
		}
		if i > max {
			max = i
		}
	}
	return max + 1
}

// compLit emits to fn code to initialize a composite literal e at
// address addr with type typ.
//
// Nested composite literals are recursively initialized in place
// where possible. If isZero is true, compLit assumes that addr
// holds the zero value for typ.
//
// Because the elements of a composite literal may refer to the
// variables being updated, as in the second line below,
//
//	x := T{a: 1}
//	x = T{a: x.a}
//
// all the reads must occur before all the writes.  Thus all stores to
// loc are emitted to the storebuf sb for later execution.
//
// A CompositeLit may have pointer type only in the recursive (nested)
// case when the type name is implicit.  e.g. in []*T{{}}, the inner
// literal has type *T behaves like &T{}.
// In that case, addr must hold a T, not a *T.
func (b *builder) compLit(fn *Function, addr Value, e *ast.CompositeLit, isZero bool, sb *storebuf) {
	typ := typeparams.Deref(fn.typeOf(e)) // retain the named/alias/param type, if any
	switch t := typeparams.CoreType(typ).(type) {
	case *types.Struct:
		if !isZero && len(e.Elts) != t.NumFields() {
			// memclear
			zt := typeparams.MustDeref(addr.Type())
			sb.store(&address{addr, e.Lbrace, nil}, zeroConst(zt))
			isZero = true
		}
		for i, e := range e.Elts {
			fieldIndex := i
			pos := e.Pos()
			if kv, ok := e.(*ast.KeyValueExpr); ok {
				fname := kv.Key.(*ast.Ident).Name
				for i, n := 0, t.NumFields(); i < n; i++ {
					sf := t.Field(i)
					if sf.Name() == fname {
						fieldIndex = i
						pos = kv.Colon
						e = kv.Value
						break
					}
				}
			}
			sf := t.Field(fieldIndex)
			faddr := &FieldAddr{
				X:     addr,
				Field: fieldIndex,
			}
			faddr.setPos(pos)
			faddr.setType(types.NewPointer(sf.Type()))
			fn.emit(faddr)
			b.assign(fn, &address{addr: faddr, pos: pos, expr: e}, e, isZero, sb)
		}

	case *types.Array, *types.Slice:
		var at *types.Array
		var array Value
		switch t := t.(type) {
		case *types.Slice:
			at = types.NewArray(t.Elem(), b.arrayLen(fn, e.Elts))
			array = emitNew(fn, at, e.Lbrace, "slicelit")
		case *types.Array:
			at = t
			array = addr

			if !isZero && int64(len(e.Elts)) != at.Len() {
				// memclear
				zt := typeparams.MustDeref(array.Type())
				sb.store(&address{array, e.Lbrace, nil}, zeroConst(zt))
			}
		}

		var idx *Const
		for _, e := range e.Elts {
			pos := e.Pos()
			if kv, ok := e.(*ast.KeyValueExpr); ok {
				idx = b.expr(fn, kv.Key).(*Const)
				pos = kv.Colon
				e = kv.Value
			} else {
				var idxval int64
				if idx != nil {
					idxval = idx.Int64() + 1
				}
				idx = intConst(idxval)
			}
			iaddr := &IndexAddr{
				X:     array,
				Index: idx,
			}
			iaddr.setType(types.NewPointer(at.Elem()))
			fn.emit(iaddr)
			if t != at { // slice
				// backing array is unaliased => storebuf not needed.
				b.assign(fn, &address{addr: iaddr, pos: pos, expr: e}, e, true, nil)
			} else {
				b.assign(fn, &address{addr: iaddr, pos: pos, expr: e}, e, true, sb)
			}
		}

		if t != at { // slice
			s := &Slice{X: array}
			s.setPos(e.Lbrace)
			s.setType(typ)
			sb.store(&address{addr: addr, pos: e.Lbrace, expr: e}, fn.emit(s))
		}

	case *types.Map:
		m := &MakeMap{Reserve: intConst(int64(len(e.Elts)))}
		m.setPos(e.Lbrace)
		m.setType(typ)
		fn.emit(m)
		for _, e := range e.Elts {
			e := e.(*ast.KeyValueExpr)

			// If a key expression in a map literal is itself a
			// composite literal, the type may be omitted.
			// For example:
			//	map[*struct{}]bool{{}: true}
			// An &-operation may be implied:
			//	map[*struct{}]bool{&struct{}{}: true}
			wantAddr := false
			if _, ok := unparen(e.Key).(*ast.CompositeLit); ok {
				wantAddr = isPointerCore(t.Key())
			}

			var key Value
			if wantAddr {
				// A CompositeLit never evaluates to a pointer,
				// so if the type of the location is a pointer,
				// an &-operation is implied.
				key = b.addr(fn, e.Key, true).address(fn)
			} else {
				key = b.expr(fn, e.Key)
			}

			loc := element{
				m:   m,
				k:   emitConv(fn, key, t.Key()),
				t:   t.Elem(),
				pos: e.Colon,
			}

			// We call assign() only because it takes care
			// of any &-operation required in the recursive
			// case, e.g.,
			// map[int]*struct{}{0: {}} implies &struct{}{}.
			// In-place update is of course impossible,
			// and no storebuf is needed.
			b.assign(fn, &loc, e.Value, true, nil)
		}
		sb.store(&address{addr: addr, pos: e.Lbrace, expr: e}, m)

	default:
		panic("unexpected CompositeLit type: " + typ.String())
	}
}

// switchStmt emits to fn code for the switch statement s, optionally
// labelled by label.
func (b *builder) switchStmt(fn *Function, s *ast.SwitchStmt, label *lblock) {
	// We treat SwitchStmt like a sequential if-else chain.
	// Multiway dispatch can be recovered later by ssautil.Switches()
	// to those cases that are free of side effects.
	if s.Init != nil {
		b.stmt(fn, s.Init)
	}
	var tag Value = vTrue
	if s.Tag != nil {
		tag = b.expr(fn, s.Tag)
	}
	done := fn.newBasicBlock("switch.done")
	if label != nil {
		label._break = done
	}
	// We pull the default case (if present) down to the end.
	// But each fallthrough label must point to the next
	// body block in source order, so we preallocate a
	// body block (fallthru) for the next case.
	// Unfortunately this makes for a confusing block order.
	var dfltBody *[]ast.Stmt
	var dfltFallthrough *BasicBlock
	var fallthru, dfltBlock *BasicBlock
	ncases := len(s.Body.List)
	for i, clause := range s.Body.List {
		body := fallthru
		if body == nil {
			body = fn.newBasicBlock("switch.body") // first case only
		}

		// Preallocate body block for the next case.
		fallthru = done
		if i+1 < ncases {
			fallthru = fn.newBasicBlock("switch.body")
		}

		cc := clause.(*ast.CaseClause)
		if cc.List == nil {
			// Default case.
			dfltBody = &cc.Body
			dfltFallthrough = fallthru
			dfltBlock = body
			continue
		}

		var nextCond *BasicBlock
		for _, cond := range cc.List {
			nextCond = fn.newBasicBlock("switch.next")
			// TODO(adonovan): opt: when tag==vTrue, we'd
			// get better code if we use b.cond(cond)
			// instead of BinOp(EQL, tag, b.expr(cond))
			// followed by If.  Don't forget conversions
			// though.
			cond := emitCompare(fn, token.EQL, tag, b.expr(fn, cond), cond.Pos())
			emitIf(fn, cond, body, nextCond)
			fn.currentBlock = nextCond
		}
		fn.currentBlock = body
		fn.targets = &targets{
			tail:         fn.targets,
			_break:       done,
			_fallthrough: fallthru,
		}
		b.stmtList(fn, cc.Body)
		fn.targets = fn.targets.tail
		emitJump(fn, done)
		fn.currentBlock = nextCond
	}
	if dfltBlock != nil {
		emitJump(fn, dfltBlock)
		fn.currentBlock = dfltBlock
		fn.targets = &targets{
			tail:         fn.targets,
			_break:       done,
			_fallthrough: dfltFallthrough,
		}
		b.stmtList(fn, *dfltBody)
		fn.targets = fn.targets.tail
	}
	emitJump(fn, done)
	fn.currentBlock = done
}

// typeSwitchStmt emits to fn code for the type switch statement s, optionally
// labelled by label.
func (b *builder) typeSwitchStmt(fn *Function, s *ast.TypeSwitchStmt, label *lblock) {
	// We treat TypeSwitchStmt like a sequential if-else chain.
	// Multiway dispatch can be recovered later by ssautil.Switches().

	// Typeswitch lowering:
	//
	// var x X
	// switch y := x.(type) {
	// case T1, T2: S1                  // >1 	(y := x)
	// case nil:    SN                  // nil 	(y := x)
	// default:     SD                  // 0 types 	(y := x)
	// case T3:     S3                  // 1 type 	(y := x.(T3))
	// }
	//
	//      ...s.Init...
	// 	x := eval x
	// .caseT1:
	// 	t1, ok1 := typeswitch,ok x <T1>
	// 	if ok1 then goto S1 else goto .caseT2
	// .caseT2:
	// 	t2, ok2 := typeswitch,ok x <T2>
	// 	if ok2 then goto S1 else goto .caseNil
	// .S1:
	//      y := x
	// 	...S1...
	// 	goto done
	// .caseNil:
	// 	if t2, ok2 := typeswitch,ok x <T2>
	// 	if x == nil then goto SN else goto .caseT3
	// .SN:
	//      y := x
	// 	...SN...
	// 	goto done
	// .caseT3:
	// 	t3, ok3 := typeswitch,ok x <T3>
	// 	if ok3 then goto S3 else goto default
	// .S3:
	//      y := t3
	// 	...S3...
	// 	goto done
	// .default:
	//      y := x
	// 	...SD...
	// 	goto done
	// .done:
	if s.Init != nil {
		b.stmt(fn, s.Init)
	}

	var x Value
	switch ass := s.Assign.(type) {
	case *ast.ExprStmt: // x.(type)
		x = b.expr(fn, unparen(ass.X).(*ast.TypeAssertExpr).X)
	case *ast.AssignStmt: // y := x.(type)
		x = b.expr(fn, unparen(ass.Rhs[0]).(*ast.TypeAssertExpr).X)
	}

	done := fn.newBasicBlock("typeswitch.done")
	if label != nil {
		label._break = done
	}
	var default_ *ast.CaseClause
	for _, clause := range s.Body.List {
		cc := clause.(*ast.CaseClause)
		if cc.List == nil {
			default_ = cc
			continue
		}
		body := fn.newBasicBlock("typeswitch.body")
		var next *BasicBlock
		var casetype types.Type
		var ti Value // ti, ok := typeassert,ok x <Ti>
		for _, cond := range cc.List {
			next = fn.newBasicBlock("typeswitch.next")
			casetype = fn.typeOf(cond)
			var condv Value
			if casetype == tUntypedNil {
				condv = emitCompare(fn, token.EQL, x, zeroConst(x.Type()), cond.Pos())
				ti = x
			} else {
				yok := emitTypeTest(fn, x, casetype, cc.Case)
				ti = emitExtract(fn, yok, 0)
				condv = emitExtract(fn, yok, 1)
			}
			emitIf(fn, condv, body, next)
			fn.currentBlock = next
		}
		if len(cc.List) != 1 {
			ti = x
		}
		fn.currentBlock = body
		b.typeCaseBody(fn, cc, ti, done)
		fn.currentBlock = next
	}
	if default_ != nil {
		b.typeCaseBody(fn, default_, x, done)
	} else {
		emitJump(fn, done)
	}
	fn.currentBlock = done
}

func (b *builder) typeCaseBody(fn *Function, cc *ast.CaseClause, x Value, done *BasicBlock) {
	if obj, ok := fn.info.Implicits[cc].(*types.Var); ok {
		// In a switch y := x.(type), each case clause
		// implicitly declares a distinct object y.
		// In a single-type case, y has that type.
		// In multi-type cases, 'case nil' and default,
		// y has the same type as the interface operand.
		emitStore(fn, emitLocalVar(fn, obj), x, obj.Pos())
	}
	fn.targets = &targets{
		tail:   fn.targets,
		_break: done,
	}
	b.stmtList(fn, cc.Body)
	fn.targets = fn.targets.tail
	emitJump(fn, done)
}

// selectStmt emits to fn code for the select statement s, optionally
// labelled by label.
func (b *builder) selectStmt(fn *Function, s *ast.SelectStmt, label *lblock) {
	// A blocking select of a single case degenerates to a
	// simple send or receive.
	// TODO(adonovan): opt: is this optimization worth its weight?
	if len(s.Body.List) == 1 {
		clause := s.Body.List[0].(*ast.CommClause)
		if clause.Comm != nil {
			b.stmt(fn, clause.Comm)
			done := fn.newBasicBlock("select.done")
			if label != nil {
				label._break = done
			}
			fn.targets = &targets{
				tail:   fn.targets,
				_break: done,
			}
			b.stmtList(fn, clause.Body)
			fn.targets = fn.targets.tail
			emitJump(fn, done)
			fn.currentBlock = done
			return
		}
	}

	// First evaluate all channels in all cases, and find
	// the directions of each state.
	var states []*SelectState
	blocking := true
	debugInfo := fn.debugInfo()
	for _, clause := range s.Body.List {
		var st *SelectState
		switch comm := clause.(*ast.CommClause).Comm.(type) {
		case nil: // default case
			blocking = false
			continue

		case *ast.SendStmt: // ch<- i
			ch := b.expr(fn, comm.Chan)
			chtyp := typeparams.CoreType(fn.typ(ch.Type())).(*types.Chan)
			st = &SelectState{
				Dir:  types.SendOnly,
				Chan: ch,
				Send: emitConv(fn, b.expr(fn, comm.Value), chtyp.Elem()),
				Pos:  comm.Arrow,
			}
			if debugInfo {
				st.DebugNode = comm
			}

		case *ast.AssignStmt: // x := <-ch
			recv := unparen(comm.Rhs[0]).(*ast.UnaryExpr)
			st = &SelectState{
				Dir:  types.RecvOnly,
				Chan: b.expr(fn, recv.X),
				Pos:  recv.OpPos,
			}
			if debugInfo {
				st.DebugNode = recv
			}

		case *ast.ExprStmt: // <-ch
			recv := unparen(comm.X).(*ast.UnaryExpr)
			st = &SelectState{
				Dir:  types.RecvOnly,
				Chan: b.expr(fn, recv.X),
				Pos:  recv.OpPos,
			}
			if debugInfo {
				st.DebugNode = recv
			}
		}
		states = append(states, st)
	}

	// We dispatch on the (fair) result of Select using a
	// sequential if-else chain, in effect:
	//
	// idx, recvOk, r0...r_n-1 := select(...)
	// if idx == 0 {  // receive on channel 0  (first receive => r0)
	//     x, ok := r0, recvOk
	//     ...state0...
	// } else if v == 1 {   // send on channel 1
	//     ...state1...
	// } else {
	//     ...default...
	// }
	sel := &Select{
		States:   states,
		Blocking: blocking,
	}
	sel.setPos(s.Select)
	var vars []*types.Var
	vars = append(vars, varIndex, varOk)
	for _, st := range states {
		if st.Dir == types.RecvOnly {
			chtyp := typeparams.CoreType(fn.typ(st.Chan.Type())).(*types.Chan)
			vars = append(vars, anonVar(chtyp.Elem()))
		}
	}
	sel.setType(types.NewTuple(vars...))

	fn.emit(sel)
	idx := emitExtract(fn, sel, 0)

	done := fn.newBasicBlock("select.done")
	if label != nil {
		label._break = done
	}

	var defaultBody *[]ast.Stmt
	state := 0
	r := 2 // index in 'sel' tuple of value; increments if st.Dir==RECV
	for _, cc := range s.Body.List {
		clause := cc.(*ast.CommClause)
		if clause.Comm == nil {
			defaultBody = &clause.Body
			continue
		}
		body := fn.newBasicBlock("select.body")
		next := fn.newBasicBlock("select.next")
		emitIf(fn, emitCompare(fn, token.EQL, idx, intConst(int64(state)), token.NoPos), body, next)
		fn.currentBlock = body
		fn.targets = &targets{
			tail:   fn.targets,
			_break: done,
		}
		switch comm := clause.Comm.(type) {
		case *ast.ExprStmt: // <-ch
			if debugInfo {
				v := emitExtract(fn, sel, r)
				emitDebugRef(fn, states[state].DebugNode.(ast.Expr), v, false)
			}
			r++

		case *ast.AssignStmt: // x := <-states[state].Chan
			if comm.Tok == token.DEFINE {
				emitLocalVar(fn, identVar(fn, comm.Lhs[0].(*ast.Ident)))
			}
			x := b.addr(fn, comm.Lhs[0], false) // non-escaping
			v := emitExtract(fn, sel, r)
			if debugInfo {
				emitDebugRef(fn, states[state].DebugNode.(ast.Expr), v, false)
			}
			x.store(fn, v)

			if len(comm.Lhs) == 2 { // x, ok := ...
				if comm.Tok == token.DEFINE {
					emitLocalVar(fn, identVar(fn, comm.Lhs[1].(*ast.Ident)))
				}
				ok := b.addr(fn, comm.Lhs[1], false) // non-escaping
				ok.store(fn, emitExtract(fn, sel, 1))
			}
			r++
		}
		b.stmtList(fn, clause.Body)
		fn.targets = fn.targets.tail
		emitJump(fn, done)
		fn.currentBlock = next
		state++
	}
	if defaultBody != nil {
		fn.targets = &targets{
			tail:   fn.targets,
			_break: done,
		}
		b.stmtList(fn, *defaultBody)
		fn.targets = fn.targets.tail
	} else {
		// A blocking select must match some case.
		// (This should really be a runtime.errorString, not a string.)
		fn.emit(&Panic{
			X: emitConv(fn, stringConst("blocking select matched no case"), tEface),
		})
		fn.currentBlock = fn.newBasicBlock("unreachable")
	}
	emitJump(fn, done)
	fn.currentBlock = done
}

// forStmt emits to fn code for the for statement s, optionally
// labelled by label.
func (b *builder) forStmt(fn *Function, s *ast.ForStmt, label *lblock) {
	// Use forStmtGo122 instead if it applies.
	if s.Init != nil {
		if assign, ok := s.Init.(*ast.AssignStmt); ok && assign.Tok == token.DEFINE {
			if versions.AtLeast(fn.goversion, versions.Go1_22) {
				b.forStmtGo122(fn, s, label)
				return
			}
		}
	}

	//     ...init...
	//     jump loop
	// loop:
	//     if cond goto body else done
	// body:
	//     ...body...
	//     jump post
	// post:                                 (target of continue)
	//     ...post...
	//     jump loop
	// done:                                 (target of break)
	if s.Init != nil {
		b.stmt(fn, s.Init)
	}

	body := fn.newBasicBlock("for.body")
	done := fn.newBasicBlock("for.done") // target of 'break'
	loop := body                         // target of back-edge
	if s.Cond != nil {
		loop = fn.newBasicBlock("for.loop")
	}
	cont := loop // target of 'continue'
	if s.Post != nil {
		cont = fn.newBasicBlock("for.post")
	}
	if label != nil {
		label._break = done
		label._continue = cont
	}
	emitJump(fn, loop)
	fn.currentBlock = loop
	if loop != body {
		b.cond(fn, s.Cond, body, done)
		fn.currentBlock = body
	}
	fn.targets = &targets{
		tail:      fn.targets,
		_break:    done,
		_continue: cont,
	}
	b.stmt(fn, s.Body)
	fn.targets = fn.targets.tail
	emitJump(fn, cont)

	if s.Post != nil {
		fn.currentBlock = cont
		b.stmt(fn, s.Post)
		emitJump(fn, loop) // back-edge
	}
	fn.currentBlock = done
}

// forStmtGo122 emits to fn code for the for statement s, optionally
// labelled by label. s must define its variables.
//
// This allocates once per loop iteration. This is only correct in
// GoVersions >= go1.22.
func (b *builder) forStmtGo122(fn *Function, s *ast.ForStmt, label *lblock) {
	//     i_outer = alloc[T]
	//     *i_outer = ...init...        // under objects[i] = i_outer
	//     jump loop
	// loop:
	//     i = phi [head: i_outer, loop: i_next]
	//     ...cond...                   // under objects[i] = i
	//     if cond goto body else done
	// body:
	//     ...body...                   // under objects[i] = i (same as loop)
	//     jump post
	// post:
	//     tmp = *i
	//     i_next = alloc[T]
	//     *i_next = tmp
	//     ...post...                   // under objects[i] = i_next
	//     goto loop
	// done:

	init := s.Init.(*ast.AssignStmt)
	startingBlocks := len(fn.Blocks)

	pre := fn.currentBlock               // current block before starting
	loop := fn.newBasicBlock("for.loop") // target of back-edge
	body := fn.newBasicBlock("for.body")
	post := fn.newBasicBlock("for.post") // target of 'continue'
	done := fn.newBasicBlock("for.done") // target of 'break'

	// For each of the n loop variables, we create five SSA values,
	// outer, phi, next, load, and store in pre, loop, and post.
	// There is no limit on n.
	type loopVar struct {
		obj   *types.Var
		outer *Alloc
		phi   *Phi
		load  *UnOp
		next  *Alloc
		store *Store
	}
	vars := make([]loopVar, len(init.Lhs))
	for i, lhs := range init.Lhs {
		v := identVar(fn, lhs.(*ast.Ident))
		typ := fn.typ(v.Type())

		fn.currentBlock = pre
		outer := emitLocal(fn, typ, v.Pos(), v.Name())

		fn.currentBlock = loop
		phi := &Phi{Comment: v.Name()}
		phi.pos = v.Pos()
		phi.typ = outer.Type()
		fn.emit(phi)

		fn.currentBlock = post
		// If next is local, it reuses the address and zeroes the old value so
		// load before allocating next.
		load := emitLoad(fn, phi)
		next := emitLocal(fn, typ, v.Pos(), v.Name())
		store := emitStore(fn, next, load, token.NoPos)

		phi.Edges = []Value{outer, next} // pre edge is emitted before post edge.

		vars[i] = loopVar{v, outer, phi, load, next, store}
	}

	// ...init... under fn.objects[v] = i_outer
	fn.currentBlock = pre
	for _, v := range vars {
		fn.vars[v.obj] = v.outer
	}
	const isDef = false // assign to already-allocated outers
	b.assignStmt(fn, init.Lhs, init.Rhs, isDef)
	if label != nil {
		label._break = done
		label._continue = post
	}
	emitJump(fn, loop)

	// ...cond... under fn.objects[v] = i
	fn.currentBlock = loop
	for _, v := range vars {
		fn.vars[v.obj] = v.phi
	}
	if s.Cond != nil {
		b.cond(fn, s.Cond, body, done)
	} else {
		emitJump(fn, body)
	}

	// ...body... under fn.objects[v] = i
	fn.currentBlock = body
	fn.targets = &targets{
		tail:      fn.targets,
		_break:    done,
		_continue: post,
	}
	b.stmt(fn, s.Body)
	fn.targets = fn.targets.tail
	emitJump(fn, post)

	// ...post... under fn.objects[v] = i_next
	for _, v := range vars {
		fn.vars[v.obj] = v.next
	}
	fn.currentBlock = post
	if s.Post != nil {
		b.stmt(fn, s.Post)
	}
	emitJump(fn, loop) // back-edge
	fn.currentBlock = done

	// For each loop variable that does not escape,
	// (the common case), fuse its next cells into its
	// (local) outer cell as they have disjoint live ranges.
	//
	// It is sufficient to test whether i_next escapes,
	// because its Heap flag will be marked true if either
	// the cond or post expression causes i to escape
	// (because escape distributes over phi).
	var nlocals int
	for _, v := range vars {
		if !v.next.Heap {
			nlocals++
		}
	}
	if nlocals > 0 {
		replace := make(map[Value]Value, 2*nlocals)
		dead := make(map[Instruction]bool, 4*nlocals)
		for _, v := range vars {
			if !v.next.Heap {
				replace[v.next] = v.outer
				replace[v.phi] = v.outer
				dead[v.phi], dead[v.next], dead[v.load], dead[v.store] = true, true, true, true
			}
		}

		// Replace all uses of i_next and phi with i_outer.
		// Referrers have not been built for fn yet so only update Instruction operands.
		// We need only look within the blocks added by the loop.
		var operands []*Value // recycle storage
		for _, b := range fn.Blocks[startingBlocks:] {
			for _, instr := range b.Instrs {
				operands = instr.Operands(operands[:0])
				for _, ptr := range operands {
					k := *ptr
					if v := replace[k]; v != nil {
						*ptr = v
					}
				}
			}
		}

		// Remove instructions for phi, load, and store.
		// lift() will remove the unused i_next *Alloc.
		isDead := func(i Instruction) bool { return dead[i] }
		loop.Instrs = removeInstrsIf(loop.Instrs, isDead)
		post.Instrs = removeInstrsIf(post.Instrs, isDead)
	}
}

// rangeIndexed emits to fn the header for an integer-indexed loop
// over array, *array or slice value x.
// The v result is defined only if tv is non-nil.
// forPos is the position of the "for" token.
func (b *builder) rangeIndexed(fn *Function, x Value, tv types.Type, pos token.Pos) (k, v Value, loop, done *BasicBlock) {
	//
	//     length = len(x)
	//     index = -1
	// loop:                                     (target of continue)
	//     index++
	//     if index < length goto body else done
	// body:
	//     k = index
	//     v = x[index]
	//     ...body...
	//     jump loop
	// done:                                     (target of break)

	// Determine number of iterations.
	var length Value
	dt := typeparams.Deref(x.Type())
	if arr, ok := typeparams.CoreType(dt).(*types.Array); ok {
		// For array or *array, the number of iterations is
		// known statically thanks to the type.  We avoid a
		// data dependence upon x, permitting later dead-code
		// elimination if x is pure, static unrolling, etc.
		// Ranging over a nil *array may have >0 iterations.
		// We still generate code for x, in case it has effects.
		length = intConst(arr.Len())
	} else {
		// length = len(x).
		var c Call
		c.Call.Value = makeLen(x.Type())
		c.Call.Args = []Value{x}
		c.setType(tInt)
		length = fn.emit(&c)
	}

	index := emitLocal(fn, tInt, token.NoPos, "rangeindex")
	emitStore(fn, index, intConst(-1), pos)

	loop = fn.newBasicBlock("rangeindex.loop")
	emitJump(fn, loop)
	fn.currentBlock = loop

	incr := &BinOp{
		Op: token.ADD,
		X:  emitLoad(fn, index),
		Y:  vOne,
	}
	incr.setType(tInt)
	emitStore(fn, index, fn.emit(incr), pos)

	body := fn.newBasicBlock("rangeindex.body")
	done = fn.newBasicBlock("rangeindex.done")
	emitIf(fn, emitCompare(fn, token.LSS, incr, length, token.NoPos), body, done)
	fn.currentBlock = body

	k = emitLoad(fn, index)
	if tv != nil {
		switch t := typeparams.CoreType(x.Type()).(type) {
		case *types.Array:
			instr := &Index{
				X:     x,
				Index: k,
			}
			instr.setType(t.Elem())
			instr.setPos(x.Pos())
			v = fn.emit(instr)

		case *types.Pointer: // *array
			instr := &IndexAddr{
				X:     x,
				Index: k,
			}
			instr.setType(types.NewPointer(t.Elem().Underlying().(*types.Array).Elem()))
			instr.setPos(x.Pos())
			v = emitLoad(fn, fn.emit(instr))

		case *types.Slice:
			instr := &IndexAddr{
				X:     x,
				Index: k,
			}
			instr.setType(types.NewPointer(t.Elem()))
			instr.setPos(x.Pos())
			v = emitLoad(fn, fn.emit(instr))

		default:
			panic("rangeIndexed x:" + t.String())
		}
	}
	return
}

// rangeIter emits to fn the header for a loop using
// Range/Next/Extract to iterate over map or string value x.
// tk and tv are the types of the key/value results k and v, or nil
// if the respective component is not wanted.
func (b *builder) rangeIter(fn *Function, x Value, tk, tv types.Type, pos token.Pos) (k, v Value, loop, done *BasicBlock) {
	//
	//     it = range x
	// loop:                                   (target of continue)
	//     okv = next it                       (ok, key, value)
	//     ok = extract okv #0
	//     if ok goto body else done
	// body:
	//     k = extract okv #1
	//     v = extract okv #2
	//     ...body...
	//     jump loop
	// done:                                   (target of break)
	//

	if tk == nil {
		tk = tInvalid
	}
	if tv == nil {
		tv = tInvalid
	}

	rng := &Range{X: x}
	rng.setPos(pos)
	rng.setType(tRangeIter)
	it := fn.emit(rng)

	loop = fn.newBasicBlock("rangeiter.loop")
	emitJump(fn, loop)
	fn.currentBlock = loop

	okv := &Next{
		Iter:     it,
		IsString: isBasic(typeparams.CoreType(x.Type())),
	}
	okv.setType(types.NewTuple(
		varOk,
		newVar("k", tk),
		newVar("v", tv),
	))
	fn.emit(okv)

	body := fn.newBasicBlock("rangeiter.body")
	done = fn.newBasicBlock("rangeiter.done")
	emitIf(fn, emitExtract(fn, okv, 0), body, done)
	fn.currentBlock = body

	if tk != tInvalid {
		k = emitExtract(fn, okv, 1)
	}
	if tv != tInvalid {
		v = emitExtract(fn, okv, 2)
	}
	return
}

// rangeChan emits to fn the header for a loop that receives from
// channel x until it fails.
// tk is the channel's element type, or nil if the k result is
// not wanted
// pos is the position of the '=' or ':=' token.
func (b *builder) rangeChan(fn *Function, x Value, tk types.Type, pos token.Pos) (k Value, loop, done *BasicBlock) {
	//
	// loop:                                   (target of continue)
	//     ko = <-x                            (key, ok)
	//     ok = extract ko #1
	//     if ok goto body else done
	// body:
	//     k = extract ko #0
	//     ...body...
	//     goto loop
	// done:                                   (target of break)

	loop = fn.newBasicBlock("rangechan.loop")
	emitJump(fn, loop)
	fn.currentBlock = loop
	recv := &UnOp{
		Op:      token.ARROW,
		X:       x,
		CommaOk: true,
	}
	recv.setPos(pos)
	recv.setType(types.NewTuple(
		newVar("k", typeparams.CoreType(x.Type()).(*types.Chan).Elem()),
		varOk,
	))
	ko := fn.emit(recv)
	body := fn.newBasicBlock("rangechan.body")
	done = fn.newBasicBlock("rangechan.done")
	emitIf(fn, emitExtract(fn, ko, 1), body, done)
	fn.currentBlock = body
	if tk != nil {
		k = emitExtract(fn, ko, 0)
	}
	return
}

// rangeInt emits to fn the header for a range loop with an integer operand.
// tk is the key value's type, or nil if the k result is not wanted.
// pos is the position of the "for" token.
func (b *builder) rangeInt(fn *Function, x Value, tk types.Type, pos token.Pos) (k Value, loop, done *BasicBlock) {
	//
	//     iter = 0
	//     if 0 < x goto body else done
	// loop:                                   (target of continue)
	//     iter++
	//     if iter < x goto body else done
	// body:
	//     k = x
	//     ...body...
	//     jump loop
	// done:                                   (target of break)

	if isUntyped(x.Type()) {
		x = emitConv(fn, x, tInt)
	}

	T := x.Type()
	iter := emitLocal(fn, T, token.NoPos, "rangeint.iter")
	// x may be unsigned. Avoid initializing x to -1.

	body := fn.newBasicBlock("rangeint.body")
	done = fn.newBasicBlock("rangeint.done")
	emitIf(fn, emitCompare(fn, token.LSS, zeroConst(T), x, token.NoPos), body, done)

	loop = fn.newBasicBlock("rangeint.loop")
	fn.currentBlock = loop

	incr := &BinOp{
		Op: token.ADD,
		X:  emitLoad(fn, iter),
		Y:  emitConv(fn, vOne, T),
	}
	incr.setType(T)
	emitStore(fn, iter, fn.emit(incr), pos)
	emitIf(fn, emitCompare(fn, token.LSS, incr, x, token.NoPos), body, done)
	fn.currentBlock = body

	if tk != nil {
		// Integer types (int, uint8, etc.) are named and
		// we know that k is assignable to x when tk != nil.
		// This implies tk and T are identical so no conversion is needed.
		k = emitLoad(fn, iter)
	}

	return
}

// rangeStmt emits to fn code for the range statement s, optionally
// labelled by label.
func (b *builder) rangeStmt(fn *Function, s *ast.RangeStmt, label *lblock) {
	var tk, tv types.Type
	if s.Key != nil && !isBlankIdent(s.Key) {
		tk = fn.typeOf(s.Key)
	}
	if s.Value != nil && !isBlankIdent(s.Value) {
		tv = fn.typeOf(s.Value)
	}

	// create locals for s.Key and s.Value.
	createVars := func() {
		// Unlike a short variable declaration, a RangeStmt
		// using := never redeclares an existing variable; it
		// always creates a new one.
		if tk != nil {
			emitLocalVar(fn, identVar(fn, s.Key.(*ast.Ident)))
		}
		if tv != nil {
			emitLocalVar(fn, identVar(fn, s.Value.(*ast.Ident)))
		}
	}

	afterGo122 := versions.AtLeast(fn.goversion, versions.Go1_22)
	if s.Tok == token.DEFINE && !afterGo122 {
		// pre-go1.22: If iteration variables are defined (:=), this
		// occurs once outside the loop.
		createVars()
	}

	x := b.expr(fn, s.X)

	var k, v Value
	var loop, done *BasicBlock
	switch rt := typeparams.CoreType(x.Type()).(type) {
	case *types.Slice, *types.Array, *types.Pointer: // *array
		k, v, loop, done = b.rangeIndexed(fn, x, tv, s.For)

	case *types.Chan:
		k, loop, done = b.rangeChan(fn, x, tk, s.For)

	case *types.Map:
		k, v, loop, done = b.rangeIter(fn, x, tk, tv, s.For)

	case *types.Basic:
		switch {
		case rt.Info()&types.IsString != 0:
			k, v, loop, done = b.rangeIter(fn, x, tk, tv, s.For)

		case rt.Info()&types.IsInteger != 0:
			k, loop, done = b.rangeInt(fn, x, tk, s.For)

		default:
			panic("Cannot range over basic type: " + rt.String())
		}

	case *types.Signature:
		// Special case rewrite (fn.goversion >= go1.23):
		// 	for x := range f { ... }
		// into
		// 	f(func(x T) bool { ... })
		b.rangeFunc(fn, x, tk, tv, s, label)
		return

	default:
		panic("Cannot range over: " + rt.String())
	}

	if s.Tok == token.DEFINE && afterGo122 {
		// go1.22: If iteration variables are defined (:=), this occurs inside the loop.
		createVars()
	}

	// Evaluate both LHS expressions before we update either.
	var kl, vl lvalue
	if tk != nil {
		kl = b.addr(fn, s.Key, false) // non-escaping
	}
	if tv != nil {
		vl = b.addr(fn, s.Value, false) // non-escaping
	}
	if tk != nil {
		kl.store(fn, k)
	}
	if tv != nil {
		vl.store(fn, v)
	}

	if label != nil {
		label._break = done
		label._continue = loop
	}

	fn.targets = &targets{
		tail:      fn.targets,
		_break:    done,
		_continue: loop,
	}
	b.stmt(fn, s.Body)
	fn.targets = fn.targets.tail
	emitJump(fn, loop) // back-edge
	fn.currentBlock = done
}

// rangeFunc emits to fn code for the range-over-func rng.Body of the iterator
// function x, optionally labelled by label. It creates a new anonymous function
// yield for rng and builds the function.
func (b *builder) rangeFunc(fn *Function, x Value, tk, tv types.Type, rng *ast.RangeStmt, label *lblock) {
	// Consider the SSA code for the outermost range-over-func in fn:
	//
	//   func fn(...) (ret R) {
	//     ...
	//     for k, v = range x {
	// 	     ...
	//     }
	//     ...
	//   }
	//
	// The code emitted into fn will look something like this.
	//
	// loop:
	//     jump := READY
	//     y := make closure yield [ret, deferstack, jump, k, v]
	//     x(y)
	//     switch jump {
	//        [see resuming execution]
	//     }
	//     goto done
	// done:
	//     ...
	//
	// where yield is a new synthetic yield function:
	//
	// func yield(_k tk, _v tv) bool
	//   free variables: [ret, stack, jump, k, v]
	// {
	//    entry:
	//      if jump != READY then goto invalid else valid
	//    invalid:
	//      panic("iterator called when it is not in a ready state")
	//    valid:
	//      jump = BUSY
	//      k = _k
	//      v = _v
	//    ...
	//    cont:
	//      jump = READY
	//      return true
	// }
	//
	// Yield state:
	//
	// Each range loop has an associated jump variable that records
	// the state of the iterator. A yield function is initially
	// in a READY (0) and callable state.  If the yield function is called
	// and is not in READY state, it panics. When it is called in a callable
	// state, it becomes BUSY. When execution reaches the end of the body
	// of the loop (or a continue statement targeting the loop is executed),
	// the yield function returns true and resumes being in a READY state.
	// After the iterator function x(y) returns, then if the yield function
	// is in a READY state, the yield enters the DONE state.
	//
	// Each lowered control statement (break X, continue X, goto Z, or return)
	// that exits the loop sets the variable to a unique positive EXIT value,
	// before returning false from the yield function.
	//
	// If the yield function returns abruptly due to a panic or GoExit,
	// it remains in a BUSY state. The generated code asserts that, after
	// the iterator call x(y) returns normally, the jump variable state
	// is DONE.
	//
	// Resuming execution:
	//
	// The code generated for the range statement checks the jump
	// variable to determine how to resume execution.
	//
	//    switch jump {
	//    case BUSY:  panic("...")
	//    case DONE:  goto done
	//    case READY: state = DONE; goto done
	//    case 123:   ... // action for exit 123.
	//    case 456:   ... // action for exit 456.
	//    ...
	//    }
	//
	// Forward goto statements within a yield are jumps to labels that
	// have not yet been traversed in fn. They may be in the Body of the
	// function. What we emit for these is:
	//
	//    goto target
	//  target:
	//    ...
	//
	// We leave an unresolved exit in yield.exits to check at the end
	// of building yield if it encountered target in the body. If it
	// encountered target, no additional work is required. Otherwise,
	// the yield emits a new early exit in the basic block for target.
	// We expect that blockopt will fuse the early exit into the case
	// block later. The unresolved exit is then added to yield.parent.exits.

	loop := fn.newBasicBlock("rangefunc.loop")
	done := fn.newBasicBlock("rangefunc.done")

	// These are targets within y.
	fn.targets = &targets{
		tail:   fn.targets,
		_break: done,
		// _continue is within y.
	}
	if label != nil {
		label._break = done
		// _continue is within y
	}

	emitJump(fn, loop)
	fn.currentBlock = loop

	// loop:
	//     jump := READY

	anonIdx := len(fn.AnonFuncs)

	jump := newVar(fmt.Sprintf("jump$%d", anonIdx+1), tInt)
	emitLocalVar(fn, jump) // zero value is READY

	xsig := typeparams.CoreType(x.Type()).(*types.Signature)
	ysig := typeparams.CoreType(xsig.Params().At(0).Type()).(*types.Signature)

	/* synthetic yield function for body of range-over-func loop */
	y := &Function{
		name:           fmt.Sprintf("%s$%d", fn.Name(), anonIdx+1),
		Signature:      ysig,
		Synthetic:      "range-over-func yield",
		pos:            rng.Range,
		parent:         fn,
		anonIdx:        int32(len(fn.AnonFuncs)),
		Pkg:            fn.Pkg,
		Prog:           fn.Prog,
		syntax:         rng,
		info:           fn.info,
		goversion:      fn.goversion,
		build:          (*builder).buildYieldFunc,
		topLevelOrigin: nil,
		typeparams:     fn.typeparams,
		typeargs:       fn.typeargs,
		subst:          fn.subst,
		jump:           jump,
		deferstack:     fn.deferstack,
		returnVars:     fn.returnVars, // use the parent's return variables
		uniq:           fn.uniq,       // start from parent's unique values
	}

	// If the RangeStmt has a label, this is how it is passed to buildYieldFunc.
	if label != nil {
		y.lblocks = map[*types.Label]*lblock{label.label: nil}
	}
	fn.AnonFuncs = append(fn.AnonFuncs, y)

	// Build y immediately. It may:
	// * cause fn's locals to escape, and
	// * create new exit nodes in exits.
	// (y is not marked 'built' until the end of the enclosing FuncDecl.)
	unresolved := len(fn.exits)
	y.build(b, y)
	fn.uniq = y.uniq // resume after y's unique values

	// Emit the call of y.
	//   c := MakeClosure y
	//   x(c)
	c := &MakeClosure{Fn: y}
	c.setType(ysig)
	for _, fv := range y.FreeVars {
		c.Bindings = append(c.Bindings, fv.outer)
		fv.outer = nil
	}
	fn.emit(c)
	call := Call{
		Call: CallCommon{
			Value: x,
			Args:  []Value{c},
			pos:   token.NoPos,
		},
	}
	call.setType(xsig.Results())
	fn.emit(&call)

	exits := fn.exits[unresolved:]
	b.buildYieldResume(fn, jump, exits, done)

	emitJump(fn, done)
	fn.currentBlock = done
	// pop the stack for the range-over-func
	fn.targets = fn.targets.tail
}

// buildYieldResume emits to fn code for how to resume execution once a call to
// the iterator function over the yield function returns x(y). It does this by building
// a switch over the value of jump for when it is READY, BUSY, or EXIT(id).
func (b *builder) buildYieldResume(fn *Function, jump *types.Var, exits []*exit, done *BasicBlock) {
	//    v := *jump
	//    switch v {
	//    case BUSY:    panic("...")
	//    case READY:   jump = DONE; goto done
	//    case EXIT(a): ...
	//    case EXIT(b): ...
	//    ...
	//    }
	v := emitLoad(fn, fn.lookup(jump, false))

	// case BUSY: panic("...")
	isbusy := fn.newBasicBlock("rangefunc.resume.busy")
	ifready := fn.newBasicBlock("rangefunc.resume.ready.check")
	emitIf(fn, emitCompare(fn, token.EQL, v, jBusy, token.NoPos), isbusy, ifready)
	fn.currentBlock = isbusy
	fn.emit(&Panic{
		X: emitConv(fn, stringConst("iterator call did not preserve panic"), tEface),
	})
	fn.currentBlock = ifready

	// case READY: jump = DONE; goto done
	isready := fn.newBasicBlock("rangefunc.resume.ready")
	ifexit := fn.newBasicBlock("rangefunc.resume.exits")
	emitIf(fn, emitCompare(fn, token.EQL, v, jReady, token.NoPos), isready, ifexit)
	fn.currentBlock = isready
	storeVar(fn, jump, jDone, token.NoPos)
	emitJump(fn, done)
	fn.currentBlock = ifexit

	for _, e := range exits {
		id := intConst(e.id)

		//  case EXIT(id): { /* do e */ }
		cond := emitCompare(fn, token.EQL, v, id, e.pos)
		matchb := fn.newBasicBlock("rangefunc.resume.match")
		cndb := fn.newBasicBlock("rangefunc.resume.cnd")
		emitIf(fn, cond, matchb, cndb)
		fn.currentBlock = matchb

		// Cases to fill in the { /* do e */ } bit.
		switch {
		case e.label != nil: // forward goto?
			// case EXIT(id): goto lb // label
			lb := fn.lblockOf(e.label)
			// Do not mark lb as resolved.
			// If fn does not contain label, lb remains unresolved and
			// fn must itself be a range-over-func function. lb will be:
			//   lb:
			//     fn.jump = id
			//     return false
			emitJump(fn, lb._goto)

		case e.to != fn: // e jumps to an ancestor of fn?
			// case EXIT(id): { fn.jump = id; return false }
			// fn is a range-over-func function.
			storeVar(fn, fn.jump, id, token.NoPos)
			fn.emit(&Return{Results: []Value{vFalse}, pos: e.pos})

		case e.block == nil && e.label == nil: // return from fn?
			// case EXIT(id): { return ... }
			fn.emit(new(RunDefers))
			results := make([]Value, len(fn.results))
			for i, r := range fn.results {
				results[i] = emitLoad(fn, r)
			}
			fn.emit(&Return{Results: results, pos: e.pos})

		case e.block != nil:
			// case EXIT(id): goto block
			emitJump(fn, e.block)

		default:
			panic("unreachable")
		}
		fn.currentBlock = cndb
	}
}

// stmt lowers statement s to SSA form, emitting code to fn.
func (b *builder) stmt(fn *Function, _s ast.Stmt) {
	// The label of the current statement.  If non-nil, its _goto
	// target is always set; its _break and _continue are set only
	// within the body of switch/typeswitch/select/for/range.
	// It is effectively an additional default-nil parameter of stmt().
	var label *lblock
start:
	switch s := _s.(type) {
	case *ast.EmptyStmt:
		// ignore.  (Usually removed by gofmt.)

	case *ast.DeclStmt: // Con, Var or Typ
		d := s.Decl.(*ast.GenDecl)
		if d.Tok == token.VAR {
			for _, spec := range d.Specs {
				if vs, ok := spec.(*ast.ValueSpec); ok {
					b.localValueSpec(fn, vs)
				}
			}
		}

	case *ast.LabeledStmt:
		if s.Label.Name == "_" {
			// Blank labels can't be the target of a goto, break,
			// or continue statement, so we don't need a new block.
			_s = s.Stmt
			goto start
		}
		label = fn.lblockOf(fn.label(s.Label))
		label.resolved = true
		emitJump(fn, label._goto)
		fn.currentBlock = label._goto
		_s = s.Stmt
		goto start // effectively: tailcall stmt(fn, s.Stmt, label)

	case *ast.ExprStmt:
		b.expr(fn, s.X)

	case *ast.SendStmt:
		chtyp := typeparams.CoreType(fn.typeOf(s.Chan)).(*types.Chan)
		fn.emit(&Send{
			Chan: b.expr(fn, s.Chan),
			X:    emitConv(fn, b.expr(fn, s.Value), chtyp.Elem()),
			pos:  s.Arrow,
		})

	case *ast.IncDecStmt:
		op := token.ADD
		if s.Tok == token.DEC {
			op = token.SUB
		}
		loc := b.addr(fn, s.X, false)
		b.assignOp(fn, loc, NewConst(constant.MakeInt64(1), loc.typ()), op, s.Pos())

	case *ast.AssignStmt:
		switch s.Tok {
		case token.ASSIGN, token.DEFINE:
			b.assignStmt(fn, s.Lhs, s.Rhs, s.Tok == token.DEFINE)

		default: // +=, etc.
			op := s.Tok + token.ADD - token.ADD_ASSIGN
			b.assignOp(fn, b.addr(fn, s.Lhs[0], false), b.expr(fn, s.Rhs[0]), op, s.Pos())
		}

	case *ast.GoStmt:
		// The "intrinsics" new/make/len/cap are forbidden here.
		// panic is treated like an ordinary function call.
		v := Go{pos: s.Go}
		b.setCall(fn, s.Call, &v.Call)
		fn.emit(&v)

	case *ast.DeferStmt:
		// The "intrinsics" new/make/len/cap are forbidden here.
		// panic is treated like an ordinary function call.
		deferstack := emitLoad(fn, fn.lookup(fn.deferstack, false))
		v := Defer{pos: s.Defer, DeferStack: deferstack}
		b.setCall(fn, s.Call, &v.Call)
		fn.emit(&v)

		// A deferred call can cause recovery from panic,
		// and control resumes at the Recover block.
		createRecoverBlock(fn.source)

	case *ast.ReturnStmt:
		b.returnStmt(fn, s)

	case *ast.BranchStmt:
		b.branchStmt(fn, s)

	case *ast.BlockStmt:
		b.stmtList(fn, s.List)

	case *ast.IfStmt:
		if s.Init != nil {
			b.stmt(fn, s.Init)
		}
		then := fn.newBasicBlock("if.then")
		done := fn.newBasicBlock("if.done")
		els := done
		if s.Else != nil {
			els = fn.newBasicBlock("if.else")
		}
		b.cond(fn, s.Cond, then, els)
		fn.currentBlock = then
		b.stmt(fn, s.Body)
		emitJump(fn, done)

		if s.Else != nil {
			fn.currentBlock = els
			b.stmt(fn, s.Else)
			emitJump(fn, done)
		}

		fn.currentBlock = done

	case *ast.SwitchStmt:
		b.switchStmt(fn, s, label)

	case *ast.TypeSwitchStmt:
		b.typeSwitchStmt(fn, s, label)

	case *ast.SelectStmt:
		b.selectStmt(fn, s, label)

	case *ast.ForStmt:
		b.forStmt(fn, s, label)

	case *ast.RangeStmt:
		b.rangeStmt(fn, s, label)

	default:
		panic(fmt.Sprintf("unexpected statement kind: %T", s))
	}
}

func (b *builder) branchStmt(fn *Function, s *ast.BranchStmt) {
	var block *BasicBlock
	if s.Label == nil {
		block = targetedBlock(fn, s.Tok)
	} else {
		target := fn.label(s.Label)
		block = labelledBlock(fn, target, s.Tok)
		if block == nil { // forward goto
			lb := fn.lblockOf(target)
			block = lb._goto // jump to lb._goto
			if fn.jump != nil {
				// fn is a range-over-func and the goto may exit fn.
				// Create an exit and resolve it at the end of
				// builder.buildYieldFunc.
				labelExit(fn, target, s.Pos())
			}
		}
	}
	to := block.parent

	if to == fn {
		emitJump(fn, block)
	} else { // break outside of fn.
		// fn must be a range-over-func
		e := blockExit(fn, block, s.Pos())
		storeVar(fn, fn.jump, intConst(e.id), e.pos)
		fn.emit(&Return{Results: []Value{vFalse}, pos: e.pos})
	}
	fn.currentBlock = fn.newBasicBlock("unreachable")
}

func (b *builder) returnStmt(fn *Function, s *ast.ReturnStmt) {
	var results []Value

	sig := fn.source.Signature // signature of the enclosing source function

	// Convert return operands to result type.
	if len(s.Results) == 1 && sig.Results().Len() > 1 {
		// Return of one expression in a multi-valued function.
		tuple := b.exprN(fn, s.Results[0])
		ttuple := tuple.Type().(*types.Tuple)
		for i, n := 0, ttuple.Len(); i < n; i++ {
			results = append(results,
				emitConv(fn, emitExtract(fn, tuple, i),
					sig.Results().At(i).Type()))
		}
	} else {
		// 1:1 return, or no-arg return in non-void function.
		for i, r := range s.Results {
			v := emitConv(fn, b.expr(fn, r), sig.Results().At(i).Type())
			results = append(results, v)
		}
	}

	// Store the results.
	for i, r := range results {
		var result Value // fn.source.result[i] conceptually
		if fn == fn.source {
			result = fn.results[i]
		} else { // lookup needed?
			result = fn.lookup(fn.returnVars[i], false)
		}
		emitStore(fn, result, r, s.Return)
	}

	if fn.jump != nil {
		// Return from body of a range-over-func.
		// The return statement is syntactically within the loop,
		// but the generated code is in the 'switch jump {...}' after it.
		e := returnExit(fn, s.Pos())
		storeVar(fn, fn.jump, intConst(e.id), e.pos)
		fn.emit(&Return{Results: []Value{vFalse}, pos: e.pos})
		fn.currentBlock = fn.newBasicBlock("unreachable")
		return
	}

	// Run function calls deferred in this
	// function when explicitly returning from it.
	fn.emit(new(RunDefers))
	// Reload (potentially) named result variables to form the result tuple.
	results = results[:0]
	for _, nr := range fn.results {
		results = append(results, emitLoad(fn, nr))
	}
	fn.emit(&Return{Results: results, pos: s.Return})
	fn.currentBlock = fn.newBasicBlock("unreachable")
}

// A buildFunc is a strategy for building the SSA body for a function.
type buildFunc = func(*builder, *Function)

// iterate causes all created but unbuilt functions to be built. As
// this may create new methods, the process is iterated until it
// converges.
//
// Waits for any dependencies to finish building.
func (b *builder) iterate() {
	for ; b.finished < len(b.fns); b.finished++ {
		fn := b.fns[b.finished]
		b.buildFunction(fn)
	}

	b.buildshared.markDone()
	b.buildshared.wait()
}

// buildFunction builds SSA code for the body of function fn.  Idempotent.
func (b *builder) buildFunction(fn *Function) {
	if fn.build != nil {
		assert(fn.parent == nil, "anonymous functions should not be built by buildFunction()")

		if fn.Prog.mode&LogSource != 0 {
			defer logStack("build %s @ %s", fn, fn.Prog.Fset.Position(fn.pos))()
		}
		fn.build(b, fn)
		fn.done()
	}
}

// buildParamsOnly builds fn.Params from fn.Signature, but does not build fn.Body.
func (b *builder) buildParamsOnly(fn *Function) {
	// For external (C, asm) functions or functions loaded from
	// export data, we must set fn.Params even though there is no
	// body code to reference them.
	if recv := fn.Signature.Recv(); recv != nil {
		fn.addParamVar(recv)
	}
	params := fn.Signature.Params()
	for i, n := 0, params.Len(); i < n; i++ {
		fn.addParamVar(params.At(i))
	}
}

// buildFromSyntax builds fn.Body from fn.syntax, which must be non-nil.
func (b *builder) buildFromSyntax(fn *Function) {
	var (
		recvField *ast.FieldList
		body      *ast.BlockStmt
		functype  *ast.FuncType
	)
	switch syntax := fn.syntax.(type) {
	case *ast.FuncDecl:
		functype = syntax.Type
		recvField = syntax.Recv
		body = syntax.Body
		if body == nil {
			b.buildParamsOnly(fn) // no body (non-Go function)
			return
		}
	case *ast.FuncLit:
		functype = syntax.Type
		body = syntax.Body
	case nil:
		panic("no syntax")
	default:
		panic(syntax) // unexpected syntax
	}
	fn.source = fn
	fn.startBody()
	fn.createSyntacticParams(recvField, functype)
	fn.createDeferStack()
	b.stmt(fn, body)
	if cb := fn.currentBlock; cb != nil && (cb == fn.Blocks[0] || cb == fn.Recover || cb.Preds != nil) {
		// Control fell off the end of the function's body block.
		//
		// Block optimizations eliminate the current block, if
		// unreachable.  It is a builder invariant that
		// if this no-arg return is ill-typed for
		// fn.Signature.Results, this block must be
		// unreachable.  The sanity checker checks this.
		fn.emit(new(RunDefers))
		fn.emit(new(Return))
	}
	fn.finishBody()
}

// buildYieldFunc builds the body of the yield function created
// from a range-over-func *ast.RangeStmt.
func (b *builder) buildYieldFunc(fn *Function) {
	// See builder.rangeFunc for detailed documentation on how fn is set up.
	//
	// In pseudo-Go this roughly builds:
	// func yield(_k tk, _v tv) bool {
	// 	   if jump != READY { panic("yield function called after range loop exit") }
	//     jump = BUSY
	//     k, v = _k, _v // assign the iterator variable (if needed)
	//     ... // rng.Body
	//   continue:
	//     jump = READY
	//     return true
	// }
	s := fn.syntax.(*ast.RangeStmt)
	fn.source = fn.parent.source
	fn.startBody()
	params := fn.Signature.Params()
	for i := 0; i < params.Len(); i++ {
		fn.addParamVar(params.At(i))
	}

	// Initial targets
	ycont := fn.newBasicBlock("yield-continue")
	// lblocks is either {} or is {label: nil} where label is the label of syntax.
	for label := range fn.lblocks {
		fn.lblocks[label] = &lblock{
			label:     label,
			resolved:  true,
			_goto:     ycont,
			_continue: ycont,
			// `break label` statement targets fn.parent.targets._break
		}
	}
	fn.targets = &targets{
		tail:      fn.targets,
		_continue: ycont,
		// `break` statement targets fn.parent.targets._break.
	}

	// continue:
	//   jump = READY
	//   return true
	saved := fn.currentBlock
	fn.currentBlock = ycont
	storeVar(fn, fn.jump, jReady, s.Body.Rbrace)
	// A yield function's own deferstack is always empty, so rundefers is not needed.
	fn.emit(&Return{Results: []Value{vTrue}, pos: token.NoPos})

	// Emit header:
	//
	//   if jump != READY { panic("yield iterator accessed after exit") }
	//   jump = BUSY
	//   k, v = _k, _v
	fn.currentBlock = saved
	yloop := fn.newBasicBlock("yield-loop")
	invalid := fn.newBasicBlock("yield-invalid")

	jumpVal := emitLoad(fn, fn.lookup(fn.jump, true))
	emitIf(fn, emitCompare(fn, token.EQL, jumpVal, jReady, token.NoPos), yloop, invalid)
	fn.currentBlock = invalid
	fn.emit(&Panic{
		X: emitConv(fn, stringConst("yield function called after range loop exit"), tEface),
	})

	fn.currentBlock = yloop
	storeVar(fn, fn.jump, jBusy, s.Body.Rbrace)

	// Initialize k and v from params.
	var tk, tv types.Type
	if s.Key != nil && !isBlankIdent(s.Key) {
		tk = fn.typeOf(s.Key) // fn.parent.typeOf is identical
	}
	if s.Value != nil && !isBlankIdent(s.Value) {
		tv = fn.typeOf(s.Value)
	}
	if s.Tok == token.DEFINE {
		if tk != nil {
			emitLocalVar(fn, identVar(fn, s.Key.(*ast.Ident)))
		}
		if tv != nil {
			emitLocalVar(fn, identVar(fn, s.Value.(*ast.Ident)))
		}
	}
	var k, v Value
	if len(fn.Params) > 0 {
		k = fn.Params[0]
	}
	if len(fn.Params) > 1 {
		v = fn.Params[1]
	}
	var kl, vl lvalue
	if tk != nil {
		kl = b.addr(fn, s.Key, false) // non-escaping
	}
	if tv != nil {
		vl = b.addr(fn, s.Value, false) // non-escaping
	}
	if tk != nil {
		kl.store(fn, k)
	}
	if tv != nil {
		vl.store(fn, v)
	}

	// Build the body of the range loop.
	b.stmt(fn, s.Body)
	if cb := fn.currentBlock; cb != nil && (cb == fn.Blocks[0] || cb == fn.Recover || cb.Preds != nil) {
		// Control fell off the end of the function's body block.
		// Block optimizations eliminate the current block, if
		// unreachable.
		emitJump(fn, ycont)
	}
	// pop the stack for the yield function
	fn.targets = fn.targets.tail

	// Clean up exits and promote any unresolved exits to fn.parent.
	for _, e := range fn.exits {
		if e.label != nil {
			lb := fn.lblocks[e.label]
			if lb.resolved {
				// label was resolved. Do not turn lb into an exit.
				// e does not need to be handled by the parent.
				continue
			}

			// _goto becomes an exit.
			//   _goto:
			//     jump = id
			//     return false
			fn.currentBlock = lb._goto
			id := intConst(e.id)
			storeVar(fn, fn.jump, id, e.pos)
			fn.emit(&Return{Results: []Value{vFalse}, pos: e.pos})
		}

		if e.to != fn { // e needs to be handled by the parent too.
			fn.parent.exits = append(fn.parent.exits, e)
		}
	}

	fn.finishBody()
}

// addMakeInterfaceType records non-interface type t as the type of
// the operand a MakeInterface operation, for [Program.RuntimeTypes].
//
// Acquires prog.makeInterfaceTypesMu.
func addMakeInterfaceType(prog *Program, t types.Type) {
	prog.makeInterfaceTypesMu.Lock()
	defer prog.makeInterfaceTypesMu.Unlock()
	if prog.makeInterfaceTypes == nil {
		prog.makeInterfaceTypes = make(map[types.Type]unit)
	}
	prog.makeInterfaceTypes[t] = unit{}
}

// Build calls Package.Build for each package in prog.
// Building occurs in parallel unless the BuildSerially mode flag was set.
//
// Build is intended for whole-program analysis; a typical compiler
// need only build a single package.
//
// Build is idempotent and thread-safe.
func (prog *Program) Build() {
	var wg sync.WaitGroup
	for _, p := range prog.packages {
		if prog.mode&BuildSerially != 0 {
			p.Build()
		} else {
			wg.Add(1)
			cpuLimit <- unit{} // acquire a token
			go func(p *Package) {
				p.Build()
				wg.Done()
				<-cpuLimit // release a token
			}(p)
		}
	}
	wg.Wait()
}

// cpuLimit is a counting semaphore to limit CPU parallelism.
var cpuLimit = make(chan unit, runtime.GOMAXPROCS(0))

// Build builds SSA code for all functions and vars in package p.
//
// CreatePackage must have been called for all of p's direct imports
// (and hence its direct imports must have been error-free). It is not
// necessary to call CreatePackage for indirect dependencies.
// Functions will be created for all necessary methods in those
// packages on demand.
//
// Build is idempotent and thread-safe.
func (p *Package) Build() { p.buildOnce.Do(p.build) }

func (p *Package) build() {
	if p.info == nil {
		return // synthetic package, e.g. "testmain"
	}
	if p.Prog.mode&LogSource != 0 {
		defer logStack("build %s", p)()
	}

	b := builder{fns: p.created}
	b.iterate()

	// We no longer need transient information: ASTs or go/types deductions.
	p.info = nil
	p.created = nil
	p.files = nil
	p.initVersion = nil

	if p.Prog.mode&SanityCheckFunctions != 0 {
		sanityCheckPackage(p)
	}
}

// buildPackageInit builds fn.Body for the synthetic package initializer.
func (b *builder) buildPackageInit(fn *Function) {
	p := fn.Pkg
	fn.startBody()

	var done *BasicBlock

	if p.Prog.mode&BareInits == 0 {
		// Make init() skip if package is already initialized.
		initguard := p.Var("init$guard")
		doinit := fn.newBasicBlock("init.start")
		done = fn.newBasicBlock("init.done")
		emitIf(fn, emitLoad(fn, initguard), done, doinit)
		fn.currentBlock = doinit
		emitStore(fn, initguard, vTrue, token.NoPos)

		// Call the init() function of each package we import.
		for _, pkg := range p.Pkg.Imports() {
			prereq := p.Prog.packages[pkg]
			if prereq == nil {
				panic(fmt.Sprintf("Package(%q).Build(): unsatisfied import: Program.CreatePackage(%q) was not called", p.Pkg.Path(), pkg.Path()))
			}
			var v Call
			v.Call.Value = prereq.init
			v.Call.pos = fn.pos
			v.setType(types.NewTuple())
			fn.emit(&v)
		}
	}

	// Initialize package-level vars in correct order.
	if len(p.info.InitOrder) > 0 && len(p.files) == 0 {
		panic("no source files provided for package. cannot initialize globals")
	}

	for _, varinit := range p.info.InitOrder {
		if fn.Prog.mode&LogSource != 0 {
			fmt.Fprintf(os.Stderr, "build global initializer %v @ %s\n",
				varinit.Lhs, p.Prog.Fset.Position(varinit.Rhs.Pos()))
		}
		// Initializers for global vars are evaluated in dependency
		// order, but may come from arbitrary files of the package
		// with different versions, so we transiently update
		// fn.goversion for each one. (Since init is a synthetic
		// function it has no syntax of its own that needs a version.)
		fn.goversion = p.initVersion[varinit.Rhs]
		if len(varinit.Lhs) == 1 {
			// 1:1 initialization: var x, y = a(), b()
			var lval lvalue
			if v := varinit.Lhs[0]; v.Name() != "_" {
				lval = &address{addr: p.objects[v].(*Global), pos: v.Pos()}
			} else {
				lval = blank{}
			}
			b.assign(fn, lval, varinit.Rhs, true, nil)
		} else {
			// n:1 initialization: var x, y :=  f()
			tuple := b.exprN(fn, varinit.Rhs)
			for i, v := range varinit.Lhs {
				if v.Name() == "_" {
					continue
				}
				emitStore(fn, p.objects[v].(*Global), emitExtract(fn, tuple, i), v.Pos())
			}
		}
	}

	// The rest of the init function is synthetic:
	// no syntax, info, goversion.
	fn.info = nil
	fn.goversion = ""

	// Call all of the declared init() functions in source order.
	for _, file := range p.files {
		for _, decl := range file.Decls {
			if decl, ok := decl.(*ast.FuncDecl); ok {
				id := decl.Name
				if !isBlankIdent(id) && id.Name == "init" && decl.Recv == nil {
					declaredInit := p.objects[p.info.Defs[id]].(*Function)
					var v Call
					v.Call.Value = declaredInit
					v.setType(types.NewTuple())
					p.init.emit(&v)
				}
			}
		}
	}

	// Finish up init().
	if p.Prog.mode&BareInits == 0 {
		emitJump(fn, done)
		fn.currentBlock = done
	}
	fn.emit(new(Return))
	fn.finishBody()
}

// Copyright 2022 The Go Authors. All rights reserved.
// Use of this source code is governed by a BSD-style
// license that can be found in the LICENSE file.

package ssa

import (
	"go/types"

	"xvc/xinternal/typeparams"
)

// Utilities for dealing with core types.

// isBytestring returns true if T has the same terms as interface{[]byte | string}.
// These act like a core type for some operations: slice expressions, append and copy.
//
// See https://go.dev/ref/spec#Core_types for the details on bytestring.
func isBytestring(T types.Type) bool {
	U := T.Underlying()
	if _, ok := U.(*types.Interface); !ok {
		return false
	}

	tset := typeSetOf(U)
	if tset.Len() != 2 {
		return false
	}
	hasBytes, hasString := false, false
	underIs(tset, func(t types.Type) bool {
		switch {
		case isString(t):
			hasString = true
		case isByteSlice(t):
			hasBytes = true
		}
		return hasBytes || hasString
	})
	return hasBytes && hasString
}

// termList is a list of types.
type termList []*types.Term            // type terms of the type set
func (s termList) Len() int            { return len(s) }
func (s termList) At(i int) types.Type { return s[i].Type() }

// typeSetOf returns the type set of typ. Returns an empty typeset on an error.
func typeSetOf(typ types.Type) termList {
	// This is a adaptation of x/exp/typeparams.NormalTerms which x/tools cannot depend on.
	var terms []*types.Term
	var err error
	// typeSetOf(t) == typeSetOf(Unalias(t))
	switch typ := types.Unalias(typ).(type) {
	case *types.TypeParam:
		terms, err = typeparams.StructuralTerms(typ)
	case *types.Union:
		terms, err = typeparams.UnionTermSet(typ)
	case *types.Interface:
		terms, err = typeparams.InterfaceTermSet(typ)
	default:
		// Common case.
		// Specializing the len=1 case to avoid a slice
		// had no measurable space/time benefit.
		terms = []*types.Term{types.NewTerm(false, typ)}
	}

	if err != nil {
		return termList(nil)
	}
	return termList(terms)
}

// underIs calls f with the underlying types of the specific type terms
// of s and reports whether all calls to f returned true. If there are
// no specific terms, underIs returns the result of f(nil).
func underIs(s termList, f func(types.Type) bool) bool {
	if s.Len() == 0 {
		return f(nil)
	}
	for i := 0; i < s.Len(); i++ {
		u := s.At(i).Underlying()
		if !f(u) {
			return false
		}
	}
	return true
}

// indexType returns the element type and index mode of a IndexExpr over a type.
// It returns (nil, invalid) if the type is not indexable; this should never occur in a well-typed program.
func indexType(typ types.Type) (types.Type, indexMode) {
	switch U := typ.Underlying().(type) {
	case *types.Array:
		return U.Elem(), ixArrVar
	case *types.Pointer:
		if arr, ok := U.Elem().Underlying().(*types.Array); ok {
			return arr.Elem(), ixVar
		}
	case *types.Slice:
		return U.Elem(), ixVar
	case *types.Map:
		return U.Elem(), ixMap
	case *types.Basic:
		return tByte, ixValue // must be a string
	case *types.Interface:
		tset := typeSetOf(U)
		if tset.Len() == 0 {
			return nil, ixInvalid // no underlying terms or error is empty.
		}

		elem, mode := indexType(tset.At(0))
		for i := 1; i < tset.Len() && mode != ixInvalid; i++ {
			e, m := indexType(tset.At(i))
			if !types.Identical(elem, e) { // if type checked, just a sanity check
				return nil, ixInvalid
			}
			// Update the mode to the most constrained address type.
			mode = mode.meet(m)
		}
		if mode != ixInvalid {
			return elem, mode
		}
	}
	return nil, ixInvalid
}

// An indexMode specifies the (addressing) mode of an index operand.
//
// Addressing mode of an index operation is based on the set of
// underlying types.
// Hasse diagram of the indexMode meet semi-lattice:
//
//	ixVar     ixMap
//	  |          |
//	ixArrVar     |
//	  |          |
//	ixValue      |
//	   \        /
//	  ixInvalid
type indexMode byte

const (
	ixInvalid indexMode = iota // index is invalid
	ixValue                    // index is a computed value (not addressable)
	ixArrVar                   // like ixVar, but index operand contains an array
	ixVar                      // index is an addressable variable
	ixMap                      // index is a map index expression (acts like a variable on lhs, commaok on rhs of an assignment)
)

// meet is the address type that is constrained by both x and y.
func (x indexMode) meet(y indexMode) indexMode {
	if (x == ixMap || y == ixMap) && x != y {
		return ixInvalid
	}
	// Use int representation and return min.
	if x < y {
		return y
	}
	return x
}

// Copyright 2013 The Go Authors. All rights reserved.
// Use of this source code is governed by a BSD-style
// license that can be found in the LICENSE file.

package ssa

// This file defines utilities for population of method sets.

import (
	"fmt"
	"go/types"

	"golang.org/x/tools/go/types/typeutil"
	"xvc/xinternal/typesinternal"
)

// MethodValue returns the Function implementing method sel, building
// wrapper methods on demand. It returns nil if sel denotes an
// interface or generic method.
//
// Precondition: sel.Kind() == MethodVal.
//
// Thread-safe.
//
// Acquires prog.methodsMu.
func (prog *Program) MethodValue(sel *types.Selection) *Function {
	if sel.Kind() != types.MethodVal {
		panic(fmt.Sprintf("MethodValue(%s) kind != MethodVal", sel))
	}
	T := sel.Recv()
	if types.IsInterface(T) {
		return nil // interface method or type parameter
	}

	if prog.isParameterized(T) {
		return nil // generic method
	}

	if prog.mode&LogSource != 0 {
		defer logStack("MethodValue %s %v", T, sel)()
	}

	var b builder

	m := func() *Function {
		prog.methodsMu.Lock()
		defer prog.methodsMu.Unlock()

		// Get or create SSA method set.
		mset, ok := prog.methodSets.At(T).(*methodSet)
		if !ok {
			mset = &methodSet{mapping: make(map[string]*Function)}
			prog.methodSets.Set(T, mset)
		}

		// Get or create SSA method.
		id := sel.Obj().Id()
		fn, ok := mset.mapping[id]
		if !ok {
			obj := sel.Obj().(*types.Func)
			needsPromotion := len(sel.Index()) > 1
			needsIndirection := !isPointer(recvType(obj)) && isPointer(T)
			if needsPromotion || needsIndirection {
				fn = createWrapper(prog, toSelection(sel))
				fn.buildshared = b.shared()
				b.enqueue(fn)
			} else {
				fn = prog.objectMethod(obj, &b)
			}
			if fn.Signature.Recv() == nil {
				panic(fn)
			}
			mset.mapping[id] = fn
		} else {
			b.waitForSharedFunction(fn)
		}

		return fn
	}()

	b.iterate()

	return m
}

// objectMethod returns the Function for a given method symbol.
// The symbol may be an instance of a generic function. It need not
// belong to an existing SSA package created by a call to
// prog.CreatePackage.
//
// objectMethod panics if the function is not a method.
//
// Acquires prog.objectMethodsMu.
func (prog *Program) objectMethod(obj *types.Func, b *builder) *Function {
	sig := obj.Type().(*types.Signature)
	if sig.Recv() == nil {
		panic("not a method: " + obj.String())
	}

	// Belongs to a created package?
	if fn := prog.FuncValue(obj); fn != nil {
		return fn
	}

	// Instantiation of generic?
	if originObj := obj.Origin(); originObj != obj {
		origin := prog.objectMethod(originObj, b)
		assert(origin.typeparams.Len() > 0, "origin is not generic")
		targs := receiverTypeArgs(obj)
		return origin.instance(targs, b)
	}

	// Consult/update cache of methods created from types.Func.
	prog.objectMethodsMu.Lock()
	defer prog.objectMethodsMu.Unlock()
	fn, ok := prog.objectMethods[obj]
	if !ok {
		fn = createFunction(prog, obj, obj.Name(), nil, nil, "")
		fn.Synthetic = "from type information (on demand)"
		fn.buildshared = b.shared()
		b.enqueue(fn)

		if prog.objectMethods == nil {
			prog.objectMethods = make(map[*types.Func]*Function)
		}
		prog.objectMethods[obj] = fn
	} else {
		b.waitForSharedFunction(fn)
	}
	return fn
}

// LookupMethod returns the implementation of the method of type T
// identified by (pkg, name).  It returns nil if the method exists but
// is an interface method or generic method, and panics if T has no such method.
func (prog *Program) LookupMethod(T types.Type, pkg *types.Package, name string) *Function {
	sel := prog.MethodSets.MethodSet(T).Lookup(pkg, name)
	if sel == nil {
		panic(fmt.Sprintf("%s has no method %s", T, types.Id(pkg, name)))
	}
	return prog.MethodValue(sel)
}

// methodSet contains the (concrete) methods of a concrete type (non-interface, non-parameterized).
type methodSet struct {
	mapping map[string]*Function // populated lazily
}

// RuntimeTypes returns a new unordered slice containing all types in
// the program for which a runtime type is required.
//
// A runtime type is required for any non-parameterized, non-interface
// type that is converted to an interface, or for any type (including
// interface types) derivable from one through reflection.
//
// The methods of such types may be reachable through reflection or
// interface calls even if they are never called directly.
//
// Thread-safe.
//
// Acquires prog.makeInterfaceTypesMu.
func (prog *Program) RuntimeTypes() []types.Type {
	prog.makeInterfaceTypesMu.Lock()
	defer prog.makeInterfaceTypesMu.Unlock()

	// Compute the derived types on demand, since many SSA clients
	// never call RuntimeTypes, and those that do typically call
	// it once (often within ssautil.AllFunctions, which will
	// eventually not use it; see Go issue #69291.) This
	// eliminates the need to eagerly compute all the element
	// types during SSA building.
	var runtimeTypes []types.Type
	add := func(t types.Type) { runtimeTypes = append(runtimeTypes, t) }
	var set typeutil.Map // for de-duping identical types
	for t := range prog.makeInterfaceTypes {
		typesinternal.ForEachElement(&set, &prog.MethodSets, t, add)
	}

	return runtimeTypes
}

// Copyright 2013 The Go Authors. All rights reserved.
// Use of this source code is governed by a BSD-style
// license that can be found in the LICENSE file.

// Package ssa defines a representation of the elements of Go programs
// (packages, types, functions, variables and constants) using a
// static single-assignment (SSA) form intermediate representation
// (IR) for the bodies of functions.
//
// For an introduction to SSA form, see
// http://en.wikipedia.org/wiki/Static_single_assignment_form.
// This page provides a broader reading list:
// http://www.dcs.gla.ac.uk/~jsinger/ssa.html.
//
// The level of abstraction of the SSA form is intentionally close to
// the source language to facilitate construction of source analysis
// tools.  It is not intended for machine code generation.
//
// All looping, branching and switching constructs are replaced with
// unstructured control flow.  Higher-level control flow constructs
// such as multi-way branch can be reconstructed as needed; see
// [golang.org/x/tools/go/ssa/ssautil.Switches] for an example.
//
// The simplest way to create the SSA representation of a package is
// to load typed syntax trees using [golang.org/x/tools/go/packages], then
// invoke the [golang.org/x/tools/go/ssa/ssautil.Packages] helper function.
// (See the package-level Examples named LoadPackages and LoadWholeProgram.)
// The resulting [ssa.Program] contains all the packages and their
// members, but SSA code is not created for function bodies until a
// subsequent call to [Package.Build] or [Program.Build].
//
// The builder initially builds a naive SSA form in which all local
// variables are addresses of stack locations with explicit loads and
// stores.  Registerisation of eligible locals and φ-node insertion
// using dominance and dataflow are then performed as a second pass
// called "lifting" to improve the accuracy and performance of
// subsequent analyses; this pass can be skipped by setting the
// NaiveForm builder flag.
//
// The primary interfaces of this package are:
//
//   - [Member]: a named member of a Go package.
//   - [Value]: an expression that yields a value.
//   - [Instruction]: a statement that consumes values and performs computation.
//   - [Node]: a [Value] or [Instruction] (emphasizing its membership in the SSA value graph)
//
// A computation that yields a result implements both the [Value] and
// [Instruction] interfaces.  The following table shows for each
// concrete type which of these interfaces it implements.
//
//	                   Value?          Instruction?      Member?
//	*Alloc                ✔               ✔
//	*BinOp                ✔               ✔
//	*Builtin              ✔
//	*Call                 ✔               ✔
//	*ChangeInterface      ✔               ✔
//	*ChangeType           ✔               ✔
//	*Const                ✔
//	*Convert              ✔               ✔
//	*DebugRef                             ✔
//	*Defer                                ✔
//	*Extract              ✔               ✔
//	*Field                ✔               ✔
//	*FieldAddr            ✔               ✔
//	*FreeVar              ✔
//	*Function             ✔                               ✔ (func)
//	*Global               ✔                               ✔ (var)
//	*Go                                   ✔
//	*If                                   ✔
//	*Index                ✔               ✔
//	*IndexAddr            ✔               ✔
//	*Jump                                 ✔
//	*Lookup               ✔               ✔
//	*MakeChan             ✔               ✔
//	*MakeClosure          ✔               ✔
//	*MakeInterface        ✔               ✔
//	*MakeMap              ✔               ✔
//	*MakeSlice            ✔               ✔
//	*MapUpdate                            ✔
//	*MultiConvert         ✔               ✔
//	*NamedConst                                           ✔ (const)
//	*Next                 ✔               ✔
//	*Panic                                ✔
//	*Parameter            ✔
//	*Phi                  ✔               ✔
//	*Range                ✔               ✔
//	*Return                               ✔
//	*RunDefers                            ✔
//	*Select               ✔               ✔
//	*Send                                 ✔
//	*Slice                ✔               ✔
//	*SliceToArrayPointer  ✔               ✔
//	*Store                                ✔
//	*Type                                                 ✔ (type)
//	*TypeAssert           ✔               ✔
//	*UnOp                 ✔               ✔
//
// Other key types in this package include: [Program], [Package], [Function]
// and [BasicBlock].
//
// The program representation constructed by this package is fully
// resolved internally, i.e. it does not rely on the names of Values,
// Packages, Functions, Types or BasicBlocks for the correct
// interpretation of the program.  Only the identities of objects and
// the topology of the SSA and type graphs are semantically
// significant.  (There is one exception: [types.Id] values, which identify field
// and method names, contain strings.)  Avoidance of name-based
// operations simplifies the implementation of subsequent passes and
// can make them very efficient.  Many objects are nonetheless named
// to aid in debugging, but it is not essential that the names be
// either accurate or unambiguous.  The public API exposes a number of
// name-based maps for client convenience.
//
// The [golang.org/x/tools/go/ssa/ssautil] package provides various
// helper functions, for example to simplify loading a Go program into
// SSA form.
//
// TODO(adonovan): write a how-to document for all the various cases
// of trying to determine corresponding elements across the four
// domains of source locations, ast.Nodes, types.Objects,
// ssa.Values/Instructions.
package ssa // import "xvc/xssa"

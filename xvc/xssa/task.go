// Copyright 2024 The Go Authors. All rights reserved.
// Use of this source code is governed by a BSD-style
// license that can be found in the LICENSE file.

package ssa

import (
	"sync/atomic"
)

// Each task has two states: it is initially "active",
// and transitions to "done".
//
// tasks form a directed graph. An edge from x to y (with y in x.edges)
// indicates that the task x waits on the task y to be done.
// Cycles are permitted.
//
// Calling x.wait() blocks the calling goroutine until task x,
// and all the tasks transitively reachable from x are done.
//
// The nil *task is always considered done.
type task struct {
	done       chan unit      // close when the task is done.
	edges      map[*task]unit // set of predecessors of this task.
	transitive atomic.Bool    // true once it is known all predecessors are done.
}

func (x *task) isTransitivelyDone() bool { return x == nil || x.transitive.Load() }

// addEdge creates an edge from x to y, indicating that
// x.wait() will not return before y is done.
// All calls to x.addEdge(...) should happen before x.markDone().
func (x *task) addEdge(y *task) {
	if x == y || y.isTransitivelyDone() {
		return // no work remaining
	}

	// heuristic done check
	select {
	case <-x.done:
		panic("cannot add an edge to a done task")
	default:
	}

	if x.edges == nil {
		x.edges = make(map[*task]unit)
	}
	x.edges[y] = unit{}
}

// markDone changes the task's state to markDone.
func (x *task) markDone() {
	if x != nil {
		close(x.done)
	}
}

// wait blocks until x and all the tasks it can reach through edges are done.
func (x *task) wait() {
	if x.isTransitivelyDone() {
		return // already known to be done. Skip allocations.
	}

	// Use BFS to wait on u.done to be closed, for all u transitively
	// reachable from x via edges.
	//
	// This work can be repeated by multiple workers doing wait().
	//
	// Note: Tarjan's SCC algorithm is able to mark SCCs as transitively done
	// as soon as the SCC has been visited. This is theoretically faster, but is
	// a more complex algorithm. Until we have evidence, we need the more complex
	// algorithm, the simpler algorithm BFS is implemented.
	//
	// In Go 1.23, ssa/TestStdlib reaches <=3 *tasks per wait() in most schedules
	// On some schedules, there is a cycle building net/http and internal/trace/testtrace
	// due to slices functions.
	work := []*task{x}
	enqueued := map[*task]unit{x: {}}
	for i := 0; i < len(work); i++ {
		u := work[i]
		if u.isTransitivelyDone() { // already transitively done
			work[i] = nil
			continue
		}
		<-u.done // wait for u to be marked done.

		for v := range u.edges {
			if _, ok := enqueued[v]; !ok {
				enqueued[v] = unit{}
				work = append(work, v)
			}
		}
	}

	// work is transitively closed over dependencies.
	// u in work is done (or transitively done and skipped).
	// u is transitively done.
	for _, u := range work {
		if u != nil {
			x.transitive.Store(true)
		}
	}
}

// Copyright 2013 The Go Authors. All rights reserved.
// Use of this source code is governed by a BSD-style
// license that can be found in the LICENSE file.

package ssa

// This file defines utilities for working with source positions
// or source-level named entities ("objects").

// TODO(adonovan): test that {Value,Instruction}.Pos() positions match
// the originating syntax, as specified.

import (
	"go/ast"
	"go/token"
	"go/types"
)

// EnclosingFunction returns the function that contains the syntax
// node denoted by path.
//
// Syntax associated with package-level variable specifications is
// enclosed by the package's init() function.
//
// Returns nil if not found; reasons might include:
//   - the node is not enclosed by any function.
//   - the node is within an anonymous function (FuncLit) and
//     its SSA function has not been created yet
//     (pkg.Build() has not yet been called).
func EnclosingFunction(pkg *Package, path []ast.Node) *Function {
	// Start with package-level function...
	fn := findEnclosingPackageLevelFunction(pkg, path)
	if fn == nil {
		return nil // not in any function
	}

	// ...then walk down the nested anonymous functions.
	n := len(path)
outer:
	for i := range path {
		if lit, ok := path[n-1-i].(*ast.FuncLit); ok {
			for _, anon := range fn.AnonFuncs {
				if anon.Pos() == lit.Type.Func {
					fn = anon
					continue outer
				}
			}
			// SSA function not found:
			// - package not yet built, or maybe
			// - builder skipped FuncLit in dead block
			//   (in principle; but currently the Builder
			//   generates even dead FuncLits).
			return nil
		}
	}
	return fn
}

// HasEnclosingFunction returns true if the AST node denoted by path
// is contained within the declaration of some function or
// package-level variable.
//
// Unlike EnclosingFunction, the behaviour of this function does not
// depend on whether SSA code for pkg has been built, so it can be
// used to quickly reject check inputs that will cause
// EnclosingFunction to fail, prior to SSA building.
func HasEnclosingFunction(pkg *Package, path []ast.Node) bool {
	return findEnclosingPackageLevelFunction(pkg, path) != nil
}

// findEnclosingPackageLevelFunction returns the Function
// corresponding to the package-level function enclosing path.
func findEnclosingPackageLevelFunction(pkg *Package, path []ast.Node) *Function {
	if n := len(path); n >= 2 { // [... {Gen,Func}Decl File]
		switch decl := path[n-2].(type) {
		case *ast.GenDecl:
			if decl.Tok == token.VAR && n >= 3 {
				// Package-level 'var' initializer.
				return pkg.init
			}

		case *ast.FuncDecl:
			if decl.Recv == nil && decl.Name.Name == "init" {
				// Explicit init() function.
				for _, b := range pkg.init.Blocks {
					for _, instr := range b.Instrs {
						if instr, ok := instr.(*Call); ok {
							if callee, ok := instr.Call.Value.(*Function); ok && callee.Pkg == pkg && callee.Pos() == decl.Name.NamePos {
								return callee
							}
						}
					}
				}
				// Hack: return non-nil when SSA is not yet
				// built so that HasEnclosingFunction works.
				return pkg.init
			}
			// Declared function/method.
			return findNamedFunc(pkg, decl.Name.NamePos)
		}
	}
	return nil // not in any function
}

// findNamedFunc returns the named function whose FuncDecl.Ident is at
// position pos.
func findNamedFunc(pkg *Package, pos token.Pos) *Function {
	// Look at all package members and method sets of named types.
	// Not very efficient.
	for _, mem := range pkg.Members {
		switch mem := mem.(type) {
		case *Function:
			if mem.Pos() == pos {
				return mem
			}
		case *Type:
			mset := pkg.Prog.MethodSets.MethodSet(types.NewPointer(mem.Type()))
			for i, n := 0, mset.Len(); i < n; i++ {
				// Don't call Program.Method: avoid creating wrappers.
				obj := mset.At(i).Obj().(*types.Func)
				if obj.Pos() == pos {
					// obj from MethodSet may not be the origin type.
					m := obj.Origin()
					return pkg.objects[m].(*Function)
				}
			}
		}
	}
	return nil
}

// ValueForExpr returns the SSA Value that corresponds to non-constant
// expression e.
//
// It returns nil if no value was found, e.g.
//   - the expression is not lexically contained within f;
//   - f was not built with debug information; or
//   - e is a constant expression.  (For efficiency, no debug
//     information is stored for constants. Use
//     go/types.Info.Types[e].Value instead.)
//   - e is a reference to nil or a built-in function.
//   - the value was optimised away.
//
// If e is an addressable expression used in an lvalue context,
// value is the address denoted by e, and isAddr is true.
//
// The types of e (or &e, if isAddr) and the result are equal
// (modulo "untyped" bools resulting from comparisons).
//
// (Tip: to find the ssa.Value given a source position, use
// astutil.PathEnclosingInterval to locate the ast.Node, then
// EnclosingFunction to locate the Function, then ValueForExpr to find
// the ssa.Value.)
func (f *Function) ValueForExpr(e ast.Expr) (value Value, isAddr bool) {
	if f.debugInfo() { // (opt)
		e = unparen(e)
		for _, b := range f.Blocks {
			for _, instr := range b.Instrs {
				if ref, ok := instr.(*DebugRef); ok {
					if ref.Expr == e {
						return ref.X, ref.IsAddr
					}
				}
			}
		}
	}
	return
}

// --- Lookup functions for source-level named entities (types.Objects) ---

// Package returns the SSA Package corresponding to the specified
// type-checker package. It returns nil if no such Package was
// created by a prior call to prog.CreatePackage.
func (prog *Program) Package(pkg *types.Package) *Package {
	return prog.packages[pkg]
}

// packageLevelMember returns the package-level member corresponding
// to the specified symbol, which may be a package-level const
// (*NamedConst), var (*Global) or func/method (*Function) of some
// package in prog.
//
// It returns nil if the object belongs to a package that has not been
// created by prog.CreatePackage.
func (prog *Program) packageLevelMember(obj types.Object) Member {
	if pkg, ok := prog.packages[obj.Pkg()]; ok {
		return pkg.objects[obj]
	}
	return nil
}

// FuncValue returns the SSA function or (non-interface) method
// denoted by the specified func symbol. It returns nil id the symbol
// denotes an interface method, or belongs to a package that was not
// created by prog.CreatePackage.
func (prog *Program) FuncValue(obj *types.Func) *Function {
	fn, _ := prog.packageLevelMember(obj).(*Function)
	return fn
}

// ConstValue returns the SSA constant denoted by the specified const symbol.
func (prog *Program) ConstValue(obj *types.Const) *Const {
	// TODO(adonovan): opt: share (don't reallocate)
	// Consts for const objects and constant ast.Exprs.

	// Universal constant? {true,false,nil}
	if obj.Parent() == types.Universe {
		return NewConst(obj.Val(), obj.Type())
	}
	// Package-level named constant?
	if v := prog.packageLevelMember(obj); v != nil {
		return v.(*NamedConst).Value
	}
	return NewConst(obj.Val(), obj.Type())
}

// VarValue returns the SSA Value that corresponds to a specific
// identifier denoting the specified var symbol.
//
// VarValue returns nil if a local variable was not found, perhaps
// because its package was not built, the debug information was not
// requested during SSA construction, or the value was optimized away.
//
// ref is the path to an ast.Ident (e.g. from PathEnclosingInterval),
// and that ident must resolve to obj.
//
// pkg is the package enclosing the reference.  (A reference to a var
// always occurs within a function, so we need to know where to find it.)
//
// If the identifier is a field selector and its base expression is
// non-addressable, then VarValue returns the value of that field.
// For example:
//
//	func f() struct {x int}
//	f().x  // VarValue(x) returns a *Field instruction of type int
//
// All other identifiers denote addressable locations (variables).
// For them, VarValue may return either the variable's address or its
// value, even when the expression is evaluated only for its value; the
// situation is reported by isAddr, the second component of the result.
//
// If !isAddr, the returned value is the one associated with the
// specific identifier.  For example,
//
//	var x int    // VarValue(x) returns Const 0 here
//	x = 1        // VarValue(x) returns Const 1 here
//
// It is not specified whether the value or the address is returned in
// any particular case, as it may depend upon optimizations performed
// during SSA code generation, such as registerization, constant
// folding, avoidance of materialization of subexpressions, etc.
func (prog *Program) VarValue(obj *types.Var, pkg *Package, ref []ast.Node) (value Value, isAddr bool) {
	// All references to a var are local to some function, possibly init.
	fn := EnclosingFunction(pkg, ref)
	if fn == nil {
		return // e.g. def of struct field; SSA not built?
	}

	id := ref[0].(*ast.Ident)

	// Defining ident of a parameter?
	if id.Pos() == obj.Pos() {
		for _, param := range fn.Params {
			if param.Object() == obj {
				return param, false
			}
		}
	}

	// Other ident?
	for _, b := range fn.Blocks {
		for _, instr := range b.Instrs {
			if dr, ok := instr.(*DebugRef); ok {
				if dr.Pos() == id.Pos() {
					return dr.X, dr.IsAddr
				}
			}
		}
	}

	// Defining ident of package-level var?
	if v := prog.packageLevelMember(obj); v != nil {
		return v.(*Global), true
	}

	return // e.g. debug info not requested, or var optimized away
}

package rules

import (
	"strings"

	ssa "xvc/xssa"

	"xvc/load"
	"xvc/q"
)

func init() {
	register("C04", c04, PropInfo{
		Explanation: "Structural necessary conditions of main-chain integrity: (K10/K2) ConfirmBlock and Truncate stage headers, height index, confirmed table, branch info and meta in ONE batch that is reset before anything is staged, write it once, and publish l.meta only after Write()==nil; (K5) the tip is extended iff the parent is the recorded tip, the trunk switches iff parent.Height+1 is STRICTLY greater than the trunk height (the earlier block wins ties), a transaction already in a trunk block at or below the split height rejects the block and otherwise a trunk block re-maps the transaction to itself; at most one coinbase per block; (K6/K11) handleFork clears InTrunk/NextHash of every old-branch block, sets them for every new-branch block, re-maps its transactions and saves both, and saves the split block in trunk; saveBlock writes the height-index row iff InTrunk and removeBlocks deletes it iff InTrunk; Truncate sets tip and trunk height from the target, removes every branch returned by GetBranchInfo and clears the new tip's NextHash.",
		NotDecided:  "correctness of fork walking for trees of arbitrary shape, FindUndoAndTodoBlocks results and query consistency as values over histories",
		Assumptions: []string{"a kvdb batch is applied atomically", "proto.Marshal/Unmarshal round-trip"},
	})
}

func c04(c *q.Ctx) {
	// the survivor of a cut branch is the first block on the way down whose height is NOT ABOVE the target's: the walk
	// continues while the height is strictly greater (with `>=` it goes one block too far and records the target's
	// parent as the branch tip: the real leaf is in no record and later truncations cannot see it)
	if tr := c.Fn("bcs/ledger/xledger/ledger::(*Ledger).Truncate"); tr != nil {
		c.CondCount(tr, "(ledger.(*Ledger).fetchBlock(p0,p1)#0.Height < phi{*}.Height)", 1, "the walk down a cut branch stops at the first block at or below the target's height")
	}
	ledgerMetaStaging(c)
	// who may delete a height-index row: only the removal of blocks (Truncate). Saving an off-trunk header must not
	// touch the row of its height - the row belongs to the TRUNK block of that height, which a side-branch block of
	// the same height does not replace
	nDel := 0
	for _, fn := range c.P.AllFns {
		for _, ci := range q.CallsIn(fn, "Batch.Delete") {
			args := ci.Common().Args
			if len(args) == 0 || !strings.HasPrefix(q.Canon(args[0]), "append(\"ZH\"") {
				continue
			}
			nDel++
			c.Sites++
			top := load.QualName(q.Top(fn))
			if top == "bcs/ledger/xledger/ledger::(*Ledger).removeBlocks" {
				c.OK("K3", top, "may delete a height-index row", c.At(ci), "rows of removed trunk blocks")
			} else {
				c.Fail("K3", top, "may delete a height-index row", c.At(ci), "not in the frozen who-may table: the row of a height is owned by the trunk block of that height")
			}
		}
	}
	c.Floor("K3", "bcs/ledger/xledger/ledger::(*Ledger).removeBlocks", "height-index deletions", nDel, 1)
	k9 := ledgerK9(c)
	k9.Operation("bcs/ledger/xledger/ledger::(*Ledger).ConfirmBlock", nil)
	k9.Operation("bcs/ledger/xledger/ledger::(*Ledger).Truncate", nil)
	const led = "bcs/ledger/xledger/ledger::"
	succ := q.ToFieldStoreVal("ConfirmStatus.Succ", "true")
	cb := c.Fn(led + "(*Ledger).ConfirmBlock")
	if cb != nil {
		batch := "p0.confirmBatch"
		c.SameValueArgs(cb, map[string]int{"Ledger.saveBlock": 2, "Ledger.handleFork": 4, "Ledger.updateBranchInfo": 4, "Batch.Put": -1, "Batch.Delete": -1, "Batch.Write": -1, "Batch.Reset": -1}, "one batch carries headers, height index, confirmed rows, branch info and meta", "a confirmation is atomic")
		c.ArgIs(cb, "Batch.Write", -1, batch, 1, "the batch that is written is the ledger's confirm batch")
		for _, later := range []string{"Ledger.saveBlock", "Ledger.handleFork", "Ledger.updateBranchInfo", "Batch.Put", "Batch.Delete", "Batch.Write"} {
			c.Before(cb, q.ToCall("Batch.Reset"), q.ToCall(later), "the reused batch is emptied before this confirmation stages anything (a rejected confirmation must not leak into the next one)")
		}
		// publish after commit
		c.Gate(cb, "Batch.Write", q.ToFieldStore("Ledger.meta"), q.Opt{})
		c.Gate(cb, "Batch.Write", succ, q.Opt{})
		c.StoreIs(cb, "Ledger.meta", "proto.Clone(p0.meta)", 1, "the published meta is the one that was persisted")
		c.Effect(cb, q.Eff{Spec: "Batch.Put", Arg: 0, Glob: "\"M\"", Why: "new meta staged in the same batch", Rule: "K10"})
		c.Effect(cb, q.Eff{Spec: "Batch.Put", Arg: 1, Glob: "proto.Marshal(proto.Clone(p0.meta))#0", Why: "the staged meta is the edited clone", Rule: "K10"})
		// branch heads: the new block becomes a head and its parent stops being one, whatever the position of the block
		c.ArgIs(cb, "Ledger.updateBranchInfo", 1, "p1.Blockid", 1, "the confirmed block becomes a branch head")
		c.ArgIs(cb, "Ledger.updateBranchInfo", 2, "p1.PreHash", 1, "its parent is retired as a branch head on every path (also when the block lands on a side branch)")
		c.ArgIs(cb, "Ledger.updateBranchInfo", 3, "p1.Height", 1, "recorded with the block's height")
		if ub := c.Fn(led + "(*Ledger).updateBranchInfo"); ub != nil {
			c.Effect(ub, q.Eff{Spec: "Batch.Delete", Arg: 0, Glob: "append(\"ZI\",p2)", Exact: true, Why: "the retired head's record is deleted unconditionally", Rule: "K6"})
			c.Effect(ub, q.Eff{Spec: "Batch.Put", Arg: 0, Glob: "append(\"ZI\",p1)", Why: "the new head's record is written", Rule: "K6"})
		}
		// every failing step rejects
		for _, g := range []string{"Ledger.fetchBlock", "Ledger.saveBlock", "Ledger.handleFork", "Ledger.updateBranchInfo"} {
			c.Gate(cb, g, succ, q.Opt{K1Only: true})
		}
		pre := "ledger.(*Ledger).fetchBlock(p0,p1.PreHash)#0"
		// decisive comparisons
		tipExt := q.Cond{Canon: "bytes.Equal(" + pre + ".Blockid,proto.Clone(p0.meta).TipBlockid)", Sense: true}
		higher := q.Cond{Canon: "(proto.Clone(p0.meta).TrunkHeight < (1 + " + pre + ".Height))", Sense: true}
		c.Effect(cb, q.Eff{Spec: "Ledger.handleFork", Arg: 0, Glob: "append(*proto.Clone(p0.meta).TipBlockid)", Req: []q.Cond{{Canon: tipExt.Canon, Sense: false}, higher}, Why: "the trunk switches only when the branch becomes strictly higher than the trunk", Rule: "K5"})
		c.ArgIs(cb, "Ledger.handleFork", 2, pre+".Blockid", 1, "the new branch is walked from the parent of the confirmed block")
		c.ArgIs(cb, "Ledger.handleFork", 3, "p1.Blockid", 1, "the parent's NextHash becomes the confirmed block")
		c.FieldStore(cb, "LedgerMeta.TipBlockid", "proto.Clone(p0.meta)", "p1.Blockid", "a new tip is always the confirmed block")
		c.OnlyUnder(cb, q.ToFieldStore("LedgerMeta.TipBlockid"), []q.Cond{tipExt, higher, {Canon: "p2", Sense: true}}, "the tip moves only on tip extension, strictly-higher branch, or genesis")
		c.FieldStore(cb, "InternalBlock.Height", "p1", "*", "height assigned by the ledger")
		c.Effect(cb, q.Eff{Spec: "Ledger.saveBlock", Arg: 0, Glob: pre, Req: []q.Cond{tipExt}, Why: "the parent's NextHash edit is persisted", Rule: "K6"})
		c.FieldStore(cb, "InternalBlock.NextHash", pre, "p1.Blockid", "parent links to the new tip")
		// duplicate transaction / remap
		dupTxDecision(c, cb)
		confirmedRowRemap(c, cb)
		c.Guard(cb, q.Cond{Canon: "(1 < phi{(1 + loop)|0|loop})", Sense: true}, succ, q.Opt{})
		c.Effect(cb, q.Eff{Spec: "Batch.Delete", Arg: 0, Glob: "append(\"PB\",p1.Blockid)", Why: "pending copy removed with the confirmation", Rule: "K6"})
	}
	hf := c.Fn(led + "(*Ledger).handleFork")
	if hf != nil {
		P := "phi{ledger.(*Ledger).fetchBlock(p0,loop)#0.PreHash|p1}"
		Q := "phi{ledger.(*Ledger).fetchBlock(p0,loop)#0.PreHash|p2}"
		pB := "ledger.(*Ledger).fetchBlock(p0," + P + ")#0"
		qB := "ledger.(*Ledger).fetchBlock(p0," + Q + ")#0"
		inLoop := q.Cond{Canon: "bytes.Equal(" + P + "," + Q + ")", Sense: false}
		atSplit := q.Cond{Canon: inLoop.Canon, Sense: true}
		c.FieldStore(hf, "InternalBlock.InTrunk", pB, "false", "old-branch block leaves the trunk")
		c.FieldStore(hf, "InternalBlock.NextHash", pB, "[]", "old-branch block loses its next link")
		c.FieldStore(hf, "InternalBlock.InTrunk", qB, "true", "new-branch block and split block are in trunk")
		c.FieldStore(hf, "InternalBlock.NextHash", qB, "phi{*|p3}", "new-branch block links to the block above it (initially the confirmed block)")
		c.Effect(hf, q.Eff{Spec: "Ledger.correctTxsBlockid", Arg: 0, Glob: qB + ".Blockid", Req: []q.Cond{inLoop}, Why: "transactions of every new-trunk block are re-mapped to it", Rule: "K6"})
		c.ArgIs(hf, "Ledger.correctTxsBlockid", 2, "p4", 1, "re-mapping is staged in the confirmation's batch")
		c.Effect(hf, q.Eff{Spec: "Ledger.saveBlock", Arg: 0, Glob: pB, Req: []q.Cond{inLoop}, Why: "old-branch block persisted", Rule: "K6"})
		c.Effect(hf, q.Eff{Spec: "Ledger.saveBlock", Arg: 0, Glob: qB, Req: []q.Cond{inLoop}, Why: "new-branch block persisted", Rule: "K6"})
		c.Effect(hf, q.Eff{Spec: "Ledger.saveBlock", Arg: 0, Glob: qB, Req: []q.Cond{atSplit}, Why: "split block persisted with its new next link", Rule: "K6"})
		c.SameValueArgs(hf, map[string]int{"Ledger.saveBlock": 2, "Ledger.correctTxsBlockid": 2}, "every step of the fork handling stages into the caller's batch", "a confirmation is atomic")
		for _, g := range []string{"Ledger.fetchBlock", "Ledger.saveBlock", "Ledger.correctTxsBlockid"} {
			c.Gate(hf, g, q.ToSuccess(), q.Opt{K1Only: true})
		}
	}
	txRemap(c)
	blockCacheCoherent(c)
	// undo / redo path: the search for the fork point marks BOTH start blocks and every block it collects
	if fu := c.Fn(led + "(*Ledger).FindUndoAndTodoBlocks"); fu != nil {
		c.MapStoreKeys(fu, "newmap<map[string]bool>", []string{"ledger.(*Ledger).queryBlock(p0,p1,true)#0.Blockid", "ledger.(*Ledger).queryBlock(p0,p2,true)#0.Blockid", "ledger.(*Ledger).queryBlock(p0,phi{*queryBlock(p0,p1,true)#0*}.PreHash,true)#0.Blockid", "ledger.(*Ledger).queryBlock(p0,phi{*queryBlock(p0,p2,true)#0*}.PreHash,true)#0.Blockid"}, "a block is in the visited set as soon as it is in a result list: the fork point is the first block met twice")
	}
	saveBlockRows(c)
	// the whole of a confirmation / truncation - reading the branch tips and the blocks it is going to rewrite included -
	// runs under the ledger lock: a scan taken before the lock cuts from a leaf that a confirmation in flight has
	// already extended (the new block survives above the tip with its parent deleted)
	lla := c.NewLockAnalysis("bcs/ledger/xledger/ledger")
	for fn, specs := range map[string][]string{
		led + "(*Ledger).Truncate":     {"Ledger.GetBranchInfo", "Ledger.fetchBlock", "Ledger.removeBlocks", "Ledger.updateBranchInfo", "Batch.Write"},
		led + "(*Ledger).ConfirmBlock": {"Ledger.fetchBlock", "Ledger.saveBlock", "Ledger.handleFork", "Ledger.updateBranchInfo", "Batch.Write"},
	} {
		if f := c.Fn(fn); f != nil {
			for _, spec := range specs {
				lla.HeldAtCalls(f, spec, "Ledger.mutex", true, "every read and write of a chain reorganisation happens under the ledger lock")
			}
		}
	}
	rb := c.Fn(led + "(*Ledger).removeBlocks")
	if rb != nil {
		cur := "phi{ledger.(*Ledger).fetchBlock(p0,loop.PreHash)#0|ledger.(*Ledger).fetchBlock(p0,p1)#0}"
		keep := func(g q.Cond) bool { return strings.Contains(g.Canon, "InTrunk") }
		c.Effect(rb, q.Eff{Spec: "Batch.Delete", Arg: 0, Glob: "append(\"B\"," + cur + ".Blockid)", Exact: true, Keep: keep, Why: "header row of every removed block is deleted", Rule: "K7"})
		c.Effect(rb, q.Eff{Spec: "Batch.Delete", Arg: 0, Glob: "append(\"ZH\",fmt.Sprintf(\"%020d\",[" + cur + ".Height]))", Req: []q.Cond{{Canon: cur + ".InTrunk", Sense: true}}, Exact: true, Keep: keep, Why: "height-index row deleted iff the removed block was in trunk", Rule: "K7"})
		c.Guard(rb, q.Cond{Canon: "(ledger.(*Ledger).fetchBlock(p0,p2)#0.Height < " + cur + ".Height)", Sense: false}, q.ToCall("Batch.Delete"), q.Opt{Unless: nil})
		c.ArgIs(rb, "Batch.Delete", -1, "p3", 2, "staged in the caller's batch")
		// inverse of ConfirmBlock: what a confirmation adds per block, a truncation of that block takes away
		c.Effect(rb, q.Eff{Spec: "Batch.Delete", Arg: 0, Glob: "append(\"C\",*)", Why: "ConfirmBlock adds one confirmed-table row per transaction of the block; removing the block must remove the rows that still name it", Rule: "K6"})
		c.Effect(rb, q.Eff{Spec: "LRUCache.Del", Arg: 0, Glob: cur + ".Blockid", Why: "cached copies of removed blocks are dropped", Rule: "K6"})
	}
	tr := c.Fn(led + "(*Ledger).Truncate")
	if tr != nil {
		tgt := "ledger.(*Ledger).fetchBlock(p0,p1)#0"
		c.FieldStore(tr, "LedgerMeta.TipBlockid", "proto.Clone(p0.meta)", "p1", "tip becomes the target")
		c.FieldStore(tr, "LedgerMeta.TrunkHeight", "proto.Clone(p0.meta)", tgt+".Height", "trunk height becomes the target's height")
		c.ArgIs(tr, "Ledger.removeBlocks", 1, "ledger.(*Ledger).GetBranchInfo(p0,"+tgt+".Blockid,"+tgt+".Height)#0[]", 1, "every branch tip above the target is cut")
		c.ArgIs(tr, "Ledger.removeBlocks", 2, tgt+".Blockid", 1, "down to the target")
		// the tip recorded for a cut branch is found by walking down FROM THAT BRANCH'S tip (the stump of a side branch
		// that forked below the target), not the target for every branch
		tips := "ledger.(*Ledger).GetBranchInfo(p0,ledger.(*Ledger).fetchBlock(p0,p1)#0.Blockid,ledger.(*Ledger).fetchBlock(p0,p1)#0.Height)#0[]"
		c.ArgIs(tr, "Ledger.updateBranchInfo", 1, "phi{ledger.(*Ledger).fetchBlock(p0,"+tips+")#0|ledger.(*Ledger).fetchBlock(p0,loop.PreHash)#0|*}.Blockid", 1, "the surviving block of the branch becomes its recorded tip")
		c.ArgIs(tr, "Ledger.updateBranchInfo", 2, tips, 1, "the cut tip's record is retired")
		c.SameValueArgs(tr, map[string]int{"Ledger.removeBlocks": 3, "Ledger.updateBranchInfo": 4, "Batch.Put": -1, "Batch.Write": -1}, "one batch per truncation including meta", "a truncation is atomic")
		c.Gate(tr, "Batch.Write", q.ToFieldStore("Ledger.meta"), q.Opt{})
		c.Gate(tr, "Batch.Write", q.ToSuccess(), q.Opt{})
		c.Gate(tr, "Ledger.removeBlocks", q.ToCall("Batch.Write"), q.Opt{K1Only: true})
		c.Gate(tr, "Ledger.GetBranchInfo", q.ToCall("Batch.Write"), q.Opt{})
		c.Effect(tr, q.Eff{Spec: "Batch.Put", Arg: 0, Glob: "\"M\"", Why: "meta staged in the truncation's batch", Rule: "K10"})
		c.StoreIs(tr, "Ledger.meta", "proto.Clone(p0.meta)", 1, "the published meta is the one that was persisted")
		tip := "proto.Clone(" + tgt + ")"
		c.FieldStore(tr, "InternalBlock.NextHash", tip, "[]", "the block that becomes the tip has no successor on the trunk")
		c.Effect(tr, q.Eff{Spec: "Batch.Put", Arg: 0, Glob: "append(\"B\"," + tip + ".Blockid)", Why: "and that header is persisted in the truncation's batch", Rule: "K6"})
		c.Effect(tr, q.Eff{Spec: "Batch.Put", Arg: 1, Glob: "proto.Marshal(" + tip + ")#0", Why: "", Rule: "K6"})
		c.Gate(tr, "Batch.Write", q.ToCall("LRUCache.Add"), q.Opt{})
	}
}

// txRemap: when a trunk switch re-maps transactions, it reads the block from storage (not the block cache, whose
// transaction objects already carry the id) and rewrites every row whose recorded block differs (shared by C04 and
// C18: the snapshot walk takes a writer's height from that record).
func txRemap(c *q.Ctx) {
	const led = "bcs/ledger/xledger/ledger::"
	ct := c.Fn(led + "(*Ledger).correctTxsBlockid")
	if ct != nil {
		blk := "ledger.(*Ledger).queryBlock(p0,p1,true)#0"
		c.Effect(ct, q.Eff{Spec: "Batch.Put", Arg: 0, Glob: "append(\"C\"," + blk + ".Transactions[].Txid)", Req: []q.Cond{{Canon: "bytes.Equal(" + blk + ".Transactions[].Blockid,p1)", Sense: false}}, Why: "a transaction mapped elsewhere is re-mapped", Rule: "K6"})
		c.ArgIs(ct, "Batch.Put", -1, "p2", 1, "staged in the confirmation's batch, not written directly")
		c.FieldStore(ct, "Transaction.Blockid", blk+".Transactions[]", "p1", "re-mapped to the new-trunk block")
	}
}

// blockCacheCoherent: every header that is saved again is dropped from the full-block cache, which may hold an
// older copy (QueryBlock and IsTxInTrunk answer from it); shared by C04 and C05.
func blockCacheCoherent(c *q.Ctx) {
	const led = "bcs/ledger/xledger/ledger::"
	if sb := c.Fn(led + "(*Ledger).saveBlock"); sb != nil {
		c.Effect(sb, q.Eff{Spec: "LRUCache.Del", Arg: -2, Glob: "p0.blockCache", Exact: true, Keep: func(q.Cond) bool { return true }, Why: "a re-saved header is never served from an older full-block copy (trunk switch: InTrunk / NextHash of every block that leaves or joins the main chain)", Rule: "K9"})
		c.Effect(sb, q.Eff{Spec: "LRUCache.Del", Arg: 0, Glob: "p1.Blockid", Why: "the entry dropped is the saved block's", Rule: "K9"})
	}
	if tr := c.Fn(led + "(*Ledger).Truncate"); tr != nil {
		c.Effect(tr, q.Eff{Spec: "LRUCache.Del", Arg: -2, Glob: "p0.blockCache", Why: "the new tip, whose header is rewritten by the truncation, is dropped from the full-block cache", Rule: "K9"})
	}
}

// dupTxDecision (C04, C03): a block is refused for carrying a known transaction exactly when that transaction sits in
// a trunk block at or below the height where the new block's branch leaves the trunk - the fork point after a trunk
// switch, the trunk height otherwise. Judged against the OLD trunk height, a reorganisation that re-includes a
// transaction of the abandoned branch (whose inputs are current again) is refused and the node stays on the short fork.
func dupTxDecision(c *q.Ctx, cb *ssa.Function) {
	old := "phi{local<InternalBlock>|newmap<map[string]*InternalBlock>[local<Transaction>.Blockid]}"
	dup1 := q.Cond{Canon: old + ".InTrunk", Sense: true}
	dup2 := q.Cond{Canon: "p1.InTrunk", Sense: true}
	dup3 := q.Cond{Canon: "(phi{ledger.(*Ledger).handleFork(*)#0.Height|proto.Clone(p0.meta).TrunkHeight} < " + old + ".Height)", Sense: false}
	c.Effect(cb, q.Eff{Spec: "Ledger.handleFork", Arg: 0, Glob: "*", Why: "anchor", Rule: "K6"})
	c.FieldStoreUnder(cb, "ConfirmStatus.Error", "g:ErrTxDuplicated", []q.Cond{dup1, dup2, dup3}, "a transaction already in a trunk block at or below the split height rejects the block (three conjuncts)")
}

// ledgerMetaStaging (C04, C06): the ledger meta that goes into the batch is serialised AFTER its last field was set -
// the in-memory copy is the same object and stays right, so a record marshalled early (new tip, old trunk height) shows
// only after a restart.
func ledgerMetaStaging(c *q.Ctx) {
	const led = "bcs/ledger/xledger/ledger::"
	marshalMeta := q.Target{Name: "the meta record is serialised (proto.Marshal of the cloned meta)", Instr: func(i ssa.Instruction) bool {
		ci, ok := i.(ssa.CallInstruction)
		return ok && q.Callee(ci.Common()).Match("proto::Marshal") && len(ci.Common().Args) == 1 && q.Canon(ci.Common().Args[0]) == "proto.Clone(p0.meta)"
	}}
	metaField := q.Target{Name: "a field of the cloned meta is set", Instr: func(i ssa.Instruction) bool {
		st, ok := i.(*ssa.Store)
		if !ok {
			return false
		}
		fa, ok := st.Addr.(*ssa.FieldAddr)
		return ok && strings.HasPrefix(q.TypeField(fa), "LedgerMeta.") && q.Canon(fa.X) == "proto.Clone(p0.meta)"
	}}
	for _, name := range []string{"Truncate", "ConfirmBlock"} {
		if f := c.Fn(led + "(*Ledger)." + name); f != nil {
			c.NeverAfter(f, marshalMeta, metaField, "what is persisted is the meta as it is published")
			c.Before(f, marshalMeta, q.ToCall("Batch.Write"), "the meta travels in the operation's batch")
		}
	}
}

// confirmedRowRemap (C04, C18): the confirmed-table row of a transaction names the TRUNK block that contains it: a
// block that carries an already-known transaction re-maps the row to itself only if it is in the trunk - a side-branch
// block that stole the row would make the snapshot walk date the write at the wrong height.
func confirmedRowRemap(c *q.Ctx, cb *ssa.Function) {
	keepTx := func(g q.Cond) bool {
		return strings.Contains(g.Canon, "InTrunk") || (strings.Contains(g.Canon, ".Height") && strings.Contains(g.Canon, " < "))
	}
	c.Effect(cb, q.Eff{Spec: "Batch.Put", Arg: 0, Glob: "append(\"C\",p1.Transactions[].Txid)", Req: []q.Cond{{Canon: "p1.InTrunk", Sense: true}, {Canon: "ledger.(*Ledger).parallelCheckTx(*)#0[p1.Transactions[].Txid]", Sense: true}}, Exact: true, Keep: keepTx, Why: "a trunk block that carries an already-known transaction re-maps it to itself, whatever the old block's flag says", Rule: "K5"})
	c.Effect(cb, q.Eff{Spec: "Batch.Put", Arg: 0, Glob: "append(\"C\",p1.Transactions[].Txid)", Req: []q.Cond{{Canon: "ledger.(*Ledger).parallelCheckTx(*)#0[p1.Transactions[].Txid]", Sense: false}}, Why: "a new transaction is recorded", Rule: "K6"})
}

// saveBlockRows (C04, C05): a saved block's header row and - iff it is in the trunk - its height-index row travel in
// the caller's batch (a height row written beside the batch survives a failed or crashed operation).
func saveBlockRows(c *q.Ctx) {
	const led = "bcs/ledger/xledger/ledger::"
	sb := c.Fn(led + "(*Ledger).saveBlock")
	if sb != nil {
		keep := func(g q.Cond) bool { return strings.Contains(g.Canon, "p1.") }
		c.Effect(sb, q.Eff{Spec: "Batch.Put", Arg: 0, Glob: "append(\"B\",p1.Blockid)", Exact: true, Keep: keep, Why: "header row always written", Rule: "K7"})
		c.Effect(sb, q.Eff{Spec: "Batch.Put", Arg: 0, Glob: "append(\"ZH\",fmt.Sprintf(\"%020d\",[p1.Height]))", Req: []q.Cond{{Canon: "p1.InTrunk", Sense: true}}, Exact: true, Keep: keep, Why: "height-index row iff the block is in trunk", Rule: "K7"})
		c.ArgIs(sb, "Batch.Put", -1, "p2", 2, "staged in the caller's batch")
	}
}

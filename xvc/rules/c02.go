package rules

import "xvc/q"

func init() {
	register("C02", c02, PropInfo{
		Explanation: "Structural necessary conditions of token conservation, decided on every CFG path of the current source: (K5/K1) in CheckInputEqualOutput the only nil exits are behind `inputSum.Cmp(outputSum)==0` or behind `inputSum==0 && tx.Coinbase`, with both sums accumulated from every output resp. from the STORED amount of every input, and the duplicate-input, amount-mismatch, frozen and storage-error tests each lead to rejecting exits only; (K2) doTxInternal reaches its first mutation only through the good edge of CheckInputEqualOutput unless the transaction is regulator-marked; (K3) the total supply is touched only by UpdateUtxoTotal, called only from doTxInternal (+, under tx.Coinbase) and undoTxInternal (-, under tx.Coinbase); (K5/K1) the award of a pushed block is compared with CalcAward(block.Height) and a mismatch rejects the block; producer and validator use the same CalcAward; (K4/K2) the pool's dependency graph links every pending consumer to every pending producer it cites (token and key inputs) and undoUnconfirmedTx rolls back the graph's children of a transaction before the transaction itself.",
		NotDecided:  "big-integer arithmetic, balance-cache bookkeeping, and that the sum over the UTXO table equals the reported total after any history (values over histories; not reachable by static analysis)",
		Assumptions: []string{"math/big Cmp/Add/SetBytes have their documented meaning", "a kvdb batch is applied atomically"},
	})
}

func c02(c *q.Ctx) {
	allK9Operations(c, ledgerK9(c))
	inBlockDistinct(c)
	utxoCacheRemove(c)
	poolReload(c)
	zeroOutputTest(c)
	const utxo = "bcs/ledger/xledger/state/utxo::"
	const st = "bcs/ledger/xledger/state::"
	inputChecks(c)
	if cb := c.Fn("bcs/ledger/xledger/ledger::(*Ledger).ConfirmBlock"); cb != nil {
		dupTxDecision(c, cb)
	}
	d := c.Fn(st + "(*State).doTxInternal")
	if d != nil {
		marked := []q.Cond{{Canon: "p1.ModifyBlock.Marked", Sense: true}}
		for _, tgt := range []q.Target{q.ToCall("XModel.DoTx"), q.ToCall("Batch.Delete"), q.ToCall("Batch.Put"), q.ToCall("UtxoVM.AddBalance"), q.ToCall("UtxoVM.SubBalance"), q.ToCall("UtxoVM.UpdateUtxoTotal")} {
			c.Gate(d, "UtxoVM.CheckInputEqualOutput", tgt, q.Opt{Unless: marked})
		}
		c.OnlyUnder(d, q.ToCall("UtxoVM.UpdateUtxoTotal"), []q.Cond{{Canon: "p1.Coinbase", Sense: true}}, "only coinbase outputs change the total supply")
		c.ArgIs(d, "UtxoVM.UpdateUtxoTotal", 1, "*SetBytes(p1.TxOutputs[].Amount)*", 1, "the total grows by the amount of the output that is created")
	}
	u := c.Fn(st + "(*State).undoTxInternal")
	if u != nil {
		c.OnlyUnder(u, q.ToCall("UtxoVM.UpdateUtxoTotal"), []q.Cond{{Canon: "p1.Coinbase", Sense: true}}, "only coinbase outputs change the total supply")
		c.ArgIs(u, "UtxoVM.UpdateUtxoTotal", 1, "*SetBytes(p1.TxOutputs[].Amount)*", 1, "the total shrinks by the amount of the output that is removed")
	}
	// the fee output is materialised for, and removed from, the proposer under the same key (a stale cache entry is a spendable phantom)
	feeInverse(c)
	feeEveryTx(c)
	// the rollback of a pending family walks the pool's dependency graph: a consumer that is not linked to its
	// pending producer stays applied when the producer is undone (its inputs reappear while its outputs remain)
	poolGraph(c)
	poolRollback(c)
	keyLockProtocol(c)
	// K3: who may change the total
	callers := c.WhoCalls("UtxoVM.UpdateUtxoTotal", map[string]string{
		st + "(*State).doTxInternal":   "play: + under tx.Coinbase",
		st + "(*State).undoTxInternal": "undo: - under tx.Coinbase",
	}, "total supply changes only when a coinbase output is created or removed")
	for name, sites := range callers {
		for _, ci := range sites {
			want := name == st+"(*State).doTxInternal"
			if len(ci.Common().Args) > 3 {
				b, ok := q.ConstBool(q.Strip(ci.Common().Args[3]))
				c.Check(ok && b == want, "K3", name, "UpdateUtxoTotal direction is the constant "+boolS(want), c.At(ci), "play adds, undo subtracts")
			}
		}
	}
	c.WhoWrites("UtxoVM.utxoTotal", map[string]string{
		utxo + "MakeUtxo":                  "loaded from the persisted total at open",
		utxo + "NewUtxo":                   "constructor",
		utxo + "(*UtxoVM).UpdateUtxoTotal": "the only mutator",
		utxo + "(*UtxoVM).ReloadTotal":     "re-read from the meta table after an operation failed before its batch was written",
	}, "the in-memory total has one mutator")
	reloadTotalRules(c)
	utxoTotalStaging(c)
	// award
	const led = "bcs/ledger/xledger/ledger::"
	iv := c.Fn(led + "(*Ledger).IsValidTx")
	if iv != nil {
		c.Guard(iv, q.Cond{Canon: "(0 == big.(*Int).Cmp(big.NewInt(0){SetBytes(p2.TxOutputs[0].Amount)},ledger.(*GenesisBlock).CalcAward(p0.GenesisBlock,p3.Height)))", Sense: false}, q.ToSuccess(), q.Opt{})
		c.Guard(iv, q.Cond{Canon: "(len(p2.TxOutputs) < 1)", Sense: true}, q.ToSuccess(), q.Opt{})
	}
	const miner = "kernel/engines/xuperos/miner::"
	pb := c.Fn(miner + "(*Miner).ProcBlock")
	if pb != nil {
		c.Gate(pb, "Ledger.IsValidTx", q.ToCall("Miner.trySyncBlock"), q.Opt{Unless: []q.Cond{{Canon: "(* < len(p2.Transactions))", Sense: false}}})
		c.ArgIs(pb, "Ledger.IsValidTx", 2, "p2.Transactions[]", 1, "every transaction of the received block is examined")
	}
	ga := c.Fn(miner + "(*Miner).getAwardTx")
	if ga != nil {
		c.ArgIs(ga, "GenerateAwardTx", 1, "big.(*Int).String(ledger.(*GenesisBlock).CalcAward(p0.ctx.Ledger.GenesisBlock,p1))", 1, "producer pays itself exactly CalcAward(height)")
	}
	pk := c.Fn(miner + "(*Miner).packBlock")
	if pk != nil {
		c.ArgIs(pk, "Miner.getAwardTx", 1, "p2", 1, "award computed for the height that is packed")
		c.ArgIs(pk, "Ledger.FormatMinerBlock", 12, "p2", 1, "block formatted at the same height")
	}
}

func boolS(b bool) string {
	if b {
		return "true"
	}
	return "false"
}

// inputChecks: what CheckInputEqualOutput decides per input and for the sums (shared by C02 and C03: conservation
// and "every token input is a currently unspent, unfrozen output").
func inputChecks(c *q.Ctx) {
	const utxo = "bcs/ledger/xledger/state/utxo::"
	f := c.Fn(utxo + "(*UtxoVM).CheckInputEqualOutput")
	if f != nil {
		coinbase := []q.Cond{{Canon: "p1.Coinbase", Sense: true}}
		// decisive comparison: sums equal, operands are the two accumulators
		c.Guard(f, q.Cond{Canon: "(0 == big.(*Int).Cmp(big.NewInt(0){Add(self,big.NewInt(0){SetBytes(*UtxoItem*Amount*)})},big.NewInt(0){Add(self,big.NewInt(0){SetBytes(p1.TxOutputs[].Amount)})}))", Sense: false}, q.ToSuccess(), q.Opt{Unless: coinbase})
		// coinbase arm: only with zero inputs
		c.Guard(f, q.Cond{Canon: "(0 == big.(*Int).Cmp(big.NewInt(0){Add(self,big.NewInt(0){SetBytes(*UtxoItem*Amount*)})},big.NewInt(0)))", Sense: false}, q.ToSuccess(), q.Opt{})
		c.Guard(f, q.Cond{Canon: "p1.Coinbase", Sense: false}, q.ToSuccess(), q.Opt{})
		// per-input checks
		c.MapDedup(f, "utxo.GenUtxoKey(p1.TxInputs[].FromAddr,p1.TxInputs[].RefTxid,p1.TxInputs[].RefOffset)", q.ToSuccess(), "an output cited twice by one transaction is rejected", "(#i < len(p1.TxInputs))")
		c.Guard(f, q.Cond{Canon: "bytes.Equal(*UtxoItem*Amount*,p1.TxInputs[].Amount)", Sense: false}, q.ToSuccess(), q.Opt{})
		// the freeze height tested is the one recorded for the cited output, whichever way it was found: the cache
		// entry's or the stored row's (a cache hit that hands on only the amount makes every cached output unfrozen)
		entry := "p0.UtxoCache.All[p1.TxInputs[].FromAddr][(\"U\" + utxo.GenUtxoKey(p1.TxInputs[].FromAddr,p1.TxInputs[].RefTxid,p1.TxInputs[].RefOffset))]"
		frozen := "phi{&" + entry + ".UtxoItem.FrozenHeight|0|local<UtxoItem>.FrozenHeight}"
		c.Guard(f, q.Cond{Canon: "(p0.ledger.meta.TrunkHeight < " + frozen + ")", Sense: true}, q.ToSuccess(), q.Opt{})
		c.Guard(f, q.Cond{Canon: "(-1 == " + frozen + ")", Sense: true}, q.ToSuccess(), q.Opt{})
		c.Gate(f, "Database.Get", q.ToSuccess(), q.Opt{K1Only: true})
		c.Gate(f, "UtxoItem.Loads", q.ToSuccess(), q.Opt{K1Only: true})
		// the amount that is compared and summed comes from the cache entry or the stored row of this very input
		c.ArgIs(f, "Database.Get", 0, "utxo.GenUtxoKey(p1.TxInputs[].FromAddr,p1.TxInputs[].RefTxid,p1.TxInputs[].RefOffset)", 1, "the stored row that is read is the cited output's")
	}
}

// zeroOutputTest (C02, C01): the only outputs that produce no unspent output are those whose amount IS zero - the
// decision compares the whole big integer with zero, in apply and in undo alike (a test on a truncation of the amount
// lets CheckInputEqualOutput count a value for which no output is ever created).
func zeroOutputTest(c *q.Ctx) {
	const st = "bcs/ledger/xledger/state::"
	zero := "(0 == big.(*Int).Cmp(big.NewInt(0){SetBytes(p1.TxOutputs[].Amount)},big.NewInt(0)))"
	for _, name := range []string{"doTxInternal", "undoTxInternal"} {
		f := c.Fn(st + "(*State)." + name)
		if f == nil {
			continue
		}
		c.CondCount(f, zero, 1, "an output is skipped exactly when its amount is zero")
	}
}

// reloadTotalRules (C02, C05): ClearCache takes the in-memory total back to what the meta table says.
func reloadTotalRules(c *q.Ctx) {
	const utxo = "bcs/ledger/xledger/state/utxo::"
	if rt := c.Fn(utxo + "(*UtxoVM).ReloadTotal"); rt != nil {
		c.StoreIs(rt, "UtxoVM.utxoTotal", "big.NewInt(0){SetBytes(i:Database.Get(p0.metaHandle.MetaTable,\"xtotal\")#0)} OR phi{big.NewInt(0)|big.NewInt(0){SetBytes(i:Database.Get(p0.metaHandle.MetaTable,\"xtotal\")#0)}}", 1, "what is re-installed is the persisted total (or zero when none was written yet)")
		// ... on every path except a real storage error: `not found` means nothing was ever committed, i.e. zero
		c.Then(rt, q.ToCall("kvdb::Database.Get"), q.ToFieldStore("UtxoVM.utxoTotal"), q.ToAnyReturn(), []q.Cond{{Canon: "(def.NormalizedKVError(i:Database.Get(p0.metaHandle.MetaTable,\"xtotal\")#1) == g:ErrKVNotFound)", Sense: false}}, "the in-memory total is re-installed unless the table cannot be read")
		c.WhoCalls("UtxoVM.ReloadTotal", map[string]string{"bcs/ledger/xledger/state::(*State).ClearCache": "cache invalidation after a failed operation"}, "the total is re-read only as part of invalidating the caches")
	}
}

// utxoTotalStaging (C02, C06): every change of the in-memory total is staged, as the in-memory value, in the batch of
// the block being played or undone - the total on disk after a crash is the total of the blocks on disk.
func utxoTotalStaging(c *q.Ctx) {
	const utxo = "bcs/ledger/xledger/state/utxo::"
	if up := c.Fn(utxo + "(*UtxoVM).UpdateUtxoTotal"); up != nil {
		c.ArgIs(up, "Batch.Put", 1, "*big.(*Int).Bytes(p0.utxoTotal)*", 1, "the persisted total is the in-memory total")
		c.Before(up, q.ToCall("Batch.Put"), q.ToReturn(), "every change of the in-memory total is staged in the caller's batch, in both directions")
		c.ArgIs(up, "Batch.Put", -1, "p2", 1, "staged in the batch of the block being played or undone")
		c.EffectExists(up, "Batch.Put", 0, "\"Mxtotal\"", nil, "the persisted total lives under the meta key NewState reloads")
		c.Guard(up, q.Cond{Canon: "p3", Sense: true}, q.ToCall("big::Int.Sub"), q.Opt{})
		c.Guard(up, q.Cond{Canon: "p3", Sense: false}, q.ToCall("big::Int.Add"), q.Opt{})
	}
}

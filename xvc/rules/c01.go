package rules

import (
	"strings"

	"xvc/q"
)

func init() {
	register("C01", c01, PropInfo{
		Explanation: "Structural necessary conditions of 'state is a pure function of the chain', decided on the current source: (K6) the effect multiset of doTxInternal (batch rows, cache entries, balances, total; each with its key provenance and the guard set under which it happens) is the exact inverse image of undoTxInternal's, likewise payFee/undoPayFee; XModel.UndoTx restores for every non-transient output the version cited in the transaction's own inputs and removes what updateExtUtxo wrote (ZU row, ZD row); (K10/K11) every block-level operation hands one batch to all its steps and moves the latest-block pointer in that same batch, to the parent id on undo and to the block's own id on play; (K2/K5) Walk rolls back the pool, computes the undo/todo lists from the current pointer, undoes before it replays, visits transactions newest-first on undo and blocks oldest-first on replay; (K3) State.latestBlockid has one mutator, after the batch write succeeded.",
		NotDecided:  "that the lowest-common-ancestor search returns the right blocks, numerical equality of restored amounts/versions, equality across restart, balance-cache arithmetic (values over histories)",
		Assumptions: []string{"kvdb.Batch.Write applies the batch atomically", "math/big semantics"},
	})
}

func keepTxGuards(g q.Cond) bool {
	s := g.Canon
	return !strings.Contains(s, "p0") && !strings.Contains(s, "len(") && !strings.Contains(s, "#1") && !strings.Contains(s, "#0") && strings.Contains(s, "p1.")
}

// utxoInverse (K6): doTxInternal <-> undoTxInternal are exact inverses on batch rows, UTXO cache, balances and
// total (shared by C01 and C03: a cache entry that survives an undo is an output admission believes unspent).
func utxoInverse(c *q.Ctx) {
	const st = "bcs/ledger/xledger/state::"
	const xm = "bcs/ledger/xledger/state/xmodel::"
	do := c.Fn(st + "(*State).doTxInternal")
	undo := c.Fn(st + "(*State).undoTxInternal")
	doSigs := []q.EffectSig{
		{Spec: "Batch.Delete", Kind: "row-", KeyArgs: []int{0}},
		{Spec: "Batch.Put", Kind: "row+", KeyArgs: []int{0}},
		{Spec: "UtxoCache.Remove", Kind: "cache-", KeyArgs: []int{0, 1}},
		{Spec: "UtxoCache.Insert", Kind: "cache+", KeyArgs: []int{0, 1}},
		{Spec: "UtxoVM.SubBalance", Kind: "bal-", KeyArgs: []int{0, 1}},
		{Spec: "UtxoVM.AddBalance", Kind: "bal+", KeyArgs: []int{0, 1}},
		{Spec: "UtxoVM.UpdateUtxoTotal", Kind: "total", KeyArgs: []int{0}, Const: map[int]string{2: "true"}},
	}
	undoSigs := []q.EffectSig{
		{Spec: "Batch.Put", Kind: "row-", KeyArgs: []int{0}},
		{Spec: "Batch.Delete", Kind: "row+", KeyArgs: []int{0}},
		{Spec: "UtxoCache.Insert", Kind: "cache-", KeyArgs: []int{0, 1}},
		{Spec: "UtxoCache.Remove", Kind: "cache+", KeyArgs: []int{0, 1}},
		{Spec: "UtxoVM.AddBalance", Kind: "bal-", KeyArgs: []int{0, 1}},
		{Spec: "UtxoVM.SubBalance", Kind: "bal+", KeyArgs: []int{0, 1}},
		{Spec: "UtxoVM.UpdateUtxoTotal", Kind: "total", KeyArgs: []int{0}, Const: map[int]string{2: "false"}},
	}
	c.Inverse(do, undo, doSigs, undoSigs, keepTxGuards, nil, nil, 7)
	if undo != nil {
		c.StoreIs(undo, "UtxoItem.FrozenHeight", "p1.TxInputs[].FrozenHeight", 1, "a restored output keeps the freeze height recorded in the spending input")
		c.StoreIs(undo, "UtxoItem.Amount", "big.NewInt(0){SetBytes(p1.TxInputs[].Amount)}", 1, "a restored output has the amount recorded in the spending input")
		c.Gate(undo, "XModel.UndoTx", q.ToSuccess(), q.Opt{})
	}
	if do != nil {
		c.StoreIs(do, "UtxoItem.FrozenHeight", "p1.TxOutputs[].FrozenHeight", 1, "a created output carries the transaction's freeze height")
		c.StoreIs(do, "UtxoItem.Amount", "big.NewInt(0){SetBytes(p1.TxOutputs[].Amount)}", 1, "a created output carries the transaction's amount")
		c.Gate(do, "XModel.DoTx", q.ToSuccess(), q.Opt{})
	}
}

// xmodelDoUndo (K6): updateExtUtxo <-> XModel.UndoTx on the live (ZU) and recycle (ZD) tables (shared by C01 and
// C18: the snapshot walk starts from what these tables say).
func xmodelDoUndo(c *q.Ctx) {
	const xm = "bcs/ledger/xledger/state/xmodel::"
	up := c.Fn(xm + "(*XModel).updateExtUtxo")
	un := c.Fn(xm + "(*XModel).UndoTx")
	zu := "append(\"ZU\",xmodel.makeRawKey(p1.TxOutputsExt[].Bucket,p1.TxOutputsExt[].Key))"
	zd := "append(\"ZD\",xmodel.makeRawKey(p1.TxOutputsExt[].Bucket,p1.TxOutputsExt[].Key))"
	notTransient := q.Cond{Canon: "(\"$transient\" == p1.TxOutputsExt[].Bucket)", Sense: false}
	isDelOut := q.Cond{Canon: "xmodel.isDelFlag(p1.TxOutputsExt[].Value)", Sense: true}
	notDelOut := q.Cond{Canon: "xmodel.isDelFlag(p1.TxOutputsExt[].Value)", Sense: false}
	ver := "xmodel.MakeVersion(p1.Txid,#i)"
	if up != nil {
		c.EffectExists(up, "Batch.Put", 0, zu, []q.Cond{notTransient, notDelOut}, "a written key points at this transaction's version")
		c.EffectExists(up, "Batch.Put", 1, ver, []q.Cond{notTransient, notDelOut}, "the version is txid_offset of the output")
		c.EffectExists(up, "Batch.Delete", 0, zu, []q.Cond{notTransient, isDelOut}, "a deleted key leaves the live table")
		c.EffectExists(up, "Batch.Put", 0, zd, []q.Cond{notTransient, isDelOut}, "and is recorded in the recycle table with the deleting version")
		// every batch effect is outside the transient bucket
		c.OnlyUnder(up, q.ToCall("Batch.Put"), []q.Cond{notTransient}, "the transient bucket is never persisted")
		c.OnlyUnder(up, q.ToCall("Batch.Delete"), []q.Cond{notTransient}, "the transient bucket is never persisted")
	}
	if un != nil {
		noPrev := q.Cond{Canon: "(\"\" == newmap<map[string]string>[xmodel.makeRawKey(p1.TxOutputsExt[].Bucket,p1.TxOutputsExt[].Key)])", Sense: true}
		hasPrev := q.Cond{Canon: noPrev.Canon, Sense: false}
		prevDel := q.Cond{Canon: "xmodel.isDelFlag(xmodel.(*XModel).fetchVersionedData(*)#0.PureData.Value)", Sense: true}
		prevLive := q.Cond{Canon: prevDel.Canon, Sense: false}
		prevVer := "newmap<map[string]string>[xmodel.makeRawKey(p1.TxOutputsExt[].Bucket,p1.TxOutputsExt[].Key)]"
		c.EffectExists(un, "Batch.Delete", 0, zu, []q.Cond{notTransient, noPrev}, "a key created by the transaction disappears from the live table")
		c.EffectExists(un, "Batch.Delete", 0, zd, []q.Cond{notTransient, noPrev, isDelOut}, "a delete marker written for a key that never existed is removed from the recycle table as well")
		c.EffectExists(un, "Batch.Put", 0, zu, []q.Cond{notTransient, hasPrev, prevLive}, "the live table points back at the version cited in the transaction's inputs")
		c.EffectExists(un, "Batch.Put", 1, prevVer, []q.Cond{notTransient, hasPrev, prevLive}, "restored version is the one cited by the transaction's own input for the same bucket/key")
		c.EffectExists(un, "Batch.Delete", 0, zd, []q.Cond{notTransient, hasPrev, prevLive, isDelOut}, "the recycle row written by a deleting transaction is removed")
		c.EffectExists(un, "Batch.Put", 0, zd, []q.Cond{notTransient, hasPrev, prevDel}, "a previously deleted key returns to the recycle table")
		c.EffectExists(un, "Batch.Delete", 0, zu, []q.Cond{notTransient, hasPrev, prevDel}, "and leaves the live table")
		c.OnlyUnder(un, q.ToCall("Batch.Put"), []q.Cond{notTransient}, "the transient bucket is never persisted")
		c.OnlyUnder(un, q.ToCall("Batch.Delete"), []q.Cond{notTransient}, "the transient bucket is never persisted")
		c.Gate(un, "XModel.fetchVersionedData", q.ToSuccess(), q.Opt{K1Only: true})
	}

}

func c01(c *q.Ctx) {
	zeroOutputTest(c)
	poolConflictScan(c)
	poolReload(c)
	const st = "bcs/ledger/xledger/state::"
	utxoInverse(c)
	feeInverse(c)
	feeEveryTx(c)
	xmodelDoUndo(c)
	metaKeysAgree(c)
	allK9Operations(c, ledgerK9(c))
	poolGraph(c)
	poolRollback(c)

	walkStepOrder(c)
	pr := c.Fn(st + "(*State).PlayAndRepost")
	if pr != nil {
		bvpr := c.SameValueArgs(pr, map[string]int{"State.processUnconfirmTxs": 2, "State.doTxInternal": 2, "State.payFee": 2, "Meta.UpdateNextIrreversibleBlockHeight": 4, "State.updateLatestBlockid": 2}, "one batch per played block", "play of a block is atomic")
		c.NoUseAfter(pr, bvpr, "State.updateLatestBlockid", "updateLatestBlockid writes the batch; a step staged afterwards is never persisted")
		c.ArgIs(pr, "State.updateLatestBlockid", 1, "*QueryBlock(*,p1)#0.Blockid", 1, "pointer names the played block")
		c.Gate(pr, "State.doTxInternal", q.ToCall("State.updateLatestBlockid"), q.Opt{K1Only: true})
		c.Gate(pr, "State.processUnconfirmTxs", q.ToCall("State.updateLatestBlockid"), q.Opt{})
		c.Gate(pr, "State.updateLatestBlockid", q.ToSuccess(), q.Opt{})
	}
	pm := c.Fn(st + "(*State).PlayForMiner")
	if pm != nil {
		bvpm := c.SameValueArgs(pm, map[string]int{"State.doTxInternal": 2, "State.payFee": 2, "Meta.UpdateNextIrreversibleBlockHeight": 4, "State.updateLatestBlockid": 2}, "one batch per produced block", "play of a block is atomic")
		c.NoUseAfter(pm, bvpm, "State.updateLatestBlockid", "updateLatestBlockid writes the batch; a step staged afterwards is never persisted")
		c.ArgIs(pm, "State.updateLatestBlockid", 1, "*QueryBlock(*,p1)#0.Blockid", 1, "pointer names the played block")
		c.Guard(pm, q.Cond{Canon: "bytes.Equal(*QueryBlock(*,p1)#0.PreHash,p0.latestBlockid)", Sense: false}, q.ToCall("State.updateLatestBlockid"), q.Opt{})
		c.Gate(pm, "State.doTxInternal", q.ToCall("State.updateLatestBlockid"), q.Opt{K1Only: true})
		c.Gate(pm, "State.updateLatestBlockid", q.ToSuccess(), q.Opt{})
	}
	pu := c.Fn(st + "(*State).processUnconfirmTxs")
	if pu != nil {
		c.Guard(pu, q.Cond{Canon: "bytes.Equal(p1.PreHash,p0.latestBlockid)", Sense: false}, q.ToSuccess(), q.Opt{})
	}
	ul := c.Fn(st + "(*State).updateLatestBlockid")
	if ul != nil {
		c.EffectExists(ul, "Batch.Put", 0, "\"Mpointer\"", nil, "the pointer row is staged in the caller's batch")
		c.ArgIs(ul, "Batch.Put", 1, "p1", 1, "the persisted pointer is the new block id")
		c.ArgIs(ul, "Batch.Put", -1, "p2", 1, "staged in the caller's batch")
		c.ArgIs(ul, "Batch.Write", -1, "p2", 1, "the caller's batch is the one written")
		c.Gate(ul, "Batch.Write", q.ToFieldStore("State.latestBlockid"), q.Opt{})
		c.Gate(ul, "Batch.Write", q.ToSuccess(), q.Opt{})
		c.StoreIs(ul, "State.latestBlockid", "p1", 1, "the in-memory pointer equals the persisted one")
		c.Before(ul, q.ToCall("Batch.Put"), q.ToCall("Batch.Write"), "pointer staged before the batch is written")
	}
	c.WhoWrites("State.latestBlockid", map[string]string{
		st + "NewState":                     "loaded from the persisted pointer at open",
		st + "(*State).updateLatestBlockid": "the only mutator, after Write()==nil",
	}, "the latest-block pointer has one mutator")

	if up := c.Fn("bcs/ledger/xledger/state/utxo::(*UtxoVM).UpdateUtxoTotal"); up != nil {
		c.Before(up, q.ToCall("Batch.Put"), q.ToReturn(), "undoing a coinbase persists the lowered total exactly like playing one persists the raised total")
	}

	// ---- Walk shape
	wk := c.Fn(st + "(*State).Walk")
	if wk != nil {
		c.Gate(wk, "State.RollBackUnconfirmedTx", q.ToCall("FindUndoAndTodoBlocks"), q.Opt{})
		c.Gate(wk, "FindUndoAndTodoBlocks", q.ToCall("State.procUndoBlkForWalk"), q.Opt{})
		c.Gate(wk, "State.procUndoBlkForWalk", q.ToCall("State.procTodoBlkForWalk"), q.Opt{})
		c.Gate(wk, "State.procTodoBlkForWalk", q.ToSuccess(), q.Opt{})
		c.ArgIs(wk, "FindUndoAndTodoBlocks", 1, "p0.latestBlockid", 1, "the undo path starts at the block the state is at")
		c.ArgIs(wk, "FindUndoAndTodoBlocks", 2, "p1", 1, "and ends at the destination")
		c.ArgIs(wk, "State.procUndoBlkForWalk", 1, "*FindUndoAndTodoBlocks(*)#0", 1, "undo list from the ledger")
		c.ArgIs(wk, "State.procUndoBlkForWalk", 2, "*RollBackUnconfirmedTx(p0)#0", 1, "transactions already undone with the pool are not undone twice")
		c.ArgIs(wk, "State.procTodoBlkForWalk", 1, "*FindUndoAndTodoBlocks(*)#1", 1, "todo list from the ledger")
	}
}

// feeEveryTx: on the three play paths the fee of EVERY transaction of the block is materialised (and on the
// undo path removed) - no class of transaction is skipped, so producer, validator and replayer agree
// (shared by C01, C02 and C13).
func feeEveryTx(c *q.Ctx) {
	const st = "bcs/ledger/xledger/state::"
	class := func(g q.Cond) bool {
		return strings.Contains(g.Canon, "Coinbase") || strings.Contains(g.Canon, "Autogen") || strings.Contains(g.Canon, "unconfirm") || strings.Contains(g.Canon, "processUnconfirmTxs(") && strings.Contains(g.Canon, "[")
	}
	for fn, tx := range map[string]string{
		st + "(*State).PlayForMiner":       "*QueryBlock(*,p1)#0.Transactions[]",
		st + "(*State).PlayAndRepost":      "*QueryBlock(*,p1)#0.Transactions[]",
		st + "(*State).procTodoBlkForWalk": "p1[#down].Transactions[]",
	} {
		if f := c.Fn(fn); f != nil {
			c.Effect(f, q.Eff{Spec: "State.payFee", Arg: 0, Glob: tx, Exact: true, Keep: class, Why: "the fee of every transaction of the block is paid to the proposer, whatever its class", Rule: "K7"})
		}
	}
	// path based, over the classes a play path may branch on (disjunctions and early continues included)
	for fn, blk := range map[string]string{
		st + "(*State).PlayForMiner":       "ledger.(*Ledger).QueryBlock(p0.sctx.Ledger,p1)#0",
		st + "(*State).PlayAndRepost":      "ledger.(*Ledger).QueryBlock(p0.sctx.Ledger,p1)#0",
		st + "(*State).procTodoBlkForWalk": "p1[#down]",
	} {
		if f := c.Fn(fn); f != nil {
			c.EveryClass(f, []string{blk + ".Transactions[].Coinbase", blk + ".Transactions[].Autogen"}, []string{"coinbase", "autogen"}, "State.payFee", "(#i < len("+blk+".Transactions))", "the fee of every transaction of the block is paid, whatever its class")
		}
	}
	if f := c.Fn(st + "(*State).procUndoBlkForWalk"); f != nil {
		c.Effect(f, q.Eff{Spec: "State.undoPayFee", Arg: 0, Glob: "p1[].Transactions[#down]", Exact: true, Keep: class, Why: "and taken back for every transaction of an undone block", Rule: "K7"})
	}
}

// feeInverse: payFee <-> undoPayFee are exact inverses, keyed by the block proposer (shared by C01 and C02).
func feeInverse(c *q.Ctx) {
	const st = "bcs/ledger/xledger/state::"
	// fee outputs: payFee <-> undoPayFee, keyed by the block proposer
	pf := c.Fn(st + "(*State).payFee")
	upf := c.Fn(st + "(*State).undoPayFee")
	keepFee := func(g q.Cond) bool {
		return !strings.Contains(g.Canon, "len(") && !strings.Contains(g.Canon, "#1") && strings.Contains(g.Canon, "p1.")
	}
	c.Inverse(pf, upf,
		[]q.EffectSig{{Spec: "Batch.Put", Kind: "row+", KeyArgs: []int{0}}, {Spec: "UtxoCache.Insert", Kind: "cache+", KeyArgs: []int{0, 1}}, {Spec: "UtxoVM.AddBalance", Kind: "bal+", KeyArgs: []int{0, 1}}},
		[]q.EffectSig{{Spec: "Batch.Delete", Kind: "row+", KeyArgs: []int{0}}, {Spec: "UtxoCache.Remove", Kind: "cache+", KeyArgs: []int{0, 1}}, {Spec: "UtxoVM.SubBalance", Kind: "bal+", KeyArgs: []int{0, 1}}},
		keepFee, nil, nil, 3)
	if pf != nil {
		c.EffectExists(pf, "Batch.Put", 0, "utxo.GenUtxoKeyWithPrefix(p3.Proposer,p1.Txid,#i)", []q.Cond{{Canon: "bytes.Equal(p1.TxOutputs[].ToAddr,\"$\")", Sense: true}}, "the fee output is materialised for the block proposer under the transaction's own id and offset")
		c.StoreIs(pf, "UtxoItem.Amount", "big.NewInt(0){SetBytes(p1.TxOutputs[].Amount)}", 1, "fee output amount is the placeholder output's amount")
	}

}

// walkStepOrder (C01, C03, C02): the two halves of Walk - a block is undone newest transaction first and replayed in
// block order, each with its fee, into one batch that also carries the pointer (an undo in block order re-creates the
// outputs of a transaction whose in-block spender is undone after it).
func walkStepOrder(c *q.Ctx) {
	const st = "bcs/ledger/xledger/state::"
	// ---- block-level operations: one batch per block that also moves the pointer
	ub := c.Fn(st + "(*State).procUndoBlkForWalk")
	if ub != nil {
		bvub := c.SameValueArgs(ub, map[string]int{"State.undoTxInternal": 2, "State.undoPayFee": 2, "Meta.UpdateNextIrreversibleBlockHeightForPrune": 4, "State.updateLatestBlockid": 2}, "one batch per undone block, shared by every step and by the pointer update", "undo of a block is atomic")
		c.NoUseAfter(ub, bvub, "State.updateLatestBlockid", "updateLatestBlockid writes the batch; a step staged afterwards is never persisted")
		c.ArgIs(ub, "State.updateLatestBlockid", 1, "p1[].PreHash", 1, "after undoing a block the pointer names its parent")
		c.ArgIs(ub, "State.undoTxInternal", 1, "p1[].Transactions[#down]", 1, "transactions of a block are undone newest first")
		c.ArgIs(ub, "State.undoPayFee", 1, "p1[].Transactions[#down]", 1, "fees are undone for the same transaction")
		c.ArgIs(ub, "State.undoPayFee", 3, "p1[]", 1, "fee owner is the undone block's proposer")
		c.Gate(ub, "State.undoTxInternal", q.ToSuccess(), q.Opt{K1Only: true})
		c.Gate(ub, "State.undoPayFee", q.ToSuccess(), q.Opt{K1Only: true})
		c.Gate(ub, "State.updateLatestBlockid", q.ToSuccess(), q.Opt{K1Only: true})
		// a transaction is skipped only when the pool rollback already undid it
		c.OnlyUnder(ub, q.ToCall("State.undoTxInternal"), []q.Cond{{Canon: "p2[p1[].Transactions[#down].Txid]", Sense: false}}, "skipped only if already undone with the pool")
	}
	tb := c.Fn(st + "(*State).procTodoBlkForWalk")
	if tb != nil {
		bvtb := c.SameValueArgs(tb, map[string]int{"State.doTxInternal": 2, "State.payFee": 2, "Meta.UpdateNextIrreversibleBlockHeight": 4, "State.updateLatestBlockid": 2}, "one batch per replayed block, shared by every step and by the pointer update", "play of a block is atomic")
		c.NoUseAfter(tb, bvtb, "State.updateLatestBlockid", "updateLatestBlockid writes the batch; a step staged afterwards is never persisted")
		c.ArgIs(tb, "State.updateLatestBlockid", 1, "p1[#down].Blockid", 1, "the todo list is tip-first: blocks are replayed oldest first and the pointer names the block just played")
		c.ArgIs(tb, "State.doTxInternal", 1, "p1[#down].Transactions[]", 1, "every transaction of the block, in block order")
		c.ArgIs(tb, "State.payFee", 1, "p1[#down].Transactions[]", 1, "fee for the same transaction")
		c.ArgIs(tb, "State.payFee", 3, "p1[#down]", 1, "fee owner is the played block's proposer")
		c.Gate(tb, "State.doTxInternal", q.ToCall("State.updateLatestBlockid"), q.Opt{K1Only: true})
		c.Gate(tb, "State.payFee", q.ToCall("State.updateLatestBlockid"), q.Opt{K1Only: true})
		c.Gate(tb, "State.updateLatestBlockid", q.ToSuccess(), q.Opt{K1Only: true})
	}
}

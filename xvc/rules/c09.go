package rules

import (
	ssa "xvc/xssa"

	"sort"
	"strings"

	"xvc/q"
)

func init() {
	register("C09", c09, PropInfo{
		Explanation: "Structural necessary conditions of 'pre-executed = verified = committed': (K11) verifyTxRWSets builds its sandbox from XMReaderFromRWSet over the read set GenRWSetFromTx derived from the transaction's own declared inputs (each checked against the current version), and from a UTXO reader over the transaction's declared contract inputs - never from the live model; (K1/K2) `true` is reached only through Flush()==nil and xmodel.Equal(declared write set, re-executed write set); out-of-gas, NewContext and Invoke errors reject; a transaction without contract requests must not carry read or write sets; reserved requests are verified; (K7) PreExec and verifyTxRWSets configure the contract context with the same field set and both flush before reading the RW set; (K5) xmodel.Equal compares both sets element-wise after sorting, of equal length; (K13, shared with C07) every class of block transaction whose write set is applied passed verifyTxRWSets / verifyAutoTxRWSets; the contract-originated UTXO reader consumes each declared input once.",
		NotDecided:  "agreement of the three execution paths for arbitrary programs (behaviour of the contract VM), exactness of gas accounting",
		Assumptions: []string{"contract.Manager/Context implementations behave as their interfaces state"},
	})
}

func c09(c *q.Ctx) {
	const st = "bcs/ledger/xledger/state::"
	const xm = "bcs/ledger/xledger/state/xmodel::"
	const sb = "kernel/contract/sandbox::"
	vt := c.Fn(st + "(*State).verifyTxRWSets")
	if vt != nil {
		noReq := []q.Cond{{Canon: "(nil == p1.ContractRequests)", Sense: true}}
		white := []q.Cond{{Canon: "state.(*State).VerifyReservedWhitelist(p0,p1)", Sense: true}}
		alt := append(append([]q.Cond{}, noReq...), white...)
		// a transaction without requests carries no read/write sets
		c.Guard(vt, q.Cond{Canon: "(nil == p1.TxInputsExt)", Sense: false}, q.ToSuccess(), q.Opt{})
		c.Guard(vt, q.Cond{Canon: "(nil == p1.TxOutputsExt)", Sense: false}, q.ToSuccess(), q.Opt{})
		c.Effect(vt, q.Eff{Spec: "State.GenRWSetFromTx", Arg: 0, Glob: "p1", Req: []q.Cond{{Canon: "(nil == p1.ContractRequests)", Sense: false}}, Why: "read/write sets are only accepted together with contract requests that reproduce them", Rule: "K2"})
		// provenance of the verification sandbox
		c.StoreIs(vt, "RWSet.RSet", "state.(*State).GenRWSetFromTx(p0,p1)#0", 1, "the reader sees the transaction's declared reads only")
		c.StoreIs(vt, "RWSet.WSet", "state.(*State).GenRWSetFromTx(p0,p1)#1", 1, "")
		c.StoreIs(vt, "SandboxConfig.XMReader", "sandbox.XMReaderFromRWSet(local<RWSet>)", 1, "verification never reads the live model")
		c.StoreIs(vt, "SandboxConfig.UTXOReader", "sandbox.NewUTXOReaderFromInput(xmodel.ParseContractUtxoInputs(p1)#0)", 1, "contract transfers select from the declared contract inputs only")
		c.StoreIs(vt, "ContextConfig.State", "i:Manager.NewStateSandbox(p0.sctx.ContractMgr,local<SandboxConfig>)#0", 1, "requests run in the verification sandbox")
		c.StoreIs(vt, "ContextConfig.Initiator", "p1.Initiator", 1, "as the transaction's initiator")
		c.StoreIs(vt, "ContextConfig.AuthRequire", "p1.AuthRequire", 1, "with the transaction's signer list")
		c.StoreIs(vt, "ContextConfig.ResourceLimits", "contract.FromPbLimits(*p1.ContractRequests[]*)", 1, "under the limits the transaction declares (and pays for)")
		c.StoreIs(vt, "ContextConfig.ContractName", "*p1.ContractRequests[]*", 1, "the declared contract")
		c.ArgIs(vt, "Context.Invoke", 0, "p1.ContractRequests[].MethodName", 1, "the declared method")
		c.ArgIs(vt, "Context.Invoke", 1, "p1.ContractRequests[].Args", 1, "with the declared arguments")
		// verdicts
		for _, g := range []string{"StateSandbox.Flush", "State.GenRWSetFromTx", "Manager.NewStateSandbox", "state::getGasLimitFromTx", "xmodel::ParseContractUtxoInputs", "State.GetReservedContractRequests", "tx::ParseContractTransferRequest"} {
			c.Gate(vt, g, q.ToSuccess(), q.Opt{Unless: alt})
		}
		c.Gate(vt, "Context.Invoke", q.ToSuccess(), q.Opt{K1Only: true})
		c.Guard(vt, q.Cond{Canon: "state.(*State).VerifyReservedContractRequests(p0,state.(*State).GetReservedContractRequests(p0,p1.ContractRequests,false)#0,p1.ContractRequests)", Sense: false}, q.ToSuccess(), q.Opt{Unless: white})
		c.Guard(vt, q.Cond{Canon: "xmodel.Equal(state.(*State).GenRWSetFromTx(p0,p1)#1,i:StateSandbox.RWSet(i:Manager.NewStateSandbox(p0.sctx.ContractMgr,local<SandboxConfig>)#0).WSet)", Sense: false}, q.ToSuccess(), q.Opt{})
		c.Before(vt, q.ToCall("StateSandbox.Flush"), q.ToCall("StateSandbox.RWSet"), "the write set is read after the sandbox was flushed")
		c.Guard(vt, q.Cond{Canon: "(phi{*getGasLimitFromTx(p1)#0*} < 0)", Sense: true}, q.ToSuccess(), q.Opt{})
		c.Effect(vt, q.Eff{Spec: "Limits.TotalGas", Arg: 0, Glob: "*", Req: []q.Cond{{Canon: "(#i < len(state.(*State).GetReservedContractRequests(p0,p1.ContractRequests,false)#0))", Sense: false}}, Why: "every non-reserved request is charged against the gas the transaction pays", Rule: "K2"})
		// success exits: whitelist, no-request, or full re-execution
		c.Gate(vt, "xmodel::Equal", q.ToSuccess(), q.Opt{Unless: alt})
	}
	// "rejected if it pays for less than the execution uses": the one comparison of used against declared resources
	// answers `not exceeded` only after each of the four resource types was compared - a limit of zero is a limit
	if ex := c.Fn("kernel/contract::(Limits).Exceed"); ex != nil && c.Normalised("K2", "kernel/contract::(Limits).Exceed", "every resource type is compared with its limit") {
		notTrue := q.Target{Name: "an exit that may answer `not exceeded`", Instr: func(i ssa.Instruction) bool {
			r, ok := i.(*ssa.Return)
			if !ok || len(r.Results) != 1 {
				return false
			}
			b, isConst := q.ConstBool(q.Strip(r.Results[0]))
			return !(isConst && b)
		}}
		for _, f := range []string{"Cpu", "Memory", "Disk"} {
			cmp := q.Cond{Canon: "(p1." + f + " < p0." + f + ")", Sense: false}
			c.OnlyUnder(ex, notTrue, []q.Cond{cmp}, "every resource type is compared with its limit")
			c.EdgeReturns(ex, q.Cond{Canon: cmp.Canon, Sense: true}, 0, "true", "use above the limit answers `exceeded`")
		}
		c.ReturnIs(ex, 0, []string{"true", "(p1.XFee < p0.XFee)"}, "the last type's comparison is the verdict itself")
	}
	// the declared reads are compared with the current versions once more under the key locks, at commit
	commitVersionChecks(c)
	blockVerifyFirstError(c)
	lockKeyExtraction(c)
	scanComposition(c)
	// K7 PreExec / verifyTxRWSets agree
	pe := c.Fn("kernel/engines/xuperos::(*Chain).PreExec")
	if pe != nil && vt != nil {
		a := q.FieldsStored(pe, "ContextConfig")
		b := q.FieldsStored(vt, "ContextConfig")
		var names []string
		for n := range a {
			names = append(names, n)
		}
		for n := range b {
			if _, ok := a[n]; !ok {
				names = append(names, n)
			}
		}
		sort.Strings(names)
		for _, n := range names {
			_, ia := a[n]
			ib, okb := b[n]
			site := "-"
			if okb {
				site = c.At(ib)
			}
			c.Check(ia && okb, "K7", st+"(*State).verifyTxRWSets", "ContextConfig."+n+" is configured by both PreExec and verification", site, "the two executions must run under the same context")
		}
		c.Floor("K7", st+"(*State).verifyTxRWSets", "ContextConfig fields", len(names), 7)
		c.Before(pe, q.ToCall("StateSandbox.Flush"), q.ToCall("StateSandbox.RWSet"), "the returned sets are read after the sandbox was flushed")
		c.Gate(pe, "StateSandbox.Flush", q.ToSuccess(), q.Opt{K1Only: true})
		c.Gate(pe, "Context.Invoke", q.ToSuccess(), q.Opt{K1Only: true})
		c.ArgIs(pe, "xmodel::GetTxInputs", 0, "i:StateSandbox.RWSet(*).RSet", 1, "returned inputs are the sandbox's read set")
		c.ArgIs(pe, "xmodel::GetTxOutputs", 0, "i:StateSandbox.RWSet(*).WSet", 1, "returned outputs are the sandbox's write set")
	}
	gr := c.Fn(st + "(*State).GenRWSetFromTx")
	if gr != nil {
		c.Guard(gr, q.Cond{Canon: "(state.GetVersion(p1.TxInputsExt[]) == xmodel.GetVersion(*))", Sense: false}, q.ToSuccess(), q.Opt{})
		c.Gate(gr, "XModel.Get|XModel.GetFromLedger", q.ToSuccess(), q.Opt{K1Only: true, Min: 2})
		c.Effect(gr, q.Eff{Spec: "XModel.Get", Arg: 1, Glob: "p1.TxInputsExt[].Key", Req: []q.Cond{{Canon: "(0 == len(p1.Blockid))", Sense: true}}, Why: "a pool transaction's reads are checked against the current state", Rule: "K2"})
		c.Effect(gr, q.Eff{Spec: "append", Arg: 1, Glob: "[phi{xmodel.(*XModel).Get(*)#0|xmodel.(*XModel).GetFromLedger(*)#0}]", Why: "the read set holds exactly the values that were version-checked", Rule: "K11"})
		c.Effect(gr, q.Eff{Spec: "append", Arg: 0, Glob: "*", Req: []q.Cond{{Canon: "(#i < len(p1.TxOutputsExt))", Sense: true}}, Why: "the declared write set is every output, in order", Rule: "K11"})
	}
	eq := c.Fn(xm + "Equal")
	if eq != nil {
		c.Guard(eq, q.Cond{Canon: "(len(p0) == len(p1))", Sense: false}, q.ToSuccess(), q.Opt{})
		c.Effect(eq, q.Eff{Spec: "sort::Sort", Arg: 0, Glob: "*", Why: "both sets are compared in a canonical order", Rule: "K5"})
		c.Check(len(q.CallsIn(eq, "sort::Sort")) == 2, "K5", xm+"Equal", "both operands are sorted", "-", "")
		c.Gate(eq, "xmodel::IsPureDataEqual|xmodel::equal|bytes::Equal", q.ToSuccess(), q.Opt{K1Only: true, Waypoint: true})
	}
	// timer transactions
	ia := c.Fn(st + "(*State).ImmediateVerifyAutoTx")
	if ia != nil {
		beta := []q.Cond{{Canon: "(0 < p2.Version)", Sense: false}}
		c.Gate(ia, "State.verifyAutoTxRWSets", q.ToSuccess(), q.Opt{Unless: beta})
		c.Gate(ia, "State.GetTimerTx", q.ToSuccess(), q.Opt{UsePtr: true})
		c.ArgIs(ia, "State.verifyAutoTxRWSets", 1, "p2", 1, "the block's timer transaction")
		c.ArgIs(ia, "State.verifyAutoTxRWSets", 2, "state.(*State).GetTimerTx(p0,p1)#0", 1, "is compared with the one this node generates for the block's height")
		c.Guard(ia, q.Cond{Canon: "(0 == bytes.Compare(p2.Txid,txhash.MakeTransactionID(p2)#0))", Sense: false}, q.ToSuccess(), q.Opt{})
	}
	va := c.Fn(st + "(*State).verifyAutoTxRWSets")
	if va != nil {
		c.Guard(va, q.Cond{Canon: "(0 == bytes.Compare(json.Marshal(p1.TxInputsExt)#0,json.Marshal(p2.TxInputsExt)#0))", Sense: false}, q.ToSuccess(), q.Opt{})
		c.Guard(va, q.Cond{Canon: "(0 == bytes.Compare(json.Marshal(p1.TxOutputsExt)#0,json.Marshal(p2.TxOutputsExt)#0))", Sense: false}, q.ToSuccess(), q.Opt{})
	}
	vc := c.Fn(st + "(*State).verifyContractTxAmount")
	if vc != nil {
		c.Guard(vc, q.Cond{Canon: "(0 == big.(*Int).Cmp(*,tx.ParseContractTransferRequest(p1.ContractRequests)#1))", Sense: false}, q.ToSuccess(), q.Opt{})
		c.Gate(vc, "tx::ParseContractTransferRequest", q.ToSuccess(), q.Opt{})
	}
	// commit writes exactly TxOutputsExt minus the transient bucket (with C01/C03)
	up := c.Fn(xm + "(*XModel).updateExtUtxo")
	if up != nil {
		notTransient := q.Cond{Canon: "(\"$transient\" == p1.TxOutputsExt[].Bucket)", Sense: false}
		c.OnlyUnder(up, q.ToCall("Batch.Put"), []q.Cond{notTransient}, "the transient bucket is never persisted")
		keep := func(g q.Cond) bool { return strings.Contains(g.Canon, "p1.") && !strings.Contains(g.Canon, "len(") }
		c.Effect(up, q.Eff{Spec: "XModel.bucketCacheStore", Arg: 0, Glob: "p1.TxOutputsExt[].Bucket", Req: []q.Cond{notTransient}, Exact: true, Keep: keep, Why: "the committed value of every written key is the transaction's output", Rule: "K2"})
	}
	utxoReaderRules(c)
}

// utxoReaderRules: the replay UTXO reader (shared by C09 and C10).
func utxoReaderRules(c *q.Ctx) {
	const sb = "kernel/contract/sandbox::"
	// replay UTXO reader: each declared input is consumed once, selection stops when the amount is covered
	su := c.Fn(sb + "(*UTXOReader).SelectUtxo")
	if su != nil {
		c.CondCount(su, "(big.(*Int).Cmp(big.NewInt(0){Add(self,big.NewInt(0){SetBytes(p0.inputCache[].Amount)})},p2) < 0)", 2, "selection continues while, and fails if, the selected sum is below the requested amount: it stops as soon as the amount is covered exactly")
		c.Guard(su, q.Cond{Canon: "bytes.Equal(p0.inputCache[].FromAddr,p1)", Sense: false}, q.ToSuccess(), q.Opt{})
		c.CondCount(su, "(#i < len(p0.inputCache[p0.inputIdx:]))", 1, "the scan visits the declared inputs from the cursor onwards")
		c.ReturnIs(su, 0, []string{"nil", "p0.inputCache[p0.inputIdx:][:*]"}, "what is handed out is the prefix of the not yet consumed inputs that was scanned")
		c.FieldStoreAny(su, "UTXOReader.inputIdx", "(p0.inputIdx + *)", "the cursor advances past the inputs just consumed (never resets)")
	}
}

// blockVerifyFirstError (C09, C07, C03): the transactions of a block are verified group by group on goroutines; the
// verdict of the block is the first ERROR of any group. The once-only slot that records it is consumed by errors only -
// a group that verified fine and finishes first must not use it up.
func blockVerifyFirstError(c *q.Ctx) {
	const name = "bcs/ledger/xledger/state::(*State).verifyBlockTxs"
	vb := c.Fn(name)
	if vb == nil {
		return
	}
	n := 0
	var walk func(f *ssa.Function)
	walk = func(f *ssa.Function) {
		for _, a := range f.AnonFuncs {
			if len(q.CallsIn(a, "sync::Once.Do")) > 0 {
				n++
				c.OnlyUnder(a, q.ToCall("sync::Once.Do"), []q.Cond{{Canon: "(nil == state.(*State).verifyDAGTxs(*))", Sense: false}}, "only a failed group records its error as the block's verdict")
			}
			walk(a)
		}
	}
	walk(vb)
	if n == 0 {
		c.OK("K2", name, "no once-only error slot is used", "-", "the first error is not recorded through sync.Once in this version")
	}
	c.Before(vb, q.ToCall("WaitGroup.Wait"), q.ToReturn(), "the verdict is read after every group finished")
}

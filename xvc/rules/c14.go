package rules

import (
	"xvc/q"
)

func init() {
	register("C14", c14, PropInfo{
		Explanation: "Structural necessary conditions of quorum-certificate validity: (K1/K11) in CheckProposal a signature entry reaches the counter increment only after isInSlice(address, validators) and the good edge of VerifyVoteMsgSign(entry, parent.GetProposalId()) - whose boolean, not only its error, is looked at - and an invalid member signature rejects the certificate; (K12) the counter is incremented only after a miss in a map keyed by the signer's address, which then records the address (distinct validators are counted); (K1) the value handed to CalVotesThreshold is that counter together with len(validators) and a false answer rejects; (K5) CalVotesThreshold returns input+1 >= sum - (sum-1)/3 (>= sum when the quotient is 0); VerifyVoteMsgSign recomputes the address from the public key, compares it with the stated address and verifies ECDSA over the message parameter; (K11) tdpos/xpoa CheckMinerMatch hand CheckProposal the validator set computed for the PREVIOUS block and reject on error; CheckVote rejects a non-member and an invalid signature; vote collection de-duplicates by address.",
		NotDecided:  "ECDSA soundness; that the validator set computed for the previous block is the set 'in force' as a value",
		Assumptions: []string{"VerifyECDSA answers (false, nil) for a well-formed wrong signature"},
	})
}

func c14(c *q.Ctx) {
	// "the validator set in force for that view": XPoA derives it from the block that is CURRENTLY three below the
	// height on the ledger - every answer comes out of a ledger read made for this call (after a reorganisation the
	// block at that height, and with it the set, is another one)
	c.MemoFields("bcs/consensus/xpoa", "xpoaSchedule", map[string]string{}, "the validator set is read from the ledger on every call")
	// a received proposal moves the pacemaker, the pending tree and a vote only after its justify passed CheckProposal -
	// except the very first justify, which names the tree's GENESIS (not its current root: the root differs from
	// genesis after a restart or a commit, and a forged justify naming it would by-pass the quorum check)
	if hp := c.Fn("kernel/consensus/base/driver/chained-bft::(*Smr).handleReceivedProposal"); hp != nil {
		first := q.Cond{Canon: "bytes.Equal(i:QuorumCertInterface.GetProposalId(p0.qcTree.Genesis.In),chained_bft.(*QuorumCert).GetProposalId(local<QuorumCert>))", Sense: true}
		for _, tgt := range []string{"PacemakerInterface.AdvanceView", "QCPendingTree.updateCommit", "QCPendingTree.updateQcStatus", "Smr.voteProposal"} {
			c.Gate(hp, "saftyRulesInterface.CheckProposal", q.ToCall(tgt), q.Opt{Unless: []q.Cond{first}})
		}
		c.ArgIs(hp, "saftyRulesInterface.CheckProposal", 1, "local<QuorumCert>", 1, "the justify that is checked is the one carried by the proposal")
	}
	const bft = "kernel/consensus/base/driver/chained-bft::"
	cp := c.Fn(bft + "(*DefaultSaftyRules).CheckProposal")
	entry := "i:QuorumCertInterface.GetSignsInfo(p2)[]"
	if cp != nil {
		inc := q.ToValueSameIter("(1 + phi{*})")
		c.Guard(cp, q.Cond{Canon: "chained_bft.isInSlice(" + entry + ".Address,p3)", Sense: false}, inc, q.Opt{})
		c.Gate(cp, "CBFTCrypto.VerifyVoteMsgSign|VerifyVoteMsgSign", inc, q.Opt{})
		c.Gate(cp, "CBFTCrypto.VerifyVoteMsgSign|VerifyVoteMsgSign", q.ToSuccess(), q.Opt{K1Only: true})
		c.ArgIs(cp, "VerifyVoteMsgSign", 1, entry, 1, "the entry whose membership was tested")
		c.ArgIs(cp, "VerifyVoteMsgSign", 2, "i:QuorumCertInterface.GetProposalId(p2)", 1, "signatures are over the certified (parent) proposal id")
		c.MapDedup(cp, entry+".Address", inc, "a validator's repeated signature is counted once", "(#i < len(i:QuorumCertInterface.GetSignsInfo(p2)))")
		c.Guard(cp, q.Cond{Canon: "chained_bft.(*DefaultSaftyRules).CalVotesThreshold(p0,phi{*(1 + loop)*},len(p3))", Sense: false}, q.ToSuccess(), q.Opt{})
		c.Gate(cp, "DefaultSaftyRules.CalVotesThreshold", q.ToSuccess(), q.Opt{Unless: []q.Cond{{Canon: "(i:QuorumCertInterface.GetProposalView(p1) < (p0.lastVoteRound - 3))", Sense: true}}})
		c.Guard(cp, q.Cond{Canon: "(nil == p3)", Sense: true}, q.ToSuccess(), q.Opt{})
		c.Guard(cp, q.Cond{Canon: "(i:QuorumCertInterface.GetProposalId(p2) == nil)", Sense: true}, q.ToSuccess(), q.Opt{})
	}
	ct := c.Fn(bft + "(*DefaultSaftyRules).CalVotesThreshold")
	if ct != nil {
		f := "((p2 - 1) / 3)"
		c.ReturnIs(ct, 0, []string{"false", "(p2 <= (1 + p1))", "((p2 - " + f + ") <= (1 + p1))"}, "quorum = n - floor((n-1)/3), the collector's own signature excluded (input+1)")
		c.Guard(ct, q.Cond{Canon: "(" + f + " == 0)", Sense: true}, q.ToValue("(p2 - "+f+")"), q.Opt{})
	}
	vv := c.Fn("kernel/consensus/base/driver/chained-bft/crypto::(*CBFTCrypto).VerifyVoteMsgSign")
	if vv != nil {
		ak := "i:CryptoClient.GetEcdsaPublicKeyFromJsonStr(p0.CryptoClient,p1.PublicKey)#0"
		c.Guard(vv, q.Cond{Canon: "(i:CryptoClient.GetAddressFromPublicKey(p0.CryptoClient," + ak + ")#0 == p1.Address)", Sense: false}, q.ToSuccess(), q.Opt{})
		c.Gate(vv, "GetEcdsaPublicKeyFromJsonStr", q.ToSuccess(), q.Opt{K1Only: true})
		c.Gate(vv, "GetAddressFromPublicKey", q.ToSuccess(), q.Opt{K1Only: true})
		c.Gate(vv, "VerifyECDSA", q.ToSuccess(), q.Opt{K1Only: true})
		c.ArgIs(vv, "VerifyECDSA", 0, ak, 1, "under the key whose address was compared")
		c.ArgIs(vv, "VerifyECDSA", 1, "p1.Sign", 1, "the entry's signature")
		c.ArgIs(vv, "VerifyECDSA", 2, "p2", 1, "over the message parameter")
	}
	cv := c.Fn(bft + "(*DefaultSaftyRules).CheckVote")
	if cv != nil {
		c.Guard(cv, q.Cond{Canon: "chained_bft.isInSlice(i:QuorumCertInterface.GetSignsInfo(p1)[0].Address,p3)", Sense: false}, q.ToSuccess(), q.Opt{})
		c.Gate(cv, "VerifyVoteMsgSign", q.ToSuccess(), q.Opt{})
		c.ArgIs(cv, "VerifyVoteMsgSign", 2, "i:QuorumCertInterface.GetProposalId(p1)", 1, "the vote signs the proposal it votes for")
		c.Guard(cv, q.Cond{Canon: "(0 == len(i:QuorumCertInterface.GetSignsInfo(p1)))", Sense: true}, q.ToSuccess(), q.Opt{})
	}
	hv := c.Fn(bft + "(*Smr).handleReceivedVoteMsg")
	if hv != nil {
		c.Gate(hv, "CheckVote", q.ToCall("QCPendingTree.updateHighQC"), q.Opt{})
		c.Gate(hv, "CheckVote", q.ToCall("Map.LoadOrStore"), q.Opt{})
		c.Gate(hv, "CalVotesThreshold", q.ToCall("QCPendingTree.updateHighQC"), q.Opt{})
		// de-duplication by address before appending
		c.Guard(hv, q.Cond{Canon: "(*[].Address == *SignInfos[0].Address)", Sense: true}, q.ToCallSameIter("append"), q.Opt{})
		// quorum and membership are judged against the validator set of the view the vote is FOR
		vals := "i:ProposerElectionInterface.GetValidators(p0.Election,chained_bft.(*QuorumCert).GetProposalView(chained_bft.(*Smr).VoteMsgToQC(p0,local<VoteMsg>)#0))"
		c.ArgIs(hv, "CalVotesThreshold", 1, "len("+vals+")", 1, "2f+1 is computed over the validators of the voted proposal's view")
		c.ArgIs(hv, "CheckVote", 2, vals, 1, "the voter must be a validator of the voted proposal's view")
		c.StickyFlag(hv, "append", 1, "[*SignInfos[0]]", q.Cond{Canon: "(*[].Address == *SignInfos[0].Address)", Sense: true}, "the vote is a duplicate if ANY stored vote has its address, not only the last one scanned")
	}
	// restart: the certificate stored IN block b certifies b's PARENT - its signatures are re-loaded under the parent's
	// id (loaded under b's own id they would count towards a quorum for a proposal they never signed); the two
	// chained-BFT plugins agree
	for _, ctor := range []string{"bcs/consensus/xpoa::NewXpoaConsensus", "bcs/consensus/tdpos::NewTdposConsensus"} {
		if f := c.Fn(ctor); f != nil {
			blk := "i:LedgerRely.QueryBlockByHeight(*)#0"
			c.ArgIs(f, "Smr.LoadVotes", 1, "i:BlockHandle.GetPreHash("+blk+")", 1, "votes re-loaded from a block's certificate belong to the block's parent")
			c.ArgIs(f, "Smr.LoadVotes", 2, "*GetJustifySigns(*"+blk+")", 1, "the signatures are those of the same block's certificate")
		}
	}
	// consensus plugins
	td := c.Fn("bcs/consensus/tdpos::(*tdposConsensus).CheckMinerMatch")
	if td != nil {
		pre := "i:LedgerRely.QueryBlock(p0.election.ledger,i:BlockInterface.GetPreHash(p2))#0"
		c.Gate(td, "CheckProposal", q.ToSuccess(), q.Opt{K1Only: true})
		c.ArgIs(td, "CheckProposal", 2, "tdpos.(*tdposSchedule).CalOldProposers(p0.election,i:*.GetHeight("+pre+"),i:*.GetTimestamp("+pre+"),i:*.GetConsensusStorage("+pre+")#0)#0", 1, "the certificate is judged by the validator set of the previous block")
		c.ArgIs(td, "CheckProposal", 1, "*.OldQCToNew(i:BlockInterface.GetConsensusStorage(p2)#0)#0", 1, "the certificate the block carries")
		c.Gate(td, "tdposSchedule.CalOldProposers", q.ToSuccess(), q.Opt{K1Only: true, Min: 2})
		c.Gate(td, "OldQCToNew", q.ToSuccess(), q.Opt{K1Only: true})
	}
	xp := c.Fn("bcs/consensus/xpoa::(*xpoaConsensus).CheckMinerMatch")
	if xp != nil {
		pre := "i:LedgerRely.QueryBlock(p0.election.ledger,i:BlockInterface.GetPreHash(p2))#0"
		c.Gate(xp, "CheckProposal", q.ToSuccess(), q.Opt{K1Only: true})
		c.ArgIs(xp, "CheckProposal", 2, "xpoa.(*xpoaSchedule).GetLocalValidates(p0.election,i:*.GetTimestamp("+pre+"),*,i:*.GetConsensusStorage("+pre+")#0)", 1, "the certificate is judged by the validator set recorded for the previous block")
		c.ArgIs(xp, "CheckProposal", 1, "*.OldQCToNew(i:BlockInterface.GetConsensusStorage(p2)#0)#0", 1, "the certificate the block carries")
		c.Gate(xp, "OldQCToNew", q.ToSuccess(), q.Opt{K1Only: true})
	}
}

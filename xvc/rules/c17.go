package rules

import (
	"strings"

	ssa "xvc/xssa"

	"xvc/load"
	"xvc/q"
)

func init() {
	register("C17", c17, PropInfo{
		Explanation: "Structural necessary conditions of the finality window: (K3+K5) UpdateIrreversibleBlockHeight is called only from UpdateNextIrreversibleBlockHeight - behind `next > cur` with next = blockHeight - window, window > 0 - and from the ...ForPrune variant, which is called only under the ledgerPrune flag; (K2/K10) PlayAndRepost, PlayForMiner and the walk's replay loop each call UpdateNextIrreversibleBlockHeight(block.Height, cur, window, batch) with the batch that then carries the latest-block pointer and before that batch is written; (K2+K5) in the walk's undo loop every undoTxInternal/undoPayFee/pointer move is behind the false edge of `!ledgerPrune && undoBlk.Height <= cur`; (K3) every Walk call site outside the prune tool passes the constant false; (K7) the keys UpdateIrreversibleBlockHeight/UpdateIrreversibleSlideWindow write are the keys NewMeta loads, and the in-memory value stored is the one staged.",
		NotDecided:  "that the height equals max(height-w) over blocks ever applied as a value; MetaTmp is advanced before the batch commits (reported under C05)",
		Assumptions: []string{"a kvdb batch is applied atomically"},
	})
}

func c17(c *q.Ctx) {
	const st = "bcs/ledger/xledger/state::"
	const mt = "bcs/ledger/xledger/state/meta::"
	c.WhoCalls("Meta.UpdateIrreversibleBlockHeight", map[string]string{
		mt + "(*Meta).UpdateNextIrreversibleBlockHeight":         "monotone update on block application",
		mt + "(*Meta).UpdateNextIrreversibleBlockHeightForPrune": "explicit pruning walk",
	}, "the irreversible height has two mutators")
	c.WhoCalls("Meta.UpdateNextIrreversibleBlockHeightForPrune", map[string]string{st + "(*State).procUndoBlkForWalk": "only inside `if ledgerPrune`"}, "only a pruning walk may lower the height")
	un := c.Fn(mt + "(*Meta).UpdateNextIrreversibleBlockHeight")
	if un != nil {
		next := "(p1 - p3)"
		c.Effect(un, q.Eff{Spec: "Meta.UpdateIrreversibleBlockHeight", Arg: 0, Glob: next, Req: []q.Cond{{Canon: "(p2 < " + next + ")", Sense: true}, {Canon: "(0 == p3)", Sense: false}, {Canon: "(p3 < 0)", Sense: false}}, Why: "the height only moves forward, to blockHeight - window, with a non-zero window", Rule: "K5"})
		c.ArgIs(un, "Meta.UpdateIrreversibleBlockHeight", 2, "p4", 1, "staged in the caller's batch")
		c.Gate(un, "Meta.UpdateIrreversibleBlockHeight", q.ToSuccess(), q.Opt{K1Only: true})
		c.Guard(un, q.Cond{Canon: "(p3 < 0)", Sense: true}, q.ToSuccess(), q.Opt{})
	}
	ui := c.Fn(mt + "(*Meta).UpdateIrreversibleBlockHeight")
	if ui != nil {
		c.ArgIs(ui, "Batch.Put", -1, "p2", 1, "in the caller's batch")
		c.StoreIs(ui, "UtxoMeta.IrreversibleBlockHeight", "p1", 2, "the staged and the in-memory value are the requested height")
		c.Gate(ui, "Batch.Put", q.ToFieldStore("UtxoMeta.IrreversibleBlockHeight"), q.Opt{K1Only: true})
		// every successful call stages the row: "unchanged" cannot be decided against the staged copy (MetaTmp), which
		// is ahead of the disk after a refused write - the retry would publish a height that was never persisted
		c.Before(ui, q.ToCall("Batch.Put"), q.ToSuccess(), "a successful update has staged its row in the batch")
	}
	us := c.Fn(mt + "(*Meta).UpdateIrreversibleSlideWindow")
	if us != nil {
		c.Guard(us, q.Cond{Canon: "(p1 < 0)", Sense: true}, q.ToCall("Batch.Put"), q.Opt{})
		c.StoreIs(us, "UtxoMeta.IrreversibleSlideWindow", "p1", 2, "")
	}
	// restart: both copies of the meta (published and staged) start from the persisted height and window
	if nm := c.Fn(mt + "NewMeta"); nm != nil {
		c.StoreIs(nm, "UtxoMeta.IrreversibleBlockHeight", "meta.(*Meta).LoadIrreversibleBlockHeight(*)#0", 1, "the height survives a restart")
		c.StoreIs(nm, "UtxoMeta.IrreversibleSlideWindow", "meta.(*Meta).LoadIrreversibleSlideWindow(*)#0", 1, "the window survives a restart")
		c.Gate(nm, "Meta.LoadIrreversibleBlockHeight", q.ToSuccess(), q.Opt{})
		c.Gate(nm, "Meta.LoadIrreversibleSlideWindow", q.ToSuccess(), q.Opt{})
		tmp := q.Target{Name: "the clone that becomes MetaTmp", Instr: func(i ssa.Instruction) bool {
			ci, ok := i.(ssa.CallInstruction)
			return ok && q.Callee(ci.Common()).Match("proto::Clone")
		}}
		for _, f := range []string{"IrreversibleBlockHeight", "IrreversibleSlideWindow"} {
			c.Before(nm, q.ToFieldStore("UtxoMeta."+f), tmp, "the staged copy (MetaTmp) is cloned after "+f+" was loaded: the first undone block publishes MetaTmp")
			c.NeverAfter(nm, tmp, q.ToFieldStore("UtxoMeta."+f), "nothing is loaded into Meta after MetaTmp was cloned from it")
		}
		c.StoreIs(nm, "Meta.MetaTmp", "local<UtxoMeta> OR proto.Clone(local<UtxoMeta>)", 2, "MetaTmp ends up a copy of the loaded Meta (the literal's empty message is replaced)")
	}
	metaCopiesDistinct(c)
	metaKeysAgree(c)
	cur := "meta.(*Meta).GetIrreversibleBlockHeight(p0.meta)"
	win := "meta.(*Meta).GetIrreversibleSlideWindow(p0.meta)"
	for _, op := range []struct{ fn, height string }{
		{st + "(*State).PlayAndRepost", "*QueryBlock(*,p1)#0.Height"},
		{st + "(*State).PlayForMiner", "*QueryBlock(*,p1)#0.Height"},
		{st + "(*State).procTodoBlkForWalk", "p1[#down].Height"},
	} {
		f := c.Fn(op.fn)
		if f == nil {
			continue
		}
		c.ArgIs(f, "Meta.UpdateNextIrreversibleBlockHeight", 1, op.height, 1, "the height of the block being applied")
		c.ArgIs(f, "Meta.UpdateNextIrreversibleBlockHeight", 2, cur, 1, "the current irreversible height")
		c.ArgIs(f, "Meta.UpdateNextIrreversibleBlockHeight", 3, win, 1, "the current window")
		c.Before(f, q.ToCall("Meta.UpdateNextIrreversibleBlockHeight"), q.ToCall("State.updateLatestBlockid"), "the height is staged before the block's batch is written")
		c.SameValueArgs(f, map[string]int{"Meta.UpdateNextIrreversibleBlockHeight": 4, "State.updateLatestBlockid": 2}, "the height travels in the batch that moves the pointer", "")
		c.Gate(f, "Meta.UpdateNextIrreversibleBlockHeight", q.ToCall("State.updateLatestBlockid"), q.Opt{K1Only: true})
		// UpdateIrreversibleBlockHeight advances the in-memory staging copy (MetaTmp) at once, not when the batch is
		// written: the height is staged as the LAST step before the write, so that no verification or execution step
		// that can refuse the block lies between the two (a refused block must not contribute height - w)
		c.Then(f, q.ToCall("Meta.UpdateNextIrreversibleBlockHeight"), q.ToCall("State.updateLatestBlockid"), q.ToCall("State.doTxInternal|State.payFee|State.verifyBlockTxs|State.processUnconfirmTxs"), nil, "nothing that can refuse the block runs between staging the height and writing the batch")
	}
	// every applied or undone block publishes the staged meta (Meta = clone of MetaTmp) before the next block is
	// taken up or the operation reports success: the undo guard of the next step and GetMeta() read the published copy
	publish := q.Target{Name: "the staged meta is published (store Meta.Meta)", Instr: func(i ssa.Instruction) bool { return publishesMeta(i, 0) }}
	moved := q.ToCall("State.updateLatestBlockid")
	for _, name := range []string{"PlayAndRepost", "PlayForMiner", "procUndoBlkForWalk", "procTodoBlkForWalk"} {
		f := c.Fn(st + "(*State)." + name)
		if f == nil {
			continue
		}
		c.Then(f, moved, publish, q.ToSuccess(), nil, "no success exit with an unpublished meta")
		if strings.HasPrefix(name, "proc") {
			c.Then(f, moved, publish, moved, nil, "the next block of the walk sees the height its predecessor staged")
		}
	}
	ub := c.Fn(st + "(*State).procUndoBlkForWalk")
	if ub != nil {
		refuse := q.Cond{Canon: "(" + cur + " < p1[].Height)", Sense: false} // undoBlk.Height <= cur
		prune := q.Cond{Canon: "p3", Sense: true}
		for _, t := range []string{"State.undoTxInternal", "State.undoPayFee", "State.updateLatestBlockid"} {
			c.OnlyUnder(ub, q.ToCall(t), []q.Cond{{Canon: refuse.Canon, Sense: true}, prune}, "a block at or below the irreversible height is undone only by a pruning walk")
		}
		c.Guard(ub, refuse, q.ToCall("State.updateLatestBlockid"), q.Opt{Unless: []q.Cond{prune}})
		c.OnlyUnder(ub, q.ToCall("Meta.UpdateNextIrreversibleBlockHeightForPrune"), []q.Cond{prune}, "only a pruning walk lowers the height")
	}
	// Walk callers
	for name, sites := range c.CallersOf("State.Walk") {
		for _, ci := range sites {
			arg := q.Canon(ci.Common().Args[2])
			c.Check(arg == "false", "K3", name, "Walk is called with ledgerPrune=false", c.At(ci), "consensus-driven walks never prune; got `"+arg+"`")
		}
	}
	if wk := c.Fn(st + "(*State).Walk"); wk != nil {
		c.ArgIs(wk, "State.procUndoBlkForWalk", 3, "p2", 1, "the prune flag reaches the undo loop unchanged")
	}
}

// sameKey (K7): the key the writer stages in the batch is the meta-table prefix
// followed by the key the loader reads from the meta table.
func sameKey(c *q.Ctx, writer, loader *ssa.Function) {
	if writer == nil || loader == nil {
		return
	}
	ws := q.CallsIn(writer, "Batch.Put")
	ls := q.CallsIn(loader, "kvdb::Database.Get")
	if len(ws) != 1 || len(ls) != 1 {
		c.Fail("K7", load.QualName(writer), "writer stages one key and loader reads one key", "-", "call sites changed")
		return
	}
	w := q.Canon(ws[0].Common().Args[0])
	l := q.Canon(ls[0].Common().Args[0])
	ok := len(l) > 2 && w == "\"M"+l[1:]
	c.Check(ok, "K7", load.QualName(writer), "the key staged is the key "+load.FuncName(loader)+" reads (meta table)", c.At(ws[0]), "writes "+w+", reads "+l)
	c.Sites += 2
}

// publishesMeta: the instruction stores Meta.Meta, or calls a module function that does (helpers, two levels).
func publishesMeta(i ssa.Instruction, depth int) bool {
	if s, ok := i.(*ssa.Store); ok {
		if fa, ok := s.Addr.(*ssa.FieldAddr); ok && q.TypeField(fa) == "Meta.Meta" {
			return true
		}
	}
	ci, ok := i.(ssa.CallInstruction)
	if !ok || depth >= 2 {
		return false
	}
	callee := ci.Common().StaticCallee()
	if callee == nil {
		return false
	}
	for _, b := range callee.Blocks {
		for _, x := range b.Instrs {
			if publishesMeta(x, depth+1) {
				return true
			}
		}
	}
	return false
}

// metaCopiesDistinct (shared by C05/C06/C17): the published meta (Meta.Meta) and the staging copy (Meta.MetaTmp) are
// never the same object - every value stored into either field is a fresh literal or a proto.Clone. If they aliased,
// a staged-but-unwritten change (a failed or still running block application) would be visible to GetMeta() readers.
func metaCopiesDistinct(c *q.Ctx) {
	n := 0
	seenAlloc := map[*ssa.Alloc]bool{}
	for _, tf := range []string{"Meta.Meta", "Meta.MetaTmp"} {
		for _, r := range c.FieldRefs(tf) {
			if !r.Write {
				continue
			}
			fa := r.Instr.(*ssa.FieldAddr)
			for _, u := range *fa.Referrers() {
				st, ok := u.(*ssa.Store)
				if !ok || st.Addr != fa {
					continue
				}
				n++
				c.Sites++
				v := q.Canon(st.Val)
				name := load.QualName(q.Top(r.Fn))
				what := "value stored to " + tf + " is a private copy (fresh literal or proto.Clone)"
				// decided on the SSA value itself, not on its canonical form: a load of the other field resolves to
				// the same canonical text as the literal it was initialised with
				fresh := false
				sv := q.Strip(st.Val)
				if ta, ok := sv.(*ssa.TypeAssert); ok {
					sv = q.Strip(ta.X)
				}
				switch x := sv.(type) {
				case *ssa.Alloc:
					fresh = x.Heap && !seenAlloc[x]
					seenAlloc[x] = true
				case *ssa.Call:
					fresh = q.Callee(x.Common()).Match("proto::Clone")
				}
				if fresh {
					c.OK("K11", name, what, c.At(st), v)
				} else {
					c.Fail("K11", name, what, c.At(st), "stored value is `"+v+"` (not a fresh object): the published and the staged meta would share one object")
				}
			}
		}
	}
	c.Floor("K11", "bcs/ledger/xledger/state/meta::NewMeta", "stores to Meta.Meta / Meta.MetaTmp", n, 6)
}

// metaKeysAgree (C17, C06): for every chain-governed item of the state meta that has a writer and a loader, the key the
// writer stages is the key the loader reads - a loader that reads a sibling's record comes up with the zero value
// after every restart although each block wrote the item atomically.
func metaKeysAgree(c *q.Ctx) {
	const mt = "bcs/ledger/xledger/state/meta::"
	for _, p := range [][2]string{
		{"UpdateIrreversibleBlockHeight", "LoadIrreversibleBlockHeight"},
		{"UpdateIrreversibleSlideWindow", "LoadIrreversibleSlideWindow"},
	} {
		w, l := c.Fn(mt+"(*Meta)."+p[0]), c.Fn(mt+"(*Meta)."+p[1])
		sameKey(c, w, l)
	}
}

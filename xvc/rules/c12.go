package rules

import (
	"strings"
	"xvc/q"
)

func init() {
	register("C12", c12, PropInfo{
		Explanation: "Necessary conditions of serialisable concurrent admission, decided structurally: (K8a) every sync lock (and UtxoCache.Lock wrapper) acquired in the state/utxo/meta/ledger/xmodel/tx packages is released on all exits; (K8b) the guarded-by table holds at every access: lockKeys/lockKeyList under MutexMem, UtxoCache.{All,Available,List} under the cache mutex, refCounter.ctMap under its mutex, BalanceCache/BalanceViewDirty under mutexBalance, Meta.Meta/MetaTmp under MutexMeta - writes exclusively; (K8c) the acquired-while-holding graph over these locks is acyclic (no deadlock by lock order); (K2) doTxSync runs TryLock, the pool-membership test, doTxInternal and the batch write with the shared state lock held, obeys TryLock and releases exactly the keys it obtained on every exit; PlayAndRepost, PlayForMiner and Walk hold the state lock exclusively at every state mutation; ExtractLockKeys locks every input and own output exclusively, every read key shared unless it is also written (then it is removed from the shared set) and every written non-transient key exclusively; TryLock counts a shared holder and Unlock deletes a shared entry only when the last holder left.",
		NotDecided:  "serialisability itself and the atomicity of SpinLock.TryLock/Unlock across its two structures (sync.Map entry and separate reference count): schedule exploration, another technique family",
		Assumptions: []string{"sync primitives behave as documented", "lib/cache.LRUCache is internally synchronised"},
	})
}

func c12(c *q.Ctx) {
	const st = "bcs/ledger/xledger/state::"
	const ut = "bcs/ledger/xledger/state/utxo::"
	la := c.NewLockAnalysis("bcs/ledger/xledger/state", "bcs/ledger/xledger/state/utxo", "bcs/ledger/xledger/state/meta", "bcs/ledger/xledger/ledger", "bcs/ledger/xledger/state/xmodel", "bcs/ledger/xledger/tx")
	la.Pairing(map[string]q.PairExempt{
		ut + "(*UtxoVM).SelectUtxos": {Under: q.Cond{Canon: "(nil == utxo.(*UtxoVM).parseUtxoKeys(p0,key(p0.UtxoCache.Available[p1]))#2)", Sense: false}, Why: "the early return inside the cache loop is taken only if parseUtxoKeys fails, which is infeasible for keys stored in the cache: they are built by GenUtxoKeyWithPrefix whose last two '_'-separated tokens are always a hex txid and a decimal offset"},
	})
	ctor := map[string]string{ut + "MakeUtxo": "constructor", ut + "NewUtxoCache": "constructor", ut + "NewSpinLock": "constructor", "bcs/ledger/xledger/state/meta::NewMeta": "constructor: the object is not shared yet", st + "(*State).ClearCache": "replaces the whole UtxoCache object (pointer swap) under the exclusive state lock or on a failed write"}
	la.GuardedBy("UtxoVM.lockKeys", "UtxoVM.MutexMem", ctor, 6)
	la.GuardedBy("UtxoVM.lockKeyList", "UtxoVM.MutexMem", ctor, 4)
	la.GuardedBy("UtxoCache.All", "UtxoCache.mutex", ctor, 3)
	la.GuardedBy("UtxoCache.Available", "UtxoCache.mutex", ctor, 3)
	la.GuardedBy("refCounter.ctMap", "refCounter.mu", ctor, 3)
	la.GuardedBy("UtxoVM.BalanceCache", "UtxoVM.mutexBalance", ctor, 5)
	la.GuardedBy("UtxoVM.BalanceViewDirty", "UtxoVM.mutexBalance", ctor, 5)
	la.GuardedElems("UtxoVM.BalanceCache", "UtxoVM.mutexBalance", "LRUCache.Get", 2)
	la.GuardedBy("Meta.Meta", "Meta.MutexMeta", ctor, 8)
	la.GuardedBy("Meta.MetaTmp", "Meta.MutexMeta", ctor, 8)
	// the tip pointer: decisions of block play and walk that depend on it (PreHash == tip, the walk's start) are taken
	// under the exclusive state lock - a check hoisted in front of the lock is check-then-act on the tip (two plays of
	// sibling blocks both pass it). Frozen exemptions, each read and judged:
	tipExempt := map[string]string{}
	for k, v := range ctor {
		tipExempt[k] = v
	}
	tipExempt[st+"NewState"] = "constructor: the object is not shared yet"
	for _, g := range []string{"GetLatestBlockid", "GetMeta", "GetTipSnapshot", "GetTipXMSnapshotReader"} {
		tipExempt[st+"(*State)."+g] = "read API that reports the tip without the state lock (an unsynchronised read of the pinned tree; not an admission decision, not decided here)"
	}
	tipExempt[st+"(*State).PlayForMiner"] = "tests PreHash == tip before taking the lock; its only caller is the miner, which serialises mining and synchronisation with its own mutex"
	tipExempt[st+"(*State).Walk"] = "log line before the lock; the walk's decisions read the tip after Lock()"
	la.GuardedBy("State.latestBlockid", "UtxoVM.Mutex", tipExempt, 5)
	la.Order()

	ds := c.Fn(st + "(*State).doTxSync")
	if ds != nil {
		for _, spec := range []string{"SpinLock.TryLock", "Map.Load", "State.doTxInternal", "Batch.Write", "Map.Store"} {
			la.HeldAtCalls(ds, spec, "UtxoVM.Mutex", false, "pool admission runs under the shared state lock (block play excludes it)")
		}
		keyLockProtocol(c)
		c.Before(ds, q.ToCall("SpinLock.TryLock"), q.ToCall("Map.Load"), "pool membership is tested under the key locks")
		c.Before(ds, q.ToCall("Map.Load"), q.ToCall("State.doTxInternal"), "membership test precedes application")
	}
	for _, fn := range []string{"PlayAndRepost", "PlayForMiner"} {
		f := c.Fn(st + "(*State)." + fn)
		if f == nil {
			continue
		}
		for _, spec := range []string{"State.doTxInternal", "State.payFee", "State.updateLatestBlockid"} {
			la.HeldAtCalls(f, spec, "UtxoVM.Mutex", true, "block play excludes every pool submission")
		}
	}
	if f := c.Fn(st + "(*State).PlayAndRepost"); f != nil {
		la.HeldAtCalls(f, "State.processUnconfirmTxs", "UtxoVM.Mutex", true, "pool conflict resolution runs under the exclusive lock")
	}
	// the snapshot of the pool that a block play or a walk resolves conflicts against is taken under the exclusive
	// lock: a submission that is past its shared lock but not yet published would otherwise be missed
	nSort := 0
	for _, name := range []string{"PlayAndRepost", "processUnconfirmTxs", "RollBackUnconfirmedTx", "Walk"} {
		f := c.P.Funcs[st+"(*State)."+name]
		if f == nil || len(q.CallsIn(f, "Tx.SortUnconfirmedTx")) == 0 {
			continue
		}
		nSort += len(q.CallsIn(f, "Tx.SortUnconfirmedTx"))
		la.HeldAtCalls(f, "Tx.SortUnconfirmedTx", "UtxoVM.Mutex", true, "the pool snapshot is taken while submissions are excluded")
	}
	c.Floor("K8b", st+"(*State).processUnconfirmTxs", "pool snapshots of block play and walk", nSort, 2)
	if f := c.Fn(st + "(*State).Walk"); f != nil {
		for _, spec := range []string{"State.RollBackUnconfirmedTx", "State.procUndoBlkForWalk", "State.procTodoBlkForWalk"} {
			la.HeldAtCalls(f, spec, "UtxoVM.Mutex", true, "a walk excludes every pool submission")
		}
	}
	// selection locks
	if f := c.Fn(ut + "(*UtxoVM).tryLockKey"); f != nil {
		c.MapDedup(f, "p1", q.ToCall("List.PushBack"), "an output already selected with locking is not handed to a second selector")
		c.Guard(f, q.Cond{Canon: "has(p0.lockKeys,p1)", Sense: true}, q.ToSuccess(), q.Opt{})
	}
	if f := c.Fn(ut + "(*UtxoVM).SelectUtxos"); f != nil {
		c.Gate(f, "UtxoVM.tryLockKey", q.ToCallSameIter("append"), q.Opt{K1Only: true, Min: 2})
	}
	// key extraction
	lockKeyExtraction(c)
	utxoCacheRemove(c)
	tl := c.Fn(ut + "(*SpinLock).TryLock")
	if tl != nil {
		c.Guard(tl, q.Cond{Canon: "(1 == sync.(*Map).LoadOrStore(p0.m,p1[].key,p1[].lockType)#0)", Sense: false}, q.ToSuccess(), q.Opt{})
		c.Guard(tl, q.Cond{Canon: "(1 == p1[].lockType)", Sense: false}, q.ToSuccess(), q.Opt{Under: []q.Cond{{Canon: "sync.(*Map).LoadOrStore(p0.m,p1[].key,p1[].lockType)#1", Sense: true}}})
		c.ArgIs(tl, "Map.LoadOrStore", 1, "p1[].key", 1, "the lock table is keyed by the lock key")
		c.Effect(tl, q.Eff{Spec: "refCounter.Add", Arg: 0, Glob: "p1[].key", Req: []q.Cond{{Canon: "(1 == p1[].lockType)", Sense: true}}, Why: "every shared holder is counted", Rule: "K2"})
		// TryLock is not all-or-nothing: the caller releases exactly the returned list, so whatever TryLock took - a
		// reference on a shared key, a fresh table entry - must be in that list before any exit
		c.Then(tl, q.ToCall("refCounter.Add"), q.ToCall("append"), q.ToAnyReturn(), nil, "a counted shared hold is in the list the caller will release")
		c.Then(tl, q.ToCall("Map.LoadOrStore"), q.ToCall("append"), q.ToAnyReturn(), []q.Cond{{Canon: "sync.(*Map).LoadOrStore(p0.m,p1[].key,p1[].lockType)#1", Sense: true}}, "a key entered into the lock table is in the list the caller will release")
	}
	ul := c.Fn(ut + "(*SpinLock).Unlock")
	if ul != nil {
		c.Effect(ul, q.Eff{Spec: "Map.Delete", Arg: 0, Glob: "p1[#down].key", Req: []q.Cond{{Canon: "(2 == p1[#down].lockType)", Sense: true}}, Why: "an exclusive holder frees the key", Rule: "K2"})
		c.Effect(ul, q.Eff{Spec: "Map.Delete", Arg: 0, Glob: "p1[#down].key", Req: []q.Cond{{Canon: "(1 == p1[#down].lockType)", Sense: true}, {Canon: "(0 == utxo.(*refCounter).Release(p0.refCounter,p1[#down].key))", Sense: true}}, Why: "a shared entry is freed only by its last holder", Rule: "K2"})
	}
}

// lockKeyExtraction (C12, C03): which keys a transaction locks and how - inputs, own outputs and WRITTEN keys
// exclusively, keys that are only read shared; a key that is read and written leaves the shared set (locked shared,
// two transactions that supersede the same version both pass the version check).
func lockKeyExtraction(c *q.Ctx) {
	const ut = "bcs/ledger/xledger/state/utxo::"
	ek := c.Fn(ut + "(*SpinLock).ExtractLockKeys")
	if ek != nil {
		c.Effect(ek, q.Eff{Spec: "delete", Arg: 0, Glob: "newmap<map[string]bool>", Req: []q.Cond{{Canon: "(\"$transient\" == p1.TxOutputsExt[].Bucket)", Sense: false}}, Why: "a key that is read and written is locked exclusively only: it leaves the shared set", Rule: "K2"})
		c.MapStoreKeys(ek, "newmap<map[string]bool>", []string{"*p1.TxInputsExt[].Bucket*p1.TxInputsExt[].Key*", "*p1.TxOutputsExt[].Bucket*p1.TxOutputsExt[].Key*"}, "model keys are locked under bucket and key")
		c.StoreIs(ek, "LockKey.lockType", "1 OR 2", 4, "inputs, own outputs and written keys exclusive (2); read-only keys shared (1)")
		c.StoreIs(ek, "LockKey.key", "*p1.TxInputs[].RefTxid*p1.TxInputs[].RefOffset* OR *p1.Txid*#i* OR key(newmap<map[string]bool>)", 4, "the lock names ARE the spent output (ref txid, ref offset), the created output (own txid, position) and the model key (bucket/key): two transactions contend iff they name the same object")
	}
}

// utxoCacheRemove (C12, C02, C03): a spent output leaves the cache's authoritative index (All) whether or not a
// selector has already taken it out of the Available index - CheckInputEqualOutput trusts All, so an entry that stays
// there admits a second spend of the same output.
func utxoCacheRemove(c *q.Ctx) {
	rm := c.Fn("bcs/ledger/xledger/state/utxo::(*UtxoCache).remove")
	if rm == nil {
		return
	}
	keep := func(g q.Cond) bool { return strings.Contains(g.Canon, "p0.A") }
	inAll := []q.Cond{{Canon: "has(p0.All,p1)", Sense: true}, {Canon: "(nil == p0.All[p1][p2])", Sense: false}}
	c.Effect(rm, q.Eff{Spec: "delete", Arg: 0, Glob: "p0.All[p1]", Req: inAll, Exact: true, Keep: keep, Why: "the entry leaves All exactly when it is in All (what Available says does not matter)", Rule: "K6"})
}

// utxoCacheEviction (C13, C05): a block is replayed in ONE batch, so an output created earlier in the block is found by
// its in-block spender only in the output cache: the cache must hand the NEWEST entries the longest life - entries
// enter at one end of the LRU list and the victim is taken from the other.
func utxoCacheEviction(c *q.Ctx) {
	const name = "bcs/ledger/xledger/state/utxo::(*UtxoCache).Insert"
	ins := c.Fn(name)
	if ins == nil {
		return
	}
	pf, pb := len(q.CallsIn(ins, "list::List.PushFront")), len(q.CallsIn(ins, "list::List.PushBack"))
	c.Sites += pf + pb
	want := ""
	switch {
	case pf == 1 && pb == 0:
		want = "Back"
	case pb == 1 && pf == 0:
		want = "Front"
	default:
		c.Fail("K11", name, "one insertion end of the LRU list", "-", "PushFront/PushBack calls not as expected")
		return
	}
	// ... and, strictly, must not drop entries by capacity at all while a block is being replayed: CheckInputEqualOutput
	// has no other source for an output staged in the still unwritten batch. The capacity eviction in Insert is a
	// recorded finding (known_findings.json): a valid block with more than utxo.cachesize outputs between an output
	// and its in-block spender cannot be replayed by a node that did not hold its transactions in its own pool.
	c.WhoCalls("UtxoCache.remove", map[string]string{
		"bcs/ledger/xledger/state/utxo::(*UtxoCache).Remove": "explicit removal of a spent or undone output",
	}, "entries leave the output cache only when their output is spent or undone: the replay of a block finds outputs of its own unwritten batch nowhere else")
	c.ArgIs(ins, "UtxoCache.remove", 1, "list.(*List)."+want+"(p0.List).Value[0]", 1, "the victim is the entry at the end opposite to the insertion end (least recently inserted), never the entry just inserted")
	c.ArgIs(ins, "UtxoCache.remove", 2, "list.(*List)."+want+"(p0.List).Value[1]", 1, "address and key of the victim come from the same list element")
}

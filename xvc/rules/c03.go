package rules

import (
	"fmt"
	ssa "xvc/xssa"

	"strings"

	"xvc/q"
)

func init() {
	register("C03", c03, PropInfo{
		Explanation: "Structural necessary conditions of 'no double spend, admission iff inputs are current': (K2/K1) every path that applies a transaction reaches the first mutation only through the good edges of CheckInputEqualOutput, verifyInputs and verifyOutputs; verifyInputs rejects unless the current version equals the cited one, reads the in-batch cache only for block transactions and only after DoTx reset it for the invocation's own batch, and reads the committed version for pool transactions; verifyOutputs rejects a non-transient write of a key that was not read; updateExtUtxo records every block write (deletes included) in the in-batch cache; (K7) the block-application siblings (PlayAndRepost+processUnconfirmTxs, procTodoBlkForWalk) both refuse a block that cites one output twice; (K1/K2) doTxSync obeys TryLock, releases exactly the keys it obtained, tests pool membership before applying, stages the pool record in the batch of the effects and publishes to the in-memory pool only after Write()==nil; the pool dependency graph links a pending transaction to every pending transaction whose outputs or key versions it consumes.",
		NotDecided:  "that 'current' as computed equals an independent model's notion over all histories; conflict handling of processUnconfirmTxs for arbitrary transaction families (values over histories)",
		Assumptions: []string{"sync.Map and kvdb semantics", "a kvdb batch is applied atomically"},
	})
}

func c03(c *q.Ctx) {
	const st = "bcs/ledger/xledger/state::"
	const xm = "bcs/ledger/xledger/state/xmodel::"
	const txp = "bcs/ledger/xledger/tx::"

	commitVersionChecks(c)
	poolReadmission(c)
	nothingAfterCommitPoint(c)
	xmodelDoUndo(c)
	walkStepOrder(c)
	blockVerifyFirstError(c)
	allK9Operations(c, ledgerK9(c))
	do := c.Fn(st + "(*State).doTxInternal")
	if do != nil {
		c.ArgIs(do, "XModel.DoTx", 2, "p2", 1, "key/value effects go to the caller's batch")
		c.ArgIs(do, "UtxoVM.CheckInputEqualOutput", 1, "p1", 1, "the transaction checked is the one applied")
		c.Effect(do, q.Eff{Spec: "Batch.Delete", Arg: 0, Glob: "utxo.GenUtxoKeyWithPrefix(p1.TxInputs[].FromAddr,p1.TxInputs[].RefTxid,p1.TxInputs[].RefOffset)", Why: "every cited output is consumed", Rule: "K2"})
	}

	// ---- pool admission
	ds := c.Fn(st + "(*State).doTxSync")
	if ds != nil {
		keyLockProtocol(c)
		c.Guard(ds, q.Cond{Canon: "sync.(*Map).Load(p0.tx.UnconfirmTxInMem,p1.Txid)#1", Sense: true}, q.ToCall("State.doTxInternal"), q.Opt{})
		c.Before(ds, q.ToCall("SpinLock.TryLock"), q.ToCall("Map.Load"), "pool membership is tested under the key locks")
		c.Gate(ds, "State.doTxInternal", q.ToCall("Batch.Write"), q.Opt{})
		c.Gate(ds, "Batch.Write", q.ToCall("Map.Store"), q.Opt{})
		c.Gate(ds, "Batch.Write", q.ToCall("CacheFiller.Commit"), q.Opt{})
		c.Gate(ds, "Batch.Write", q.ToSuccess(), q.Opt{})
		c.SameValueArgs(ds, map[string]int{"State.doTxInternal": 2, "Batch.Put": -1, "Batch.Write": -1}, "effects, pool record and write use one batch", "admission is atomic")
		c.Effect(ds, q.Eff{Spec: "Batch.Put", Arg: 0, Glob: "append(\"N\",p1.Txid)", Why: "the pool record of the admitted transaction is in the batch", Rule: "K10"})
		c.ArgIs(ds, "Map.Store", 1, "p1.Txid", 1, "published under its own id")
	}
	dx := c.Fn(st + "(*State).DoTx")
	if dx != nil {
		c.Guard(dx, q.Cond{Canon: "p1.Coinbase", Sense: true}, q.ToCall("State.doTxSync"), q.Opt{})
		c.Guard(dx, q.Cond{Canon: "(0 < len(p1.Blockid))", Sense: true}, q.ToCall("State.doTxSync"), q.Opt{})
	}

	inBlockDistinct(c)
	poolConflictScan(c)
	utxoCacheRemove(c)
	lockKeyExtraction(c)
	poolReload(c)
	if cb := c.Fn("bcs/ledger/xledger/ledger::(*Ledger).ConfirmBlock"); cb != nil {
		dupTxDecision(c, cb)
	}
	pr := c.Fn(st + "(*State).PlayAndRepost")
	if pr != nil {
		c.Gate(pr, "State.verifyBlockTxs", q.ToCall("State.doTxInternal"), q.Opt{})
		c.Gate(pr, "State.processUnconfirmTxs", q.ToCall("State.doTxInternal"), q.Opt{})
	}

	// ---- pool dependency graph: edge from every pending producer to its consumer
	poolGraph(c)
	poolRollback(c)
	utxoInverse(c)
	inputChecks(c)
}

// poolGraph: the pool's dependency graph links every pending transaction to every
// pending transaction whose outputs or key versions it consumes (shared by C02, C03
// and C13: the rollback of a pending family and the packing order both walk it).
func poolGraph(c *q.Ctx) {
	const txp = "bcs/ledger/xledger/tx::"
	su := c.Fn(txp + "(*Tx).SortUnconfirmedTx")
	if su == nil {
		return
	}
	keep := func(g q.Cond) bool { return !strings.Contains(g.Canon, "more(") && !strings.Contains(g.Canon, "len(") }
	m := "newmap<map[string]*Transaction>"
	for _, f := range []string{"TxInputs", "TxInputsExt"} {
		c.Effect(su, q.Eff{Spec: "append", Arg: 0, Glob: "newmap<TxGraph>[" + m + "[]." + f + "[].RefTxid]", Req: []q.Cond{{Canon: "has(" + m + "," + m + "[]." + f + "[].RefTxid)", Sense: true}}, Exact: true, Keep: keep, Why: "an edge from every pending producer cited by " + f + " to the consumer, with no other condition", Rule: "K4"})
		c.Effect(su, q.Eff{Spec: "append", Arg: 1, Glob: "[key(" + m + ")]", Why: "the consumer is the transaction whose inputs are scanned", Rule: "K4"})
		c.StaysInLoop(su, q.Cond{Canon: "has(" + m + "," + m + "[]." + f + "[].RefTxid)", Sense: false}, q.Cond{Canon: "(#i < len(" + m + "[]." + f + "))"}, "an input citing a confirmed transaction must not hide the later inputs")
	}
}

// poolRollback: undoUnconfirmedTx rolls back the graph's children of a transaction before the transaction
// itself, looked up under the key the graph is built with (shared by C01, C02 and C03).
func poolRollback(c *q.Ctx) {
	const st = "bcs/ledger/xledger/state::"
	if uu := c.Fn(st + "(*State).undoUnconfirmedTx"); uu != nil {
		c.NeverAfter(uu, q.ToCall("State.undoTxInternal"), q.ToCall("State.undoUnconfirmedTx"), "dependants are rolled back before the transaction itself, never after")
		c.ArgIs(uu, "State.undoUnconfirmedTx", 1, "p2[p3[p1.Txid][]]", 1, "the dependants are the graph's children of this transaction (the graph is keyed by the raw txid)")
		c.Gate(uu, "State.undoUnconfirmedTx", q.ToCall("State.undoTxInternal"), q.Opt{K1Only: true})
		for idx, what := range map[int]string{2: "the pool map", 3: "the dependency graph", 4: "the batch", 5: "the done-set", 6: "the replay list"} {
			c.ArgIs(uu, "State.undoUnconfirmedTx", idx, fmt.Sprintf("p%d", idx), 1, "dependants are rolled back into "+what+" of the transaction they depend on (a dependant that is not recorded stays in the in-memory pool and is never re-admitted)")
		}
		// every transaction that was rolled back is recorded in the caller's done-set, whoever the caller is: the walk
		// AND the block-play path (which passes no replay list) purge the in-memory pool from this set - an evicted
		// transaction that stays in memory is packed into the node's next block and rolled back a second time
		done := q.Target{Name: "the done-set entry of this transaction (p5[p1.Txid] = true)", Instr: func(i ssa.Instruction) bool {
			mu, ok := i.(*ssa.MapUpdate)
			return ok && q.Canon(mu.Map) == "p5" && q.Canon(mu.Key) == "p1.Txid"
		}}
		c.Then(uu, q.ToCall("State.undoTxInternal"), done, q.ToSuccess(), nil, "a rolled-back transaction is always recorded as done")
		c.MapStoreKeys(uu, "p5", []string{"p1.Txid"}, "the done-set is keyed by the raw txid (what the pool map and the callers use)")
	}
	// the callers purge the in-memory pool from exactly that set
	if pr := c.Fn(st + "(*State).PlayAndRepost"); pr != nil {
		c.Effect(pr, q.Eff{Spec: "Map.Delete", Arg: 0, Glob: "key(state.(*State).processUnconfirmTxs(*)#0)", Why: "pool transactions the block confirmed leave the in-memory pool", Rule: "K2"})
		c.Effect(pr, q.Eff{Spec: "Map.Delete", Arg: 0, Glob: "key(state.(*State).processUnconfirmTxs(*)#1)", Why: "pool transactions the block evicted (conflicting or too old) leave the in-memory pool", Rule: "K2"})
	}
}

// keyLockProtocol: pool admission takes the key locks of exactly this transaction, obeys a refusal, and releases
// EXACTLY the keys it obtained on EVERY exit - the release is deferred right after TryLock, before the refusal exit
// (TryLock is not all-or-nothing: a refused submission holds the keys that sort before the contested one; releasing
// the requested keys instead frees locks held by others). Shared by C02, C03, C05 and C12.
func keyLockProtocol(c *q.Ctx) {
	const st = "bcs/ledger/xledger/state::"
	ds := c.Fn(st + "(*State).doTxSync")
	if ds == nil {
		return
	}
	c.Gate(ds, "SpinLock.TryLock", q.ToCall("State.doTxInternal"), q.Opt{})
	c.ArgIs(ds, "SpinLock.TryLock", 1, "utxo.(*SpinLock).ExtractLockKeys(p0.utxo.SpLock,p1)", 1, "all keys of this transaction, and only those, are requested")
	c.ArgIs(ds, "SpinLock.Unlock", 1, "utxo.(*SpinLock).TryLock(*)#0", 1, "exactly the keys obtained are released (a refused submission must not release keys held by others)")
	nDefer := 0
	for _, ci := range q.CallsIn(ds, "SpinLock.Unlock") {
		if isDefer(ci) {
			nDefer++
		}
	}
	c.Check(nDefer == 1, "K2", st+"(*State).doTxSync", "SpinLock.Unlock is deferred (runs on every exit)", "-", "key locks are released on all exits")
	deferUnlock := q.Target{Name: "the deferred SpinLock.Unlock", Instr: func(i ssa.Instruction) bool {
		d, ok := i.(*ssa.Defer)
		return ok && q.Callee(d.Common()).Match("SpinLock.Unlock")
	}}
	tryLock := q.Target{Name: "SpinLock.TryLock", Instr: func(i ssa.Instruction) bool {
		ci, ok := i.(*ssa.Call)
		return ok && q.Callee(ci.Common()).Match("SpinLock.TryLock")
	}}
	c.Then(ds, tryLock, deferUnlock, q.ToAnyReturn(), nil, "no exit lies between TryLock and the registration of the release: a refusal still holds part of the keys")
}

// commitVersionChecks: the version comparison that is atomic with the commit (XModel.DoTx -> verifyInputs). Shared by
// C03 (admission iff inputs are current) and C09 (a transaction whose declared reads are not current is rejected).
func commitVersionChecks(c *q.Ctx) {
	const xm = "bcs/ledger/xledger/state/xmodel::"
	blockTx := q.Cond{Canon: "(0 < len(p1.Blockid))", Sense: true}
	poolTx := q.Cond{Canon: "(0 < len(p1.Blockid))", Sense: false}
	// ---- doTxInternal: token mutation (batch AND the in-memory mirrors, which no caller on the admission path clears)
	// only after the key/value model accepted the declared reads
	if do := c.Fn("bcs/ledger/xledger/state::(*State).doTxInternal"); do != nil {
		for _, tgt := range []q.Target{q.ToCall("Batch.Delete"), q.ToCall("Batch.Put"), q.ToCall("UtxoVM.AddBalance"), q.ToCall("UtxoVM.SubBalance"), q.ToCall("UtxoCache.Remove")} {
			c.Gate(do, "XModel.DoTx", tgt, q.Opt{})
		}
	}
	// ---- XModel.DoTx: verify before update
	dt := c.Fn(xm + "(*XModel).DoTx")
	if dt != nil {
		c.Gate(dt, "XModel.verifyInputs", q.ToCall("XModel.updateExtUtxo"), q.Opt{})
		c.Gate(dt, "XModel.verifyOutputs", q.ToCall("XModel.updateExtUtxo"), q.Opt{})
		c.Gate(dt, "XModel.updateExtUtxo", q.ToSuccess(), q.Opt{})
		c.ArgIs(dt, "XModel.verifyInputs", 1, "p1", 1, "the transaction that is verified is the one applied")
		c.ArgIs(dt, "XModel.verifyOutputs", 1, "p1", 1, "the transaction that is verified is the one applied")
		c.ArgIs(dt, "XModel.updateExtUtxo", 1, "p1", 1, "the transaction that is verified is the one applied")
		// batch-cache freshness: for a block transaction the cache is reset for this batch before it is consulted
		c.Before(dt, q.ToCall("XModel.cleanCache"), q.ToCall("XModel.verifyInputs"), "a block transaction's version reads go through the in-batch cache, which must belong to this invocation's batch", poolTx)
		c.ArgIs(dt, "XModel.cleanCache", 1, "p2", 1, "the cache is keyed to the invocation's own batch")
	}
	vi := c.Fn(xm + "(*XModel).verifyInputs")
	if vi != nil {
		c.Guard(vi, q.Cond{Canon: "(xmodel.GetVersion(*) == xmodel.GetVersionOfTxInput(p1.TxInputsExt[]))", Sense: false}, q.ToSuccess(), q.Opt{})
		c.OnlyUnder(vi, q.ToCall("XModel.GetUncommited"), []q.Cond{blockTx}, "only block transactions may see uncommitted versions (those of earlier transactions of the same block)")
		c.Effect(vi, q.Eff{Spec: "XModel.Get", Arg: 1, Glob: "p1.TxInputsExt[].Key", Req: []q.Cond{poolTx}, Why: "a pool transaction's cited versions are compared with the committed ones", Rule: "K2"})
		c.Effect(vi, q.Eff{Spec: "XModel.GetUncommited", Arg: 1, Glob: "p1.TxInputsExt[].Key", Req: []q.Cond{blockTx}, Why: "a block transaction sees the versions written earlier in the block", Rule: "K2"})
		c.Gate(vi, "XModel.Get|XModel.GetUncommited", q.ToSuccess(), q.Opt{K1Only: true, Min: 2})
		// ... for EVERY declared input: no path from the read of an input to acceptance goes around the comparison
		// (an input excused from it - "nothing found, and the key is deleted anyway" - cuts the key's version chain:
		// the next writer cites the empty version and every snapshot walk ends there)
		c.Guard(vi, q.Cond{Canon: "(xmodel.GetVersion(*) == xmodel.GetVersionOfTxInput(p1.TxInputsExt[]))", Sense: false}, q.ToSuccess(), q.Opt{From: "XModel.Get|XModel.GetUncommited"})
		// the value whose version is compared is the one that was read for the same bucket/key
		c.Guard(vi, q.Cond{Canon: "(xmodel.GetVersion(phi{xmodel.(*XModel).Get(p0,p1.TxInputsExt[].Bucket,p1.TxInputsExt[].Key)#0|xmodel.(*XModel).GetUncommited(p0,p1.TxInputsExt[].Bucket,p1.TxInputsExt[].Key)#0}) == xmodel.GetVersionOfTxInput(p1.TxInputsExt[]))", Sense: false}, q.ToSuccess(), q.Opt{})
	}
	vo := c.Fn(xm + "(*XModel).verifyOutputs")
	if vo != nil {
		c.Guard(vo, q.Cond{Canon: "has(newmap<map[string]bool>,xmodel.makeRawKey(p1.TxOutputsExt[].Bucket,p1.TxOutputsExt[].Key))", Sense: false}, q.ToSuccess(), q.Opt{})
		c.Guard(vo, q.Cond{Canon: "(nil == p1.TxOutputsExt[].Value)", Sense: true}, q.ToSuccess(), q.Opt{})
	}
	gu := c.Fn(xm + "(*XModel).GetUncommited")
	if gu != nil {
		c.ArgIs(gu, "Map.Load", 1, "xmodel.makeRawKey(p1,p2)", 1, "cache looked up by the same raw key it is stored under")
	}
	c.WhoCalls("XModel.GetUncommited", map[string]string{xm + "(*XModel).verifyInputs": "version check of a block transaction"}, "the in-batch cache is only consulted by the version check")
	up := c.Fn(xm + "(*XModel).updateExtUtxo")
	if up != nil {
		keepTx := func(g q.Cond) bool {
			return strings.Contains(g.Canon, "p1.") && !strings.Contains(g.Canon, "len(p1.TxOutputsExt)")
		}
		c.Effect(up, q.Eff{Spec: "Map.Store", Arg: 0, Glob: "xmodel.makeRawKey(p1.TxOutputsExt[].Bucket,p1.TxOutputsExt[].Key)", Req: []q.Cond{{Canon: "(\"$transient\" == p1.TxOutputsExt[].Bucket)", Sense: false}, blockTx}, Exact: true, Keep: keepTx, Why: "every block write - puts and deletes alike - is visible to the later transactions of the block", Rule: "K2"})
		c.ArgIs(up, "Map.Store", 2, "xmodel.MakeVersion(p1.Txid,#i)", 1, "the cached version is the one written to the batch")
	}
}

// inBlockDistinct (C03, C02): both block-application siblings refuse a block that cites one output twice - across ALL
// its transactions (the set spans the transaction loop); otherwise both spends are applied and the sum of the unspent
// outputs exceeds the total.
func inBlockDistinct(c *q.Ctx) {
	const st = "bcs/ledger/xledger/state::"
	// ---- K7: block-application siblings refuse an output cited twice in one block
	pu := c.Fn(st + "(*State).processUnconfirmTxs")
	if pu != nil {
		c.MapDedup(pu, "utxo.GenUtxoKey(p1.Transactions[].TxInputs[].FromAddr,p1.Transactions[].TxInputs[].RefTxid,p1.Transactions[].TxInputs[].RefOffset)", q.ToSuccess(), "PlayAndRepost path: an output cited twice inside one block is rejected", "(#i < len(p1.Transactions))")
	}
	tb := c.Fn(st + "(*State).procTodoBlkForWalk")
	if tb != nil {
		c.MapDedup(tb, "utxo.GenUtxoKey(p1[#down].Transactions[].TxInputs[].FromAddr,p1[#down].Transactions[].TxInputs[].RefTxid,p1[#down].Transactions[].TxInputs[].RefOffset)", q.ToCall("State.doTxInternal"), "walk path: an output cited twice inside one block is rejected before anything is applied", "(#i < len(p1[#down].Transactions))")
	}
}

// poolConflictScan (C01, C03, C13): when a block is played, a pending transaction is evicted if the block wrote a key
// the transaction READ or WROTE at another version - both scans look the block's write map up under the full
// bucket/key (the map is filled under it: a look-up by the bare key never hits, and a pending reader of an overwritten
// key stays in the pool, is mined, and the block does not replay).
func poolConflictScan(c *q.Ctx) {
	pu := c.Fn("bcs/ledger/xledger/state::(*State).processUnconfirmTxs")
	if pu == nil {
		return
	}
	pool := "tx.(*Tx).SortUnconfirmedTx(p0.tx)#0[]"
	for _, side := range []string{"TxInputsExt", "TxOutputsExt"} {
		key := "newmap<map[string]string>[xmodel.MakeRawKey(" + pool + "." + side + "[].Bucket," + pool + "." + side + "[].Key)]"
		c.CondCount(pu, "(\"\" == "+key+")", 1, "the block's version of the key is looked up under bucket/key ("+side+")")
		c.CondCount(pu, "("+key+" == xmodel.MakeVersion(*))", 1, "and compared with the version the pending transaction holds ("+side+")")
		// the only exemption: the overwriting transaction is itself still in the POOL (it was confirmed out of it by this
		// block and the pending one was built on it) - looked up in the pool map, not among the block's transactions,
		// which contain every writer of the block's versions by construction
		c.CondCount(pu, "has(tx.(*Tx).SortUnconfirmedTx(p0.tx)#0,xmodel.GetTxidFromVersion("+key+"))", 1, "a version conflict is excused only when its writer is a pool transaction ("+side+")")
		c.CondCount(pu, "has(*,xmodel.GetTxidFromVersion("+key+"))", 1, "and by nothing else ("+side+")")
	}
	c.MapStoreKeys(pu, "newmap<map[string]string>", []string{"xmodel.MakeRawKey(p1.Transactions[].TxOutputsExt[].Bucket,p1.Transactions[].TxOutputsExt[].Key)"}, "the write map is keyed by bucket/key of every key the block writes")
}

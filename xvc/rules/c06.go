package rules

import (
	ssa "xvc/xssa"

	"xvc/q"
)

func init() {
	register("C06", c06, PropInfo{
		Explanation: "The atomicity skeleton that makes 'every prefix of the storage-write sequence' collapse to 'between two atomic batches': (K3) no function of the ledger/state/utxo/xmodel/meta/tx packages writes a kvdb.Database directly (Put/Delete outside a batch) except a frozen table of three sites whose rows no invariant depends on; (K10) ConfirmBlock, Truncate, doTxSync, every undo/replay/play step and RollBackUnconfirmedTx each issue exactly one Batch.Write, on the batch that carries all their effects including meta / latest-block pointer / pool record; (K1) the error of every Batch.Write in the module leads to a failing exit; (K2) recovery wiring: NewState loads the persisted pointer and rebuilds the pool from the persisted table, and Miner.Start / mining / trySyncBlock / syncBlock compare ledger tip with state pointer and Walk before proceeding; the producer plays a block only after the ledger confirmed it and a synchronising node confirms in the ledger before it walks (the ledger is never behind the state); (K7) the leveldb batch issues exactly one engine write per Write.",
		NotDecided:  "that the post-crash image actually opens and satisfies C01/C02/C04 and resynchronises (needs execution on a crashed image); other storage back ends",
		Assumptions: []string{"goleveldb DB.Write(batch) is atomic and durable", "the two databases (ledger, state) are independent; 'state one block behind ledger' is legal and repaired by Walk"},
	})
}

func c06(c *q.Ctx) {
	poolMapOwner(c)
	metaKeysAgree(c)
	ledgerMetaStaging(c)
	metaCopiesDistinct(c)
	utxoTotalStaging(c)
	poolRecordAsPublished(c)
	cacheFillerPerTx(c)
	keyLockProtocol(c)
	const st = "bcs/ledger/xledger/state::"
	const led = "bcs/ledger/xledger/ledger::"
	const miner = "kernel/engines/xuperos/miner::"
	// K3: direct (non-batch) writes
	c.WhoCalls("kvdb::Database.Put|kvdb::Database.Delete", map[string]string{
		led + "newLedger":                        "writes the empty meta of a ledger being created (no other row exists yet)",
		led + "(*Ledger).UpdateBlockChainData":   "regulator overlay: rewrites one confirmed row in place (single row, idempotent)",
		led + "(*Ledger).SavePendingBlock":       "pending-block stash, consulted only as a download cache",
		"lib/storage/kvdb::(*table).Put":         "table adapter forwarding to its parent database",
		"lib/storage/kvdb::(*table).Delete":      "table adapter forwarding to its parent database",
		"bcs/ledger/xledger/state/meta::NewMeta": "writes default meta rows only when they are missing at first open; re-done on the next open if lost",
	}, "every other persistent effect must travel in the operation's batch")

	// K10: exactly one Write per operation, on the batch of the effects
	for _, op := range []struct {
		fn   string
		n    int
		succ q.Target
	}{
		{led + "(*Ledger).ConfirmBlock", 1, q.ToFieldStoreVal("ConfirmStatus.Succ", "true")},
		{led + "(*Ledger).Truncate", 1, q.ToSuccess()},
		{st + "(*State).doTxSync", 1, q.ToSuccess()},
		{st + "(*State).updateLatestBlockid", 1, q.ToSuccess()},
		{st + "(*State).RollBackUnconfirmedTx", 1, q.ToSuccess()},
	} {
		f := c.Fn(op.fn)
		if f == nil {
			continue
		}
		ws := q.CallsIn(f, "Batch.Write")
		c.Check(len(ws) == op.n, "K10", op.fn, "exactly one Batch.Write per operation", "-", "an operation that writes twice has a crash window between the two writes")
		c.Gate(f, "Batch.Write", op.succ, q.Opt{})
	}
	for _, fn := range []string{st + "(*State).PlayAndRepost", st + "(*State).PlayForMiner", st + "(*State).procUndoBlkForWalk", st + "(*State).procTodoBlkForWalk", st + "(*State).doTxInternal", st + "(*State).undoTxInternal", st + "(*State).payFee", st + "(*State).undoPayFee", st + "(*State).processUnconfirmTxs", st + "(*State).undoUnconfirmedTx", led + "(*Ledger).handleFork", led + "(*Ledger).saveBlock", led + "(*Ledger).correctTxsBlockid", led + "(*Ledger).removeBlocks", led + "(*Ledger).updateBranchInfo", "bcs/ledger/xledger/state/xmodel::(*XModel).updateExtUtxo", "bcs/ledger/xledger/state/xmodel::(*XModel).UndoTx", "bcs/ledger/xledger/state/utxo::(*UtxoVM).UpdateUtxoTotal", "bcs/ledger/xledger/state/meta::(*Meta).UpdateIrreversibleBlockHeight"} {
		f := c.Fn(fn)
		if f == nil {
			continue
		}
		ws := q.CallsIn(f, "Batch.Write")
		c.Check(len(ws) == 0, "K10", fn, "a step of an operation never writes the batch itself", "-", "only the operation's single commit point writes")
	}
	// K1: every Batch.Write error in the ledger/state packages is obeyed
	n := 0
	for _, f := range c.P.AllFns {
		if f.Pkg == nil {
			continue
		}
		pp := f.Pkg.Pkg.Path()
		if !has(pp, "/bcs/ledger/xledger/") {
			continue
		}
		if len(q.CallsIn(f, "Batch.Write")) == 0 {
			continue
		}
		n++
		tgt := q.ToSuccess()
		if has(f.Name(), "ConfirmBlock") {
			tgt = q.ToFieldStoreVal("ConfirmStatus.Succ", "true")
		}
		c.Gate(f, "Batch.Write", tgt, q.Opt{K1Only: true})
	}
	c.Floor("K1", "bcs/ledger/xledger", "functions issuing Batch.Write", n, 5)

	nothingAfterCommitPoint(c)
	// RollBackUnconfirmedTx: one batch for all undos; in-memory pool only after the write
	rb := c.Fn(st + "(*State).RollBackUnconfirmedTx")
	if rb != nil {
		c.SameValueArgs(rb, map[string]int{"State.undoUnconfirmedTx": 4, "Batch.Write": -1}, "all pool undos travel in one batch", "pool rollback is atomic")
		c.Gate(rb, "Batch.Write", q.ToCall("Map.Delete"), q.Opt{})
		c.Gate(rb, "State.undoUnconfirmedTx", q.ToCall("Batch.Write"), q.Opt{K1Only: true})
	}
	uu := c.Fn(st + "(*State).undoUnconfirmedTx")
	if uu != nil {
		c.Effect(uu, q.Eff{Spec: "Batch.Delete", Arg: 0, Glob: "append(\"N\",p1.Txid)", Why: "the pool record leaves in the batch that undoes the effects", Rule: "K10"})
		c.ArgIs(uu, "Batch.Delete", -1, "p4", 1, "in the caller's batch")
		c.ArgIs(uu, "State.undoTxInternal", 2, "p4", 1, "effects undone in the caller's batch")
		c.Gate(uu, "State.undoTxInternal", q.ToCall("Batch.Delete"), q.Opt{})
	}
	pm := c.Fn(st + "(*State).PlayForMiner")
	if pm != nil {
		c.Effect(pm, q.Eff{Spec: "Batch.Delete", Arg: 0, Glob: "append(\"N\",*QueryBlock(*)#0.Transactions[].Txid)", Why: "pool records of the packed transactions leave in the block's batch", Rule: "K10"})
		c.Gate(pm, "State.updateLatestBlockid", q.ToCall("Map.Delete"), q.Opt{})
	}
	pu := c.Fn(st + "(*State).processUnconfirmTxs")
	if pu != nil {
		c.ArgIs(pu, "Batch.Delete", -1, "p2", 1, "pool records of confirmed transactions leave in the block's batch")
		c.ArgIs(pu, "State.undoUnconfirmedTx", 4, "p2", 1, "conflicting pool transactions are undone in the block's batch")
	}
	pr := c.Fn(st + "(*State).PlayAndRepost")
	if pr != nil {
		c.Gate(pr, "State.updateLatestBlockid", q.ToCall("Map.Delete"), q.Opt{})
	}

	// K2: recovery wiring
	ns := c.Fn(st + "NewState")
	if ns != nil {
		c.Effect(ns, q.Eff{Spec: "kvdb::Database.Get", Arg: 0, Glob: "\"pointer\"", Why: "the persisted latest-block pointer is read at open", Rule: "K2"})
		c.StoreIs(ns, "State.latestBlockid", "i:Database.Get(*,\"pointer\")#0", 1, "and becomes the in-memory pointer")
		c.Gate(ns, "Tx.LoadUnconfirmedTxFromDisk", q.ToSuccess(), q.Opt{})
	}
	poolReload(c)
	tipNeq := q.Cond{Canon: "bytes.Equal(*TipBlockid,*latestBlockid)", Sense: false}
	for _, fn := range []string{miner + "(*Miner).mining", miner + "(*Miner).trySyncBlock"} {
		f := c.Fn(fn)
		if f == nil {
			continue
		}
		c.Effect(f, q.Eff{Spec: "State.Walk", Arg: 0, Glob: "*TipBlockid", Req: []q.Cond{tipNeq}, Why: "state is walked to the ledger tip whenever they differ, before the step proceeds", Rule: "K2"})
		c.Gate(f, "State.Walk", q.ToSuccess(), q.Opt{K1Only: true})
	}
	if f := c.Fn(miner + "(*Miner).mining"); f != nil {
		c.Before(f, q.ToCall("bytes::Equal"), q.ToCall("Miner.packBlock"), "tip/pointer comparison precedes packing")
		c.Gate(f, "State.Walk", q.ToCall("Miner.packBlock"), q.Opt{K1Only: true})
	}
	if f := c.Fn(miner + "(*Miner).trySyncBlock"); f != nil {
		c.Before(f, q.ToCall("bytes::Equal"), q.ToCall("Miner.syncBlock"), "tip/pointer comparison precedes synchronisation", q.Cond{Canon: "(nil == p2)", Sense: true})
		c.Gate(f, "State.Walk", q.ToCall("Miner.syncBlock"), q.Opt{K1Only: true})
	}
	if f := c.Fn(miner + "(*Miner).Start"); f != nil {
		c.Effect(f, q.Eff{Spec: "State.Walk", Arg: 0, Glob: "*", Req: []q.Cond{{Canon: "bytes.Equal(*)", Sense: false}}, Why: "miner loop walks the state to the ledger tip when they differ", Rule: "K2"})
	}
	// syncBlock: deferred reconciliation after ledger confirmation
	if f := c.Fn(miner + "(*Miner).syncBlock"); f != nil {
		nd := 0
		// the reconciliation is a deferred closure, or a deferred method of the miner with the same body
		for _, b := range f.Blocks {
			for _, ins := range b.Instrs {
				d, ok := ins.(*ssa.Defer)
				if !ok {
					continue
				}
				a := d.Call.StaticCallee()
				if a == nil || len(a.Blocks) == 0 || len(q.CallsIn(a, "State.Walk")) == 0 {
					continue
				}
				nd++
				c.Effect(a, q.Eff{Spec: "State.Walk", Arg: 0, Glob: "*TipBlockid", Req: []q.Cond{{Canon: "bytes.Equal(*)", Sense: false}}, Why: "after confirming downloaded blocks the state is walked to the ledger tip", Rule: "K2"})
			}
		}
		c.Check(nd == 1, "K2", miner+"(*Miner).syncBlock", "deferred ledger/state reconciliation present", "-", "a deferred closure walks the state to the ledger tip on every exit after blocks may have been confirmed")
	}
	if f := c.Fn(miner + "(*Miner).confirmBlockForMiner"); f != nil {
		c.Guard(f, q.Cond{Canon: "ledger.(*Ledger).ConfirmBlock(*).Succ", Sense: false}, q.ToCall("State.PlayForMiner"), q.Opt{})
		c.Before(f, q.ToCall("Ledger.ConfirmBlock"), q.ToCall("State.PlayForMiner"), "the ledger confirms before the state plays (ledger never behind state)")
		c.Gate(f, "State.PlayForMiner", q.ToCall("ProcessConfirmBlock"), q.Opt{})
	}

	// K7: the batch implementation issues one engine write
	if f := c.Fn("lib/storage/kvdb/leveldb::(*ldbBatch).Write"); f != nil {
		ws := q.CallsIn(f, "leveldb::DB.Write")
		c.Check(len(ws) == 1, "K7", "lib/storage/kvdb/leveldb::(*ldbBatch).Write", "exactly one engine write per batch", "-", "axiom: goleveldb applies one batch atomically")
		c.ArgIs(f, "leveldb::DB.Write", 1, "p0.b", 1, "the engine batch that Put/Delete filled")
		c.Gate(f, "leveldb::DB.Write", q.ToSuccess(), q.Opt{K1Only: true})
	}
	// ... and nobody else hands an engine batch to the engine: a batch that is written in pieces (spilled early,
	// flushed from Put) is not atomic, whatever its callers assume
	c.WhoCalls("leveldb::DB.Write", map[string]string{"lib/storage/kvdb/leveldb::(*ldbBatch).Write": "the one engine write of a batch"}, "an engine batch reaches the engine only through ldbBatch.Write")
	// Reset empties the engine batch: only the explicit Reset of the adapter may do that (not a partial flush)
	c.WhoCalls("leveldb::Batch.Reset", map[string]string{"lib/storage/kvdb/leveldb::(*ldbBatch).Reset": "explicit reset by the owner of the batch"}, "staged operations are dropped only by an explicit Reset")
	for _, m := range []string{"Put", "Delete"} {
		if f := c.Fn("lib/storage/kvdb/leveldb::(*ldbBatch)." + m); f != nil {
			c.Effect(f, q.Eff{Spec: "leveldb::Batch." + m, Arg: 0, Glob: "p1", Why: "batch operations only fill the engine batch", Rule: "K7"})
			c.Check(len(q.CallsIn(f, "leveldb::DB.Put|leveldb::DB.Delete|leveldb::DB.Write")) == 0, "K7", "lib/storage/kvdb/leveldb::(*ldbBatch)."+m, "a batch operation does not touch the engine directly", "-", "")
		}
	}
}

// poolReload (C06, C05, C02, C03): at open the in-memory pool is rebuilt from EVERY record of the persisted pool table -
// a pending transaction's effects are in the state tables, so a record that is skipped (because the transaction looks
// confirmed, old, or uninteresting) leaves effects that nothing will ever undo or confirm, and a reopened node answers
// differently from the one that kept running.
func poolReload(c *q.Ctx) {
	lu := c.Fn("bcs/ledger/xledger/tx::(*Tx).LoadUnconfirmedTxFromDisk")
	if lu != nil {
		c.ArgIs(lu, "NewIteratorWithPrefix", 0, "\"N\"", 1, "the pool is rebuilt from the persisted unconfirmed table")
		it := "i:Database.NewIteratorWithPrefix(p0.ldb,\"N\")"
		c.Effect(lu, q.Eff{Spec: "Map.Store", Arg: 0, Glob: "i:Iterator.Key(" + it + ")[1:]", Req: []q.Cond{{Canon: "i:Iterator.Next(" + it + ")", Sense: true}, {Canon: "(nil == proto.Unmarshal(i:Iterator.Value(" + it + "),local<Transaction>))", Sense: true}}, Exact: true, Why: "every persisted pool record is loaded, under its id, with no filter: a record that is skipped leaves effects in the state that no rollback knows about", Rule: "K2"})
		c.ArgIs(lu, "Map.Store", 2, "local<Transaction>", 1, "what is stored is the decoded record")
		for _, ci := range q.CallsIn(lu, "Map.Store") {
			args := ci.Common().Args
			c.Sites++
			c.Check(len(args) == 3 && q.FreshPerIteration(ci, args[2]), "K11", "bcs/ledger/xledger/tx::(*Tx).LoadUnconfirmedTxFromDisk", "every loaded record is decoded into its own object", c.At(ci), "an object allocated outside the loop is shared by all pool entries: every id maps to the last record decoded")
		}
	}
}

// nothingAfterCommitPoint (C06, C03): a block-level operation stages every step into one batch and nothing after the
// pointer update, which writes it - a step staged afterwards (the removal of a confirmed transaction's pool record, say)
// never reaches the disk while memory says otherwise.
func nothingAfterCommitPoint(c *q.Ctx) {
	const st = "bcs/ledger/xledger/state::"
	for fn, args := range map[string]map[string]int{
		st + "(*State).procUndoBlkForWalk": {"State.undoTxInternal": 2, "State.undoPayFee": 2, "Meta.UpdateNextIrreversibleBlockHeightForPrune": 4, "State.updateLatestBlockid": 2},
		st + "(*State).procTodoBlkForWalk": {"State.doTxInternal": 2, "State.payFee": 2, "Meta.UpdateNextIrreversibleBlockHeight": 4, "State.updateLatestBlockid": 2},
		st + "(*State).PlayAndRepost":      {"State.processUnconfirmTxs": 2, "State.doTxInternal": 2, "State.payFee": 2, "Meta.UpdateNextIrreversibleBlockHeight": 4, "State.updateLatestBlockid": 2},
		st + "(*State).PlayForMiner":       {"State.doTxInternal": 2, "State.payFee": 2, "Meta.UpdateNextIrreversibleBlockHeight": 4, "State.updateLatestBlockid": 2},
	} {
		if f := c.Fn(fn); f != nil {
			bv := c.SameValueArgs(f, args, "one batch per block, shared by every step and by the pointer update", "a block is applied or undone atomically")
			c.NoUseAfter(f, bv, "State.updateLatestBlockid", "updateLatestBlockid writes the batch: a step staged afterwards is lost at the next restart while memory says otherwise")
		}
	}
}

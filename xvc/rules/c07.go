package rules

import (
	"fmt"
	"strings"

	"xvc/q"
)

func init() {
	register("C07", c07, PropInfo{
		Explanation: "Structural necessary conditions of transaction integrity/authorisation: (K4) the v3 digest encoder (txDigestHashV2) hands every protobuf leaf field of Transaction and of the messages nested in it to the hash, each repeated field with its length, the signature fields exactly under includeSigns and everything else unconditionally, never in map-iteration order; the v1/v2 JSON encoder covers the same fields (conditional omissions tolerated); exclusions are a table with reasons; (K2/K1) ImmediateVerifyTx reaches `true` only through txid recomputation+equality and the good edges of verifySignatures, verifyUTXOPermission, verifyContractPermission, verifyContractTxAmount, verifyRWSetPermission, verifyTxRWSets, the digest handed to verifySignatures being MakeTxDigestHash(tx); inside verifySignatures / verifyXuperSign / verifyUTXOPermission / verifyMarkedTx / IdentifyAK / VerifySign every cryptographic verdict and every length agreement test leads to rejection; (K1) every caller of VerifyTx / ImmediateVerifyTx / ImmediateVerifyAutoTx obeys the boolean; (K13) on both block paths every class of transaction over {valid timer tx, coinbase} reaches a verifier before doTxInternal.",
		NotDecided:  "cryptographic soundness, injectivity of the v1 JSON stream encoding (conditional omissions), ACL evaluation values (C11)",
		Assumptions: []string{"sha256 / ECDSA are sound", "VerifyECDSA answers (false, nil) for a well-formed wrong signature (read from lib/crypto)"},
	})
}

func c07(c *q.Ctx) {
	permTree(c)
	aclValidators(c)
	// inputs a contract spends on the initiator's behalf are exempt from the signer check of verifyUTXOPermission: the
	// replay reader is what ties EVERY one of them to the payer the contract named
	utxoReaderRules(c)
	const st = "bcs/ledger/xledger/state::"
	const th = "bcs/ledger/xledger/state/utxo/txhash::"
	const au = "kernel/permission/acl/utils::"
	txT := c.TypeOf("bcs/ledger/xledger/xldgpb", "Transaction")
	excluded := map[string]string{
		"p0.Txid":              "the hash itself",
		"p0.Blockid":           "assigned by the ledger when the block is confirmed (node-local)",
		"p0.ReceivedTimestamp": "node-local arrival time",
		"p0.ModifyBlock":       "regulator overlay, verified by verifyMarkedTx over the digest with this field cleared",
	}
	sigCond := func(path string) []q.Cond {
		if strings.HasPrefix(path, "p0.InitiatorSigns") || strings.HasPrefix(path, "p0.AuthRequireSigns") || strings.HasPrefix(path, "p0.XuperSign") {
			return []q.Cond{{Canon: "p1", Sense: true}}
		}
		return nil
	}
	if v3 := c.Fn(th + "txDigestHashV2"); v3 != nil && txT != nil {
		c.FieldCoverage(v3, q.Coverage{Msg: txT, Root: "p0", Sink: "encoder.Encode", ArgIdx: 1, NeedLen: true, Excluded: excluded, CondFor: sigCond})
		c.NoMapOrder(v3, "encoder.Encode|Writer.Write|io::WriteString")
	}
	if em := c.Fn(th + "(*encoder).EncodeMap"); em != nil {
		c.NoMapOrder(em, "encoder.EncodeString|encoder.EncodeBytes|encoder.EncodeInt64|Writer.Write")
		c.Effect(em, q.Eff{Spec: "sort::Strings", Arg: 0, Glob: "*", Why: "map entries are hashed in sorted key order", Rule: "K4"})
		c.Effect(em, q.Eff{Spec: "encoder.EncodeInt64", Arg: 0, Glob: "len(p1)", Why: "number of entries is part of the pre-image", Rule: "K4"})
	}
	for _, m := range []string{"EncodeString", "EncodeBytes"} {
		if f := c.Fn(th + "(*encoder)." + m); f != nil {
			c.Effect(f, q.Eff{Spec: "encoder.EncodeInt64", Arg: 0, Glob: "len(p1)", Exact: true, Keep: func(q.Cond) bool { return true }, Why: "length prefix makes the concatenation injective", Rule: "K4"})
		}
	}
	if v1 := c.Fn(th + "encodeTxData"); v1 != nil && txT != nil {
		allow := func(path string, g q.Cond) bool {
			s := g.Canon
			if strings.Contains(s, "json.(*Encoder).Encode(") { // error propagation of an earlier Encode
				return true
			}
			if !g.Sense && s == "(0 == len("+path+"))" { // omit-when-empty of the v1 format
				return true
			}
			if path == "p0.XuperSign" || strings.HasPrefix(path, "p0.XuperSign.") {
				return s == "(nil == p0.XuperSign)" && !g.Sense
			}
			if strings.HasPrefix(path, "p0.HDInfo") {
				return s == "(p0.Version < 2)" && !g.Sense
			}
			return false
		}
		c.FieldCoverage(v1, q.Coverage{Msg: txT, Root: "p0", Sink: "json::Encoder.Encode", ArgIdx: 1, WholeOK: true, Excluded: excluded, CondFor: sigCond, AllowCond: allow})
	}
	for _, f := range []string{"MakeTransactionID", "MakeTxDigestHash"} {
		fn := c.Fn(th + f)
		if fn == nil {
			continue
		}
		want := "true"
		if f == "MakeTxDigestHash" {
			want = "false"
		}
		for _, callee := range []string{"txDigestHashV2", "encodeTxData"} {
			for _, ci := range q.CallsIn(fn, callee) {
				c.Check(q.Canon(ci.Common().Args[1]) == want, "K4", th+f, "includeSigns of "+callee+" is "+want, c.At(ci), "the id covers the signatures, the signing digest does not")
				c.Check(q.Canon(ci.Common().Args[0]) == "p0", "K11", th+f, callee+" hashes the transaction that was passed", c.At(ci), "")
			}
		}
		c.Effect(fn, q.Eff{Spec: "txDigestHashV2", Arg: 0, Glob: "p0", Req: []q.Cond{{Canon: "(p0.Version < 3)", Sense: false}}, Why: "version 3 uses the length-prefixed encoding", Rule: "K4"})
		c.Effect(fn, q.Eff{Spec: "hash::DoubleSha256", Arg: 0, Glob: "txhash.encodeTxData(p0," + want + ")#0", Why: "version 1/2 hash the JSON stream", Rule: "K4"})
	}

	// ---- ImmediateVerifyTx pipeline
	iv := c.Fn(st + "(*State).ImmediateVerifyTx")
	if iv != nil {
		beta := []q.Cond{{Canon: "(0 < p1.Version)", Sense: false}} // RootTxVersion transactions are admitted only with isRootTx (checked below)
		c.Guard(iv, q.Cond{Canon: "(0 == bytes.Compare(p1.Txid,txhash.MakeTransactionID(p1)#0))", Sense: false}, q.ToSuccess(), q.Opt{})
		for _, g := range []string{"txhash::MakeTransactionID", "txhash::MakeTxDigestHash", "State.verifySignatures", "State.verifyUTXOPermission", "State.verifyContractPermission", "State.verifyContractTxAmount", "State.verifyRWSetPermission", "State.verifyTxRWSets"} {
			c.Gate(iv, g, q.ToSuccess(), q.Opt{Unless: beta})
		}
		c.ArgIs(iv, "State.verifySignatures", 2, "txhash.MakeTxDigestHash(p1)#0", 1, "signatures are checked over the digest of this transaction")
		c.ArgIs(iv, "State.verifySignatures", 1, "p1", 1, "of this transaction")
		c.ArgIs(iv, "State.verifyUTXOPermission", 2, "state.(*State).verifySignatures(*)#1", 1, "input owners are matched against the identities whose signatures verified")
		c.ArgIs(iv, "State.verifyRWSetPermission", 2, "state.(*State).verifySignatures(*)#1", 1, "ACL-bucket writes are matched against the verified identities")
		// version / root handling
		c.Guard(iv, q.Cond{Canon: "(0 == p1.Version)", Sense: true}, q.ToSuccess(), q.Opt{Unless: []q.Cond{{Canon: "p2", Sense: true}}})
		c.Guard(iv, q.Cond{Canon: "p1.Autogen", Sense: true}, q.ToSuccess(), q.Opt{})
	}
	// who may verify as root
	for name, sites := range c.CallersOf("State.ImmediateVerifyTx") {
		for _, ci := range sites {
			arg := q.Canon(ci.Common().Args[2])
			ok := arg == "false" || name == st+"(*State).verifyDAGTxs"
			c.Check(ok, "K3", name, "ImmediateVerifyTx is called with isRootTx=false", c.At(ci), "only the genesis play (PlayAndRepost(_, _, true) <- Play) may skip the version-0 rejection; got `"+arg+"`")
		}
	}
	c.WhoCalls("State.PlayAndRepost", map[string]string{st + "(*State).Play": "genesis play (isRootTx=true), used by CreateLedger and para-chain creation"}, "isRootTx=true is reachable only through Play")

	vs := c.Fn(st + "(*State).verifySignatures")
	if vs != nil {
		c.Gate(vs, "utils::IdentifyAK", q.ToSuccess(), q.Opt{K1Only: true, Min: 3})
		c.Gate(vs, "utils::IdentifyAccount", q.ToSuccess(), q.Opt{K1Only: true})
		c.Gate(vs, "GetEcdsaPublicKeyFromJsonStr", q.ToSuccess(), q.Opt{K1Only: true})
		c.Gate(vs, "GetAddressFromPublicKey", q.ToSuccess(), q.Opt{K1Only: true})
		c.Guard(vs, q.Cond{Canon: "(len(p1.InitiatorSigns) < 1)", Sense: true}, q.ToSuccess(), q.Opt{Unless: []q.Cond{{Canon: "(nil == p1.XuperSign)", Sense: false}}})
		c.Guard(vs, q.Cond{Canon: "(len(p1.AuthRequire) == len(p1.AuthRequireSigns))", Sense: false}, q.ToSuccess(), q.Opt{Unless: []q.Cond{{Canon: "(nil == p1.XuperSign)", Sense: false}}})
		c.Effect(vs, q.Eff{Spec: "utils::IdentifyAK", Arg: 0, Glob: "p1.Initiator", Req: []q.Cond{{Canon: "(0 == utils.IsAccount(p1.Initiator))", Sense: true}}, Why: "an address initiator must sign", Rule: "K2"})
		c.Effect(vs, q.Eff{Spec: "utils::IdentifyAK", Arg: 2, Glob: "p2", Why: "over the digest passed in", Rule: "K11"})
		c.Effect(vs, q.Eff{Spec: "utils::IdentifyAK", Arg: 0, Glob: "strings.Split(p1.AuthRequire[],\"/\")[last]", Req: []q.Cond{{Canon: "has(newmap<map[string]bool>,strings.Split(p1.AuthRequire[],\"/\")[last])", Sense: false}}, Why: "every AuthRequire entry not already verified must sign", Rule: "K2"})
		c.Effect(vs, q.Eff{Spec: "utils::IdentifyAK", Arg: 1, Glob: "p1.AuthRequireSigns[]", Why: "with the signature at the same index", Rule: "K11"})
		for _, ci := range q.CallsIn(vs, "utils::IdentifyAK") {
			c.Check(q.Canon(ci.Common().Args[2]) == "p2", "K11", st+"(*State).verifySignatures", "IdentifyAK verifies over the digest parameter", c.At(ci), "")
		}
		c.Effect(vs, q.Eff{Spec: "State.verifyXuperSign", Arg: 1, Glob: "p2", Req: []q.Cond{{Canon: "(nil == p1.XuperSign)", Sense: false}}, Why: "aggregated-signature transactions use the XuperSign path with the same digest", Rule: "K11"})
	}
	xuperSignRules(c)
	blockVerifyFirstError(c)
	methodPermArgs(c)
	// a covered field enters the digest whole: no integer is narrowed on its way into the encoder (the dropped upper
	// bits could be changed under a valid signature)
	if f := c.Fn(th + "txDigestHashV2"); f != nil {
		spec := "encoder.Encode"
		idx := 1
		bad, n := q.NarrowedArgs(f, spec, idx)
		c.Sites += n
		c.Floor("K4", th+"txDigestHashV2", "fields handed to the digest encoder", n, 20)
		for _, ci := range bad {
			c.Fail("K4", th+"txDigestHashV2", "no integer field is narrowed on its way into the digest", c.At(ci), "the encoder receives `"+q.Canon(ci.Common().Args[idx])+"`: a conversion to a narrower integer type drops the upper bits of a signed field")
		}
		if len(bad) == 0 {
			c.OK("K4", th+"txDigestHashV2", "no integer field is narrowed on its way into the digest", "-", fmt.Sprintf("%d encoder call(s) inspected", n))
		}
	}
	// every check of ImmediateVerifyTx / ImmediateVerifyAutoTx sits under `version > root version`: a version outside
	// [root, beta] - above OR below - is refused first (a negative version would reach `return true` unchecked)
	for _, name := range []string{"ImmediateVerifyTx", "ImmediateVerifyAutoTx"} {
		if f := c.Fn(st + "(*State)." + name); f != nil {
			p := "p1"
			if name == "ImmediateVerifyAutoTx" {
				p = "p2"
			}
			c.Guard(f, q.Cond{Canon: "(" + p + ".Version < 0)", Sense: true}, q.ToSuccess(), q.Opt{})
			c.Guard(f, q.Cond{Canon: "(3 < " + p + ".Version)", Sense: true}, q.ToSuccess(), q.Opt{})
		}
	}
	// the verified-identity set of the classic signature path: the initiator and, per auth_require entry, the LAST
	// element of the path - the one whose signature IdentifyAK checked (never the account the path starts with)
	if vs := c.Fn(st + "(*State).verifySignatures"); vs != nil {
		c.MapStoreKeys(vs, "newmap<map[string]bool>", []string{"p1.Initiator", "strings.Split(p1.AuthRequire[],\"/\")[last]",
			"i:CryptoClient.GetAddressFromPublicKey(p0.sctx.Crypt,i:CryptoClient.GetEcdsaPublicKeyFromJsonStr(p0.sctx.Crypt,p1.InitiatorSigns[].PublicKey)#0)#0"}, "only names whose key signed are marked verified")
	}
	vu := c.Fn(st + "(*State).verifyUTXOPermission")
	if vu != nil {
		c.Gate(vu, "utils::IdentifyAccount", q.ToSuccess(), q.Opt{K1Only: true})
		c.Gate(vu, "State.queryAccountACL", q.ToSuccess(), q.Opt{K1Only: true})
		c.Gate(vu, "xmodel::ParseContractUtxoInputs", q.ToSuccess(), q.Opt{K1Only: true})
		c.Guard(vu, q.Cond{Canon: "(0 == utils.IsAccount(p1.TxInputs[].FromAddr))", Sense: true}, q.ToSuccess(), q.Opt{})
		c.Guard(vu, q.Cond{Canon: "(1 == utils.IsAccount(p1.TxInputs[].FromAddr))", Sense: false}, q.ToSuccess(), q.Opt{})
		// an input is waved through only when its owner was verified, or it is listed as a contract-originated input
		keep := func(g q.Cond) bool { return !strings.Contains(g.Canon, "len(") }
		c.Effect(vu, q.Eff{Spec: "utils::IsAccount", Arg: 0, Glob: "p1.TxInputs[].FromAddr", Req: []q.Cond{{Canon: "p2[p1.TxInputs[].FromAddr]", Sense: false}, {Canon: "has(newmap<map[string]bool>,utxo.GenUtxoKey(*p1.TxInputs[]*))", Sense: false}, {Canon: "(nil == xmodel.ParseContractUtxoInputs(p1)#1)", Sense: true}}, Exact: true, Keep: keep, Why: "every input whose owner is neither a verified identity nor contract-justified is classified and checked", Rule: "K2"})
	}
	vm := c.Fn(st + "(*State).verifyMarkedTx")
	if vm != nil {
		c.Gate(vm, "VerifyAddressUsingPublicKey", q.ToSuccess(), q.Opt{})
		c.Gate(vm, "VerifyECDSA", q.ToSuccess(), q.Opt{})
		c.ArgIs(vm, "VerifyAddressUsingPublicKey", 0, "p0.utxo.ModifyBlockAddr", 1, "the regulator key must hash to the configured regulator address")
		c.ArgIs(vm, "VerifyECDSA", 2, "txhash.MakeTxDigestHash(p1)#0", 1, "over the digest of this transaction")
	}
	ia := c.Fn(au + "IdentifyAK")
	if ia != nil {
		c.Gate(ia, "utils::VerifySign", q.ToSuccess(), q.Opt{})
		c.ArgIs(ia, "utils::VerifySign", 1, "p1", 1, "the signature passed in")
		c.ArgIs(ia, "utils::VerifySign", 2, "p2", 1, "over the message passed in")
	}
	vsn := c.Fn(au + "VerifySign")
	if vsn != nil {
		c.Gate(vsn, "VerifyAddressUsingPublicKey", q.ToSuccess(), q.Opt{})
		c.Gate(vsn, "VerifyECDSA", q.ToSuccess(), q.Opt{})
		c.ArgIs(vsn, "VerifyAddressUsingPublicKey", 0, "p0", 1, "the public key must hash to the address that is being identified")
		c.ArgIs(vsn, "VerifyECDSA", 1, "p1.Sign", 1, "the signature of the entry")
		c.ArgIs(vsn, "VerifyECDSA", 2, "p2", 1, "over the message passed in")
	}

	// a transaction without contract requests must not smuggle a read/write set (verifyUTXOPermission trusts the
	// `$transient/ContractUtxo.Inputs` listing only because verifyTxRWSets reproduces or refuses it)
	if vt := c.Fn(st + "(*State).verifyTxRWSets"); vt != nil {
		c.Guard(vt, q.Cond{Canon: "(nil == p1.TxInputsExt)", Sense: false}, q.ToSuccess(), q.Opt{})
		c.Guard(vt, q.Cond{Canon: "(nil == p1.TxOutputsExt)", Sense: false}, q.ToSuccess(), q.Opt{})
	}

	// ---- consumers obey the verdict
	nCons := 0
	for _, spec := range []string{"State.VerifyTx", "State.ImmediateVerifyTx", "State.ImmediateVerifyAutoTx"} {
		for name := range c.CallersOf(spec) {
			fn := c.P.Funcs[name]
			if fn == nil {
				continue
			}
			nCons++
			tgt := q.ToSuccess()
			opt := q.Opt{K1Only: true}
			switch name {
			case st + "(*State).recoverUnconfirmedTx":
				tgt = q.ToCallSameIter("State.doTxSync")
			case st + "(*State).VerifyTx":
				opt.Unless = []q.Cond{{Canon: "state.(*State).verifyMarked(p0,p1)#1", Sense: true}}
			case st + "(*State).verifyDAGTxs":
				opt.Unless = []q.Cond{{Canon: "state.(*State).verifyMarked(p0,p2[])#1", Sense: true}}
			}
			c.Gate(fn, spec, tgt, opt)
		}
	}
	c.Floor("K1", "module", "consumers of the transaction verifiers", nCons, 6)
	// regulator overlay: a failed ordinary verification is overridden only by a good verifyMarked verdict
	if f := c.Fn(st + "(*State).verifyDAGTxs"); f != nil {
		c.Guard(f, q.Cond{Canon: "state.(*State).verifyMarked(p0,p2[])#0", Sense: false}, q.ToSuccess(), q.Opt{Unless: []q.Cond{{Canon: "state.(*State).ImmediateVerifyTx(p0,p2[],p3)#0", Sense: true}}})
	}
	if f := c.Fn("kernel/engines/xuperos::(*Chain).SubmitTx"); f != nil {
		c.Gate(f, "State.VerifyTx", q.ToCall("State.DoTx"), q.Opt{})
	}

	// ---- module-wide sweep: no cryptographic verdict is discarded anywhere
	nv := c.VerdictSweep("VerifyECDSA|VerifyAddressUsingPublicKey|VerifyXuperSignature|utils::VerifySign|utils::IdentifyAK|utils::IdentifyAccount|utils::CheckContractMethodPerm", nil)
	c.Floor("K1", "module", "cryptographic / ACL verifier call sites", nv, 20)

	// ---- K13: dispatch classes on both block paths
	exempt := map[string]string{}
	if f := c.Fn(st + "(*State).procTodoBlkForWalk"); f != nil {
		c.DecisionTable(f, []string{"state.(*State).verifyAutogenTxValid(p0,p1[#down].Transactions[])", "p1[#down].Transactions[].Coinbase"}, []string{"timerTx", "coinbase"}, "State.ImmediateVerifyTx|State.ImmediateVerifyAutoTx", "State.doTxInternal", exempt, "walk path")
	}
	if f := c.Fn(st + "(*State).verifyDAGTxs"); f != nil {
		c.DecisionTable(f, []string{"state.(*State).verifyAutogenTxValid(p0,p2[])", "p2[].Coinbase", "p4[p2[].Txid]"}, []string{"timerTx", "coinbase", "inPool"}, "State.ImmediateVerifyTx|State.ImmediateVerifyAutoTx", "return", map[string]string{
			"timerTx=false,coinbase=false,inPool=true": "already verified when it was admitted to the pool",
			"timerTx=true,coinbase=false,inPool=true":  "already verified when it was admitted to the pool",
			"timerTx=false,coinbase=true,inPool=true":  "already verified when it was admitted to the pool",
			"timerTx=true,coinbase=true,inPool=true":   "already verified when it was admitted to the pool",
		}, "play path", "(#i < len(p2))")
	}
}

// xuperSignRules (C07, C11): the aggregated-signature path. What it returns is the set of verified identities that the
// permission checks (UTXO owner, RW-set, contract owner) take on trust.
func xuperSignRules(c *q.Ctx) {
	const st = "bcs/ledger/xledger/state::"
	xs := c.Fn(st + "(*State).verifyXuperSign")
	if xs != nil {
		c.Gate(xs, "VerifyAddressUsingPublicKey", q.ToSuccess(), q.Opt{K1Only: true})
		c.Gate(xs, "VerifyXuperSignature", q.ToSuccess(), q.Opt{})
		c.Gate(xs, "GetEcdsaPublicKeyFromJsonStr", q.ToSuccess(), q.Opt{K1Only: true})
		c.Guard(xs, q.Cond{Canon: "(len(p1.XuperSign.PublicKeys) == len(*p1.Initiator*))", Sense: false}, q.ToSuccess(), q.Opt{})
		// every name that comes back as a verified identity is in the list that is matched against the public keys:
		// the initiator unconditionally, each auth_require signer once
		c.Guard(xs, q.Cond{Canon: "(len(p1.XuperSign.PublicKeys) == len(phi{[p1.Initiator]|append(loop,[strings.Split(p1.AuthRequire[],\"/\")[last]])|loop}))", Sense: false}, q.ToSuccess(), q.Opt{})
		c.MapStoreKeys(xs, "newmap<map[string]bool>", []string{"p1.Initiator", "strings.Split(p1.AuthRequire[],\"/\")[last]"}, "the verified set holds the initiator and the last element of each signer path, nothing else")
		c.ArgIs(xs, "VerifyXuperSignature", 1, "p1.XuperSign.Signature", 1, "the aggregated signature of the transaction")
		c.ArgIs(xs, "VerifyXuperSignature", 2, "p2", 1, "over the digest passed in")
		// one signature marks EVERY listed address as having signed only if it binds every listed key: the crypto
		// library checks a plain ECDSA/Schnorr signature against the first key alone and a ring signature proves
		// that one unnamed key signed; only a multi-signature covers all of them
		c.OnlyUnder(xs, q.ToSuccess(), []q.Cond{
			{Canon: "(1 < len(*GetEcdsaPublicKeyFromJsonStr(*p1.XuperSign.PublicKeys[])#0*))", Sense: false},
			{Canon: "(\"MultiSig\" == *.SigType)", Sense: true},
		}, "several listed keys are all marked as signers only behind a multi-signature")
	}
}

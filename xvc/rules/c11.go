package rules

import (
	ssa "xvc/xssa"

	"xvc/q"
)

func init() {
	register("C11", c11, PropInfo{
		Explanation: "Structural necessary conditions of ACL evaluation: (K5) ThresholdValidator accepts iff weightSum >= AcceptValue, only children whose Status is Success contribute, and a child's weight is looked up by its name in the rule's weight table (0 when absent); AKSetsValidator accepts a set only if every listed key is found among the children with Status Success, and the rule if some set is accepted; (K12) buildPermTree looks a path component up among the children of the node it is currently descending (not of the root) and appends a new child only after that lookup missed - one node per distinct signer per parent; for account trees a URI contributes only if it has at least two segments and starts with the account's name; (K1) validatePermTree propagates validator errors, rejects unknown rules and names, and answers root.Status == Success; (K7/K1) verifyRWSetPermission has one arm per ACL bucket (account, contract method, contract-to-account) whose failed identification rejects the transaction; the owner of a contract is taken only from a CONFIRMED record, and that test precedes every accepting exit; (K3) the ACL manager reads rules only through the tip snapshot reader (confirmed chain).",
		NotDecided:  "soundness/monotonicity over all rule x signer multisets (an enumeration of values); nested-account semantics beyond the tree shape",
		Assumptions: []string{"signature verification of leaf keys happened before (C07)"},
	})
}

func c11(c *q.Ctx) {
	const rl = "kernel/permission/acl/rule::"
	const pt = "kernel/permission/acl/ptree::"
	const ut = "kernel/permission/acl/utils::"
	const st = "bcs/ledger/xledger/state::"
	aclValidators(c)
	xuperSignRules(c)
	// the rule that is evaluated is the one the confirmed state holds NOW: every answer of the ACL manager comes out of a
	// snapshot read made for this call (a remembered rule outlives the change of the rule: SetAccountAcl runs at
	// pre-execution time, long before the change is confirmed)
	for _, m := range []string{"GetAccountACL", "GetContractMethodACL"} {
		if f := c.Fn("kernel/permission/acl::(*Manager)." + m); f != nil {
			c.Gate(f, "Manager.GetObjectBySnapshot", q.ToSuccess(), q.Opt{})
		}
	}
	c.MemoFields("kernel/permission/acl", "Manager", map[string]string{}, "ACL answers come out of the tip snapshot on every call")
	permTree(c)
	methodPermArgs(c)
	liveModelHandOut(c)
	vp := c.Fn(ut + "validatePermTree")
	if vp != nil {
		c.ReturnIs(vp, 0, []string{"false", "(2 == p0.Status)"}, "the verdict is the status computed for the root")
		c.Guard(vp, q.Cond{Canon: "(i:ACLValidator.Validate(*)#1 == nil)", Sense: false}, q.ToSuccess(), q.Opt{})
		c.Gate(vp, "ACLValidatorFactory.GetACLValidator", q.ToSuccess(), q.Opt{K1Only: true})
		c.ArgIs(vp, "ACLValidator.Validate", 0, "ptree.GetPermTreeList(p0)#0[#down]", 1, "nodes are evaluated leaves first (reverse BFS order)")
		node := "ptree.GetPermTreeList(p0)#0[#down]"
		// the validator that judges a node is the one built for THAT node's rule (threshold, AK sets, ...), not one
		// remembered from another node of the tree
		c.ArgIs(vp, "ACLValidator.Validate", -1, "rule.(*ACLValidatorFactory).GetACLValidator(*,"+node+".ACL.Pm.Rule)#0", 1, "each node is judged by the validator of its own rule")
		// a member whose own rule is not satisfied merely contributes nothing: it is marked failed and the evaluation
		// goes on with the next node (monotonicity: adding a signer never turns acceptance into rejection)
		c.Then(vp, q.Target{Name: "a validator verdict", Instr: func(i ssa.Instruction) bool {
			ci, ok := i.(ssa.CallInstruction)
			return ok && q.Callee(ci.Common()).Match("ACLValidator.Validate")
		}}, q.ToFieldStore("PermNode.Status"), q.ToAnyReturn(), []q.Cond{{Canon: "(i:ACLValidator.Validate(*)#1 == nil)", Sense: false}}, "every evaluated node gets a status (success or failed) unless the validator itself failed")
		if len(c.P.Notes) > 0 { // analysed without the normalising transforms: the verdict is still a merged boolean
			c.FieldStoreUnder(vp, "PermNode.Status", "2", []q.Cond{{Canon: "phi{*Validate(*)#0*}", Sense: true}}, "a node succeeds only if its own evaluation answered true")
		} else {
			c.StaysInLoop(vp, q.Cond{Canon: "i:ACLValidator.Validate(*)#0", Sense: false}, q.Cond{Canon: "!(#down(ptree.GetPermTreeList(p0)#0) < 0)"}, "a node that fails its rule does not abort the evaluation")
			c.OnlyUnder(vp, q.ToFieldStoreVal("PermNode.Status", "2"), []q.Cond{
				{Canon: "i:ACLValidator.Validate(*)#0", Sense: true},
				{Canon: "(0 == len(" + node + ".Children))", Sense: true},
				{Canon: "(nil == " + node + ".ACL)", Sense: true},
			}, "a node succeeds only if its rule's validator answered true, or it has no rule, or it is a key AND a leaf: only the last element of an auth_require path is signature-checked, so a key named as an inner element proves nothing")
		}
	}
	for _, f := range []string{"IdentifyAccount", "CheckContractMethodPerm"} {
		if fn := c.Fn(ut + f); fn != nil {
			c.Gate(fn, "ptree::BuildAccountPermTree|ptree::BuildMethodPermTree", q.ToSuccess(), q.Opt{K1Only: true})
		}
	}
	// writes to the ACL buckets
	vr := c.Fn(st + "(*State).verifyRWSetPermission")
	if vr != nil {
		// the arms below can be by-passed only by a transaction that carries no contract request at all (whoever
		// wrote the ACL buckets - a kernel request, a contract deployed under a bucket's name, a cross-contract call)
		c.OnlyUnder(vr, q.ToSuccess(), []q.Cond{
			{Canon: "(nil == p1.ContractRequests)", Sense: true},
			{Canon: "(#i < len(phi{[]|append(loop,[local<PureData>])}))", Sense: false},
		}, "accepted without looking at the write set only when there is no request; otherwise only after every written ACL entry was judged")
		ele := "phi{[]|append(loop,[local<PureData>])}[]"
		c.Effect(vr, q.Eff{Spec: "utils::IdentifyAccount", Arg: 1, Glob: ele + ".Key", Req: []q.Cond{{Canon: "(" + ele + ".Bucket == utils.GetAccountBucket())", Sense: true}, {Canon: "p2[" + ele + ".Key]", Sense: false}}, Why: "changing an account's rule requires satisfying that account's current rule", Rule: "K7"})
		c.Effect(vr, q.Eff{Spec: "State.verifyContractOwnerPermission", Arg: 0, Glob: ele + ".Key[:*]", Req: []q.Cond{{Canon: "(" + ele + ".Bucket == utils.GetContractBucket())", Sense: true}}, Why: "changing a contract method's rule requires the owning account", Rule: "K7"})
		c.Effect(vr, q.Eff{Spec: "utils::IdentifyAccount", Arg: 1, Glob: ele + ".Value", Req: []q.Cond{{Canon: "(" + ele + ".Bucket == utils.GetContract2AccountBucket())", Sense: true}, {Canon: "p2[" + ele + ".Value]", Sense: false}}, Why: "binding a contract to an account requires that account", Rule: "K7"})
		c.Gate(vr, "utils::IdentifyAccount", q.ToSuccess(), q.Opt{K1Only: true, Min: 2})
		c.Gate(vr, "State.verifyContractOwnerPermission", q.ToSuccess(), q.Opt{K1Only: true})
		c.StoreIs(vr, "PureData.Bucket", "p1.TxOutputsExt[].Bucket", 1, "every write of the transaction is examined")
		c.ArgIs(vr, "utils::IdentifyAccount", 2, "p1.AuthRequire", 2, "against the transaction's signer list")
	}
	vo := c.Fn(st + "(*State).verifyContractOwnerPermission")
	if vo != nil {
		g := "xmodel.(*XModel).GetWithTxStatus(p0.xmodel,utils.GetContract2AccountBucket(),p1)"
		c.Guard(vo, q.Cond{Canon: g + "#1", Sense: false}, q.ToSuccess(), q.Opt{})
		c.OnlyUnder(vo, q.ToSuccess(), []q.Cond{{Canon: g + "#1", Sense: true}}, "every accepting exit - including the already-verified shortcut - lies behind the test that the owner record is confirmed")
		c.Guard(vo, q.Cond{Canon: "(nil == " + g + "#2)", Sense: false}, q.ToSuccess(), q.Opt{})
		c.Guard(vo, q.Cond{Canon: "(nil == " + g + "#0.PureData)", Sense: true}, q.ToSuccess(), q.Opt{})
		c.ArgIs(vo, "utils::IdentifyAccount", 1, g+"#0.PureData.Value", 1, "the owner is the account recorded for the contract")
		c.ArgIs(vo, "utils::IdentifyAccount", 2, "p2.AuthRequire", 1, "")
		c.Gate(vo, "utils::IdentifyAccount", q.ToSuccess(), q.Opt{K1Only: true, Unless: nil})
	}
	// rule reads go through the tip snapshot (confirmed chain only)
	const ac = "kernel/permission/acl::"
	if f := c.Fn(ac + "(*Manager).GetObjectBySnapshot"); f != nil {
		c.Gate(f, "GetTipXMSnapshotReader", q.ToSuccess(), q.Opt{})
		c.ArgIs(f, "XMSnapshotReader.Get", -1, "i:LedgerRely.GetTipXMSnapshotReader(p0.Ctx.Ledger)#0", 1, "rules are read from the snapshot at the confirmed tip")
		c.ArgIs(f, "XMSnapshotReader.Get", 0, "p1", 1, "")
	}
	if f := c.Fn(ac + "(*Manager).GetAccountACL"); f != nil {
		c.ArgIs(f, "Manager.GetObjectBySnapshot", 1, "utils.GetAccountBucket()", 1, "account rules live in the account bucket")
		c.ArgIs(f, "Manager.GetObjectBySnapshot", 2, "p1", 1, "keyed by account name")
	}
	if f := c.Fn(ac + "(*Manager).GetContractMethodACL"); f != nil {
		c.ArgIs(f, "Manager.GetObjectBySnapshot", 1, "utils.GetContractBucket()", 1, "method rules live in the contract bucket")
		c.ArgIs(f, "Manager.GetObjectBySnapshot", 2, "utils.MakeContractMethodKey(p1,p2)", 1, "keyed by contract and method")
	}
}

func isReturnMaybeTrue(i ssa.Instruction) bool {
	r, ok := i.(*ssa.Return)
	if !ok || len(r.Results) == 0 {
		return false
	}
	if b, isC := q.ConstBool(r.Results[0]); isC {
		return b
	}
	// a phi: true on some edge
	if ph, ok := r.Results[0].(*ssa.Phi); ok {
		for _, e := range ph.Edges {
			if b, isC := q.ConstBool(e); isC && b {
				return true
			}
		}
		return false
	}
	return true
}

// permTree (K12): one node per distinct signer per parent, looked up under the node being descended; account trees
// accept only URIs of the account (shared by C11 and C07: authorisation is evaluated on this tree).
func permTree(c *q.Ctx) {
	const pt = "kernel/permission/acl/ptree::"
	bp := c.Fn(pt + "buildPermTree")
	if bp != nil {
		cur := "phi{p0|ptree.(*PermNode).FindChild(loop,ptree.SplitAccountURI(p2[])[])|ptree.NewPermNode(*)}"
		c.Effect(bp, q.Eff{Spec: "PermNode.FindChild", Arg: -2, Glob: cur, Why: "a path component is looked up among the children of the node being descended", Rule: "K12"})
		c.Effect(bp, q.Eff{Spec: "append", Arg: 0, Glob: cur + ".Children", Req: []q.Cond{{Canon: "(nil == ptree.(*PermNode).FindChild(" + cur + ",ptree.SplitAccountURI(p2[])[]))", Sense: true}}, Why: "a child is created only after the lookup under the same parent missed: one node per distinct signer", Rule: "K12"})
		c.Guard(bp, q.Cond{Canon: "(p0.Name == ptree.SplitAccountURI(p2[])[0])", Sense: false}, q.ToCallSameIter("PermNode.FindChild"), q.Opt{Unless: []q.Cond{{Canon: "p3", Sense: false}}})
		c.Guard(bp, q.Cond{Canon: "(len(ptree.SplitAccountURI(p2[])) < 2)", Sense: true}, q.ToCallSameIter("PermNode.FindChild"), q.Opt{Unless: []q.Cond{{Canon: "p3", Sense: false}}})
		c.Gate(bp, "AclManager.GetAccountACL", q.ToSuccess(), q.Opt{K1Only: true})
		// every component of a signer path becomes a node: only the LAST element's signature was verified, and an
		// address node counts only as a leaf - a path cut short turns a merely named member into a signer
		c.FullLoop(bp, q.ToCall("PermNode.FindChild"), 0, "the whole path is entered into the tree")
		c.FullLoop(bp, q.ToCall("PermNode.FindChild"), 1, "every signer path is entered into the tree")
	}
}

// aclValidators (C11, C07): the two rule evaluators. C07's "the owner of each spent output is among the signers ...
// through its account's access-control rule" rests on them as much as C11 does.
func aclValidators(c *q.Ctx) {
	const rl = "kernel/permission/acl/rule::"
	tv := c.Fn(rl + "(*ThresholdValidator).Validate")
	if tv != nil {
		w := "rule.(*ThresholdValidator).findWeightInACL(p0,p1.Children[].Name,p1.ACL)"
		c.ReturnIs(tv, 0, []string{"false", "(p1.ACL.Pm.AcceptValue <= phi{*" + w + "*})"}, "accept iff the sum of the members' weights reaches the threshold")
		c.Guard(tv, q.Cond{Canon: "(2 == p1.Children[].Status)", Sense: false}, q.ToCallSameIter("ThresholdValidator.findWeightInACL"), q.Opt{})
		c.ArgIs(tv, "ThresholdValidator.findWeightInACL", 1, "p1.Children[].Name", 1, "the weight of the child that is being counted")
		c.ArgIs(tv, "ThresholdValidator.findWeightInACL", 2, "p1.ACL", 1, "in the rule of the node being evaluated")
	}
	fw := c.Fn(rl + "(*ThresholdValidator).findWeightInACL")
	if fw != nil {
		c.ReturnIs(fw, 0, []string{"0", "p2.AksWeight[p1]"}, "a signer outside the rule weighs nothing")
	}
	va := c.Fn(rl + "(*AKSetsValidator).validateAkSet")
	if va != nil {
		f := "rule.(*AKSetsValidator).findAkInNodeList(p0,p1.Aks[],p2)"
		c.Guard(va, q.Cond{Canon: "(nil == " + f + ")", Sense: true}, q.ToSuccess(), q.Opt{})
		c.Guard(va, q.Cond{Canon: "(2 == " + f + ".Status)", Sense: false}, q.ToSuccess(), q.Opt{})
		c.Guard(va, q.Cond{Canon: "(0 == len(p1.Aks))", Sense: true}, q.ToSuccess(), q.Opt{})
		c.Guard(va, q.Cond{Canon: "(0 == len(p2))", Sense: true}, q.ToSuccess(), q.Opt{})
	}
	fa := c.Fn(rl + "(*AKSetsValidator).findAkInNodeList")
	if fa != nil {
		c.ReturnIs(fa, 0, []string{"phi{nil|p2[]}"}, "the node returned is the child with the requested name, or nil")
	}
	av := c.Fn(rl + "(*AKSetsValidator).Validate")
	if av != nil {
		c.ArgIs(av, "AKSetsValidator.validateAkSet", 2, "p1.Children", 1, "a set is checked against the signers of this node")
		c.ArgIs(av, "AKSetsValidator.validateAkSet", 1, "p1.ACL.AkSets.Sets[]", 1, "every listed set is tried")
		c.Guard(av, q.Cond{Canon: "(0 == len(p1.ACL.AkSets.Sets))", Sense: true}, q.ToSuccess(), q.Opt{})
	}
}

// methodPermArgs (C11, C07): both entry points of the method-permission check - the transaction verifier and the
// ChainCore call used for cross-contract calls - hand (contract, method) to the ACL evaluation in that order: a
// swapped pair looks up a rule that does not exist, and a missing rule admits everybody.
func methodPermArgs(c *q.Ctx) {
	const st = "bcs/ledger/xledger/state::"
	if f := c.Fn(st + "(*State).VerifyContractPermission"); f != nil {
		c.ArgIs(f, "utils::CheckContractMethodPerm", 2, "p3", 1, "the contract name parameter is the contract")
		c.ArgIs(f, "utils::CheckContractMethodPerm", 3, "p4", 1, "the method name parameter is the method")
	}
	if f := c.Fn(st + "(*State).verifyContractPermission"); f != nil {
		c.ArgIs(f, "utils::CheckContractMethodPerm", 2, "p1.ContractRequests[].ContractName", 1, "the request's contract")
		c.ArgIs(f, "utils::CheckContractMethodPerm", 3, "p1.ContractRequests[].MethodName", 1, "the request's method")
	}
	if f := c.Fn("kernel/permission/acl/utils::CheckContractMethodPerm"); f != nil {
		c.ArgIs(f, "ptree::BuildMethodPermTree", 1, "p2", 1, "the tree is built for (contract, method)")
		c.ArgIs(f, "ptree::BuildMethodPermTree", 2, "p3", 1, "the tree is built for (contract, method)")
	}
	if f := c.Fn("kernel/permission/acl/ptree::BuildMethodPermTree"); f != nil {
		c.ArgIs(f, "AclManager.GetContractMethodACL", 0, "p1", 1, "the rule is looked up under (contract, method)")
		c.ArgIs(f, "AclManager.GetContractMethodACL", 1, "p2", 1, "the rule is looked up under (contract, method)")
	}
}

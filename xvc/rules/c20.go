package rules

import (
	"fmt"
	"go/constant"
	"go/token"
	"go/types"
	"sort"
	"strings"

	ssa "xvc/xssa"

	"xvc/q"
)

func init() {
	register("C20", c20, PropInfo{
		Explanation: "Structural necessary conditions of message integrity and exact dispatch: (K2/K1) p2p.Unmarshal returns nil only through VerifyChecksum()==true, Decompress ok and proto.Unmarshal ok; (K7) Checksum and VerifyChecksum apply the same CRC-32 (IEEE) function to the same field (Data.MsgInfo) and VerifyChecksum compares with Header.DataCheckSum; (K2) NewMessage computes the checksum after the last mutation of Data.MsgInfo (options, Compress) and stores it in the header; (K3) Data.MsgInfo is written only in message.go; (K8a/K8b) every access to dispatcher.mc happens with dispatcher.mu held - exclusively for Register/UnRegister, which modify the table - and every lock is released on all exits; (K1/K2) Dispatch tests IsHandled before any delivery, delivers only to subscribers of the message's own type whose Match answered true, and marks the message handled after all handlers returned.",
		NotDecided:  "burst-error detection itself (a property of CRC-32, taken as an axiom once the wiring holds), exactly-once delivery under concurrent (un)registration, the 3-second window",
		Assumptions: []string{"hash/crc32.ChecksumIEEE detects all bursts <= 32 bits", "snappy/proto round-trip"},
	})
}

func c20(c *q.Ctx) {
	respTypeTable(c)
	const p2p = "kernel/network/p2p::"
	um := c.Fn(p2p + "Unmarshal")
	if um != nil {
		c.Gate(um, "p2p::VerifyChecksum", q.ToSuccess(), q.Opt{})
		c.Gate(um, "p2p::Decompress", q.ToSuccess(), q.Opt{})
		c.Gate(um, "proto::Unmarshal", q.ToSuccess(), q.Opt{})
		c.ArgIs(um, "p2p::VerifyChecksum", 0, "p0", 1, "the received message")
		c.ArgIs(um, "proto::Unmarshal", 0, "p2p.Decompress(p0)#0", 1, "the payload that is decoded is the checked, decompressed one")
		c.Before(um, q.ToCall("p2p::VerifyChecksum"), q.ToCall("p2p::Decompress"), "corruption is detected before the payload is interpreted")
	}
	cs := c.Fn(p2p + "Checksum")
	vc := c.Fn(p2p + "VerifyChecksum")
	if cs != nil && vc != nil {
		c.ReturnIs(cs, 0, []string{"crc32.ChecksumIEEE(p0.Data.MsgInfo)"}, "CRC-32 (IEEE) over the encoded payload")
		c.ReturnIs(vc, 0, []string{"(crc32.ChecksumIEEE(p0.Data.MsgInfo) == p0.Header.DataCheckSum) OR (p2p.Checksum(p0) == p0.Header.DataCheckSum)"}, "the same function over the same field, compared with the transmitted checksum")
	}
	nm := c.Fn(p2p + "NewMessage")
	if nm != nil {
		c.StoreIs(nm, "XuperMessage_MessageHeader.DataCheckSum", "p2p.Checksum(local<XuperMessage>)", 1, "the header carries the checksum of this message")
		c.Before(nm, q.ToCall("p2p::Compress"), q.ToCall("p2p::Checksum"), "the checksum covers the bytes that are sent (after compression)")
		// every option closure runs before the checksum
		c.Before(nm, q.ToFieldStore("XuperMessage_MessageData.MsgInfo"), q.ToCall("p2p::Checksum"), "payload set before the checksum", q.Cond{Canon: "(nil == p1)", Sense: true})
		c.NoUseAfter(nm, firstCallArg(nm, "p2p::Checksum"), "p2p::Checksum", "nothing touches the message after its checksum was computed")
	}
	cp := c.Fn(p2p + "Compress")
	if cp != nil {
		c.StoreIs(cp, "XuperMessage_MessageData.MsgInfo", "snappy.Encode(nil,p0.Data.MsgInfo)", 1, "compression replaces the payload by its snappy encoding")
		c.StoreIs(cp, "XuperMessage_MessageHeader.EnableCompress", "true", 1, "and records that in the header")
	}
	dc := c.Fn(p2p + "Decompress")
	if dc != nil {
		// the parameter guard refuses only what NewMessage never builds (a missing header, data or payload field);
		// an EMPTY payload is a legal message (Compress leaves it as it is) and must decode
		refused := q.Target{Name: "the parameter-error exit", Instr: func(i ssa.Instruction) bool {
			r, ok := i.(*ssa.Return)
			return ok && len(r.Results) == 2 && q.DefinitelyNonNilErr(r.Results[1])
		}}
		c.OnlyUnder(dc, refused, []q.Cond{
			{Canon: "(nil == p0)", Sense: true}, {Canon: "(nil == p0.Header)", Sense: true},
			{Canon: "(nil == p0.Data)", Sense: true}, {Canon: "(nil == p0.Data.MsgInfo)", Sense: true},
		}, "only a message with a missing part is refused before decoding")
		c.Effect(dc, q.Eff{Spec: "snappy::Decode", Arg: 1, Glob: "p0.Data.MsgInfo", Req: []q.Cond{{Canon: "p0.Header.EnableCompress", Sense: true}}, Why: "a compressed payload is decoded, an uncompressed one is returned as is", Rule: "K7"})
	}
	c.WhoWrites("XuperMessage_MessageData.MsgInfo", map[string]string{
		p2p + "NewMessage": "payload of a message being built",
		p2p + "Compress":   "snappy encoding before the checksum is computed",
	}, "the checksummed field has no writer outside message construction")

	// dispatcher
	la := c.NewLockAnalysis("kernel/network/p2p")
	la.GuardedBy("dispatcher.mc", "dispatcher.mu", map[string]string{p2p + "NewDispatcher": "constructor: the object is not shared yet"}, 8)
	la.Pairing(map[string]q.PairExempt{})
	dp := c.Fn(p2p + "(*dispatcher).Dispatch")
	if dp != nil {
		// the read lock covers the snapshot of the subscriber set only: handlers run, and are waited for, with the lock
		// released - a handler that registers its own one-shot subscriber (every request/response exchange does), or a
		// Register queued behind the reader, would otherwise never get the write lock
		la.NotHeldAtCalls(dp, "WaitGroup.Wait", "dispatcher.mu", "handlers are awaited outside the subscriber-table lock")
		la.NotHeldAtCalls(dp, "dispatcher.MaskHandled", "dispatcher.mu", "")
		c.Guard(dp, q.Cond{Canon: "p2p.(*dispatcher).IsHandled(p0,p1)", Sense: true}, q.ToCall("Subscriber.Match"), q.Opt{})
		c.Before(dp, q.ToCall("dispatcher.IsHandled"), q.ToCall("Subscriber.Match"), "a repeated message is dropped before any delivery")
		c.Guard(dp, q.Cond{Canon: "i:Subscriber.Match(*,p1)", Sense: false}, q.ToGoSameIter(), q.Opt{})
		c.Effect(dp, q.Eff{Spec: "Subscriber.Match", Arg: 0, Glob: "p1", Why: "the filter is evaluated on the message being dispatched", Rule: "K1"})
		c.ArgIs(dp, "Subscriber.Match", -1, "key(p0.mc[p1.Header.Type])", 1, "only subscribers registered for the message's own type are considered")
		c.Before(dp, q.ToCall("WaitGroup.Wait"), q.ToCall("dispatcher.MaskHandled"), "the message is marked handled after every handler returned")
		c.ArgIs(dp, "dispatcher.MaskHandled", 1, "p1", 1, "the dispatched message")
		for _, a := range dp.AnonFuncs {
			if len(q.CallsIn(a, "Subscriber.HandleMessage")) > 0 {
				c.ArgIs(a, "Subscriber.HandleMessage", 1, "*p1", 1, "the handler receives the dispatched message")
				c.ArgIs(a, "Subscriber.HandleMessage", -1, "p0", 1, "of the subscriber that matched")
				// the concurrency slot taken before the goroutine started is given back on EVERY way out of it (a
				// handler that fails must not leak the slot: after `parallel` leaks Dispatch blocks for good, holding
				// the subscriber-table read lock)
				isRecv := func(i ssa.Instruction) bool {
					u, ok := i.(*ssa.UnOp)
					return ok && u.Op == token.ARROW && strings.HasSuffix(q.Canon(u.X), ".parallel")
				}
				deferred := false // `defer func() { <-d.parallel }()`: released by the deferred calls
				for _, b := range a.Blocks {
					for _, ins := range b.Instrs {
						if d, ok := ins.(*ssa.Defer); ok {
							if mc, ok := d.Call.Value.(*ssa.MakeClosure); ok {
								for _, db := range mc.Fn.(*ssa.Function).Blocks {
									for _, di := range db.Instrs {
										if isRecv(di) {
											deferred = true
										}
									}
								}
							}
						}
					}
				}
				recv := q.Target{Name: "receive from the slot channel", Instr: func(i ssa.Instruction) bool {
					if _, ok := i.(*ssa.RunDefers); ok && deferred {
						return true
					}
					return isRecv(i)
				}}
				c.Then(a, q.ToCall("Subscriber.HandleMessage"), recv, q.ToAnyReturn(), nil, "every started handler releases its concurrency slot")
			}
		}
	}
	sm := c.Fn(p2p + "(*subscriber).Match")
	if sm != nil {
		c.Guard(sm, q.Cond{Canon: "(p0.from == p1.Header.From)", Sense: false}, q.ToSuccess(), q.Opt{Unless: []q.Cond{{Canon: "(\"\" == p0.from)", Sense: true}}})
		c.Guard(sm, q.Cond{Canon: "(p0.bcName == p1.Header.Bcname)", Sense: false}, q.ToSuccess(), q.Opt{Unless: []q.Cond{{Canon: "(\"\" == p0.bcName)", Sense: true}}})
	}
	rg := c.Fn(p2p + "(*dispatcher).Register")
	if rg != nil {
		c.Guard(rg, q.Cond{Canon: "has(p0.mc[i:Subscriber.GetMessageType(p1)],p1)", Sense: true}, q.ToSuccess(), q.Opt{})
	}
	if ur := c.Fn(p2p + "(*dispatcher).UnRegister"); ur != nil {
		// un-registering one subscriber never takes another one out: the per-type table is dropped (if at all) only
		// when it is empty
		dropType := q.Target{Name: "delete of a whole message-type entry", Instr: func(i ssa.Instruction) bool {
			ci, ok := i.(ssa.CallInstruction)
			if !ok {
				return false
			}
			b, ok := ci.Common().Value.(*ssa.Builtin)
			return ok && b.Name() == "delete" && q.Canon(ci.Common().Args[0]) == "p0.mc"
		}}
		nDrop := 0
		for _, b := range ur.Blocks {
			for _, ins := range b.Instrs {
				if !dropType.Instr(ins) {
					continue
				}
				nDrop++
				c.Sites++
				empty := q.HasGuard(b, q.Cond{Canon: "(0 == len(p0.mc[i:Subscriber.GetMessageType(p1)]))", Sense: true})
				c.Check(empty, "K2", p2p+"(*dispatcher).UnRegister", "a whole message-type entry is dropped only when its subscriber table is empty", c.At(ins), "the other subscribers of the type stay registered")
			}
		}
		if nDrop == 0 {
			c.OK("K2", p2p+"(*dispatcher).UnRegister", "no whole message-type entry is dropped", "-", "the other subscribers of the type stay registered")
		}
		c.Effect(ur, q.Eff{Spec: "delete", Arg: 1, Glob: "p1", Why: "the subscriber itself is removed", Rule: "K2"})
		c.ArgIs(ur, "delete", 0, "p0.mc[i:Subscriber.GetMessageType(p1)] OR p0.mc", 1, "from the table of its own message type")
	}
	mk := c.Fn(p2p + "MessageKey")
	if mk != nil {
		for _, f := range []string{"p0.Header.From", "p0.Header.Logid", "p0.Header.Bcname"} {
			c.Effect(mk, q.Eff{Spec: "Buffer.WriteString", Arg: 0, Glob: f, Why: "the de-duplication key distinguishes messages by sender, log id and chain", Rule: "K4"})
		}
	}
}

// respTypeTable (C20): the request -> response type map is evaluated over the whole message-type enumeration: for every
// type X that has a twin X_RES, GetRespMessageType(X) - the table entry if there is one, X+1 otherwise - is X_RES, and
// no two requests share a response type. The table is read from the package initialiser, the enumeration from the
// type-checked protos package.
func respTypeTable(c *q.Ctx) {
	const fnName = "kernel/network/p2p::GetRespMessageType"
	gr := c.Fn(fnName)
	ini := c.P.Funcs["kernel/network/p2p::init"]
	var tpkg *types.Package
	if gr != nil && gr.Signature.Params().Len() == 1 {
		if nt, ok := gr.Signature.Params().At(0).Type().(*types.Named); ok {
			tpkg = nt.Obj().Pkg()
		}
	}
	if gr == nil || ini == nil || tpkg == nil {
		c.Fail("anchor", fnName, "initialiser and message-type enumeration resolve", "-", "not found")
		return
	}
	// table
	table := map[int64]int64{}
	var tmap ssa.Value
	for _, b := range ini.Blocks {
		for _, ins := range b.Instrs {
			if st, ok := ins.(*ssa.Store); ok {
				if g, ok := st.Addr.(*ssa.Global); ok && g.Name() == "requestToResponse" {
					tmap = st.Val
				}
			}
		}
	}
	for _, b := range ini.Blocks {
		for _, ins := range b.Instrs {
			mu, ok := ins.(*ssa.MapUpdate)
			if !ok || mu.Map != tmap {
				continue
			}
			k, ok1 := q.ConstInt(mu.Key)
			v, ok2 := q.ConstInt(mu.Value)
			if ok1 && ok2 {
				table[k] = v
			}
		}
	}
	// enumeration
	names := map[string]int64{}
	sc := tpkg.Scope()
	for _, n := range sc.Names() {
		cst, ok := sc.Lookup(n).(*types.Const)
		if !ok || !strings.HasPrefix(n, "XuperMessage_") || !strings.HasSuffix(cst.Type().String(), "XuperMessage_MessageType") {
			continue
		}
		if v, ok := constant.Int64Val(cst.Val()); ok {
			names[strings.TrimPrefix(n, "XuperMessage_")] = v
		}
	}
	n := 0
	seen := map[int64]string{}
	var reqs []string
	for name := range names {
		if _, ok := names[name+"_RES"]; ok {
			reqs = append(reqs, name)
		}
	}
	sort.Strings(reqs)
	// the function is EVALUATED for every request type (a map look-up with a +1 default, a switch, an if-chain: all
	// the same to the evaluation); only when it uses something the evaluator does not know, the shape rule decides
	evaluated := true
	for _, name := range reqs {
		if _, ok := evalIntFunc(gr, names[name], table); !ok {
			evaluated = false
		}
	}
	if !evaluated {
		c.ReturnIs(gr, 0, []string{"g:requestToResponse[p0]", "(1 + p0)"}, "table entry if present, otherwise the next type")
	} else {
		c.OK("K5", fnName, "the response type is computed from the request type alone (evaluated for every request type)", "-", fmt.Sprintf("%d evaluation(s)", len(reqs)))
	}
	for _, name := range reqs {
		x, want := names[name], names[name+"_RES"]
		got, ok := table[x]
		if !ok {
			got = x + 1
		}
		if evaluated {
			got, _ = evalIntFunc(gr, x, table)
		}
		n++
		c.Sites++
		c.Check(got == want, "K7", fnName, "response type of "+name+" is "+name+"_RES", "-", fmt.Sprintf("the table and the +1 rule give %d, the enumeration says %d", got, want))
		if other, dup := seen[got]; dup {
			c.Fail("K7", fnName, "no two request types share a response type", "-", name+" and "+other+" both map to "+fmt.Sprint(got))
		}
		seen[got] = name
	}
	c.Floor("K7", fnName, "request types with a _RES twin", n, 5)
}

// evalIntFunc evaluates a function of one integer parameter on the value x: constants, the parameter, +, ==, !=,
// conversions, a comma-ok or plain look-up in the package's request->response table, branches, phis. ok=false when the
// function uses anything else.
func evalIntFunc(fn *ssa.Function, x int64, table map[int64]int64) (int64, bool) {
	if len(fn.Blocks) == 0 || len(fn.Params) != 1 {
		return 0, false
	}
	type val struct {
		i    int64
		b    bool
		tup  [2]int64 // look-up result (value, present)
		kind byte     // 'i', 'b', 't'
	}
	env := map[ssa.Value]val{}
	var get func(v ssa.Value) (val, bool)
	get = func(v ssa.Value) (val, bool) {
		if r, ok := env[v]; ok {
			return r, true
		}
		switch t := v.(type) {
		case *ssa.Parameter:
			return val{i: x, kind: 'i'}, true
		case *ssa.Const:
			if n, ok := q.ConstInt(t); ok {
				return val{i: n, kind: 'i'}, true
			}
			if b, ok := q.ConstBool(t); ok {
				return val{b: b, kind: 'b'}, true
			}
		}
		return val{}, false
	}
	var prev *ssa.BasicBlock
	b := fn.Blocks[0]
	for steps := 0; steps < 200; steps++ {
		for _, ins := range b.Instrs {
			switch t := ins.(type) {
			case *ssa.DebugRef:
			case *ssa.Phi:
				for i, p := range b.Preds {
					if p == prev {
						r, ok := get(t.Edges[i])
						if !ok {
							return 0, false
						}
						env[t] = r
					}
				}
			case *ssa.Convert:
				r, ok := get(t.X)
				if !ok {
					return 0, false
				}
				env[t] = r
			case *ssa.ChangeType:
				r, ok := get(t.X)
				if !ok {
					return 0, false
				}
				env[t] = r
			case *ssa.BinOp:
				l, ok1 := get(t.X)
				r, ok2 := get(t.Y)
				if !ok1 || !ok2 || l.kind != 'i' || r.kind != 'i' {
					return 0, false
				}
				switch t.Op {
				case token.ADD:
					env[t] = val{i: l.i + r.i, kind: 'i'}
				case token.SUB:
					env[t] = val{i: l.i - r.i, kind: 'i'}
				case token.EQL:
					env[t] = val{b: l.i == r.i, kind: 'b'}
				case token.NEQ:
					env[t] = val{b: l.i != r.i, kind: 'b'}
				default:
					return 0, false
				}
			case *ssa.UnOp:
				if g, ok := t.X.(*ssa.Global); ok && t.Op == token.MUL && g.Name() == "requestToResponse" {
					env[t] = val{kind: 'm'}
					continue
				}
				if t.Op == token.NOT {
					r, ok := get(t.X)
					if !ok || r.kind != 'b' {
						return 0, false
					}
					env[t] = val{b: !r.b, kind: 'b'}
					continue
				}
				return 0, false
			case *ssa.Lookup:
				m, ok1 := get(t.X)
				k, ok2 := get(t.Index)
				if !ok1 || !ok2 || m.kind != 'm' || k.kind != 'i' {
					return 0, false
				}
				v, present := table[k.i]
				if t.CommaOk {
					p := int64(0)
					if present {
						p = 1
					}
					env[t] = val{tup: [2]int64{v, p}, kind: 't'}
				} else {
					env[t] = val{i: v, kind: 'i'}
				}
			case *ssa.Extract:
				r, ok := get(t.Tuple)
				if !ok || r.kind != 't' {
					return 0, false
				}
				if t.Index == 0 {
					env[t] = val{i: r.tup[0], kind: 'i'}
				} else {
					env[t] = val{b: r.tup[1] == 1, kind: 'b'}
				}
			case *ssa.If:
				r, ok := get(t.Cond)
				if !ok || r.kind != 'b' {
					return 0, false
				}
				prev = b
				if r.b {
					b = b.Succs[0]
				} else {
					b = b.Succs[1]
				}
			case *ssa.Jump:
				prev, b = b, b.Succs[0]
			case *ssa.Return:
				if len(t.Results) != 1 {
					return 0, false
				}
				r, ok := get(t.Results[0])
				if !ok || r.kind != 'i' {
					return 0, false
				}
				return r.i, true
			default:
				return 0, false
			}
		}
	}
	return 0, false
}

package rules

import (
	"go/types"
	"strings"

	ssa "xvc/xssa"

	"xvc/load"
	"xvc/q"
)

func init() {
	register("C18", c18, PropInfo{
		Explanation: "Structural necessary conditions of snapshot reads: (K5/K2) xModSnapshot.Get starts from the live version of the key, follows the version chain through each writer's OWN input reference for the same bucket/key (getPreOutExt), skips a writer that has no Blockid (pending), stops at the first writer whose block height is <= the snapshot height, and materialises that writer's output at the offset the cursor held BEFORE it moved to the predecessor; a pending transaction is looked up in the unconfirmed table before the ledger, so a pending writer is recognised as pending even if an orphan block also carries it; (K11/K3) GetTipSnapshot / GetTipXMSnapshotReader pass State.latestBlockid (the confirmed tip); (K3, type level) the LedgerRely interfaces the ACL manager, the consensus plugins, the governance-token, proposal and timer contracts are constructed with declare no method that hands out the live reader - whatever code in those subsystems does, it cannot reach pending state through its context; the callers of the live reader are a frozen table.",
		NotDecided:  "that the walk returns the right value for every key history (delete/re-create, several writes per block, side branches) - values over histories",
		Assumptions: []string{"a writer's TxInputsExt cites the version it superseded (C03/C09)"},
	})
}

func c18(c *q.Ctx) {
	if cb := c.Fn("bcs/ledger/xledger/ledger::(*Ledger).ConfirmBlock"); cb != nil {
		confirmedRowRemap(c, cb)
	}
	const st = "bcs/ledger/xledger/state::"
	// the snapshot walk tells a pending writer from a confirmed one by the Blockid of the transaction record it finds,
	// and it looks in the pool table first: a posted transaction must not bring a Blockid along (the field is covered
	// by neither the txid nor the signatures, any client can set it), and none is given to it on the way into the table
	if dx := c.Fn(st + "(*State).DoTx"); dx != nil {
		c.Guard(dx, q.Cond{Canon: "(0 < len(p1.Blockid))", Sense: true}, q.ToCall("State.doTxSync"), q.Opt{})
	}
	if ds := c.Fn(st + "(*State).doTxSync"); ds != nil {
		c.ArgIs(ds, "Batch.Put", 1, "proto.Marshal(p1)#0", 1, "the pool record is the posted transaction as it was verified")
		c.Check(len(q.FieldsStored(ds, "Transaction")) == 0, "K11", st+"(*State).doTxSync", "admission does not edit the transaction", "-", "a field changed after the record was serialised leaves memory and the pool table in disagreement")
	}
	// the data the snapshot walk reads: writer records name the block that holds them on the main chain, and the
	// live / recycle tables are exact after an undo
	txRemap(c)
	xmodelDoUndo(c)
	const xm = "bcs/ledger/xledger/state/xmodel::"
	g := c.Fn(xm + "(*xModSnapshot).Get")
	if g != nil {
		tx := "xmodel.(*XModel).QueryTx(p0.xmod,local<xModListCursor>.txid)#0"
		c.Effect(g, q.Eff{Spec: "XModel.Get", Arg: 1, Glob: "p2", Why: "the walk starts from the live version of the same key", Rule: "K11"})
		c.StoreIs(g, "xModListCursor.txid", "xmodel.(*XModel).Get(p0.xmod,p1,p2)#0.RefTxid OR xmodel.(*xModSnapshot).getPreOutExt(p0,"+tx+".TxInputsExt,p1,p2)#0", 2, "the cursor moves from the live version to each writer's own predecessor reference")
		c.ArgIs(g, "xModSnapshot.getPreOutExt", 1, tx+".TxInputsExt", 1, "the predecessor is the version the writer itself cites")
		c.ArgIs(g, "xModSnapshot.getPreOutExt", 2, "p1", 1, "for the same bucket")
		c.ArgIs(g, "xModSnapshot.getPreOutExt", 3, "p2", 1, "and key")
		c.Guard(g, q.Cond{Canon: "(nil == " + tx + ".Blockid)", Sense: true}, q.ToCallSameIter("xModSnapshot.genVerDataByTx"), q.Opt{})
		c.Guard(g, q.Cond{Canon: "(p0.blkHeight < xmodel.(*xModSnapshot).getBlockHeight(p0," + tx + ".Blockid)#0)", Sense: true}, q.ToCallSameIter("xModSnapshot.genVerDataByTx"), q.Opt{})
		// ... and no writer is accepted AROUND the height comparison (a flag "the snapshot is at the tip" decided when
		// the reader was created goes stale as soon as the next block is confirmed)
		c.Guard(g, q.Cond{Canon: "(p0.blkHeight < xmodel.(*xModSnapshot).getBlockHeight(p0," + tx + ".Blockid)#0)", Sense: true}, q.ToCallSameIter("xModSnapshot.genVerDataByTx"), q.Opt{From: "XModel.QueryTx"})
		c.ArgIs(g, "xModSnapshot.genVerDataByTx", 1, tx, 1, "the value returned is an output of the writer that was found")
		c.Gate(g, "XModel.QueryTx", q.ToSuccess(), q.Opt{K1Only: true, IgnoreBool: true})
		c.Gate(g, "xModSnapshot.getPreOutExt", q.ToSuccess(), q.Opt{K1Only: true})
		c.Gate(g, "xModSnapshot.getBlockHeight", q.ToSuccess(), q.Opt{K1Only: true})
		c.Gate(g, "XModel.Get", q.ToSuccess(), q.Opt{K1Only: true})
		offsetBeforeMove(c, g)
	}
	po := c.Fn(xm + "(*xModSnapshot).getPreOutExt")
	if po != nil {
		c.ReturnIs(po, 0, []string{"nil", "p1[].RefTxid"}, "the predecessor is the reference of the input for this bucket/key")
		c.ReturnIs(po, 1, []string{"0", "p1[].RefOffset"}, "")
		c.Guard(po, q.Cond{Canon: "(p1[].Bucket == p2)", Sense: false}, q.ToSuccess(), q.Opt{Unless: []q.Cond{{Canon: "(#i < len(p1))", Sense: true}}})
		c.Guard(po, q.Cond{Canon: "(0 == bytes.Compare(p1[].Key,p3))", Sense: false}, q.ToSuccess(), q.Opt{Unless: []q.Cond{{Canon: "(#i < len(p1))", Sense: true}}})
	}
	gv := c.Fn(xm + "(*xModSnapshot).genVerDataByTx")
	if gv != nil {
		c.StoreIs(gv, "VersionedData.RefOffset", "p2", 1, "the version is txid_offset of the output that is returned")
		c.StoreIs(gv, "PureData.Value", "p1.TxOutputsExt[].Value", 1, "")
	}
	gh := c.Fn(xm + "(*xModSnapshot).getBlockHeight")
	if gh != nil {
		c.ReturnIs(gh, 0, []string{"0", "xmodel.(*XModel).QueryBlock(p0.xmod,p1)#0.Height"}, "the height compared is that of the writer's block")
	}
	qt := c.Fn(xm + "(*XModel).queryTx")
	if qt != nil {
		c.Before(qt, q.ToCall("xmodel::queryUnconfirmTx"), q.ToCall("Ledger.QueryTransaction"), "the unconfirmed table is consulted first: a pending writer is reported as pending (no Blockid)")
		c.Guard(qt, q.Cond{Canon: "(nil == xmodel.queryUnconfirmTx(p1,p0.unconfirmTable)#1)", Sense: true}, q.ToCall("Ledger.QueryTransaction"), q.Opt{})
	}
	cs := c.Fn(xm + "(*XModel).CreateSnapshot")
	if cs != nil {
		c.StoreIs(cs, "xModSnapshot.blkHeight", "ledger.(*Ledger).QueryBlockHeader(p0.ledger,p1)#0.Height", 1, "the snapshot height is the height of the chosen block")
		c.Gate(cs, "Ledger.QueryBlockHeader", q.ToSuccess(), q.Opt{})
	}
	for _, f := range []string{"GetTipSnapshot", "GetTipXMSnapshotReader"} {
		fn := c.Fn(st + "(*State)." + f)
		if fn == nil {
			continue
		}
		for _, ci := range q.CallsIn(fn, "State.CreateSnapshot|State.CreateXMSnapshotReader") {
			c.Check(q.Canon(ci.Common().Args[1]) == "p0.latestBlockid", "K11", st+"(*State)."+f, "the tip snapshot is taken at the state's latest confirmed block", c.At(ci), "got `"+q.Canon(ci.Common().Args[1])+"`")
			c.Sites++
		}
	}
	if fn := c.Fn(st + "(*State).GetTipSnapshot"); fn != nil {
		c.ReturnIs(fn, 0, []string{"state.(*State).CreateSnapshot(p0,p0.latestBlockid)#0 OR xmodel.(*XModel).CreateSnapshot(p0.xmodel,p0.latestBlockid)#0"}, "the tip reader is always a snapshot at the latest confirmed block, never the live model (which shows pending writes the moment one is admitted)")
	}
	if fn := c.Fn(st + "(*State).GetTipXMSnapshotReader"); fn != nil {
		c.ReturnIs(fn, 0, []string{"state.(*State).CreateXMSnapshotReader(p0,p0.latestBlockid)#0 OR xmodel.(*XModel).CreateXMSnapshotReader(p0.xmodel,p0.latestBlockid)#0"}, "the tip byte reader is always a snapshot at the latest confirmed block")
	}
	liveModelHandOut(c)
	commitVersionChecks(c)
	if fn := c.Fn(st + "(*State).CreateXMSnapshotReader"); fn != nil {
		c.ArgIs(fn, "XModel.CreateXMSnapshotReader", 1, "p1", 1, "at the requested block")
	}
	if fn := c.Fn(xm + "(*XModel).CreateXMSnapshotReader"); fn != nil {
		c.ArgIs(fn, "xmodel::NewXMSnapshotReader", 0, "xmodel.(*XModel).CreateSnapshot(p0,p1)#0", 1, "the byte reader wraps the snapshot at that block")
	}
	// type-level: the contexts of the snapshot-only subsystems cannot hand out the live reader
	xmReader := c.TypeOf("kernel/ledger", "XMReader")
	for _, pk := range []string{"kernel/permission/acl/context", "kernel/consensus/context", "kernel/contract/proposal/govern_token", "kernel/contract/proposal/propose", "kernel/contract/proposal/timer"} {
		t := c.TypeOf(pk, "LedgerRely")
		if t == nil || xmReader == nil {
			continue
		}
		it, ok := t.Underlying().(*types.Interface)
		if !ok {
			c.Fail("anchor", pk+".LedgerRely", "is an interface", "-", "")
			continue
		}
		bad := ""
		for i := 0; i < it.NumMethods(); i++ {
			m := it.Method(i)
			sig := m.Type().(*types.Signature)
			if sig.Params().Len() != 0 {
				continue // a reader for an explicit block id is a snapshot
			}
			for j := 0; j < sig.Results().Len(); j++ {
				if types.Identical(sig.Results().At(j).Type(), xmReader) && !strings.Contains(m.Name(), "Snapshot") {
					bad = m.Name()
				}
			}
			if m.Name() == "CreateXMReader" {
				bad = m.Name()
			}
		}
		c.Sites += it.NumMethods()
		c.Check(bad == "", "K3", pk+".LedgerRely", "declares no method handing out the live (pending-inclusive) reader", "-", "offending method: "+bad)
	}
	c.WhoCalls("State.CreateXMReader|LedgerAgent.CreateXMReader|CreateXMReader", map[string]string{
		st + "(*State).GetTimerTx":                                    "timer transaction is generated over live state by the producer and re-generated by validators",
		st + "(*State).queryContractBannedStatus":                     "banned-contract probe",
		"kernel/engines/xuperos::(*Chain).PreExec":                    "pre-execution runs over live state by definition",
		"kernel/engines/xuperos::(*Chain).CreateParaChain*":           "para-chain bootstrap",
		"kernel/engines/xuperos::*":                                   "chain bootstrap: contract manager creation",
		"kernel/engines/xuperos/agent::(*LedgerAgent).CreateXMReader": "adapter forwarding to State",
	}, "only these may read pending state")
}

// offsetBeforeMove: the offset handed to genVerDataByTx was read from the
// cursor before the cursor's offset was overwritten in that iteration.
func offsetBeforeMove(c *q.Ctx, fn *ssa.Function) {
	name := load.QualName(fn)
	what := "the output offset used is the one the cursor held before it moved to the predecessor"
	var loadIns ssa.Instruction
	for _, ci := range q.CallsIn(fn, "xModSnapshot.genVerDataByTx") {
		v := q.Strip(ci.Common().Args[2])
		if u, ok := v.(*ssa.UnOp); ok {
			if fa, ok := u.X.(*ssa.FieldAddr); ok && strings.HasSuffix(q.CanonD(fa, 4), ".offset") {
				loadIns = u
			}
		}
		// value may have been copied to a local first (tmpOffset): resolve
		if loadIns == nil {
			if u, ok := q.Resolve(ci.Common().Args[2]).(*ssa.UnOp); ok {
				loadIns = u
			}
		}
	}
	if loadIns == nil {
		c.Fail("K2", name, what, "-", "the offset argument is not a read of the cursor")
		return
	}
	ok := false
	n := 0
	for _, b := range fn.Blocks {
		for i, ins := range b.Instrs {
			s, isS := ins.(*ssa.Store)
			if !isS {
				continue
			}
			fa, isF := s.Addr.(*ssa.FieldAddr)
			if !isF || !strings.HasSuffix(q.CanonD(fa, 4), ".offset") || !strings.Contains(q.Canon(s.Val), "getPreOutExt") {
				continue
			}
			n++
			// the load must come before this store on the way through the iteration
			if loadIns.Block() == b {
				for j, x := range b.Instrs {
					if x == loadIns && j < i {
						ok = true
					}
				}
			} else if loadIns.Block().Dominates(b) {
				ok = true
			}
		}
	}
	c.Sites += n
	c.Check(ok && n == 1, "K2", name, what, c.At(loadIns), "each writer's input offset and output offset are unrelated: using the moved cursor reads another key's slot")
}

// liveModelHandOut (C18, C11): who hands out the live model (which sees pending writes) as a reader: the explicit
// live-reader constructor only - every "tip" or "snapshot" reader, which the ACL manager and the consensus read
// through, is a snapshot of confirmed state.
func liveModelHandOut(c *q.Ctx) {
	const st = "bcs/ledger/xledger/state::"
	// who hands out the live model as a reader: the explicit live-reader constructor only
	nLive := 0
	for _, fn := range c.P.AllFns {
		for _, b := range fn.Blocks {
			for _, ins := range b.Instrs {
				mi, ok := ins.(*ssa.MakeInterface)
				if !ok || !strings.HasSuffix(mi.X.Type().String(), "xmodel.XModel") || !strings.HasSuffix(mi.Type().String(), "ledger.XMReader") {
					continue
				}
				nLive++
				c.Sites++
				top := load.QualName(q.Top(fn))
				why, ok := map[string]string{
					st + "(*State).CreateXMReader": "the explicit live reader (pre-execution against pending state)",
				}[top]
				if ok {
					c.OK("K3", top, "may hand out the live XModel as an XMReader", c.At(mi), why)
				} else {
					c.Fail("K3", top, "may hand out the live XModel as an XMReader", c.At(mi), "not in the frozen who-may table: readers of confirmed state must not see pending writes")
				}
			}
		}
	}
	c.Floor("K3", st+"(*State).CreateXMReader", "live-reader hand-out sites", nLive, 1)
}

package rules

import (
	"strings"

	ssa "xvc/xssa"

	"xvc/load"
	"xvc/q"
)

func init() {
	register("C15", c15, PropInfo{
		Explanation: "Structural necessary conditions of the pending-proposal tree: (K3) Root, HighQC, GenericQC, LockedQC and CommitQC are stored only by updateHighQC, enforceUpdateHighQC, updateCommit and the tree constructor; Sons only by insert, insertOrphan, adoptOrphans, updateCommit and the constructor; no entry is ever deleted from OrphanMap (the only duplicate guard of the orphan forest); (K5) updateHighQC moves the marker only if the node's view is not below the current HighQC's view, and derives generic/locked/commit from successive DFSQueryNode(parent id) results; enforceUpdateHighQC clears the three ancestor markers on every path after it moved HighQC (a rollback near the root must not leave stale markers) and re-derives them the same way; updateCommit moves Root exactly three generations below the certified node; DefaultPaceMaker.AdvanceView only grows; (K2) updateQcStatus inserts only after DFSQueryNode(id) missed, insertOrphan only after the OrphanMap miss and records the id; (K8d) the tree is reachable from the goroutines started by handleReceivedMsg and from the consensus thread with no common lock.",
		NotDecided:  "tree shape after arbitrary arrival orders, orphan re-rooting, root movement to a descendant (histories)",
		Assumptions: []string{},
	})
}

func c15(c *q.Ctx) {
	// the tree is what hangs below Root: a look-up answers with a node reachable from the root or with nothing (the
	// orphans are looked up through OrphanMap, by insertOrphan only) - markers and the committed root are moved onto
	// what this look-up returns
	if dq := c.Fn("kernel/consensus/base/driver/chained-bft::(*QCPendingTree).DFSQueryNode"); dq != nil {
		c.ReturnIs(dq, 0, []string{"chained_bft.DFSQuery(p0.Root,p1)"}, "the look-up is the depth-first search from the root")
	}
	// every confirmed block handed over by the consensus reaches the tree, whatever its view
	if uq := c.Fn("kernel/consensus/base/driver/chained-bft::(*Smr).UpdateQcStatus"); uq != nil {
		c.Effect(uq, q.Eff{Spec: "QCPendingTree.updateQcStatus", Arg: 0, Glob: "p1", Req: []q.Cond{{Canon: "(nil == p1)", Sense: false}}, Exact: true, Why: "a confirmed block that is silently dropped leaves its descendants orphans for good", Rule: "K2"})
	}
	const bft = "kernel/consensus/base/driver/chained-bft::"
	ctor := "kernel/consensus/base/common::InitQCTree"
	for _, f := range []string{"Root", "HighQC", "GenericQC", "LockedQC", "CommitQC"} {
		allowed := map[string]string{ctor: "constructor", "kernel/consensus/base/driver/chained-bft/main::*": "stand-alone demo main package: builds its own tree"}
		switch f {
		case "Root":
			allowed[bft+"(*QCPendingTree).updateCommit"] = "root moves to the committed ancestor"
		default:
			allowed[bft+"(*QCPendingTree).updateHighQC"] = "monotone marker update"
			allowed[bft+"(*QCPendingTree).enforceUpdateHighQC"] = "explicit rollback"
		}
		c.WhoWrites("QCPendingTree."+f, allowed, "markers move only through the tree's own update functions")
	}
	// "never decreases except by explicit rollback": the unconditional marker move is reachable only from the miner's
	// own pre-mining reconciliation with its ledger, never from message handling
	c.WhoCalls("QCPendingTree.enforceUpdateHighQC", map[string]string{bft + "(*Smr).EnforceUpdateHighQC": "exported rollback entry"}, "the unconditional move of the highest-certified marker is the explicit rollback only")
	c.WhoCalls("Smr.EnforceUpdateHighQC", map[string]string{
		"bcs/consensus/tdpos::(*tdposConsensus).ProcessBeforeMiner": "the producer re-aligns its marker with its ledger tip before mining",
		"bcs/consensus/xpoa::(*xpoaConsensus).ProcessBeforeMiner":   "the producer re-aligns its marker with its ledger tip before mining",
	}, "explicit rollback happens only in the producer's pre-mining reconciliation")
	if f := c.Fn(ctor); f != nil {
		c.LinearChain(f, "ProposalNode.Sons", 6, "after a restart the tree is the chain root -> generic -> highQC -> tip: the tip block hangs under the highest certified node, which is where the next proposal's parent is looked up")
	}
	c.WhoWrites("ProposalNode.Sons", map[string]string{
		ctor: "constructor",
		"kernel/consensus/base/driver/chained-bft/main::*": "stand-alone demo main package",
		bft + "(*QCPendingTree).insert":                    "attach below the parent",
		bft + "(*QCPendingTree).insertOrphan":              "orphan forest",
		bft + "(*QCPendingTree).adoptOrphans":              "orphans adopted by their parent",
		bft + "(*QCPendingTree).updateCommit":              "prune above the new root",
	}, "the shape of the tree changes only through these")
	// OrphanMap: never deleted from
	nDel := 0
	for _, fn := range c.P.AllFns {
		for _, ci := range q.CallsIn(fn, "delete") {
			if len(ci.Common().Args) > 0 && strings.HasSuffix(q.Canon(ci.Common().Args[0]), ".OrphanMap") {
				nDel++
				c.Fail("K3", load.QualName(q.Top(fn)), "no entry is deleted from OrphanMap", c.At(ci), "the map is the only guard against storing a re-delivered orphan twice")
			}
		}
	}
	if nDel == 0 {
		c.OK("K3", "module", "no entry is deleted from OrphanMap", "-", "the map is the only guard against storing a re-delivered orphan twice")
	}
	uh := c.Fn(bft + "(*QCPendingTree).updateHighQC")
	eh := c.Fn(bft + "(*QCPendingTree).enforceUpdateHighQC")
	node := "chained_bft.(*QCPendingTree).DFSQueryNode(p0,p1)"
	par := func(x string) string {
		return "chained_bft.(*QCPendingTree).DFSQueryNode(p0,i:QuorumCertInterface.GetParentProposalId(" + x + ".In))"
	}
	for _, f := range []*ssa.Function{uh, eh} {
		if f == nil {
			continue
		}
		p1 := par(node)
		p2 := par(p1)
		p3 := par(p2)
		c.StoreIs(f, "QCPendingTree.HighQC", node, 1, "the marker moves to the node that was looked up")
		c.StoreIs(f, "QCPendingTree.GenericQC", "nil OR "+p1, 1, "generic = parent of HighQC")
		c.StoreIs(f, "QCPendingTree.LockedQC", "nil OR "+p2, 1, "locked = grandparent")
		c.StoreIs(f, "QCPendingTree.CommitQC", "nil OR "+p3, 1, "commit = great-grandparent")
		c.Guard(f, q.Cond{Canon: "(nil == " + node + ")", Sense: true}, q.ToFieldStore("QCPendingTree.HighQC"), q.Opt{})
	}
	if uh != nil {
		// once HighQC moved, the three ancestor markers are re-derived on every path; a marker stays only when
		// the ancestor it would name does not exist (then it is the tree's edge, not a stale value of another branch)
		p1 := par(node)
		p2 := par(p1)
		p3 := par(p2)
		high := q.ToFieldStore("QCPendingTree.HighQC")
		c.Then(uh, high, q.ToFieldStore("QCPendingTree.GenericQC"), q.ToAnyReturn(), []q.Cond{{Canon: "(nil == " + p1 + ")", Sense: true}}, "generic follows every move of HighQC, also to a node of equal view on another branch")
		c.Then(uh, q.ToFieldStore("QCPendingTree.GenericQC"), q.ToFieldStore("QCPendingTree.LockedQC"), q.ToAnyReturn(), []q.Cond{{Canon: "(nil == " + p2 + ")", Sense: true}}, "locked follows generic")
		c.Then(uh, q.ToFieldStore("QCPendingTree.LockedQC"), q.ToFieldStore("QCPendingTree.CommitQC"), q.ToAnyReturn(), []q.Cond{{Canon: "(nil == " + p3 + ")", Sense: true}}, "commit follows locked")
	}
	if uh != nil {
		c.Guard(uh, q.Cond{Canon: "(i:QuorumCertInterface.GetProposalView(" + node + ".In) < i:QuorumCertInterface.GetProposalView(p0.HighQC.In))", Sense: true}, q.ToFieldStore("QCPendingTree.HighQC"), q.Opt{})
	}
	if eh != nil {
		missing := q.Cond{Canon: "(nil == " + node + ")", Sense: true}
		for _, m := range []string{"GenericQC", "LockedQC", "CommitQC"} {
			c.Before(eh, q.ToFieldStore("QCPendingTree."+m), q.ToReturn(), "after a rollback moved HighQC, "+m+" is reset before any exit (early exits near the root must not keep a stale marker)", missing)
		}
	}
	uc := c.Fn(bft + "(*QCPendingTree).updateCommit")
	if uc != nil {
		n0 := node
		n1 := par(n0)
		n2 := par(n1)
		n3 := par(n2)
		n4 := par(n3)
		c.StoreIs(uc, "QCPendingTree.Root", n3, 1, "the root moves three generations below the certified node")
		_ = n4
		c.FieldStore(uc, "ProposalNode.Sons", "chained_bft.(*QCPendingTree).DFSQueryNode(p0,i:QuorumCertInterface.GetParentProposalId(*", "nil", "everything above the new root is cut off")
		for _, x := range []string{n0, n1, n2, n3} {
			c.Guard(uc, q.Cond{Canon: "(nil == " + x + ")", Sense: true}, q.ToFieldStore("QCPendingTree.Root"), q.Opt{})
		}
	}
	us := c.Fn(bft + "(*QCPendingTree).updateQcStatus")
	if us != nil {
		c.Guard(us, q.Cond{Canon: "(nil == chained_bft.(*QCPendingTree).DFSQueryNode(p0,i:QuorumCertInterface.GetProposalId(p1.In)))", Sense: false}, q.ToCall("QCPendingTree.insert"), q.Opt{})
		c.Gate(us, "QCPendingTree.insert", q.ToCall("QCPendingTree.updateHighQC"), q.Opt{})
		c.ArgIs(us, "QCPendingTree.updateHighQC", 1, "i:QuorumCertInterface.GetParentProposalId(p1.In)", 1, "a new proposal certifies its parent")
	}
	ins := c.Fn(bft + "(*QCPendingTree).insert")
	if ins != nil {
		parent := "chained_bft.(*QCPendingTree).DFSQueryNode(p0,i:QuorumCertInterface.GetParentProposalId(p1.In))"
		c.Effect(ins, q.Eff{Spec: "append", Arg: 0, Glob: parent + ".Sons", Req: []q.Cond{{Canon: "(nil == " + parent + ")", Sense: false}}, Why: "a proposal whose parent is in the tree becomes its child", Rule: "K2"})
		c.Effect(ins, q.Eff{Spec: "QCPendingTree.adoptOrphans", Arg: 0, Glob: "p1", Req: []q.Cond{{Canon: "(nil == " + parent + ")", Sense: false}}, Why: "and adopts the orphans waiting for it", Rule: "K2"})
		c.Effect(ins, q.Eff{Spec: "QCPendingTree.insertOrphan", Arg: 0, Glob: "p1", Req: []q.Cond{{Canon: "(nil == " + parent + ")", Sense: true}}, Why: "otherwise it waits in the orphan forest", Rule: "K2"})
	}
	io := c.Fn(bft + "(*QCPendingTree).insertOrphan")
	if io != nil {
		c.MapDedup(io, "utils.F(i:QuorumCertInterface.GetProposalId(p1.In))", q.ToCall("List.PushBack"), "an orphan that is delivered again is not stored twice")
	}
	if io != nil {
		c.DeadAfter(io, "List.Remove", 0, 2, "the walk over the orphan list steps to the next element before it unlinks the current one: an unlinked element has no successor and the remaining orphans would never be looked at")
	}
	if io != nil {
		el := "phi{list.(*Element).Next(loop)|list.(*List).Front(p0.OrphanList)}"
		c.Effect(io, q.Eff{Spec: "List.Remove", Arg: 0, Glob: el, Req: []q.Cond{{Canon: "(i:QuorumCertInterface.GetProposalView(p0.Root.In) < i:QuorumCertInterface.GetProposalView(" + el + ".Value.In))", Sense: false}},
			Why: "an orphan subtree is dropped as expired on ITS OWN head's view (not on the view of the node being inserted): live orphans stay adoptable, stale ones do not pile up", Rule: "K2"})
	}
	if io != nil {
		// an arrival whose parent waits INSIDE an orphan subtree hangs under that parent (the node the search found), not
		// under the subtree's head; an arrival that is the parent of a waiting head takes that head as its son
		par := "chained_bft.DFSQuery(*,i:QuorumCertInterface.GetParentProposalId(p1.In))"
		c.StoreIs(io, "ProposalNode.Sons", "append("+par+".Sons,[p1]) OR append(p1.Sons,[*])", 2, "sons are appended to the found parent, or to the arriving node")
		c.FieldStore(io, "ProposalNode.Sons", par, "append("+par+".Sons,[p1])", "the arrival is stored under the node the search found")
	}
	ao := c.Fn(bft + "(*QCPendingTree).adoptOrphans")
	if ao != nil {
		c.DeadAfter(ao, "List.Remove", 0, 1, "the walk over the orphan list steps to the next element before it unlinks the current one")
		c.Effect(ao, q.Eff{Spec: "List.Remove", Arg: 0, Glob: "*", Req: []q.Cond{{Canon: "bytes.Equal(i:QuorumCertInterface.GetParentProposalId(*.In),i:QuorumCertInterface.GetProposalId(p1.In))", Sense: true}}, Why: "an adopted orphan leaves the orphan list (it is stored exactly once)", Rule: "K2"})
	}
	pm := c.Fn(bft + "(*DefaultPaceMaker).AdvanceView")
	if pm != nil {
		c.OnlyUnder(pm, q.ToFieldStore("DefaultPaceMaker.CurrentView"), []q.Cond{{Canon: "(p0.CurrentView < (1 + i:QuorumCertInterface.GetProposalView(p1)))", Sense: true}}, "the view only grows")
		c.StoreIs(pm, "DefaultPaceMaker.CurrentView", "(1 + i:QuorumCertInterface.GetProposalView(p1))", 1, "")
	}
	// K8d: shared with no lock
	la := c.NewLockAnalysis("kernel/consensus/base/driver/chained-bft")
	nGo := 0
	if hm := c.Fn(bft + "(*Smr).handleReceivedMsg"); hm != nil {
		for _, b := range hm.Blocks {
			for _, ins := range b.Instrs {
				if _, ok := ins.(*ssa.Go); ok {
					nGo++
				}
			}
		}
	}
	c.Check(nGo >= 2, "K8d", bft+"(*Smr).handleReceivedMsg", "message handlers run on their own goroutines", "-", "proposal and vote handlers are goroutine roots")
	for _, f := range []string{"HighQC", "Root"} {
		la.GuardedByAny("QCPendingTree."+f, []string{bft + "(*QCPendingTree).updateHighQC", bft + "(*QCPendingTree).updateCommit", bft + "(*QCPendingTree).DFSQueryNode"}, "the tree is written by the vote/proposal goroutines and read by the consensus thread")
	}
}

package rules

import (
	"strings"
	ssa "xvc/xssa"

	"xvc/q"
)

func init() {
	register("C05", c05, PropInfo{
		Explanation: "K9 commit-before-publish, a forward may-dirty dataflow over every operation that writes a batch (ConfirmBlock, Truncate, doTxSync, PlayAndRepost, PlayForMiner, RollBackUnconfirmedTx, the walk's undo and replay loops), with failure/success effect summaries of ~60 callees computed to a fixpoint: a change of an in-memory mirror (balance cache, UTXO cache, total supply, header cache and the header objects it hands out, MetaTmp) is set at the instruction that makes it, cleared by the mirror's invalidation (ClearCache, clearBalanceCache, LRUCache.Del) or by the good edge of the batch commit, and at every failure exit - after deferred clean-ups whose guard can hold there - nothing may remain set. Plus (K2) the publish-only mirrors (Ledger.meta, blockCache, State.latestBlockid, the in-memory pool) are stored only behind Write()==nil.",
		NotDecided:  "equality of every answer with a reopened instance (needs execution); storage-level faults inside a batch",
		Assumptions: []string{"removals from read-through caches are harmless (the next read falls through to the database)", "XModel.batchCache is keyed to its batch and extUtxoCache to the version: neither can be stale", "UtxoItem.Dumps (JSON of {*big.Int,int64}) and a leveldb batch Put cannot fail"},
	})
}

func c05(c *q.Ctx) {
	poolMapOwner(c)
	poolRollback(c)
	cacheFillerPerTx(c)
	poolRecordAsPublished(c)
	feeInverse(c)
	reloadTotalRules(c)
	poolReload(c)
	metaCopiesDistinct(c)
	blockCacheCoherent(c)
	saveBlockRows(c)
	keyLockProtocol(c)
	const st = "bcs/ledger/xledger/state::"
	const led = "bcs/ledger/xledger/ledger::"
	k9 := ledgerK9(c)
	allK9Operations(c, k9)

	// publish-only mirrors: stored only behind the commit
	if cb := c.Fn(led + "(*Ledger).ConfirmBlock"); cb != nil {
		for _, later := range []string{"Ledger.saveBlock", "Ledger.handleFork", "Ledger.updateBranchInfo", "Batch.Put", "Batch.Delete", "Batch.Write"} {
			c.Before(cb, q.ToCall("Batch.Reset"), q.ToCall(later), "the reused confirm batch is emptied before this confirmation stages anything: what a rejected confirmation staged must not be written with the next one")
		}
		c.Gate(cb, "Batch.Write", q.ToFieldStore("Ledger.meta"), q.Opt{})
		c.Gate(cb, "Batch.Write", q.Target{Name: "blockCache.Add", Instr: func(i ssa.Instruction) bool {
			ci, ok := i.(ssa.CallInstruction)
			return ok && q.Callee(ci.Common()).Match("LRUCache.Add") && len(ci.Common().Args) > 0 && q.Canon(ci.Common().Args[0]) == "p0.blockCache"
		}}, q.Opt{})
	}
	if tr := c.Fn(led + "(*Ledger).Truncate"); tr != nil {
		c.Gate(tr, "Batch.Write", q.ToFieldStore("Ledger.meta"), q.Opt{})
		c.Gate(tr, "Batch.Write", q.ToCall("LRUCache.Add"), q.Opt{})
	}
	if ul := c.Fn(st + "(*State).updateLatestBlockid"); ul != nil {
		c.Gate(ul, "Batch.Write", q.ToFieldStore("State.latestBlockid"), q.Opt{})
		c.Effect(ul, q.Eff{Spec: "State.ClearCache", Arg: -2, Glob: "p0", Req: []q.Cond{{Canon: "(i:Batch.Write(p2) == nil)", Sense: false}}, Why: "a failed block write invalidates every cache", Rule: "K9"})
	}
	if ds := c.Fn(st + "(*State).doTxSync"); ds != nil {
		c.Gate(ds, "Batch.Write", q.ToCall("Map.Store"), q.Opt{})
		c.Gate(ds, "Batch.Write", q.ToCall("CacheFiller.Commit"), q.Opt{})
		c.Effect(ds, q.Eff{Spec: "State.ClearCache", Arg: -2, Glob: "p0", Req: []q.Cond{{Canon: "(i:Batch.Write(*) == nil)", Sense: false}}, Why: "a failed write invalidates every cache", Rule: "K9"})
	}
	if rb := c.Fn(st + "(*State).RollBackUnconfirmedTx"); rb != nil {
		c.Gate(rb, "Batch.Write", q.ToCall("Map.Delete"), q.Opt{})
	}
	for _, f := range []string{"PlayAndRepost", "PlayForMiner"} {
		if fn := c.Fn(st + "(*State)." + f); fn != nil {
			c.Gate(fn, "State.updateLatestBlockid", q.ToCall("Map.Delete"), q.Opt{})
			c.Gate(fn, "State.updateLatestBlockid", q.ToFieldStore("Meta.Meta"), q.Opt{})
		}
	}
	for _, f := range []string{"procUndoBlkForWalk", "procTodoBlkForWalk"} {
		if fn := c.Fn(st + "(*State)." + f); fn != nil {
			c.Gate(fn, "State.updateLatestBlockid", q.Target{Name: "store Meta.Meta", SameIter: true, Instr: func(i ssa.Instruction) bool {
				s, ok := i.(*ssa.Store)
				if !ok {
					return false
				}
				fa, ok := s.Addr.(*ssa.FieldAddr)
				return ok && q.CanonD(fa, 4) == "&p0.meta.Meta"
			}}, q.Opt{K1Only: true})
		}
	}
	if cc := c.Fn(st + "(*State).ClearCache"); cc != nil {
		c.Effect(cc, q.Eff{Spec: "State.clearBalanceCache", Arg: -2, Glob: "p0", Why: "ClearCache resets the balance cache", Rule: "K9"})
		c.StoreIs(cc, "UtxoVM.UtxoCache", "utxo.NewUtxoCache(*)", 1, "and replaces the UTXO cache by an empty one")
		c.Effect(cc, q.Eff{Spec: "XModel.CleanCache", Arg: -2, Glob: "p0.xmodel", Why: "and the in-batch version cache", Rule: "K9"})
	}
	if cf := c.Fn("bcs/ledger/xledger/state/utxo::(*CacheFiller).Commit"); cf != nil {
		c.Check(len(cf.Blocks) > 0, "K9", "bcs/ledger/xledger/state/utxo::(*CacheFiller).Commit", "cache filler present", "-", "deferred UTXO cache insertions are applied by Commit")
	}
}

func isSuccField(fa *ssa.FieldAddr) bool {
	return q.FieldNameOf(fa) == "ConfirmStatus.Succ"
}

// ledgerK9 configures the commit-before-publish analysis (mirror kinds, infallible table, how ConfirmBlock marks
// failure). C05 runs it over all eight batch-writing operations; C04 over the two ledger operations (a refused
// confirmation must not leave its header edits behind: the next confirmation would persist them).
func ledgerK9(c *q.Ctx) *q.K9 {
	const st = "bcs/ledger/xledger/state::"
	const led = "bcs/ledger/xledger/ledger::"
	_, _ = st, led
	kinds := []q.MirrorKind{
		{Name: "balance cache", Dirty: []string{"UtxoVM.AddBalance", "UtxoVM.SubBalance"}, Clean: []string{"UtxoVM.ClearBalanceCache"}},
		{Name: "utxo cache", Dirty: []string{"UtxoCache.Insert", "CacheFiller.Commit"}, CleanStores: []string{"UtxoVM.UtxoCache"}},
		{Name: "total supply", Dirty: []string{"UtxoVM.UpdateUtxoTotal"}, Clean: []string{"UtxoVM.ReloadTotal"}},
		{Name: "header cache", Dirty: []string{"LRUCache.Add@*.blkHeaderCache"}, DirtyStores: []string{"InternalBlock.InTrunk@ledger.(*Ledger).fetchBlock(*", "InternalBlock.NextHash@ledger.(*Ledger).fetchBlock(*", "InternalBlock.InTrunk@phi{ledger.(*Ledger).fetchBlock(*", "InternalBlock.NextHash@phi{ledger.(*Ledger).fetchBlock(*"}, Clean: []string{"Ledger.purgeHeaderCache"}},
	}
	infallible := map[string]string{
		"UtxoItem.Dumps":                                 "JSON of {*big.Int,int64} cannot fail",
		"Meta.UpdateNextIrreversibleBlockHeight":         "fails only for a negative window, which NewMeta refuses to load, or when a batch Put fails, which the leveldb batch never does",
		"Meta.UpdateNextIrreversibleBlockHeightForPrune": "as above",
		"proto::Marshal":                                 "marshalling a well-formed message held in memory does not fail",
		"State.undoTxInternal":                           "undoing a transaction that was applied fails only if a version it cited can no longer be fetched, i.e. the database is already inconsistent",
		"XModel.UndoTx":                                  "as above",
	}
	k9 := c.NewK9([]string{"bcs/ledger/xledger/state", "bcs/ledger/xledger/state/utxo", "bcs/ledger/xledger/state/meta", "bcs/ledger/xledger/state/xmodel", "bcs/ledger/xledger/ledger", "bcs/ledger/xledger/tx"},
		kinds, []string{"Batch.Write", "State.updateLatestBlockid"}, infallible)
	// ConfirmBlock returns a struct: a return is a failure unless it is reached after `Succ = true`
	k9.FailMarker = func(fn *ssa.Function, ret *ssa.Return) (bool, bool) {
		if fn.Name() != "ConfirmBlock" {
			return false, false
		}
		for _, b := range fn.Blocks {
			for _, ins := range b.Instrs {
				if s, ok := ins.(*ssa.Store); ok {
					if fa, ok := s.Addr.(*ssa.FieldAddr); ok && q.Canon(s.Val) == "true" && q.CanonD(fa, 3) != "" {
						if isSuccField(fa) && q.ReachFrom([]*ssa.BasicBlock{b}, nil)[ret.Block()] {
							return false, true
						}
					}
				}
			}
		}
		return true, true
	}
	// ConfirmBlock's deferred purge tests the status it returns: `!confirmStatus.Succ`
	k9.FailGuard = func(g q.Cond) bool { return g.Canon == "local<ConfirmStatus>.Succ" && !g.Sense }
	return k9
}

// allK9Operations: the eight batch-writing operations (C05 all of them; C02 the six of the state machine: a cache or a
// total that keeps the effects of a refused block or transaction admits a second spend of a refunded output and makes
// the sum of the unspent outputs disagree with the total).
func allK9Operations(c *q.Ctx, k9 *q.K9) {
	const st = "bcs/ledger/xledger/state::"
	const led = "bcs/ledger/xledger/ledger::"
	coinbaseNever := "coinbase transactions never reach the pool path: DoTx rejects them and recoverUnconfirmedTx skips them, so UpdateUtxoTotal is not executed here"
	if c.Prop != "C02" {
		k9.Operation(led+"(*Ledger).ConfirmBlock", nil)
		k9.Operation(led+"(*Ledger).Truncate", nil)
	}
	k9.Operation(st+"(*State).doTxSync", map[string]string{"total supply": coinbaseNever})
	k9.Operation(st+"(*State).PlayAndRepost", nil)
	k9.Operation(st+"(*State).PlayForMiner", nil)
	k9.Operation(st+"(*State).RollBackUnconfirmedTx", map[string]string{"total supply": coinbaseNever})
	walkBal := "Walk empties the balance cache under the exclusive state lock right before the loops and AddBalance/SubBalance on an uncached address only bump its dirty counter; an entry can reappear only through a concurrent GetBalance, a schedule that is not decided here"
	k9.Operation(st+"(*State).procUndoBlkForWalk", map[string]string{"balance cache": walkBal})
	k9.Operation(st+"(*State).procTodoBlkForWalk", map[string]string{"balance cache": walkBal})

}

// cacheFillerPerTx (C05, C01, C13): the deferred UTXO-cache insertions of a transaction are collected in a filler
// that lives for THAT transaction only and is committed once: a filler shared by the transactions of a block replays
// the insertions of the earlier ones after every later one, re-inserting outputs that were spent in between.
func cacheFillerPerTx(c *q.Ctx) {
	const st = "bcs/ledger/xledger/state::"
	n := 0
	for _, name := range []string{"procTodoBlkForWalk", "PlayAndRepost", "doTxSync"} {
		f := c.Fn(st + "(*State)." + name)
		if f == nil {
			continue
		}
		for _, ci := range q.CallsIn(f, "State.doTxInternal") {
			args := ci.Common().Args
			if len(args) != 4 || q.Canon(args[3]) == "nil" {
				continue
			}
			n++
			c.Sites++
			c.Check(q.FreshPerIteration(ci, args[3]), "K11", st+"(*State)."+name, "the cache filler handed to doTxInternal is created for this transaction", c.At(ci), "a filler that outlives the transaction re-commits its insertions after later transactions")
		}
	}
	c.Floor("K11", st+"(*State).procTodoBlkForWalk", "doTxInternal calls with a cache filler", n, 3)
}

// poolRecordAsPublished (C05, C06): the pool record that is persisted is the transaction object as it is published in
// memory: no field of it is set after it was serialised (a receive time stamped after the Marshal is in the pool of
// the running node and missing in the pool a reopened node loads - which then expires the transaction at once).
func poolRecordAsPublished(c *q.Ctx) {
	ds := c.Fn("bcs/ledger/xledger/state::(*State).doTxSync")
	if ds == nil {
		return
	}
	marshal := q.Target{Name: "the transaction is serialised (proto.Marshal)", Instr: func(i ssa.Instruction) bool {
		ci, ok := i.(ssa.CallInstruction)
		return ok && q.Callee(ci.Common()).Match("proto::Marshal") && len(ci.Common().Args) == 1 && q.Canon(ci.Common().Args[0]) == "p1"
	}}
	field := q.Target{Name: "a field of the transaction is set", Instr: func(i ssa.Instruction) bool {
		st, ok := i.(*ssa.Store)
		if !ok {
			return false
		}
		fa, ok := st.Addr.(*ssa.FieldAddr)
		return ok && strings.HasPrefix(q.TypeField(fa), "Transaction.") && q.Canon(fa.X) == "p1"
	}}
	nField := 0
	for _, b := range ds.Blocks {
		for _, ins := range b.Instrs {
			if field.Instr(ins) {
				nField++
			}
		}
	}
	if nField == 0 { // today: the receive time is stamped by the caller, before doTxSync runs at all
		c.OK("K2", "bcs/ledger/xledger/state::(*State).doTxSync", "no field of the transaction is set after it was serialised", "-", "no field of the transaction is set in this function")
		c.ArgIs(ds, "proto::Marshal", 0, "p1", 1, "the record is the transaction itself")
		return
	}
	c.NeverAfter(ds, marshal, field, "what is persisted is the transaction as the pool publishes it")
}

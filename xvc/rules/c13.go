package rules

import (
	"strings"

	"xvc/q"
)

func init() {
	register("C13", c13, PropInfo{
		Explanation: "A narrow structural part of 'produced blocks are valid everywhere': (K7) producer and validator use the same CalcAward with the height that is packed resp. the block's height, and CalcAward is a function of the height alone - the memo is read and written only under the period key and its value is only returned, never fed back into the computation; (K4-style) SortUnconfirmedTx derives producer->consumer edges from the RefTxid of both TxInputs and TxInputsExt of every pending transaction; the pool order handed to the producer is the topological order of that graph and a cycle is an error; (K5) getUnconfirmedTx cuts the ordered list with `break` - a prefix, closed under dependencies - never skipping an element and continuing; (K2) PlayForMiner applies only coinbase/autogen transactions and removes every other one from the pool table in the block's batch; (K4-style information necessity) an order that places a read-only sharer of a key before the key's writer must at least depend on the pool transactions' write sets.",
		NotDecided:  "that the order produced is replayable (anti-dependencies, diamonds, fee payers) - a quantifier over pool contents and map iteration orders",
		Assumptions: []string{"TopSortDFS returns a topological order of the graph it is given"},
	})
}

func c13(c *q.Ctx) {
	const miner = "kernel/engines/xuperos/miner::"
	const txp = "bcs/ledger/xledger/tx::"
	const st = "bcs/ledger/xledger/state::"
	const led = "bcs/ledger/xledger/ledger::"
	// award
	if ga := c.Fn(miner + "(*Miner).getAwardTx"); ga != nil {
		c.ArgIs(ga, "GenerateAwardTx", 1, "big.(*Int).String(ledger.(*GenesisBlock).CalcAward(p0.ctx.Ledger.GenesisBlock,p1))", 1, "the producer pays itself exactly CalcAward(height)")
	}
	// the award transaction always carries exactly the one output every validator reads the award from
	// (IsValidTx: TxOutputs[0]) - also when the award has decayed to zero
	if gw := c.Fn(txp + "GenerateAwardTx"); gw != nil {
		c.Before(gw, q.ToFieldStore("Transaction.TxOutputs"), q.ToSuccess(), "no award transaction leaves without its output")
		c.StoreIs(gw, "Transaction.TxOutputs", "append(*,[local<TxOutput>])", 1, "one output")
		c.StoreIs(gw, "TxOutput.Amount", "big.(*Int).Bytes(big.NewInt(0){SetString(p1,10)})", 1, "of the amount asked for")
		c.StoreIs(gw, "TxOutput.ToAddr", "p0", 1, "to the address asked for")
		c.StoreIs(gw, "Transaction.Coinbase", "true", 1, "marked as the coinbase")
	}
	// the height everything in the block is generated for (award, timer transaction) is the one right above the
	// ledger's trunk, read again after a consensus-requested truncation
	if mn := c.Fn(miner + "(*Miner).mining"); mn != nil {
		c.ArgIs(mn, "Miner.packBlock", 2, "(1 + p0.ctx.Ledger.meta.TrunkHeight)", 1, "the block is packed for trunk height + 1")
		c.Then(mn, q.ToCall("Miner.truncateForMiner"), q.ToCall("Ledger.GetMeta"), q.ToCall("Miner.packBlock"), nil, "after a truncation the trunk height is read again before the block is packed")
	}
	utxoCacheEviction(c)
	// a received block is refused for its size only above the chain's MAXIMAL BLOCK size - the producer fills 80% of
	// that with pool transactions and adds award, header and merkle tree on top: a receiver that applies the
	// producer's transaction budget to the whole block refuses every full block
	if pb := c.Fn(miner + "(*Miner).ProcBlock"); pb != nil {
		c.CondCount(pb, "(state.(*State).GetMaxBlockSize(p0.ctx.State) < proto.Size(p2))", 1, "the size of a received block is compared with the maximal block size")
		c.CondCount(pb, "(* < proto.Size(p2))", 1, "and with nothing else")
	}
	keyLockProtocol(c)
	if pk := c.Fn(miner + "(*Miner).packBlock"); pk != nil {
		c.ArgIs(pk, "Miner.getAwardTx", 1, "p2", 1, "award computed for the height that is packed")
		c.ArgIs(pk, "Ledger.FormatMinerBlock", 12, "p2", 1, "the block is formatted at that height")
		c.ArgIs(pk, "Miner.getTimerTx", 1, "p2", 1, "the timer transaction is generated for that height")
		// order: award, timer tx, pool prefix
		c.Effect(pk, q.Eff{Spec: "append", Arg: 1, Glob: "[miner.(*Miner).getAwardTx(p0,p2)#0]", Why: "the award transaction comes first", Rule: "K2"})
		// the timer transaction is packed exactly when it writes something (a verifier re-generates it and compares
		// its outputs; an empty one is not in the block, one with writes is)
		timer := "miner.(*Miner).getTimerTx(p0,p2)#0"
		c.Effect(pk, q.Eff{Spec: "append", Arg: 1, Glob: "[" + timer + "]", Req: []q.Cond{{Canon: "(0 == len(" + timer + ".TxOutputsExt))", Sense: false}}, Exact: true,
			Keep: func(g q.Cond) bool { return strings.Contains(g.Canon, timer+".") }, Why: "the timer transaction is in the block iff it has model writes", Rule: "K2"})
		c.Effect(pk, q.Eff{Spec: "append", Arg: 1, Glob: "miner.(*Miner).getUnconfirmedTx(*)#0", Why: "followed by the pool prefix in pool order", Rule: "K2"})
	}
	if iv := c.Fn(led + "(*Ledger).IsValidTx"); iv != nil {
		c.Guard(iv, q.Cond{Canon: "(0 == big.(*Int).Cmp(big.NewInt(0){SetBytes(p2.TxOutputs[0].Amount)},ledger.(*GenesisBlock).CalcAward(p0.GenesisBlock,p3.Height)))", Sense: false}, q.ToSuccess(), q.Opt{})
	}
	if ca := c.Fn(led + "(*GenesisBlock).CalcAward"); ca != nil {
		period := "(p1 / &p0.config.AwardDecay.HeightGap)"
		gets := q.CallsIn(ca, "LRUCache.Get")
		adds := q.CallsIn(ca, "LRUCache.Add")
		ok := len(gets) == 1 && len(adds) == 1 && q.Canon(gets[0].Common().Args[1]) == period && q.Canon(adds[0].Common().Args[1]) == period
		c.Check(ok, "K7", led+"(*GenesisBlock).CalcAward", "the memo is read once and written once, both under the period of the requested height", "-", "the award must be a function of the height alone, not of which heights were asked before")
		c.Sites += len(gets) + len(adds)
		// the cached value is only returned
		fed := false
		for _, e := range q.EffectsOf(ca, "math::Round|big::Int.SetInt64|big::Int.Int64") {
			for _, a := range e.Args {
				if strings.Contains(a, "LRUCache).Get") {
					fed = true
				}
			}
			if strings.Contains(q.CanonD(e.Call.Common().Args[0], 9), "LRUCache).Get") {
				fed = true
			}
		}
		c.Check(!fed, "K7", led+"(*GenesisBlock).CalcAward", "a remembered award is returned as is, never used as the starting point of another period", "-", "round(round(x)*r) differs from round(x*r): nodes with different cache histories would disagree")
	}
	// pool order
	gu := c.Fn(txp + "(*Tx).GetUnconfirmedTx")
	if gu != nil {
		c.ArgIs(gu, "tx::TopSortDFS", 0, "tx.(*Tx).SortUnconfirmedTx(p0)#1", 1, "the order is the topological order of the pool's dependency graph")
		c.Guard(gu, q.Cond{Canon: "tx.TopSortDFS(tx.(*Tx).SortUnconfirmedTx(p0)#1)#1", Sense: true}, q.ToSuccess(), q.Opt{})
		c.Effect(gu, q.Eff{Spec: "append", Arg: 1, Glob: "[tx.(*Tx).SortUnconfirmedTx(p0)#0[tx.TopSortDFS(tx.(*Tx).SortUnconfirmedTx(p0)#1)#0[]]]", Why: "transactions are emitted in that order", Rule: "K2"})
		c.Gate(gu, "Tx.SortUnconfirmedTx", q.ToSuccess(), q.Opt{})
	}
	poolGraph(c)
	feeEveryTx(c)
	su := c.Fn(txp + "(*Tx).SortUnconfirmedTx")
	if su != nil {
		// information necessity: anti-dependencies need the write sets
		reads := false
		for _, r := range c.FieldRefs("Transaction.TxOutputsExt") {
			if q.Top(r.Fn) == su {
				reads = true
			}
		}
		if reads {
			c.OK("K4", txp+"(*Tx).SortUnconfirmedTx", "the ordering decision depends on the pool transactions' write sets", "-", "TxOutputsExt is read")
		} else {
			c.Fail("K4", txp+"(*Tx).SortUnconfirmedTx", "the ordering decision depends on the pool transactions' write sets", "-", "the graph is built from inputs only: a read-only sharer of a key and the key's writer are unordered, so the writer may be packed first and the reader then fails on a replica")
		}
	}
	gm := c.Fn(miner + "(*Miner).getUnconfirmedTx")
	if gm != nil {
		pool := "state.(*State).GetUnconfirmedTx(p0.ctx.State,false)#0"
		// the packed list is a PREFIX of the pool order, cut where the next transaction no longer fits: built either by
		// appending element after element, or by counting and copying pool[:n]
		prefixAppend := false
		for _, e := range q.EffectsOf(gm, "append") {
			if len(e.Args) == 2 && q.Glob(pool+"[:*]", e.Args[1]) {
				prefixAppend = true
			}
		}
		if prefixAppend { // count, then append pool[:n] in one piece
			c.Effect(gm, q.Eff{Spec: "append", Arg: 1, Glob: pool + "[:*]", Why: "transactions are taken in pool order (a prefix of the pool is appended)", Rule: "K5"})
			c.CondCount(gm, "(phi{*|p1} < proto.Size("+pool+"[]))", 1, "the prefix ends where the next transaction exceeds the remaining size")
		} else if len(q.CallsIn(gm, "append")) > 0 {
			c.Guard(gm, q.Cond{Canon: "(phi{*|p1} < proto.Size(" + pool + "[]))", Sense: true}, q.ToCall("append"), q.Opt{})
			c.Effect(gm, q.Eff{Spec: "append", Arg: 1, Glob: "[" + pool + "[]]", Why: "transactions are taken in pool order", Rule: "K5"})
		} else {
			c.Effect(gm, q.Eff{Spec: "copy", Arg: 1, Glob: pool + "[:*]", Why: "transactions are taken in pool order (a prefix of the pool is copied)", Rule: "K5"})
			c.CondCount(gm, "(phi{*|p1} < proto.Size("+pool+"[]))", 1, "the prefix ends where the next transaction exceeds the remaining size")
		}
		c.Gate(gm, "State.GetUnconfirmedTx", q.ToSuccess(), q.Opt{})
	}
	pm := c.Fn(st + "(*State).PlayForMiner")
	if pm != nil {
		tx := "*QueryBlock(*,p1)#0.Transactions[]"
		c.OnlyUnder(pm, q.ToCall("State.doTxInternal"), []q.Cond{{Canon: tx + ".Coinbase", Sense: true}, {Canon: tx + ".Autogen", Sense: true}}, "pool transactions were applied when they were admitted; only the award and the timer transaction are played")
		c.Effect(pm, q.Eff{Spec: "Batch.Delete", Arg: 0, Glob: "append(\"N\"," + tx + ".Txid)", Req: []q.Cond{{Canon: tx + ".Coinbase", Sense: false}, {Canon: tx + ".Autogen", Sense: false}}, Why: "every packed pool transaction leaves the pool table in the block's batch", Rule: "K2"})
		// ... and the in-memory pool loses exactly the packed transactions: what did not fit under the size limit stays
		// pending (its effects are in the state and its record in the pool table; the next block is packed from memory)
		c.Effect(pm, q.Eff{Spec: "Map.Delete", Arg: 0, Glob: tx + ".Txid", Why: "the packed transactions leave the in-memory pool", Rule: "K2"})
	}
	poolMapOwner(c)
	poolReadmission(c)
	poolRollback(c)
	poolConflictScan(c)
	// a block whose transactions delete and re-create a key replays on a node that never saw them
	commitVersionChecks(c)
}

// poolReadmission (C13, C03): after a walk the rolled-back pool transactions are re-admitted - except those the new
// chain already confirmed. A confirmed transaction that came back into the pool would be packed into the node's next
// own block, which the ledger then refuses (the same transaction in two trunk blocks), again and again.
func poolReadmission(c *q.Ctx) {
	rc := c.Fn("bcs/ledger/xledger/state::(*State).recoverUnconfirmedTx")
	if rc == nil {
		return
	}
	has := "ledger.(*Ledger).HasTransaction(p0.sctx.Ledger,p1[#down].Txid)"
	c.Guard(rc, q.Cond{Canon: has + "#0", Sense: true}, q.ToCallSameIter("State.doTxSync"), q.Opt{
		From:   "Ledger.HasTransaction",
		Unless: []q.Cond{{Canon: "(" + has + "#1 == nil)", Sense: false}},
	})
	c.ArgIs(rc, "Ledger.HasTransaction", 1, "p1[#down].Txid", 1, "the transaction looked up is the one about to be re-admitted")
	c.ArgIs(rc, "State.doTxSync", 1, "p1[#down]", 1, "")
}

// poolMapOwner: the in-memory pool is one map for the life of the Tx object - nobody swaps or empties it wholesale, so
// a pending transaction leaves it only by a Delete of its own id (shared by C05/C06/C13).
func poolMapOwner(c *q.Ctx) {
	c.WhoWrites("Tx.UnconfirmTxInMem", map[string]string{"bcs/ledger/xledger/tx::NewTx": "constructor"}, "the pool map is created once; entries leave one by one")
	{
	}
}

package rules

import "xvc/q"

// Thorough tier: module-wide verdict sweeps. For every property the callees whose
// boolean/error result is a verdict the property depends on; every call site in
// all module packages (not only the anchored functions of the quick rules) must
// test, return or hand on that verdict. Exemptions are single sites, each with the
// reason it was confirmed by reading.
type sweepT struct {
	Spec string
	Skip map[string]string // "<enclosing function>|<callee name>" -> reason
}

var Sweeps = map[string]sweepT{
	"C01": {Spec: "State.doTxInternal|State.undoTxInternal|State.payFee|State.undoPayFee|XModel.DoTx|XModel.UndoTx|State.updateLatestBlockid|State.procUndoBlkForWalk|State.procTodoBlkForWalk|State.Walk|State.RollBackUnconfirmedTx|Ledger.FindUndoAndTodoBlocks"},
	"C02": {Spec: "UtxoVM.CheckInputEqualOutput|Ledger.IsValidTx|UtxoVM.UpdateUtxoTotal|State.undoUnconfirmedTx|State.undoTxInternal"},
	"C03": {Spec: "XModel.verifyInputs|XModel.verifyOutputs|SpinLock.TryLock|State.doTxSync|State.DoTx|State.processUnconfirmTxs|State.verifyBlockTxs|State.verifyDAGTxs|State.undoUnconfirmedTx"},
	"C04": {Spec: "Ledger.handleFork|Ledger.saveBlock|Ledger.removeBlocks|Ledger.correctTxsBlockid|Ledger.updateBranchInfo|Ledger.parallelCheckTx|Ledger.Truncate|Ledger.fetchBlock"},
	"C05": {Spec: "State.Play|State.PlayAndRepost|State.PlayForMiner|State.Walk|State.undoUnconfirmedTx|Batch.Write"},
	"C06": {Spec: "Batch.Write|Tx.LoadUnconfirmedTxFromDisk|Database.Put|Database.Delete", Skip: map[string]string{
		"bcs/ledger/xledger/ledger::(*Ledger).UpdateBlockChainData|Put": "one of the three frozen direct-write sites (K3): a hot-fix row that no invariant of the property depends on",
	}},
	"C07": {Spec: "State.VerifyTx|State.ImmediateVerifyTx|State.ImmediateVerifyAutoTx|State.verifySignatures|State.verifyXuperSign|State.verifyUTXOPermission|State.verifyContractPermission|State.verifyContractTxAmount|State.verifyRWSetPermission|State.verifyTxRWSets|State.verifyAutoTxRWSets|State.verifyMarkedTx|State.verifyMarked|State.checkRelyOnMarkedTxid|State.verifyContractOwnerPermission"},
	"C08": {Spec: "ledger::VerifyMerkle|VerifyBlock|CheckMinerMatch"},
	"C09": {Spec: "xmodel::Equal|Flush|Invoke|NewContext|State.verifyTxRWSets|State.verifyAutoTxRWSets"},
	"C10": {Spec: "XMCache.Get|XMCache.Put|XMCache.Del|XMCache.getAndSetFromInputsCache|XMCache.getFromOuputsCache", Skip: map[string]string{
		"kernel/contract/sandbox::(*XMCache).Put|Get":       "the forced read before a write: only its recording side effect matters, not-found is the normal answer",
		"kernel/contract/sandbox::(*rsetIterator).Next|Get": "recording read of a scanned key: only its side effect on the read set matters",
	}},
	"C11": {Spec: "ptree::ValidatePermTree|ptree::validatePermTree|ptree::BuildAccountPermTree|ptree::BuildMethodPermTree|utils::CheckContractMethodPerm|utils::IdentifyAccount|utils::IdentifyAK|Validate|GetAccountACL|GetContractMethodACL"},
	"C12": {Spec: "SpinLock.TryLock|State.doTxSync"},
	"C13": {Spec: "Tx.SortUnconfirmedTx|tx::TopSortDFS|Tx.GetUnconfirmedTx|State.GetUnconfirmedTx|Ledger.IsValidTx"},
	"C14": {Spec: "CheckProposal|CheckVote|VerifyVoteMsgSign|CalVotesThreshold|IsQuorumCertValidate|VerifyVotes"},
	"C15": {Spec: "updateQcStatus|updateCommit|QCPendingTree.insert|QCPendingTree.insertOrphan|UpdateQcStatus|enforceUpdateHighQC", Skip: map[string]string{
		"kernel/consensus/base/driver/chained-bft::(*QCPendingTree).insert|insertOrphan": "insertOrphan answers nil for a duplicate and an error only for a foreign element type in its own list; insert has nothing to undo in either case",
	}},
	"C16": {Spec: "CheckMinerMatch|IsProofed"},
	"C17": {Spec: "Meta.UpdateNextIrreversibleBlockHeight|Meta.UpdateIrreversibleBlockHeight|Meta.UpdateNextIrreversibleBlockHeightForPrune|Meta.UpdateIrreversibleSlideWindow"},
	"C18": {Spec: "xModSnapshot.Get|State.CreateSnapshot|State.GetTipSnapshot|XModel.CreateSnapshot|State.GetTipXMSnapshotReader|State.CreateXMSnapshotReader"},
	"C19": {Spec: "KernMethod.balanceOf|govern_token::KContext.Put", Skip: map[string]string{
		"kernel/contract/proposal/govern_token::(*KernMethod).TransferGovernTokens|balanceOf": "the receiver's read: on error balanceOf answers the empty record, which is what a receiver without a record starts from (the sender's read is checked)",
	}},
	"C20": {Spec: "p2p::Unmarshal|p2p::Decompress|p2p::VerifyChecksum|Dispatcher.Dispatch|Subscriber.Match|Dispatcher.Register|Dispatcher.UnRegister", Skip: map[string]string{
		"bcs/network/p2pv2::(*Stream).SendMessageWithResponse|UnRegister": "deferred clean-up of the caller's own temporary subscriber; nothing depends on its answer",
	}},
}

// Sweep runs the thorough-tier verdict sweep of a property.
func Sweep(c *q.Ctx) {
	s, ok := Sweeps[c.Prop]
	if !ok {
		return
	}
	n := c.ResultSweep(s.Spec, s.Skip)
	c.Check(n > 0, "floor", "module", "verdict sweep matched call sites", "-", "no call site of the swept callees was found")
}

package rules

import (
	"embed"
	"regexp"
	"strings"
	"sync"

	"xvc/q"
)

// The rule sources themselves are the table of names the rules know: every
// identifier that occurs in a rule file (function anchors, callee specs, canonical
// patterns, who-may tables). A private helper whose name is not among them is
// absorbed into its callers before analysis (see load.KnownName).
//
//go:embed c*.go sweeps.go rules.go
var sources embed.FS

//go:embed mustpass.txt
var mustPassTable string

func init() {
	for _, l := range strings.Split(mustPassTable, "\n") {
		if l == "" || strings.HasPrefix(l, "#") {
			continue
		}
		q.MustPass[l] = true
	}
}

var (
	knownOnce sync.Once
	known     map[string]bool
)

// an identifier counts when it is written the way specs, anchors and canonical patterns write names - directly after
// one of . : " | ( ) - not when it is merely a word of the prose in a reason string ("this constructor strips ...")
var identRe = regexp.MustCompile("[.:\"|()`]([A-Za-z_][A-Za-z0-9_]*)")

func KnownName(name string) bool {
	knownOnce.Do(func() {
		known = map[string]bool{}
		ents, _ := sources.ReadDir(".")
		for _, e := range ents {
			data, err := sources.ReadFile(e.Name())
			if err != nil {
				continue
			}
			for _, m := range identRe.FindAllSubmatch(data, -1) {
				known[string(m[1])] = true
			}
		}
	})
	return known[name]
}

// Package rules holds, per property, the rule instances and frozen tables.
package rules

import (
	"strings"

	ssa "xvc/xssa"

	"xvc/load"
	"xvc/q"
)

type PropInfo struct {
	Explanation string
	NotDecided  string
	Assumptions []string
}

var All = map[string]func(*q.Ctx){}
var Info = map[string]PropInfo{}

func register(id string, f func(*q.Ctx), info PropInfo) {
	All[id] = f
	Info[id] = info
}

func isDefer(ci interface{}) bool {
	_, ok := ci.(*ssa.Defer)
	return ok
}

func has(s, sub string) bool { return strings.Contains(s, sub) }

func firstCallArg(fn *ssa.Function, spec string) ssa.Value {
	for _, ci := range q.CallsIn(fn, spec) {
		if len(ci.Common().Args) > 0 {
			return q.Resolve(ci.Common().Args[0])
		}
	}
	return nil
}

func qual(fn *ssa.Function) string { return load.QualName(fn) }

// Package rules holds, per property, the rule instances and frozen tables.
package rules

import (
	"fmt"
	"os"
	"strings"

	ssa "xvc/xssa"

	"xvc/load"
	"xvc/q"
)

type PropInfo struct {
	Explanation string
	NotDecided  string
	Assumptions []string
}

var All = map[string]func(*q.Ctx){}
var Info = map[string]PropInfo{}

func register(id string, f func(*q.Ctx), info PropInfo) {
	All[id] = f
	Info[id] = info
}

func isDefer(ci interface{}) bool {
	_, ok := ci.(*ssa.Defer)
	return ok
}

func has(s, sub string) bool { return strings.Contains(s, sub) }

func firstCallArg(fn *ssa.Function, spec string) ssa.Value {
	for _, ci := range q.CallsIn(fn, spec) {
		if len(ci.Common().Args) > 0 {
			return q.Resolve(ci.Common().Args[0])
		}
	}
	return nil
}

func qual(fn *ssa.Function) string { return load.QualName(fn) }

// Contradictions (every property, over the packages its own rules anchor in): no branch tests a value of a
// `v, err := f()` call on a path that is only reachable with err != nil (q.ErrValueTests). Expected count on a correct
// tree is zero; the self-test keeps positive examples (the pre-fix recoverUnconfirmedTx, seeded C19h).
func Contradictions(c *q.Ctx) {
	pkgs := map[string]bool{}
	for name := range c.Fns {
		if i := strings.Index(name, "::"); i > 0 {
			pkgs[name[:i]] = true
		}
	}
	if len(pkgs) == 0 {
		return
	}
	in := func(path string) bool {
		for p := range pkgs {
			if strings.HasSuffix(path, p) {
				return true
			}
		}
		return false
	}
	if os.Getenv("XVC_SWEEP_ALL") != "" { // authoring aid: sweep the whole module (precision of the sweeps)
		in = func(path string) bool { return strings.Contains(path, "xuperchain/xupercore") }
	}
	sites := q.ErrValueTests(c.P, in)
	for _, s := range sites {
		c.Sites++
		c.Fail("K1c", load.QualName(q.Top(s.Fn)), "no branch tests a call's value where its error is known to be non-nil: `"+q.Canon(s.Branch.Cond)+"`", c.At(s.Branch), "the value of "+q.Callee(s.Call.Common()).Name+" carries no information beside a non-nil error: the guarded branch is dead (wrong polarity of the error test?)")
	}
	if len(sites) == 0 {
		c.OK("K1c", "packages of the anchored functions", "no branch tests a call's value where its error is known to be non-nil", "-", fmt.Sprintf("%d package(s) swept", len(pkgs)))
	}
	// K1d: no comparison of a value with itself
	selfs := q.SelfComparisons(c.P, in)
	for _, sc := range selfs {
		c.Sites++
		c.Fail("K1d", load.QualName(q.Top(sc.Fn)), "no comparison of a value with itself: `"+sc.Txt+"`", c.At(sc.Op), "both operands are the same value: the comparison decides nothing (one side was meant to be the other object)")
	}
	if len(selfs) == 0 {
		c.OK("K1d", "packages of the anchored functions", "no comparison of a value with itself", "-", fmt.Sprintf("%d package(s) swept", len(pkgs)))
	}
	// K17: the buffer an iterator hands out is not kept beyond the iteration
	rets, ncalls := q.IterBufferRetained(c.P, in)
	for _, r := range rets {
		c.Sites++
		if why, ok := iterRetainOK[load.QualName(q.Top(r.Fn))]; ok {
			c.OK("K17", load.QualName(q.Top(r.Fn)), "iterator buffer kept: "+r.How, c.At(r.At), "confirmed harmless: "+why)
			continue
		}
		c.Fail("K17", load.QualName(q.Top(r.Fn)), "the slice an iterator hands out as Key()/Value() is copied before it is kept", c.At(r.At), r.How+": the iterator re-uses the buffer at the next Next(), the kept slice silently becomes a later entry (copy it: append([]byte{}, k...))")
	}
	if len(rets) == 0 {
		c.OK("K17", "packages of the anchored functions", "no iterator Key()/Value() buffer is kept without a copy", "-", fmt.Sprintf("%d Key()/Value() call(s) followed", ncalls))
	}
	// K16: no closure that outlives its loop iteration captures a variable that the loop re-assigns
	caps := q.LoopCaptures(c.P, in)
	for _, l := range caps {
		c.Sites++
		c.Fail("K16", load.QualName(q.Top(l.Fn)), "no closure that outlives its iteration captures a variable the loop re-assigns: `"+l.Var.Comment+"`", c.At(l.Closure), fmt.Sprintf("the closure is handed on by %T and reads `%s` later: every closure of the loop sees the last iteration's value", l.Use, l.Var.Comment))
	}
	if len(caps) == 0 {
		c.OK("K16", "packages of the anchored functions", "no closure that outlives its iteration captures a variable the loop re-assigns", "-", fmt.Sprintf("%d package(s) swept", len(pkgs)))
	}
}

// iterRetainOK: sites where an iterator's buffer is kept and that is confirmed harmless (one line of reason each).
var iterRetainOK = map[string]string{
	"kernel/contract/proposal/propose::(*KernMethod).unlockGovernTokensForProposal": "the argument map is built and consumed by ctx.Call inside the same iteration (and the sandbox iterator hands out per-entry slices)",
}

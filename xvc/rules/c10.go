package rules

import (
	ssa "xvc/xssa"

	"xvc/q"
)

func init() {
	register("C10", c10, PropInfo{
		Explanation: "Structural necessary conditions of the sandbox contract: (K2) XMCache.Get consults the write cache, then the read cache, then the model, and records every model read in the read cache; a delete marker or an empty record answers 'not found'; XMCache.Put of a non-transient key is preceded by the forced read of the same key (every written key is in the read set); (K15) the scan iterator is contractIterator(stripDel(multi(outputs, multi(stripNonLive(inputs), stripNonLive(rset(model)))))): delete markers are stripped AFTER the merge with the outputs, which carry this execution's own deletes, and read-set records of never-existing keys are stripped on both lower layers; (K2) rsetIterator.Next records every key it yields and never stops early; stripDelIterator skips marked entries and only those; multiIterator prefers the front iterator on equal keys and advances both; (K11) the verification-time reader is built from the read set only; the read/write sets are the contents of the two caches.",
		NotDecided:  "ordering/exactness of the three-way merge as values, early-stop look-ahead, that re-running over the read set reproduces the results",
		Assumptions: []string{"redblacktree iterates in key order"},
	})
}

func c10(c *q.Ctx) {
	// a zero transfer is refused before it reaches the reader: the live reader selects nothing for amount zero while the
	// replay reader consumes one declared input, so the two executions would diverge
	if tr := c.Fn("bcs/ledger/xledger/state/utxo::(*UTXOSandbox).Transfer"); tr != nil {
		c.Guard(tr, q.Cond{Canon: "(0 == big.(*Int).Cmp(p3,*))", Sense: true}, q.ToCall("UtxoReader.SelectUtxo"), q.Opt{})
	}
	// range bounds of the in-memory model that backs the read cache, the write cache and the replay reader: an
	// open-ended scan ends at the first key GREATER than every key of the bucket (prefixEnd of the bucket prefix),
	// not at some key inside the bucket's key space
	if sel := c.Fn("kernel/contract/sandbox::(*MemXModel).Select"); sel != nil {
		c.ArgIs(sel, "sandbox::newTreeRangeIterator", 1, "sandbox.makeRawKey(p1,p2)", 1, "the scan starts at the start key inside the bucket")
		c.ArgIs(sel, "sandbox::newTreeRangeIterator", 2, "phi{sandbox.makeRawKey(p1,p3)|sandbox.prefixEnd(sandbox.makeRawKey(p1,nil))}", 1, "and ends at the end key, or past the whole bucket when none is given")
		c.Guard(sel, q.Cond{Canon: "(0 < dyn:p0.tree.Comparator(p2,p3))", Sense: true}, q.ToSuccess(), q.Opt{})
	}
	const sb = "kernel/contract/sandbox::"
	get := c.Fn(sb + "(*XMCache).Get")
	if get != nil {
		c.Before(get, q.ToCall("XMCache.getFromOuputsCache"), q.ToCall("XMCache.getAndSetFromInputsCache"), "a read observes this execution's latest write or delete first")
		c.Gate(get, "XMCache.getAndSetFromInputsCache", q.ToSuccess(), q.Opt{Unless: []q.Cond{{Canon: "(nil == sandbox.(*XMCache).getFromOuputsCache(p0,p1,p2)#1)", Sense: true}}})
		c.Guard(get, q.Cond{Canon: "sandbox.IsEmptyVersionedData(sandbox.(*XMCache).getAndSetFromInputsCache(p0,p1,p2)#0)", Sense: true}, q.ToSuccess(), q.Opt{From: "XMCache.getAndSetFromInputsCache"})
		c.Guard(get, q.Cond{Canon: "sandbox.IsDelFlag(sandbox.(*XMCache).getAndSetFromInputsCache(p0,p1,p2)#0.PureData.Value)", Sense: true}, q.ToSuccess(), q.Opt{From: "XMCache.getAndSetFromInputsCache"})
		c.Guard(get, q.Cond{Canon: "(g:ErrNotFound == sandbox.(*XMCache).getFromOuputsCache(p0,p1,p2)#1)", Sense: false}, q.ToCall("XMCache.getAndSetFromInputsCache"), q.Opt{Unless: []q.Cond{{Canon: "(nil == sandbox.(*XMCache).getFromOuputsCache(p0,p1,p2)#1)", Sense: true}}})
		c.ReturnIs(get, 0, []string{"nil", "sandbox.(*XMCache).getFromOuputsCache(p0,p1,p2)#0.PureData.Value", "sandbox.(*XMCache).getAndSetFromInputsCache(p0,p1,p2)#0.PureData.Value"}, "the value returned is the one found at the first layer that has the key")
	}
	go1 := c.Fn(sb + "(*XMCache).getFromOuputsCache")
	if go1 != nil {
		c.Guard(go1, q.Cond{Canon: "sandbox.IsDelFlag(sandbox.(*MemXModel).Get(p0.outputsCache,p1,p2)#0.PureData.Value)", Sense: true}, q.ToSuccess(), q.Opt{From: "MemXModel.Get"})
		c.Gate(go1, "MemXModel.Get", q.ToSuccess(), q.Opt{})
	}
	gi := c.Fn(sb + "(*XMCache).getAndSetFromInputsCache")
	if gi != nil {
		c.Effect(gi, q.Eff{Spec: "MemXModel.Put", Arg: 2, Glob: "i:XMReader.Get(p0.model,p1,p2)#0", Req: []q.Cond{{Canon: "(i:XMReader.Get(p0.model,p1,p2)#1 == nil)", Sense: true}}, Why: "every value read from the model enters the read set", Rule: "K2"})
		c.ArgIs(gi, "MemXModel.Put", 0, "p0.inputsCache", 1, "the read set")
		c.Gate(gi, "XMReader.Get", q.ToSuccess(), q.Opt{K1Only: true})
		c.Effect(gi, q.Eff{Spec: "XMReader.Get", Arg: 0, Glob: "p1", Req: []q.Cond{{Canon: "(g:ErrNotFound == sandbox.(*MemXModel).Get(p0.inputsCache,p1,p2)#1)", Sense: true}}, Why: "the model is consulted only on a read-cache miss", Rule: "K2"})
	}
	put := c.Fn(sb + "(*XMCache).Put")
	if put != nil {
		c.Before(put, q.ToCall("XMCache.Get"), q.ToCall("MemXModel.Put"), "a non-transient write is preceded by the forced read of the key", q.Cond{Canon: "(\"$transient\" == p1)", Sense: true})
		c.ArgIs(put, "XMCache.Get", 1, "p1", 1, "same bucket")
		c.ArgIs(put, "XMCache.Get", 2, "p2", 1, "same key")
		c.ArgIs(put, "MemXModel.Put", 0, "p0.outputsCache", 1, "the write set")
		c.StoreIs(put, "PureData.Value", "p3", 1, "the write set holds the value passed to Put")
		c.StoreIs(put, "PureData.Key", "p2", 1, "")
		c.StoreIs(put, "PureData.Bucket", "p1", 1, "")
	}
	del := c.Fn(sb + "(*XMCache).Del")
	if del != nil {
		c.ArgIs(del, "XMCache.Put", 3, "\"\\x00\"", 1, "a delete is a write of the delete marker")
	}
	scanComposition(c)
	for _, ctor := range []struct{ fn, field, val string }{
		{"newStripDelIterator", "stripDelIterator.stripEmpty", ""},
		{"newStripNonLiveIterator", "stripDelIterator.stripEmpty", "true"},
	} {
		f := c.Fn(sb + ctor.fn)
		if f == nil {
			continue
		}
		if ctor.val != "" {
			c.StoreIs(f, ctor.field, ctor.val, 1, "this constructor strips empty read records as well")
		}
		c.StoreIs(f, "stripDelIterator.XMIterator", "p0", 1, "wraps the iterator passed in")
	}
	rn := c.Fn(sb + "(*rsetIterator).Next")
	if rn != nil {
		c.Effect(rn, q.Eff{Spec: "XMCache.Get", Arg: 1, Glob: "i:XMIterator.Key(p0.XMIterator)", Req: []q.Cond{{Canon: "i:XMIterator.Next(p0.XMIterator)", Sense: true}}, Why: "every key the scan yields from the model is recorded in the read set", Rule: "K2"})
		c.ArgIs(rn, "XMCache.Get", 0, "p0.mc", 1, "in this sandbox")
		c.ArgIs(rn, "XMCache.Get", 1, "p0.bucket", 1, "under the scanned bucket")
		c.EdgeReturns(rn, q.Cond{Canon: "i:XMIterator.Next(p0.XMIterator)", Sense: true}, 0, "true", "a key of the model is never dropped from the scan, whatever the recording read answers (deleted keys answer ErrHasDel)")
	}
	sn := c.Fn(sb + "(*stripDelIterator).Next")
	if sn != nil {
		c.Guard(sn, q.Cond{Canon: "sandbox.IsDelFlag(i:XMIterator.Value(p0.XMIterator).PureData.Value)", Sense: true}, q.Target{Name: "return true in the same iteration", SameIter: true, Instr: isReturnTrue}, q.Opt{})
		c.EdgeReturns(sn, q.Cond{Canon: "i:XMIterator.Next(p0.XMIterator)", Sense: false}, 0, "false", "the scan ends only when the wrapped iterator ends")
		c.Guard(sn, q.Cond{Canon: "sandbox.IsEmptyVersionedData(i:XMIterator.Value(p0.XMIterator))", Sense: true}, q.Target{Name: "return true in the same iteration", SameIter: true, Instr: isReturnTrue}, q.Opt{})
		c.OnlyUnder(sn, q.ToCall("sandbox::IsEmptyVersionedData"), []q.Cond{{Canon: "p0.stripEmpty", Sense: true}}, "pending writes have no version either: they are only filtered where the flag says so")
	}
	mn := c.Fn(sb + "(*multiIterator).Next")
	if mn != nil {
		cmp := "sandbox.compareBytes(sandbox.(*peekIterator).Peek(p0.front)#0,sandbox.(*peekIterator).Peek(p0.back)#0)"
		eq := q.Cond{Canon: "(0 == " + cmp + ")", Sense: true}
		c.Effect(mn, q.Eff{Spec: "peekIterator.Next", Arg: -2, Glob: "p0.front", Req: []q.Cond{eq}, Why: "on equal keys the front (higher-priority) entry is yielded", Rule: "K5"})
		c.Effect(mn, q.Eff{Spec: "peekIterator.Next", Arg: -2, Glob: "p0.back", Req: []q.Cond{eq}, Why: "and the shadowed back entry is consumed", Rule: "K5"})
		c.Effect(mn, q.Eff{Spec: "peekIterator.Next", Arg: -2, Glob: "p0.front", Req: []q.Cond{{Canon: "(-1 == " + cmp + ")", Sense: true}}, Why: "the smaller key comes first", Rule: "K5"})
		c.Effect(mn, q.Eff{Spec: "peekIterator.Next", Arg: -2, Glob: "p0.back", Req: []q.Cond{{Canon: "(1 == " + cmp + ")", Sense: true}}, Why: "the smaller key comes first", Rule: "K5"})
	}
	if mn != nil {
		// when one side is exhausted the answer is whether the OTHER side still has an entry (a scan that ends when
		// the first of its two layers ends drops the tail of the other layer)
		c.EdgeReturns(mn, q.Cond{Canon: "p0.front.next", Sense: false}, 0, "p0.back.next", "front exhausted: the scan continues as long as the back has entries")
		c.EdgeReturns(mn, q.Cond{Canon: "p0.back.next", Sense: false}, 0, "p0.front.next OR true", "back exhausted: the scan continues as long as the front has entries (known non-empty here)")
	}
	xr := c.Fn(sb + "XMReaderFromRWSet")
	if xr != nil {
		c.ArgIs(xr, "MemXModel.Put", 3, "p0.RSet[]", 1, "the verification-time reader holds the declared reads and nothing else")
		c.Check(len(q.CallsIn(xr, "MemXModel.Put")) == 1, "K11", sb+"XMReaderFromRWSet", "one population loop", "-", "")
	}
	utxoReaderRules(c)
	if f := c.Fn(sb + "(*XMCache).getReadSets"); f != nil {
		c.ArgIs(f, "MemXModel.NewIterator", 0, "p0.inputsCache", 1, "the read set is the read cache")
	}
	if f := c.Fn(sb + "(*XMCache).getWriteSets"); f != nil {
		c.ArgIs(f, "MemXModel.NewIterator", 0, "p0.outputsCache", 1, "the write set is the write cache")
	}
}

func isReturnTrue(i ssa.Instruction) bool {
	r, ok := i.(*ssa.Return)
	if !ok || len(r.Results) == 0 {
		return false
	}
	b, isC := q.ConstBool(r.Results[0])
	return isC && b
}

// scanComposition (C10, C09): what a range scan of the sandbox yields is one fixed composition of filters - in
// particular the backend is filtered for non-live records, not only delete markers: at verification time the backend
// IS the declared read set, which holds an empty record for every key that was read as missing, and a scan that yields
// those re-executes to a different write set than pre-execution did.
func scanComposition(c *q.Ctx) {
	const sb = "kernel/contract/sandbox::"
	it := c.Fn(sb + "(*XMCache).newXModelCacheIterator")
	if it != nil {
		out := "sandbox.(*MemXModel).Select(p0.outputsCache,p1,p2,p3)#0"
		in := "sandbox.newStripNonLiveIterator(sandbox.(*MemXModel).Select(p0.inputsCache,p1,p2,p3)#0)"
		back := "sandbox.newStripNonLiveIterator(sandbox.newRsetIterator(p1,i:XMReader.Select(p0.model,p1,p2,p3)#0,p0))"
		want := "sandbox.newContractIterator(sandbox.newStripDelIterator(sandbox.newMultiIterator(" + out + ",sandbox.newMultiIterator(" + in + "," + back + "))))"
		c.Check(q.Glob("nil", "nil"), "K15", sb+"(*XMCache).newXModelCacheIterator", "composition table present", "-", "")
		rets := q.Returns(it)
		found := false
		for _, r := range rets {
			if q.CanonD(r.Results[0], 12) == want {
				found = true
				c.OK("K15", sb+"(*XMCache).newXModelCacheIterator", "scan iterator = contract(stripDel(multi(outputs, multi(stripNonLive(inputs), stripNonLive(rset(model))))))", c.At(r), "deletes stripped after the merge with the outputs; outputs take priority over inputs over the model")
			}
		}
		if !found {
			got := ""
			for _, r := range rets {
				got += q.CanonD(r.Results[0], 12) + " ; "
			}
			c.Fail("K15", sb+"(*XMCache).newXModelCacheIterator", "scan iterator = contract(stripDel(multi(outputs, multi(stripNonLive(inputs), stripNonLive(rset(model))))))", "-", "returned composition is: "+got)
		}
		c.Gate(it, "XMReader.Select", q.ToSuccess(), q.Opt{})
	}
}

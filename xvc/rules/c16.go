package rules

import (
	"fmt"
	ssa "xvc/xssa"

	"xvc/q"
)

func init() {
	register("C16", c16, PropInfo{
		Explanation: "The acceptance structure of the four CheckMinerMatch implementations (K1/K5/K11), decided on every path: TDPoS - the slot is computed from the block's own timestamp (not the wall clock), an out-of-range slot (blockPos < 0, blockPos >= blockNum, pos >= proposerNum) rejects, the proposer list is the one computed for the block's height/timestamp/storage and wantProposers[pos] != proposer rejects; the slot function answers 'nobody' (-1) on both gap branches; XPoA - the leader is computed from the block's timestamp and height over the validator set governing that block, whose length (not the node's cached set's) is the rotation length and whose element at pos is returned, and a different proposer rejects; single - id recomputation and equality, configured miner, key-address binding, ECDSA over the id, each rejecting; PoW - proof for the stated and for the recomputed target, target equality with refreshDifficulty(prehash,height), timestamp not before the parent's, key-address binding and ECDSA; PluggableConsensus.CheckMinerMatch forwards to the current component and batchConfirmBlock obeys the verdict (shared with C08).",
		NotDecided:  "that the slot function names at most one producer and tiles time for every configuration, and the compact-difficulty encoding corner cases (integer arithmetic over a large value domain: needs enumeration or a solver - not applicable to this family)",
		Assumptions: []string{"ECDSA soundness"},
	})
}

func c16(c *q.Ctx) {
	// restart: the history of consensus instances is rebuilt in the order it was recorded - every call is dispatched to
	// the LAST instance, so an order that depends on map iteration can make a retired consensus the current one
	if np := c.Fn("kernel/consensus::NewPluggableConsensus"); np != nil {
		c.NoMapOrder(np, "stepConsensus.put")
	}
	// the validator set of a candidate block: the ledger's own record at that height is consulted only for heights
	// strictly below the tip (a candidate AT the tip's height is a sibling of the tip, not the tip)
	if co := c.Fn("bcs/consensus/tdpos::(*tdposSchedule).CalOldProposers"); co != nil {
		tip := "i:BlockHandle.GetHeight(i:LedgerRely.GetTipBlock(p0.ledger))"
		c.Effect(co, q.Eff{Spec: "tdposSchedule.calHisValidators", Arg: 0, Glob: "p1", Req: []q.Cond{{Canon: "(p1 < " + tip + ")", Sense: true}}, Why: "history is read for the candidate's own height only when the ledger has a block ABOVE it", Rule: "K5"})
	}
	// the term of a historical block started pos*blockNum + blockPos blocks before it at most (pos producers before
	// this one each made blockNum blocks): the backward search for the term's first block starts there
	if ch := c.Fn("bcs/consensus/tdpos::(*tdposSchedule).calHisValidators"); ch != nil {
		blk := "i:LedgerRely.QueryBlockByHeight(p0.ledger,p1)#0"
		ms := "tdpos.(*tdposSchedule).minerScheduling(p0,i:BlockHandle.GetTimestamp(" + blk + "))"
		c.CondCount(ch, "(p0.startHeight < (i:BlockHandle.GetHeight("+blk+") - ((p0.blockNum * "+ms+"#1) + "+ms+"#2)))", 1, "the search window reaches back to the earliest block the term can have")
	}
	// compact difficulty encoding: the 0x00800000 bit of the mantissa is the SIGN bit; a mantissa that has it set is
	// shifted down one byte - decided by a mask on that bit, not by the magnitude of the mantissa (every 3-byte
	// mantissa above 0x800000 has the bit set, but so does 0x800000 itself, and larger values without it do not exist
	// only by accident of the preceding shift)
	if gc := c.Fn("bcs/consensus/pow::GetCompact"); gc != nil {
		n := len(q.CondEdges(gc, q.Cond{Canon: "(0 < (8388608 & *))", Sense: true})) + len(q.CondEdges(gc, q.Cond{Canon: "(0 == (8388608 & *))", Sense: true}))
		c.Sites += n
		c.Check(n == 1, "K5", "bcs/consensus/pow::GetCompact", "the mantissa is renormalised on its sign bit (mask 0x00800000)", "-", fmt.Sprintf("found %d mask test(s)", n))
	}
	// election: a candidate enters the ballot list only with a POSITIVE ballot sum (a candidate whose votes were all
	// revoked keeps a row of zeros and must not be seated)
	if tk := c.Fn("bcs/consensus/tdpos::(*tdposSchedule).calTopKNominator"); tk != nil {
		c.Effect(tk, q.Eff{Spec: "append", Arg: 1, Glob: "[local<termBallots>]", Req: []q.Cond{{Canon: "(0 < (* + *))", Sense: true}}, Why: "only candidates with ballots above zero are ranked", Rule: "K5"})
	}
	blockAgentHashes(c)
	// ---- TDPoS
	td := c.Fn("bcs/consensus/tdpos::(*tdposConsensus).CheckMinerMatch")
	if td != nil {
		ms := "tdpos.(*tdposSchedule).minerScheduling(p0.election,i:BlockInterface.GetTimestamp(p2))"
		c.ArgIs(td, "tdposSchedule.minerScheduling", 1, "i:BlockInterface.GetTimestamp(p2)", 1, "the entitled producer is the one of the block's own timestamp, not of the receiver's clock")
		c.Guard(td, q.Cond{Canon: "(" + ms + "#2 < 0)", Sense: true}, q.ToSuccess(), q.Opt{})
		c.Guard(td, q.Cond{Canon: "(" + ms + "#2 < p0.election.blockNum)", Sense: false}, q.ToSuccess(), q.Opt{})
		c.Guard(td, q.Cond{Canon: "(" + ms + "#1 < p0.election.proposerNum)", Sense: false}, q.ToSuccess(), q.Opt{})
		want := "tdpos.(*tdposSchedule).CalOldProposers(p0.election,i:BlockInterface.GetHeight(p2),i:BlockInterface.GetTimestamp(p2),i:BlockInterface.GetConsensusStorage(p2)#0)#0"
		c.Guard(td, q.Cond{Canon: "(i:BlockInterface.GetProposer(p2) == " + want + "[])", Sense: false}, q.ToSuccess(), q.Opt{})
		c.Gate(td, "tdposSchedule.CalOldProposers", q.ToSuccess(), q.Opt{K1Only: true, Min: 2})
		c.Gate(td, "BlockInterface.GetConsensusStorage", q.ToSuccess(), q.Opt{K1Only: true, Waypoint: true})
		// the index into the proposer list is the scheduled position
		idxIsPos(c, td, want, ms+"#1")
	}
	tms := c.Fn("bcs/consensus/tdpos::(*tdposSchedule).minerScheduling")
	if tms != nil {
		// both hand-over gaps (before the term's first slot, before a producer's first slot) are decided by comparing the
		// slot's begin with the block's own time, and answer blockPos = -1: a timestamp inside a gap belongs to nobody
		// (a test on the truncated quotient (T-begin)/period lets the instants just before the slot through)
		gap := q.Cond{Canon: "(* < (p1 / 1000000))", Sense: false}
		c.CondCount(tms, gap.Canon, 2, "the term gap and the producer gap are each decided on `begin >= T`")
		c.EdgeReturns(tms, gap, 2, "-1", "inside a gap nobody is entitled")
	}
	// ---- XPoA
	xp := c.Fn("bcs/consensus/xpoa::(*xpoaConsensus).CheckMinerMatch")
	if xp != nil {
		c.Guard(xp, q.Cond{Canon: "(i:BlockInterface.GetProposer(p2) == xpoa.(*xpoaSchedule).GetLocalLeader(p0.election,i:BlockInterface.GetTimestamp(p2),i:BlockInterface.GetHeight(p2),i:BlockInterface.GetConsensusStorage(p2)#0))", Sense: false}, q.ToSuccess(), q.Opt{})
	}
	// which historical validator set a block is judged against is the receiver's business: the height recorded in the
	// block's own consensus storage (the rollback target) is honoured only in BFT mode, where the justify binds it
	if lv := c.Fn("bcs/consensus/xpoa::(*xpoaSchedule).GetLocalValidates"); lv != nil {
		c.OnlyUnder(lv, q.ToCall("ParseOldQCStorage"), []q.Cond{{Canon: "p0.enableBFT", Sense: true}}, "without BFT the producer cannot choose the validator set its own block is checked against")
	}
	ll := c.Fn("bcs/consensus/xpoa::(*xpoaSchedule).GetLocalLeader")
	if ll != nil {
		vs := "xpoa.(*xpoaSchedule).GetLocalValidates(p0,p1,p2,p3)"
		c.ArgIs(ll, "xpoaSchedule.minerScheduling", 1, "p1", 1, "the block's timestamp")
		c.ArgIs(ll, "xpoaSchedule.minerScheduling", 2, "len("+vs+")", 1, "the rotation length is the size of the validator set governing this block")
		ms := "xpoa.(*xpoaSchedule).minerScheduling(p0,p1,len(" + vs + "))"
		c.ReturnIs(ll, 0, []string{"\"\"", vs + "[]"}, "the leader is an element of that set")
		idxIsPos(c, ll, vs, ms+"#1")
		c.CondCount(ll, "("+ms+"#1 < len("+vs+"))", 1, "a position outside the set names nobody")
	}
	// ---- single
	sg := c.Fn("bcs/consensus/single::(*SingleConsensus).CheckMinerMatch")
	if sg != nil {
		key := "i:CryptoClient.GetEcdsaPublicKeyFromJsonStr(&p0.ctx.Crypto,i:BlockInterface.GetPublicKey(p2))#0"
		c.Gate(sg, "BlockInterface.MakeBlockId", q.ToSuccess(), q.Opt{})
		c.Guard(sg, q.Cond{Canon: "bytes.Equal(i:BlockInterface.MakeBlockId(p2)#0,i:BlockInterface.GetBlockid(p2))", Sense: false}, q.ToSuccess(), q.Opt{})
		c.Guard(sg, q.Cond{Canon: "(i:BlockInterface.GetProposer(p2) == p0.config.Miner)", Sense: false}, q.ToSuccess(), q.Opt{})
		c.Gate(sg, "GetEcdsaPublicKeyFromJsonStr", q.ToSuccess(), q.Opt{})
		c.Gate(sg, "VerifyAddressUsingPublicKey", q.ToSuccess(), q.Opt{})
		c.ArgIs(sg, "VerifyAddressUsingPublicKey", 0, "i:BlockInterface.GetProposer(p2)", 1, "the key must hash to the stated proposer")
		c.Gate(sg, "VerifyECDSA", q.ToSuccess(), q.Opt{K1Only: true})
		c.ArgIs(sg, "VerifyECDSA", 0, key, 1, "")
		c.ArgIs(sg, "VerifyECDSA", 1, "i:BlockInterface.GetSign(p2)", 1, "")
		c.ArgIs(sg, "VerifyECDSA", 2, "i:BlockInterface.GetBlockid(p2)", 1, "signature over the block id")
	}
	// ---- PoW
	if rf := c.Fn("bcs/consensus/pow::(*PoWConsensus).refreshDifficulty"); rf != nil {
		exp := "((p0.config.AdjustHeightGap - 1) * p0.config.ExpectedPeriodMilSec)"
		c.CondCount(rf, "(* / 1000000000) < ("+exp+" / 4))", 1, "the measured span is clamped from below at a quarter of the expected span (compared before any division of the measured side)")
		c.CondCount(rf, "(("+exp+" * 4) < phi{*})", 1, "and from above at four times the expected span: the comparison multiplies the expected side, it never divides the measured one (a truncated quotient lets spans just above the limit through)")
		c.CondCount(rf, "((p2 % p0.config.AdjustHeightGap) == 0)", 1, "the target is re-derived exactly at multiples of the adjustment gap")
	}
	pw := c.Fn("bcs/consensus/pow::(*PoWConsensus).CheckMinerMatch")
	if pw != nil {
		st := "pow.(*PoWConsensus).ParseConsensusStorage(p0,p2)#0.TargetBits"
		rd := "pow.(*PoWConsensus).refreshDifficulty(p0,i:BlockInterface.GetPreHash(p2),i:BlockInterface.GetHeight(p2))#0"
		key := "i:CryptoClient.GetEcdsaPublicKeyFromJsonStr(&p0.ConsensusCtx.Crypto,i:BlockInterface.GetPublicKey(p2))#0"
		c.Gate(pw, "PoWConsensus.ParseConsensusStorage", q.ToSuccess(), q.Opt{})
		c.Guard(pw, q.Cond{Canon: "pow.(*PoWConsensus).IsProofed(p0,i:BlockInterface.GetBlockid(p2)," + st + ")", Sense: false}, q.ToSuccess(), q.Opt{})
		c.Guard(pw, q.Cond{Canon: "pow.(*PoWConsensus).IsProofed(p0,i:BlockInterface.GetBlockid(p2)," + rd + ")", Sense: false}, q.ToSuccess(), q.Opt{})
		c.Gate(pw, "BlockInterface.MakeBlockId", q.ToSuccess(), q.Opt{})
		c.Guard(pw, q.Cond{Canon: "bytes.Equal(i:BlockInterface.MakeBlockId(p2)#0,i:BlockInterface.GetBlockid(p2))", Sense: false}, q.ToSuccess(), q.Opt{})
		c.Gate(pw, "PoWConsensus.refreshDifficulty", q.ToSuccess(), q.Opt{})
		c.Guard(pw, q.Cond{Canon: "(" + st + " == " + rd + ")", Sense: false}, q.ToSuccess(), q.Opt{})
		c.Guard(pw, q.Cond{Canon: "(i:BlockInterface.GetTimestamp(p2) < i:BlockHandle.GetTimestamp(i:LedgerRely.QueryBlock(&p0.ConsensusCtx.Ledger,i:BlockInterface.GetPreHash(p2))#0))", Sense: true}, q.ToSuccess(), q.Opt{})
		c.Gate(pw, "LedgerRely.QueryBlock", q.ToSuccess(), q.Opt{})
		c.Gate(pw, "GetEcdsaPublicKeyFromJsonStr", q.ToSuccess(), q.Opt{})
		c.Gate(pw, "VerifyAddressUsingPublicKey", q.ToSuccess(), q.Opt{})
		c.ArgIs(pw, "VerifyAddressUsingPublicKey", 0, "i:BlockInterface.GetProposer(p2)", 1, "the key must hash to the stated proposer")
		c.Gate(pw, "VerifyECDSA", q.ToSuccess(), q.Opt{K1Only: true})
		c.ArgIs(pw, "VerifyECDSA", 0, key, 1, "")
		c.ArgIs(pw, "VerifyECDSA", 2, "i:BlockInterface.GetBlockid(p2)", 1, "signature over the block id")
	}
	ip := c.Fn("bcs/consensus/pow::(*PoWConsensus).IsProofed")
	if ip != nil {
		hash := "big.NewInt(0){SetBytes(p1)}"
		c.Guard(ip, q.Cond{Canon: "(1 == big.(*Int).Cmp(" + hash + ",big.NewInt(1){Lsh(self,(256 - p2))}))", Sense: true}, q.ToSuccess(), q.Opt{})
		c.Guard(ip, q.Cond{Canon: "(1 == big.(*Int).Cmp(" + hash + ",pow.SetCompact(p2)#0))", Sense: true}, q.ToSuccess(), q.Opt{})
		c.Guard(ip, q.Cond{Canon: "pow.SetCompact(p2)#1", Sense: true}, q.ToSuccess(), q.Opt{})
		c.Guard(ip, q.Cond{Canon: "pow.SetCompact(p2)#2", Sense: true}, q.ToSuccess(), q.Opt{})
		c.Effect(ip, q.Eff{Spec: "big::Int.SetBytes", Arg: 0, Glob: "p1", Why: "the number compared with the target is the block id", Rule: "K11"})
		// whichever encoding is in force, `true` is reached only over the accepting edge of the FULL-WIDTH comparison of
		// the hash with the expanded target (the compact form keeps 3 mantissa bytes: compared in that form, a hash
		// just above the target is accepted)
		btc := q.Cond{Canon: "p0.bitcoinFlag", Sense: true}
		old := q.Cond{Canon: "p0.bitcoinFlag", Sense: false}
		c.Guard(ip, q.Cond{Canon: "(1 == big.(*Int).Cmp(" + hash + ",pow.SetCompact(p2)#0))", Sense: true}, q.ToSuccess(), q.Opt{Entry: true, Unless: []q.Cond{old}})
		c.Guard(ip, q.Cond{Canon: "(1 == big.(*Int).Cmp(" + hash + ",big.NewInt(1){Lsh(self,(256 - p2))}))", Sense: true}, q.ToSuccess(), q.Opt{Entry: true, Unless: []q.Cond{btc}})
	}
	// ---- forwarding
	pc := c.Fn("kernel/consensus::(*PluggableConsensus).CheckMinerMatch")
	if pc != nil {
		c.ReturnIs(pc, 0, []string{"false", "i:ConsensusImplInterface.CheckMinerMatch(pluggable.(*PluggableConsensus).getCurrentConsensusComponent(p0),p1,p2)#0 OR i:*.CheckMinerMatch(*getCurrentConsensusComponent(p0),p1,p2)#0"}, "the verdict of the consensus component in force is returned unchanged")
	}
	bc := c.Fn("kernel/engines/xuperos/miner::(*Miner).batchConfirmBlock")
	if bc != nil {
		c.Gate(bc, "CheckMinerMatch", q.ToCall("Ledger.ConfirmBlock"), q.Opt{})
	}
}

// idxIsPos: fn indexes the slice `list` with the value `pos` (K11).
func idxIsPos(c *q.Ctx, fn *ssa.Function, list, pos string) {
	name := ""
	n := 0
	for _, b := range fn.Blocks {
		for _, ins := range b.Instrs {
			ia, ok := ins.(*ssa.IndexAddr)
			if !ok || q.CanonD(ia.X, 9) != list {
				continue
			}
			n++
			got := q.CanonD(ia.Index, 9)
			c.Check(got == pos, "K11", qual(fn), "the list is indexed with the scheduled position", c.At(ia), "index is `"+got+"`")
		}
	}
	_ = name
	if n == 0 {
		c.Fail("K11", qual(fn), "the list is indexed with the scheduled position", "-", "no index into `"+list+"`")
	}
	c.Sites += n
}

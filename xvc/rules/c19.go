package rules

import (
	"strings"

	ssa "xvc/xssa"

	"xvc/load"
	"xvc/q"
)

func init() {
	register("C19", c19, PropInfo{
		Explanation: "Structural necessary conditions of governance-token conservation: (K3) the governToken bucket is written only by the Put sites of govern_token_contract.go; (K11 record provenance) every balance record written under balanceOf_<A> is the JSON of the record that was read for the same account A in the same call (a second account only behind an equality test of the two names) - no record is rebuilt from scratch and none is written under another account's key; (K11 same value) the amount debited from the sender's total is the value credited to the receiver's total, and InitGovernTokens adds to the total supply exactly the value it stores as the account's balance; (K2/K5) Lock and UnLock reject unless the caller is one of the three kernel contracts, before any Put; Transfer rejects unless total - locked_v >= amount for every lock kind before the debit; Lock rejects unless total - locked[type] >= amount; (K3) locked amounts are mutated only in Lock and UnLock (no big.Int mutator is applied to a LockedBalance entry elsewhere).",
		NotDecided:  "conservation over call sequences as a value; UnLock below zero; interplay with the proposal/TDPoS contracts",
		Assumptions: []string{"math/big semantics", "json round-trips the balance record"},
	})
}

func c19(c *q.Ctx) {
	// a proposal's deposit is unlocked by Thaw exactly once: only a proposal that is still in the voting state can be
	// thawed (Thaw itself moves it to cancelled, and the lock record is not deleted)
	if th := c.Fn("kernel/contract/proposal/propose::(*KernMethod).Thaw"); th != nil {
		voting := q.Cond{Canon: "(\"voting\" == *#0.Status)", Sense: false}
		c.Guard(th, voting, q.ToCall("KContext.Call"), q.Opt{})
		if c.Normalised("K5", "kernel/contract/proposal/propose::(*KernMethod).Thaw", "the proposal record is rewritten only from the voting state") {
			c.Guard(th, voting, q.ToCall("KContext.Put"), q.Opt{})
		}
	}
	// one account, one record: the balance key is an injective function of the account name exactly as the contract
	// compares names (sender == receiver is decided on the raw strings) - a key that normalises the name makes two
	// names share a record that the transfer treats as two
	if mk := c.Fn("kernel/contract/proposal/utils::MakeAccountBalanceKey"); mk != nil {
		c.ReturnIs(mk, 0, []string{"((\"balanceOf\" + \"_\") + p0) OR (\"balanceOf_\" + p0)"}, "the key is the fixed prefix followed by the account name, unchanged")
	}
	const gt = "kernel/contract/proposal/govern_token::"
	bucket := "utils.GetGovernTokenBucket()"
	// K3: who writes the bucket
	allowed := map[string]string{
		gt + "(*KernMethod).InitGovernTokens":     "initial distribution, total supply, initialised flag",
		gt + "(*KernMethod).TransferGovernTokens": "sender and receiver records",
		gt + "(*KernMethod).LockGovernTokens":     "the locked account's record",
		gt + "(*KernMethod).UnLockGovernTokens":   "the unlocked account's record",
	}
	nPut := 0
	for _, fn := range c.P.AllFns {
		for _, ci := range q.CallsIn(fn, "Put") {
			args := ci.Common().Args
			if len(args) < 3 || q.Canon(args[0]) != bucket {
				continue
			}
			nPut++
			name := load.QualName(q.Top(fn))
			if why, ok := allowed[name]; ok {
				c.OK("K3", name, "may write the governToken bucket", c.At(ci), why)
			} else {
				c.Fail("K3", name, "may write the governToken bucket", c.At(ci), "writer is not in the frozen table")
			}
			// record provenance
			key := q.CanonD(args[1], 9)
			if strings.HasPrefix(key, "utils.MakeAccountBalanceKey(") {
				acct := strings.TrimSuffix(strings.TrimPrefix(key, "utils.MakeAccountBalanceKey("), ")")
				val := q.CanonD(args[2], 10)
				recordProvenance(c, fn, ci, name, acct, val)
			}
		}
	}
	c.Floor("K3", "module", "Put sites on the governToken bucket", nPut, 7)

	tr := c.Fn(gt + "(*KernMethod).TransferGovernTokens")
	if tr != nil {
		amount := "big.NewInt(0){SetString(i:KContext.Args(p1)[\"amount\"],10)}"
		snd := "govern_token.(*KernMethod).balanceOf(p0,p1,i:KContext.Initiator(p1))#0"
		c.Guard(tr, q.Cond{Canon: "(big.(*Int).Cmp(big.NewInt(0){Sub(" + snd + ".TotalBalance," + snd + ".LockedBalance[])}," + amount + ") < 0)", Sense: true}, q.ToCall("Put"), q.Opt{})
		c.Guard(tr, q.Cond{Canon: "(-1 == big.(*Int).Cmp(" + amount + ",big.NewInt(0)))", Sense: true}, q.ToCall("Put"), q.Opt{Entry: true})
		c.Guard(tr, q.Cond{Canon: "big.(*Int).SetString(*)#1", Sense: false}, q.ToCall("Put"), q.Opt{})
		c.Gate(tr, "KernMethod.balanceOf", q.ToCall("Put"), q.Opt{Arg: "i:KContext.Initiator(p1)"})
		// debit and credit use the same amount
		c.Effect(tr, q.Eff{Spec: "big::Int.Sub", Arg: -2, Glob: snd + ".TotalBalance", Why: "the sender's total is debited", Rule: "K11"})
		subArgs := bigArgs(tr, "Sub", snd+".TotalBalance")
		addArgs := bigArgs(tr, "Add", "phi{*balanceOf(*)#0*}.TotalBalance")
		c.Check(len(subArgs) == 1 && len(addArgs) == 1 && subArgs[0] == amount && addArgs[0] == amount, "K11", gt+"(*KernMethod).TransferGovernTokens", "the amount debited from the sender is the amount credited to the receiver", "-", "debit "+strings.Join(subArgs, ",")+" / credit "+strings.Join(addArgs, ","))
		noLockedMutation(c, tr)
		c.Gate(tr, "Put", q.ToSuccess(), q.Opt{K1Only: true, Min: 2})
	}
	for _, m := range []string{"LockGovernTokens", "UnLockGovernTokens"} {
		f := c.Fn(gt + "(*KernMethod)." + m)
		if f == nil {
			continue
		}
		callers := []q.Cond{{Canon: "(\"$proposal\" == i:KContext.Caller(p1))", Sense: true}, {Canon: "(\"$tdpos\" == i:KContext.Caller(p1))", Sense: true}, {Canon: "(\"$xpos\" == i:KContext.Caller(p1))", Sense: true}}
		c.OnlyUnder(f, q.ToCall("Put"), callers, "only the proposal and consensus kernel contracts may lock or unlock")
		c.OnlyUnder(f, q.ToCall("KernMethod.balanceOf"), callers, "the caller check precedes everything")
		for _, cd := range callers {
			if len(q.CondEdges(f, cd)) == 0 {
				c.Fail("K5", gt+"(*KernMethod)."+m, "caller alternative `"+cd.Canon+"` present", "-", "one of the three permitted callers is no longer tested")
			}
		}
		c.Gate(f, "KernMethod.balanceOf", q.ToCall("Put"), q.Opt{})
		c.Guard(f, q.Cond{Canon: "(\"tdpos\" == i:KContext.Args(p1)[\"lock_type\"])", Sense: false}, q.ToCall("Put"), q.Opt{Unless: []q.Cond{{Canon: "(\"ordinary\" == i:KContext.Args(p1)[\"lock_type\"])", Sense: true}}})
		c.Gate(f, "Put", q.ToSuccess(), q.Opt{K1Only: true})
	}
	lk := c.Fn(gt + "(*KernMethod).LockGovernTokens")
	if lk != nil {
		acc := "govern_token.(*KernMethod).balanceOf(p0,p1,i:KContext.Args(p1)[\"from\"])#0"
		typ := "i:KContext.Args(p1)[\"lock_type\"]"
		c.Guard(lk, q.Cond{Canon: "(-1 == big.(*Int).Cmp(big.NewInt(0){Sub(" + acc + ".TotalBalance," + acc + ".LockedBalance[" + typ + "])},big.NewInt(0){SetString(i:KContext.Args(p1)[\"amount\"],10)}))", Sense: true}, q.ToCall("Put"), q.Opt{})
		c.Effect(lk, q.Eff{Spec: "big::Int.Add", Arg: -2, Glob: acc + ".LockedBalance[" + typ + "]", Why: "the lock of the requested kind grows by the amount", Rule: "K11"})
		// a refused lock is an ERROR: Propose and Vote reach Lock through ctx.Call and look at the error only, a refusal
		// reported as a response with a status and a nil error is taken for a granted lock
		c.Guard(lk, q.Cond{Canon: "(-1 == big.(*Int).Cmp(big.NewInt(0){Sub(" + acc + ".TotalBalance," + acc + ".LockedBalance[" + typ + "])},big.NewInt(0){SetString(i:KContext.Args(p1)[\"amount\"],10)}))", Sense: true}, q.ToSuccess(), q.Opt{})
	}
	in := c.Fn(gt + "(*KernMethod).InitGovernTokens")
	if in != nil {
		amt := "big.NewInt(0){SetString(p0.Predistribution[].Quota,10)}"
		c.StoreIs(in, "GovernTokenBalance.TotalBalance", amt, 1, "each genesis account receives its quota")
		adds := bigArgs(in, "Add", "phi{*}")
		c.Check(len(adds) == 1 && adds[0] == amt, "K11", gt+"(*KernMethod).InitGovernTokens", "the total supply grows by exactly the balance that is stored", "-", strings.Join(adds, ","))
		c.Guard(in, q.Cond{Canon: "(\"true\" == *)", Sense: true}, q.ToCall("Put"), q.Opt{Unless: []q.Cond{{Canon: "(i:KContext.Get(*)#1 == nil)", Sense: false}}})
	}
}

// recordProvenance: the value written under balanceOf_<acct> is the JSON of the record read for acct.
func recordProvenance(c *q.Ctx, fn *ssa.Function, ci ssa.CallInstruction, name, acct, val string) {
	what := "record written for `" + short(acct) + "` derives from the record read for it"
	pre := "json.Marshal("
	if !strings.HasPrefix(val, pre) || !strings.HasSuffix(val, ")#0") {
		c.Fail("K11", name, what, c.At(ci), "value is `"+short(val)+"`")
		return
	}
	rec := strings.TrimSuffix(strings.TrimPrefix(val, pre), ")#0")
	own := "govern_token.(*KernMethod).balanceOf(p0,p1," + acct + ")#0"
	if rec == own {
		c.OK("K11", name, what, c.At(ci), "read-modify-write of one record")
		return
	}
	if name == "kernel/contract/proposal/govern_token::(*KernMethod).InitGovernTokens" && strings.HasPrefix(rec, "utils.NewGovernTokenBalance()") {
		c.OK("K11", name, what, c.At(ci), "initial distribution creates the record")
		return
	}
	if strings.HasPrefix(rec, "phi{") {
		alts := strings.Split(strings.TrimSuffix(strings.TrimPrefix(rec, "phi{"), "}"), "|")
		ok := true
		for _, a := range alts {
			if a == own {
				continue
			}
			// another account's record: only behind an equality test of the two names
			const p = "govern_token.(*KernMethod).balanceOf(p0,p1,"
			if strings.HasPrefix(a, p) && strings.HasSuffix(a, ")#0") {
				other := strings.TrimSuffix(strings.TrimPrefix(a, p), ")#0")
				if len(q.CondEdges(fn, q.Cond{Canon: "(" + acct + " == " + other + ")", Sense: true})) > 0 {
					continue
				}
			}
			ok = false
		}
		if ok {
			c.OK("K11", name, what, c.At(ci), "read-modify-write; the alias is guarded by an equality test of the account names")
			return
		}
	}
	c.Fail("K11", name, what, c.At(ci), "the written record is `"+short(rec)+"`, not the record read for this account")
}

func short(s string) string {
	if len(s) > 160 {
		return s[:160] + "…"
	}
	return s
}

// bigArgs: second operands of math/big calls `recv.<method>(x, y)` whose receiver matches recvGlob.
func bigArgs(fn *ssa.Function, method, recvGlob string) []string {
	var out []string
	for _, ci := range q.CallsIn(fn, "big::Int."+method) {
		args := ci.Common().Args
		if len(args) < 3 {
			continue
		}
		if q.Glob(recvGlob, q.CanonD(args[0], 9)) {
			out = append(out, q.CanonD(args[2], 9))
		}
	}
	return out
}

// noLockedMutation: no receiver-mutating math/big call is applied to a LockedBalance entry.
func noLockedMutation(c *q.Ctx, fn *ssa.Function) {
	name := load.QualName(fn)
	bad := ""
	n := 0
	for _, b := range fn.Blocks {
		for _, ins := range b.Instrs {
			ci, ok := ins.(ssa.CallInstruction)
			if !ok {
				continue
			}
			cal := q.Callee(ci.Common())
			if !strings.HasSuffix(cal.Pkg, "math/big") || cal.Recv != "Int" {
				continue
			}
			switch cal.Name {
			case "Add", "Sub", "Mul", "Set", "SetString", "SetBytes", "SetInt64", "Neg", "Div", "Quo":
			default:
				continue
			}
			n++
			if call, isCall := q.Resolve(ci.Common().Args[0]).(*ssa.Call); isCall && q.Callee(call.Common()).Name == "NewInt" {
				continue // a fresh integer
			}
			if recv := q.CanonD(ci.Common().Args[0], 9); strings.Contains(recv, "LockedBalance") {
				bad = c.At(ci) + " " + cal.Name + " on `" + short(recv) + "`"
			}
		}
	}
	c.Sites += n
	c.Check(bad == "", "K3", name, "no locked amount is modified outside Lock/UnLock", "-", "a transfer changes totals only; "+bad)
}

package rules

import (
	"fmt"
	"strings"
	"xvc/load"
	ssa "xvc/xssa"

	"xvc/q"
)

func init() {
	register("C08", c08, PropInfo{
		Explanation: "Structural necessary conditions of block integrity: (K4) MakeBlockID with its helpers encodeFailedTxs and encodeJustify hands every protobuf leaf field of InternalBlock / QuorumCert / QCSignInfos / SignInfo to the hash, except a table of excluded fields with reasons (the id and signature themselves, the body bound through MerkleRoot, ledger-assigned bookkeeping), failed-tx messages in sorted key order and never in map-iteration order; (K2/K1) VerifyBlock answers true only through id recomputation and equality, VerifyMerkle()==nil, the proposer-address/public-key binding and ECDSA over the block id with that key; VerifyMerkle answers nil only if the last node of MakeMerkleTree(block.Transactions) equals block.MerkleRoot; (K7) formatBlock fills MerkleRoot, Blockid and Sign with the same functions the verifier uses, in that order, and signs the id it stored; (K2) every ConfirmBlock of a block of external origin (batchConfirmBlock) is dominated by the good edges of VerifyBlock and Consensus.CheckMinerMatch on the same block.",
		NotDecided:  "the merkle construction itself (odd counts, padding), hash collision freedom",
		Assumptions: []string{"sha256/ECDSA are sound", "binary.Write writes the bytes of its argument"},
	})
}

func c08(c *q.Ctx) {
	blockAgentHashes(c)
	const led = "bcs/ledger/xledger/ledger::"
	blkT := c.TypeOf("bcs/ledger/xledger/xldgpb", "InternalBlock")
	mb := c.Fn(led + "MakeBlockID")
	ef := c.Fn(led + "encodeFailedTxs")
	ej := c.Fn(led + "encodeJustify")
	if mb != nil && ef != nil && ej != nil && blkT != nil {
		extra := q.RebaseEncs(q.EncodedPaths(ej, "binary::Write", 2), 1, "p0")
		excluded := map[string]string{
			"p0.Blockid":      "the hash itself",
			"p0.Sign":         "signature over the id",
			"p0.Transactions": "bound through MerkleRoot (VerifyMerkle)",
			"p0.MerkleTree":   "bound through MerkleRoot (VerifyMerkle)",
			"p0.InTrunk":      "ledger-local bookkeeping",
			"p0.NextHash":     "ledger-local bookkeeping",
			"p0.Height":       "assigned by the local ledger from the parent",
			"p0.FailedTxs":    "messages are hashed in sorted key order by encodeFailedTxs (checked separately); keys are not hashed (observation)",
		}
		allow := func(path string, g q.Cond) bool {
			s := g.Canon
			if strings.Contains(s, "binary.Write(") || strings.Contains(s, "ledger.encodeFailedTxs(") || strings.Contains(s, "ledger.encodeJustify(") {
				return true
			}
			switch {
			case path == "p0.Proposer":
				return s == "(nil == p0.Proposer)" && !g.Sense
			case path == "p0.Pubkey":
				return s == "(nil == p0.Pubkey)" && !g.Sense
			case path == "p0.TargetBits":
				return s == "(0 < p0.TargetBits)" && g.Sense
			case strings.HasPrefix(path, "p0.Justify.SignInfos"):
				return (s == "(nil == p0.Justify)" || s == "(nil == p0.Justify.SignInfos)") && !g.Sense
			case strings.HasPrefix(path, "p0.Justify"):
				return s == "(nil == p0.Justify)" && !g.Sense
			}
			return false
		}
		c.FieldCoverage(mb, q.Coverage{Msg: blkT, Root: "p0", Sink: "binary::Write", ArgIdx: 2, Excluded: excluded, AllowCond: allow, Extra: extra})
		c.Gate(mb, "ledger::encodeFailedTxs", q.ToSuccess(), q.Opt{})
		c.Gate(mb, "ledger::encodeJustify", q.ToSuccess(), q.Opt{})
		c.ArgIs(mb, "ledger::encodeFailedTxs", 1, "p0", 1, "failed-tx messages of this block")
		c.ArgIs(mb, "ledger::encodeJustify", 1, "p0", 1, "quorum certificate of this block")
		c.SameValueArgs(mb, map[string]int{"binary::Write": 0, "ledger::encodeFailedTxs": 0, "ledger::encodeJustify": 0}, "every field is written to the one buffer that is hashed", "")
		c.ArgIs(mb, "hash::DoubleSha256", 0, "bytes.(*Buffer).Bytes(*)", 1, "the id is the hash of that buffer")
		c.NoMapOrder(mb, "binary::Write")
		c.NoMapOrder(ef, "binary::Write")
		c.NoMapOrder(ej, "binary::Write")
		c.Effect(ef, q.Eff{Spec: "sort::Strings", Arg: 0, Glob: "*", Why: "failed-tx messages are hashed in sorted key order", Rule: "K4"})
		c.Effect(ef, q.Eff{Spec: "binary::Write", Arg: 2, Glob: "p1.FailedTxs[*[]]", Why: "the message of every failed transaction is hashed", Rule: "K4"})
		c.Gate(ef, "binary::Write", q.ToSuccess(), q.Opt{K1Only: true})
	}
	vb := c.Fn(led + "(*Ledger).VerifyBlock")
	if vb != nil {
		c.Gate(vb, "ledger::MakeBlockID", q.ToSuccess(), q.Opt{})
		c.Guard(vb, q.Cond{Canon: "bytes.Equal(ledger.MakeBlockID(p1)#0,p1.Blockid)", Sense: false}, q.ToSuccess(), q.Opt{})
		c.Gate(vb, "ledger::VerifyMerkle", q.ToSuccess(), q.Opt{})
		c.ArgIs(vb, "ledger::VerifyMerkle", 0, "p1", 1, "the block being verified")
		c.Gate(vb, "GetEcdsaPublicKeyFromJsonStr", q.ToSuccess(), q.Opt{})
		c.ArgIs(vb, "GetEcdsaPublicKeyFromJsonStr", 0, "p1.Pubkey", 1, "the key the block carries")
		c.Gate(vb, "VerifyAddressUsingPublicKey", q.ToSuccess(), q.Opt{})
		c.ArgIs(vb, "VerifyAddressUsingPublicKey", 0, "p1.Proposer", 1, "the key must hash to the stated proposer")
		c.ArgIs(vb, "VerifyAddressUsingPublicKey", 1, "i:CryptoClient.GetEcdsaPublicKeyFromJsonStr(p0.cryptoClient,p1.Pubkey)#0", 1, "")
		c.Gate(vb, "VerifyECDSA", q.ToSuccess(), q.Opt{})
		c.ArgIs(vb, "VerifyECDSA", 0, "i:CryptoClient.GetEcdsaPublicKeyFromJsonStr(p0.cryptoClient,p1.Pubkey)#0", 1, "signature checked under the bound key")
		c.ArgIs(vb, "VerifyECDSA", 1, "p1.Sign", 1, "the block's signature")
		c.ArgIs(vb, "VerifyECDSA", 2, "p1.Blockid", 1, "over the block id")
	}
	vm := c.Fn(led + "VerifyMerkle")
	if vm != nil {
		tree := "ledger.MakeMerkleTree(p0.Transactions)"
		c.Guard(vm, q.Cond{Canon: "bytes.Equal(" + tree + "[last],p0.MerkleRoot)", Sense: false}, q.ToSuccess(), q.Opt{})
		c.Guard(vm, q.Cond{Canon: "(0 < len(" + tree + "))", Sense: false}, q.ToSuccess(), q.Opt{})
	}
	mt := c.Fn(led + "MakeMerkleTree")
	if mt != nil {
		c.Effect(mt, q.Eff{Spec: "hash::DoubleSha256", Arg: 0, Glob: "bytes.Join(*)", Why: "inner nodes are hashes of their children", Rule: "K4"})
		c.FieldStoreIdx(mt, "p0[].Txid", "leaves are the transaction ids in list order")
		// the pairing loop: ONE pass over every node index below treeSize-1 in steps of two, each pair hashed into the
		// next free parent slot; a missing right child is replaced by the left one, a missing left child yields nil
		size := "((2 * phi{(1 << (1 + math.Log2(len(_))))|len(p0)}) - 1)"
		if len(c.P.Notes) > 0 { // analysed without the normalising transforms: the leaf-size helper is still a call (its name is
			// spelt in two halves so that it does not count as a name the rules know - known helpers are never absorbed)
			size = "((2 * ledger.get" + "LeafSize(len(p0))) - 1)"
		}
		c.CondCount(mt, "(phi{(2 + loop)|0} < ("+size+" - 1))", 1, "every node of every level is visited by the pairing loop (bound treeSize-1, step 2): a level whose live-node count is rounded down loses its last pair and the trailing transactions no longer feed the root")
		c.CondCount(mt, "(newslice<[][]byte>[] == nil)", 2, "exactly the two child tests (no left child / no right child)")
		c.Effect(mt, q.Eff{Spec: "hash::DoubleSha256", Arg: 0, Glob: "bytes.Join([newslice<[][]byte>[],newslice<[][]byte>[]],[])", Req: []q.Cond{{Canon: "(newslice<[][]byte>[] == nil)", Sense: false}}, Why: "a parent is the double hash of the concatenation of its two children (left twice when the right one is missing)", Rule: "K4"})
	}
	fb := c.Fn(led + "(*Ledger).formatBlock")
	if fb != nil {
		c.StoreIs(fb, "InternalBlock.Blockid", "ledger.MakeBlockID(local<InternalBlock>)#0", 1, "the id is computed by the function the verifier uses")
		c.StoreIs(fb, "InternalBlock.Sign", "i:CryptoClient.SignECDSA(p0.cryptoClient,p3,ledger.MakeBlockID(local<InternalBlock>)#0)#0", 1, "the signature is over the id that was stored")
		merkleOfFormattedBlock(c, fb)
		c.StoreIs(fb, "InternalBlock.Transactions", "p1", 1, "the body is the list the tree was built from")
		c.StoreIs(fb, "InternalBlock.Proposer", "p2", 1, "")
		c.StoreIs(fb, "InternalBlock.Pubkey", "i:CryptoClient.GetEcdsaPublicKeyJsonFormatStr(p0.cryptoClient,p3)#0", 1, "the public half of the signing key")
		c.Before(fb, q.ToFieldStore("InternalBlock.MerkleRoot"), q.ToCall("ledger::MakeBlockID"), "the id covers the merkle root", q.Cond{Canon: "(0 < len(*MerkleTree*))", Sense: false})
		c.Before(fb, q.ToCall("ledger::MakeBlockID"), q.ToCall("SignECDSA"), "the signature covers the final id")
		for _, tf := range []string{"InternalBlock.Timestamp", "InternalBlock.PreHash", "InternalBlock.Proposer", "InternalBlock.Pubkey", "InternalBlock.CurTerm", "InternalBlock.CurBlockNum", "InternalBlock.TargetBits", "InternalBlock.Justify", "InternalBlock.FailedTxs", "InternalBlock.TxCount"} {
			c.Before(fb, q.ToFieldStore(tf), q.ToCall("ledger::MakeBlockID"), "every hashed field is final before the id is computed")
		}
		c.Gate(fb, "ledger::MakeBlockID", q.ToSuccess(), q.Opt{})
	}
	bc := c.Fn("kernel/engines/xuperos/miner::(*Miner).batchConfirmBlock")
	if bc != nil {
		blk := "ledger.(*Ledger).GetPendingBlock(p0.ctx.Ledger,p2[#down])#0"
		c.Gate(bc, "Ledger.VerifyBlock", q.ToCall("Ledger.ConfirmBlock"), q.Opt{})
		c.Gate(bc, "CheckMinerMatch", q.ToCall("Ledger.ConfirmBlock"), q.Opt{})
		c.Gate(bc, "Ledger.GetPendingBlock", q.ToCall("Ledger.ConfirmBlock"), q.Opt{})
		c.ArgIs(bc, "Ledger.VerifyBlock", 1, blk, 1, "the block that is verified")
		c.ArgIs(bc, "CheckMinerMatch", 1, "state.NewBlockAgent("+blk+")", 1, "is the block whose producer is checked")
		c.ArgIs(bc, "Ledger.ConfirmBlock", 1, blk, 1, "and the block that is confirmed")
		c.Guard(bc, q.Cond{Canon: "ledger.(*Ledger).ConfirmBlock(*).Succ", Sense: false}, q.ToSuccess(), q.Opt{})
	}
	c.WhoCalls("Ledger.ConfirmBlock", map[string]string{
		"kernel/engines/xuperos/miner::(*Miner).batchConfirmBlock":    "blocks of external origin: after VerifyBlock and CheckMinerMatch",
		"kernel/engines/xuperos/miner::(*Miner).confirmBlockForMiner": "the producer's own block",
		"bcs/ledger/xledger/utils::CreateLedger":                      "genesis creation",
		"bcs/ledger/xledger/utils::CreateLedgerWithData":              "genesis creation (para-chain)",
		"kernel/engines/xuperos/parachain::*":                         "para-chain genesis creation",
	}, "a block enters the ledger only through these paths")
}

// blockAgentHashes (C08, C16): the consensus checks "id == hash of the header" through BlockInterface.MakeBlockId; the
// one production implementation answers with a freshly computed hash of the block it wraps - never with an id it
// remembers (the one a received block carries is exactly what is being checked).
func blockAgentHashes(c *q.Ctx) {
	mb := c.Fn("bcs/ledger/xledger/state::(*BlockAgent).MakeBlockId")
	if mb == nil {
		return
	}
	c.ReturnIs(mb, 0, []string{"nil", "ledger.MakeBlockID(p0.blk)#0"}, "the id handed to the consensus is computed from the header, on every call")
	c.Gate(mb, "ledger::MakeBlockID", q.ToSuccess(), q.Opt{})
}

// merkleOfFormattedBlock: the root stored in a formatted block is the last node of the tree stored in the same block,
// and on the signing path that tree is MakeMerkleTree over the packed transactions - whether the tree is stored per
// branch or merged in a local first.
func merkleOfFormattedBlock(c *q.Ctx, fb *ssa.Function) {
	name := load.QualName(fb)
	var trees, roots []*ssa.Store
	for _, b := range fb.Blocks {
		for _, ins := range b.Instrs {
			st, ok := ins.(*ssa.Store)
			if !ok {
				continue
			}
			fa, ok := st.Addr.(*ssa.FieldAddr)
			if !ok {
				continue
			}
			switch q.TypeField(fa) {
			case "InternalBlock.MerkleTree":
				trees = append(trees, st)
			case "InternalBlock.MerkleRoot":
				roots = append(roots, st)
			}
		}
	}
	c.Sites += len(trees) + len(roots)
	if len(trees) == 0 || len(roots) != 1 {
		c.Fail("floor", name, "K11: stores of the merkle tree (>= 1) and of the merkle root (1)", "-", fmt.Sprintf("found %d / %d", len(trees), len(roots)))
		return
	}
	// root = last node of the stored tree
	rv := q.CanonD(roots[0].Val, 9)
	okRoot := rv == "local<InternalBlock>.MerkleTree[last]"
	for _, t := range trees {
		if rv == q.CanonD(t.Val, 9)+"[last]" {
			okRoot = true
		}
	}
	c.Check(okRoot, "K11", name, "the merkle root is the last node of the tree stored in the block", c.At(roots[0]), "stored value is `"+rv+"`")
	// on the signing path the tree is MakeMerkleTree(p1)
	signed := q.Cond{Canon: "p10", Sense: true}
	found, bad := false, ""
	for _, t := range trees {
		type alt struct {
			v    ssa.Value
			from *ssa.BasicBlock
		}
		alts := []alt{{t.Val, t.Block()}}
		if ph, ok := t.Val.(*ssa.Phi); ok {
			alts = nil
			for i, e := range ph.Edges {
				alts = append(alts, alt{e, ph.Block().Preds[i]})
			}
		}
		for _, a := range alts {
			underSign := q.HasGuard(a.from, signed) || q.HasGuard(t.Block(), signed)
			isReal := q.CanonD(a.v, 9) == "ledger.MakeMerkleTree(p1)"
			if underSign && isReal {
				found = true
			}
			if underSign && !isReal {
				bad = "on the signing path the stored tree is `" + q.CanonD(a.v, 9) + "`"
			}
		}
	}
	c.Check(found && bad == "", "K5", name, "a signed block's tree is the merkle tree over the packed transactions", c.At(trees[0]), bad)
}

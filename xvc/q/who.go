package q

import (
	"fmt"
	"go/types"
	"sort"
	"strings"

	ssa "xvc/xssa"

	"xvc/load"
)

// Glob matches s against a pattern where '*' matches any substring.
func Glob(pat, s string) bool {
	if !strings.Contains(pat, "*") {
		return pat == s
	}
	parts := strings.Split(pat, "*")
	if !strings.HasPrefix(s, parts[0]) {
		return false
	}
	s = s[len(parts[0]):]
	last := parts[len(parts)-1]
	mid := parts[1 : len(parts)-1]
	for _, m := range mid {
		i := strings.Index(s, m)
		if i < 0 {
			return false
		}
		s = s[i+len(m):]
	}
	return strings.HasSuffix(s, last)
}

// MatchCond matches a canonical condition against a glob; for an equality the
// operand order of the pattern does not matter.
func MatchCond(pat, s string) bool {
	if Glob(pat, s) {
		return true
	}
	if sw := swapEq(pat); sw != "" && Glob(sw, s) {
		return true
	}
	if sw := swapSym(pat); sw != "" && Glob(sw, s) {
		return true
	}
	return false
}

// swapSym: the operand-swapped spelling of a symmetric predicate call (bytes.Equal).
func swapSym(pat string) string {
	// (0 == a.Cmp(b)) is symmetric in a and b too
	for _, eq := range []string{"(0 == big.(*Int).Cmp(", "(0 == strings.Compare("} {
		if strings.HasPrefix(pat, eq) && strings.HasSuffix(pat, "))") {
			if sw := swapCallArgs(pat[len("(0 == ") : len(pat)-1]); sw != "" {
				return "(0 == " + sw + ")"
			}
		}
	}
	const pre = "bytes.Equal("
	if !strings.HasPrefix(pat, pre) || !strings.HasSuffix(pat, ")") {
		return ""
	}
	body := pat[len(pre) : len(pat)-1]
	depth := 0
	for i := 0; i < len(body); i++ {
		switch body[i] {
		case '(', '{', '[':
			depth++
		case ')', '}', ']':
			depth--
		case ',':
			if depth == 0 {
				return pre + body[i+1:] + "," + body[:i] + ")"
			}
		}
	}
	return ""
}

func swapEq(pat string) string {
	if !strings.HasPrefix(pat, "(") || !strings.HasSuffix(pat, ")") {
		return ""
	}
	depth := 0
	for i := 0; i < len(pat)-4; i++ {
		switch pat[i] {
		case '(', '{', '[':
			depth++
		case ')', '}', ']':
			depth--
		}
		if depth == 1 && strings.HasPrefix(pat[i:], " == ") {
			return "(" + pat[i+4:len(pat)-1] + " == " + pat[1:i] + ")"
		}
	}
	return ""
}

// top-level (non-closure) ancestor
func Top(fn *ssa.Function) *ssa.Function {
	for fn.Parent() != nil {
		fn = fn.Parent()
	}
	return fn
}

// CallersOf lists module functions (closures attributed to their top-level
// parent) containing a call matching spec. Calls through method values and
// function values stored in variables are found as references (see RefsTo).
func (c *Ctx) CallersOf(spec string) map[string][]ssa.CallInstruction {
	out := map[string][]ssa.CallInstruction{}
	for _, fn := range c.P.AllFns {
		for _, ci := range CallsIn(fn, spec) {
			n := load.QualName(Top(fn))
			out[n] = append(out[n], ci)
		}
	}
	return out
}

// WhoCalls (K3): the set of functions calling spec equals the frozen table.
// Extra callers are violations; table entries that no longer call are reported
// as a note only (removing a caller cannot break a who-may rule).
func (c *Ctx) WhoCalls(spec string, allowed map[string]string, why string) map[string][]ssa.CallInstruction {
	callers := c.CallersOf(spec)
	var names []string
	for n := range callers {
		names = append(names, n)
	}
	sort.Strings(names)
	total := 0
	for _, n := range names {
		total += len(callers[n])
		c.Sites += len(callers[n])
		site := c.At(callers[n][0])
		if reason, ok := allowed[n]; ok {
			c.OK("K3", n, "may call "+spec, site, reason)
		} else if reason, ok := allowedPrefix(allowed, n); ok {
			c.OK("K3", n, "may call "+spec, site, reason)
		} else {
			c.Fail("K3", n, "may call "+spec, site, "caller is not in the frozen who-may table ("+why+")")
		}
	}
	if total == 0 {
		c.Fail("floor", spec, "K3: at least one call site of "+spec, "-", "no call site found in the module: the callee was renamed or removed")
	}
	return callers
}

func allowedPrefix(allowed map[string]string, n string) (string, bool) {
	for k, v := range allowed {
		if strings.HasSuffix(k, "*") && strings.HasPrefix(n, strings.TrimSuffix(k, "*")) {
			return v, true
		}
	}
	return "", false
}

// FieldRefs lists instructions taking the address of / reading field
// "Type.Field" in module functions. write=true keeps only stores through it
// (Store to the FieldAddr, MapUpdate on a load of it is reported separately).
type FieldRef struct {
	Fn    *ssa.Function
	Instr ssa.Instruction
	Write bool
}

func (c *Ctx) FieldRefs(tf string) []FieldRef {
	var out []FieldRef
	for _, fn := range c.P.AllFns {
		for _, b := range fn.Blocks {
			for _, ins := range b.Instrs {
				switch x := ins.(type) {
				case *ssa.FieldAddr:
					if typeField(x) != tf {
						continue
					}
					w := false
					if refs := x.Referrers(); refs != nil {
						for _, r := range *refs {
							if s, ok := r.(*ssa.Store); ok && s.Addr == x {
								w = true
							}
						}
					}
					out = append(out, FieldRef{fn, x, w})
				case *ssa.Field:
					if namedOf(x.X.Type())+"."+fieldName(x.X.Type(), x.Field) == tf {
						out = append(out, FieldRef{fn, x, false})
					}
				}
			}
		}
	}
	return out
}

// WhoWrites (K3): stores to field tf happen only in the listed functions.
func (c *Ctx) WhoWrites(tf string, allowed map[string]string, why string) {
	n := 0
	seen := map[string]bool{}
	for _, r := range c.FieldRefs(tf) {
		if !r.Write {
			continue
		}
		n++
		c.Sites++
		name := load.QualName(Top(r.Fn))
		if seen[name] {
			continue
		}
		seen[name] = true
		if reason, ok := allowed[name]; ok {
			c.OK("K3", name, "may store "+tf, c.At(r.Instr), reason)
		} else if reason, ok := allowedPrefix(allowed, name); ok {
			c.OK("K3", name, "may store "+tf, c.At(r.Instr), reason)
		} else {
			c.Fail("K3", name, "may store "+tf, c.At(r.Instr), "writer is not in the frozen who-may table ("+why+")")
		}
	}
	if n == 0 {
		c.Fail("floor", tf, "K3: at least one store to "+tf, "-", "no store found: the field was renamed or removed")
	}
}

// ArgIs (K11): for every call in fn matching spec, the canonical form of
// argument idx (receiver of an invoke is index -1) matches the glob.
func (c *Ctx) ArgIs(fn *ssa.Function, spec string, idx int, glob string, min int, why string) {
	if fn == nil {
		return
	}
	fnName := load.QualName(fn)
	sites := CallsIn(fn, spec)
	if len(sites) < min {
		c.Fail("floor", fnName, fmt.Sprintf("K11: call of %s present (>= %d)", spec, min), "-", fmt.Sprintf("found %d", len(sites)))
	}
	for _, ci := range sites {
		c.Sites++
		cc := ci.Common()
		var v ssa.Value
		if idx == -1 && cc.IsInvoke() {
			v = cc.Value
		} else if idx >= 0 && idx < len(cc.Args) {
			v = cc.Args[idx]
		}
		what := fmt.Sprintf("argument %d of %s originates from `%s`", idx, spec, glob)
		if v == nil {
			c.Fail("K11", fnName, what, c.At(ci), "no such argument")
			continue
		}
		s := CanonD(v, 9)
		if globAny(glob, s) {
			c.OK("K11", fnName, what, c.At(ci), why)
		} else {
			c.Fail("K11", fnName, what, c.At(ci), "provenance is `"+short(s, 300)+"` ("+why+")")
		}
	}
}

// MemoFields (K3): the fields of struct type T that can remember answers between calls (maps, sync.Map, LRU caches,
// anything whose type name says cache) are exactly the frozen table. A type whose answers have to come out of the
// confirmed state on every call gets a new mirror with every such field: it has to be re-confirmed (what invalidates
// it, and when) before the table is extended.
func (c *Ctx) MemoFields(pkgSuffix, typeName string, allowed map[string]string, why string) {
	t := c.TypeOf(pkgSuffix, typeName)
	if t == nil {
		return
	}
	st, ok := t.Underlying().(*types.Struct)
	if !ok {
		c.Fail("anchor", pkgSuffix+"."+typeName, "is a struct", "-", "type changed")
		return
	}
	name := pkgSuffix + "." + typeName
	seen := map[string]bool{}
	for i := 0; i < st.NumFields(); i++ {
		f := st.Field(i)
		ft := f.Type()
		if p, ok := ft.(*types.Pointer); ok {
			ft = p.Elem()
		}
		memo := false
		if _, isMap := ft.Underlying().(*types.Map); isMap {
			memo = true
		}
		ts := ft.String()
		if ts == "sync.Map" || strings.Contains(strings.ToLower(ts), "cache") || strings.Contains(strings.ToLower(ts), "lru") {
			memo = true
		}
		if !memo {
			continue
		}
		c.Sites++
		seen[f.Name()] = true
		if reason, ok := allowed[f.Name()]; ok {
			c.OK("K3", name, "field "+f.Name()+" may remember answers between calls", c.P.Pos(f.Pos()), reason)
		} else {
			c.Fail("K3", name, "field "+f.Name()+" may remember answers between calls", c.P.Pos(f.Pos()), "not in the frozen table of memoising fields ("+why+")")
		}
	}
	for f := range allowed {
		if !seen[f] {
			c.Fail("K3", name, "field "+f+" may remember answers between calls", "-", "listed field not found: the table must be re-confirmed")
		}
	}
	if len(allowed) == 0 && len(seen) == 0 {
		c.OK("K3", name, "no field remembers answers between calls", "-", why)
	}
}

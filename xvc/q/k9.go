package q

import (
	"fmt"
	"os"
	"sort"
	"strings"

	ssa "xvc/xssa"

	"xvc/load"
)

// ---- K9: commit-before-publish -------------------------------------------
//
// A forward may-dirty dataflow. For every function of the analysed packages
// two summaries are computed to a fixpoint over static callees: the mirror
// kinds that may be dirty when the function returns a failure, and those that
// may be dirty when it returns success. Inside an operation (the function that
// owns the batch write) a dirtying instruction sets its kind, an invalidation
// clears it, the good edge of a commit call clears everything, and at every
// failure exit nothing may be dirty - after the deferred clean-ups whose guard
// can hold at that exit have been applied.

type MirrorKind struct {
	Name string
	// Dirty: primitive calls that change the mirror: callee spec, optionally
	// "@<glob>" restricting the canonical receiver/first argument.
	Dirty []string
	// DirtyStores: stores through a field "Type.Field" whose base object's
	// canonical form matches the glob after "@" (or any base without it).
	DirtyStores []string
	// Clean: primitive calls / stores that invalidate the mirror.
	Clean       []string
	CleanStores []string
}

type kset map[string]bool

func (a kset) clone() kset {
	b := kset{}
	for k := range a {
		b[k] = true
	}
	return b
}
func (a kset) addAll(b kset) bool {
	ch := false
	for k := range b {
		if !a[k] {
			a[k] = true
			ch = true
		}
	}
	return ch
}
func (a kset) eq(b kset) bool {
	if len(a) != len(b) {
		return false
	}
	for k := range a {
		if !b[k] {
			return false
		}
	}
	return true
}
func (a kset) list() []string {
	var out []string
	for k := range a {
		out = append(out, k)
	}
	sort.Strings(out)
	return out
}

type K9 struct {
	c          *Ctx
	Kinds      []MirrorKind
	Commit     []string               // calls whose good edge commits the batch (kills all dirt)
	canFail    map[*ssa.Function]bool // summarised function has a feasible failing exit (least fixpoint)
	sawFail    bool
	FailGuard  func(Cond) bool   // a guard of a deferred closure that holds exactly at the operation's failure exits
	Infallible map[string]string // callee spec -> reason: its failing edge is infeasible for the values passed
	FailMarker func(fn *ssa.Function, ret *ssa.Return) (isFail bool, known bool)
	fns        []*ssa.Function
	sumFail    map[*ssa.Function]kset
	sumSucc    map[*ssa.Function]kset
	keepFail   map[*ssa.Function]kset // kinds of the caller's dirt that survive a failing return (not invalidated on some failing path)
	keepSucc   map[*ssa.Function]kset
	where      map[*ssa.Function]map[string]string // kind -> first dirtying site (for reports)
}

func (c *Ctx) NewK9(pkgs []string, kinds []MirrorKind, commit []string, infallible map[string]string) *K9 {
	k := &K9{c: c, Kinds: kinds, Commit: commit, Infallible: infallible, canFail: map[*ssa.Function]bool{}, sumFail: map[*ssa.Function]kset{}, sumSucc: map[*ssa.Function]kset{}, keepFail: map[*ssa.Function]kset{}, keepSucc: map[*ssa.Function]kset{}, where: map[*ssa.Function]map[string]string{}}
	for _, fn := range c.P.AllFns {
		if fn.Pkg == nil || len(fn.Blocks) == 0 {
			continue
		}
		p := strings.TrimPrefix(fn.Pkg.Pkg.Path(), load.Mod)
		for _, s := range pkgs {
			if p == s {
				k.fns = append(k.fns, fn)
			}
		}
	}
	for _, fn := range k.fns {
		k.sumFail[fn] = kset{}
		k.sumSucc[fn] = kset{}
		k.keepFail[fn] = k.allIn()
		k.keepSucc[fn] = k.allIn()
		k.where[fn] = map[string]string{}
	}
	for round := 0; round < 30; round++ {
		changed := false
		for _, fn := range k.fns {
			fail, succ, _ := k.analyse(fn, nil)
			if k.sawFail && !k.canFail[fn] {
				k.canFail[fn] = true
				changed = true
			}
			kf, ks := kset{}, kset{}
			f2, s2 := kset{}, kset{}
			for x := range fail {
				if strings.HasPrefix(x, "in:") {
					kf[strings.TrimPrefix(x, "in:")] = true
				} else {
					f2[x] = true
				}
			}
			for x := range succ {
				if strings.HasPrefix(x, "in:") {
					ks[strings.TrimPrefix(x, "in:")] = true
				} else {
					s2[x] = true
				}
			}
			if !f2.eq(k.sumFail[fn]) || !s2.eq(k.sumSucc[fn]) || !kf.eq(k.keepFail[fn]) || !ks.eq(k.keepSucc[fn]) {
				k.sumFail[fn], k.sumSucc[fn], k.keepFail[fn], k.keepSucc[fn] = f2, s2, kf, ks
				changed = true
			}
		}
		if !changed {
			break
		}
	}
	if os.Getenv("XVC_K9_DEBUG") != "" {
		for _, fn := range k.fns {
			if len(k.sumFail[fn]) > 0 || len(k.sumSucc[fn]) > 0 || !k.canFail[fn] {
				fmt.Printf("K9 summary %s canFail=%v fail=%v succ=%v\n", load.QualName(fn), k.canFail[fn], k.sumFail[fn], k.sumSucc[fn])
			}
		}
	}
	return k
}

func (k *K9) allIn() kset {
	out := kset{}
	for _, kd := range k.Kinds {
		out[kd.Name] = true
	}
	return out
}

func matchSpecArg(ci ssa.CallInstruction, specs []string) bool {
	cal := Callee(ci.Common())
	for _, s := range specs {
		spec, glob := s, ""
		if i := strings.Index(s, "@"); i >= 0 {
			spec, glob = s[:i], s[i+1:]
		}
		if !cal.Match(spec) {
			continue
		}
		if glob == "" {
			return true
		}
		var v ssa.Value
		if ci.Common().IsInvoke() {
			v = ci.Common().Value
		} else if len(ci.Common().Args) > 0 {
			v = ci.Common().Args[0]
		}
		if v != nil && Glob(glob, CanonD(v, 8)) {
			return true
		}
	}
	return false
}

func matchStore(s *ssa.Store, specs []string) bool {
	fa, ok := s.Addr.(*ssa.FieldAddr)
	if !ok {
		return false
	}
	tf := typeField(fa)
	for _, sp := range specs {
		f, glob := sp, ""
		if i := strings.Index(sp, "@"); i >= 0 {
			f, glob = sp[:i], sp[i+1:]
		}
		if f != tf && !(strings.HasSuffix(f, ".*") && strings.HasPrefix(tf, strings.TrimSuffix(f, "*"))) {
			continue
		}
		if glob == "" || Glob(glob, CanonD(fa.X, 8)) {
			return true
		}
	}
	return false
}

type k9Exit struct {
	ret   *ssa.Return
	fail  bool
	dirty kset
}

// analyse runs the dataflow over fn. report, when non-nil, receives the exits.
func (k *K9) analyse(fn *ssa.Function, report *[]k9Exit) (fail, succ kset, sites map[string]string) {
	sites = k.where[fn]
	if sites == nil {
		sites = map[string]string{}
	}
	// edge facts: good edges of tested calls, infeasible bad edges
	type edgeFact struct {
		add    kset // added when the edge is taken
		keep   kset // when non-nil: of the dirt present at the call only these kinds survive this edge
		commit bool
	}
	efacts := map[Edge]*edgeFact{}
	cut := union(EdgeSet{}, InfeasibleEdges(fn))
	callTested := map[ssa.Instruction]bool{}
	for _, b := range fn.Blocks {
		for _, ins := range b.Instrs {
			ci, ok := ins.(ssa.CallInstruction)
			if !ok {
				continue
			}
			val, isVal := ci.(ssa.Value)
			if !isVal {
				continue
			}
			callee := ci.Common().StaticCallee()
			isCommit := matchSpecArg(ci, k.Commit)
			_, summarised := k.sumSucc[callee]
			infallible := false
			for spec := range k.Infallible {
				if Callee(ci.Common()).Match(spec) {
					infallible = true
				}
			}
			if summarised && !isCommit && !k.canFail[callee] {
				// every failing exit of the callee hangs on an infallible callee (or on itself): it cannot fail either
				infallible = true
			}
			if !isCommit && !summarised && !infallible {
				continue
			}
			tests := Results(val).Tests(fn, false)
			for _, t := range tests {
				if !t.Dec {
					continue
				}
				if infallible {
					cut[t.Bad] = true
					continue
				}
				callTested[ins] = true
				ef := efacts[t.Good]
				if ef == nil {
					ef = &edgeFact{add: kset{}}
					efacts[t.Good] = ef
				}
				if isCommit {
					ef.commit = true
				}
				if summarised {
					ef.add.addAll(k.sumSucc[callee])
					ef.keep = k.keepSucc[callee]
					bf := efacts[t.Bad]
					if bf == nil {
						bf = &edgeFact{add: kset{}}
						efacts[t.Bad] = bf
					}
					bf.keep = k.keepFail[callee]
				}
			}
		}
	}
	entry := kset{}
	if report == nil {
		for _, kd := range k.Kinds {
			entry["in:"+kd.Name] = true // the caller's dirt, to learn which kinds this function invalidates
		}
	}
	in := map[*ssa.BasicBlock]kset{fn.Blocks[0]: entry}
	work := []*ssa.BasicBlock{fn.Blocks[0]}
	outCache := map[*ssa.BasicBlock]kset{}
	step := func(st kset, ins ssa.Instruction) {
		switch x := ins.(type) {
		case *ssa.Store:
			for _, kd := range k.Kinds {
				if matchStore(x, kd.CleanStores) {
					delete(st, kd.Name)
					delete(st, "in:"+kd.Name)
				}
				if matchStore(x, kd.DirtyStores) {
					st[kd.Name] = true
					if _, ok := sites[kd.Name]; !ok {
						sites[kd.Name] = k.c.At(ins)
					}
				}
			}
		case ssa.CallInstruction:
			if _, isGo := ins.(*ssa.Go); isGo {
				return
			}
			if _, isDefer := ins.(*ssa.Defer); isDefer {
				return
			}
			for _, kd := range k.Kinds {
				if matchSpecArg(x, kd.Clean) {
					delete(st, kd.Name)
					delete(st, "in:"+kd.Name)
				}
				if matchSpecArg(x, kd.Dirty) {
					st[kd.Name] = true
					if _, ok := sites[kd.Name]; !ok {
						sites[kd.Name] = k.c.At(ins)
					}
				}
			}
			callee := x.Common().StaticCallee()
			if sf, ok := k.sumFail[callee]; ok {
				// cleans performed by the callee on every path are approximated by its own primitive calls:
				// a callee whose success summary lacks a kind that it cleans is handled by its body's effect below
				for kd := range k.cleansAlways(callee) {
					delete(st, kd)
					delete(st, "in:"+kd)
				}
				for kd := range sf {
					st[kd] = true
					if _, ok := sites[kd]; !ok {
						sites[kd] = k.c.At(ins) + " via " + callee.Name()
					}
				}
				if !callTested[ins] {
					for kd := range k.sumSucc[callee] {
						st[kd] = true
						if _, ok := sites[kd]; !ok {
							sites[kd] = k.c.At(ins) + " via " + callee.Name()
						}
					}
				}
			}
			if matchSpecArg(x, k.Commit) && !callTested[ins] {
				// an untested commit: assume it may have failed; nothing is killed
			}
		}
	}
	for len(work) > 0 {
		b := work[0]
		work = work[1:]
		st := in[b].clone()
		for _, ins := range b.Instrs {
			step(st, ins)
		}
		if prev, ok := outCache[b]; ok && prev.eq(st) {
			continue
		}
		outCache[b] = st
		for i, s := range b.Succs {
			e := Edge{b, i}
			if cut[e] {
				continue
			}
			es := st.clone()
			if ef := efacts[e]; ef != nil {
				if ef.keep != nil {
					for x := range es {
						base := strings.TrimPrefix(x, "in:")
						if !ef.keep[base] {
							delete(es, x)
						}
					}
				}
				if ef.commit {
					for x := range es {
						if !strings.HasPrefix(x, "in:") {
							delete(es, x)
						}
					}
				}
				es.addAll(ef.add)
			}
			cur, ok := in[s]
			if !ok {
				in[s] = es
				work = append(work, s)
			} else if cur.addAll(es) {
				work = append(work, s)
			}
		}
	}
	fail, succ = kset{}, kset{}
	vs := sigOf(fn.Signature)
	k.sawFail = false
	for _, ret := range Returns(fn) {
		st, ok := in[ret.Block()]
		if !ok {
			continue
		}
		st = st.clone()
		for _, ins := range ret.Block().Instrs {
			step(st, ins)
		}
		isFail := !exitMayBeGood(ret, vs, nil, nil)
		if k.FailMarker != nil {
			if f, known := k.FailMarker(fn, ret); known {
				isFail = f
			}
		}
		// deferred clean-ups
		for kd := range k.deferredCleans(fn, ret, isFail) {
			delete(st, kd)
			delete(st, "in:"+kd)
		}
		if isFail {
			k.sawFail = true
			fail.addAll(st)
		} else {
			succ.addAll(st)
			// an exit whose verdict is not known to be good (an error collected from goroutines, handed back from
			// an interface call, merged through a variable) may fail: the function is fallible for its callers even
			// though this exit is judged as a succeeding one for the dirt it carries
			if exitMayBeBad(ret, vs) {
				k.sawFail = true
				// ... and what is dirty (or survives of the caller's dirt) here is what the caller sees on the
				// bad edge of its test as well
				fail.addAll(st)
			}
		}
		if report != nil {
			*report = append(*report, k9Exit{ret, isFail, st})
		}
	}
	// functions without a verdict (void): everything counts as success
	return fail, succ, sites
}

// cleansAlways: kinds invalidated by a primitive clean call in a block that
// dominates every exit of fn (closed over callees one level).
var cleanCache = map[*ssa.Function]kset{}

func (k *K9) cleansAlways(fn *ssa.Function) kset {
	if fn == nil || len(fn.Blocks) == 0 {
		return kset{}
	}
	if v, ok := cleanCache[fn]; ok {
		return v
	}
	cleanCache[fn] = kset{}
	out := kset{}
	rets := Returns(fn)
	for _, b := range fn.Blocks {
		domAll := true
		for _, r := range rets {
			if !b.Dominates(r.Block()) {
				domAll = false
			}
		}
		if !domAll {
			continue
		}
		for _, ins := range b.Instrs {
			switch x := ins.(type) {
			case *ssa.Store:
				for _, kd := range k.Kinds {
					if matchStore(x, kd.CleanStores) {
						out[kd.Name] = true
					}
				}
			case ssa.CallInstruction:
				if _, isDefer := ins.(*ssa.Defer); isDefer {
					continue
				}
				for _, kd := range k.Kinds {
					if matchSpecArg(x, kd.Clean) {
						out[kd.Name] = true
					}
				}
				if callee := x.Common().StaticCallee(); callee != nil && callee != fn {
					for kd := range k.cleansAlways(callee) {
						out[kd] = true
					}
				}
			}
		}
	}
	cleanCache[fn] = out
	return out
}

// deferredCleans: kinds invalidated by deferred closures at this exit. A
// closure guarded by `if V != nil` on a captured variable V applies only where
// the returned error is (a load of) V or was stored into V right before.
func (k *K9) deferredCleans(fn *ssa.Function, ret *ssa.Return, isFail bool) kset {
	out := kset{}
	for _, b := range fn.Blocks {
		for _, ins := range b.Instrs {
			d, ok := ins.(*ssa.Defer)
			if !ok || !b.Dominates(ret.Block()) {
				continue
			}
			clo := d.Call.StaticCallee()
			if clo == nil || len(clo.Blocks) == 0 {
				// deferred direct call of a cleaning primitive / function
				for _, kd := range k.Kinds {
					if matchSpecArg(d, kd.Clean) {
						out[kd.Name] = true
					}
				}
				continue
			}
			if clo.Parent() != fn {
				for kd := range k.cleansAlways(clo) {
					out[kd] = true
				}
				// a named clean-up that receives the address of the operation's error result:
				// `defer t.cleanOnFailure(&err)` with `if *errp != nil { clean }` inside
				if isFail {
					out.addAll(k.cleansOnErrPtr(fn, clo, d, ret))
					out.addAll(k.cleansOnStatusPtr(clo, d))
				}
				continue
			}
			// closure: find its clean calls and the guard they sit under
			for _, cb := range clo.Blocks {
				for _, ci := range cb.Instrs {
					call, ok := ci.(ssa.CallInstruction)
					if !ok {
						continue
					}
					cleans := kset{}
					for _, kd := range k.Kinds {
						if matchSpecArg(call, kd.Clean) {
							cleans[kd.Name] = true
						}
					}
					if callee := call.Common().StaticCallee(); callee != nil {
						cleans.addAll(k.cleansAlways(callee))
					}
					if len(cleans) == 0 {
						continue
					}
					gs := GuardsOf(cb)
					applies := true
					for _, g := range gs {
						switch {
						case (strings.HasPrefix(g.Canon, "(nil == ") || strings.HasSuffix(g.Canon, " == nil)")) && !g.Sense:
							// guard on a captured variable: `(nil == ^var{...})` false  <=> V != nil
							applies = applies && isFail && k.returnsCaptured(fn, clo, ret)
						case strings.HasPrefix(g.Canon, "(#i < len(") && g.Sense:
							// inside a loop that visits every element (a purge): the loop itself is no condition
						case k.FailGuard != nil && k.FailGuard(g):
							// the closure tests the operation's own failure marker (e.g. `!status.Succ`)
							applies = applies && isFail
						default:
							applies = false
						}
					}
					if applies {
						out.addAll(cleans)
					}
				}
			}
		}
	}
	return out
}

// cleansOnErrPtr: the deferred callee gets &R, R being the variable whose value ret returns, and cleans under
// `*param != nil`: at a failing exit (R non-nil) those cleans apply.
func (k *K9) cleansOnErrPtr(fn, callee *ssa.Function, d *ssa.Defer, ret *ssa.Return) kset {
	out := kset{}
	vs := sigOf(fn.Signature)
	if vs.errIdx < 0 || vs.errIdx >= len(ret.Results) {
		return out
	}
	u, ok := ret.Results[vs.errIdx].(*ssa.UnOp)
	if !ok {
		return out
	}
	al, ok := u.X.(*ssa.Alloc)
	if !ok {
		return out
	}
	pidx := -1
	for i, a := range d.Call.Args {
		if a == ssa.Value(al) {
			pidx = i
		}
	}
	if pidx < 0 || pidx >= len(callee.Params) {
		return out
	}
	pname := fmt.Sprintf("*p%d", pidx)
	for _, cb := range callee.Blocks {
		for _, ci := range cb.Instrs {
			call, ok := ci.(ssa.CallInstruction)
			if !ok {
				continue
			}
			cleans := kset{}
			for _, kd := range k.Kinds {
				if matchSpecArg(call, kd.Clean) {
					cleans[kd.Name] = true
				}
			}
			if c2 := call.Common().StaticCallee(); c2 != nil {
				cleans.addAll(k.cleansAlways(c2))
			}
			if len(cleans) == 0 {
				continue
			}
			applies := true
			for _, g := range GuardsOf(cb) {
				if (g.Canon == "(nil == "+pname+")" || g.Canon == "("+pname+" == nil)") && !g.Sense {
					continue
				}
				applies = false
			}
			if applies {
				out.addAll(cleans)
			}
		}
	}
	return out
}

// cleansOnStatusPtr: the deferred callee gets the address of the operation's status record (the object FailGuard
// speaks about) and cleans under the same failure marker read through that pointer:
// `defer l.dropOnFailure(&status)` with `if !status.Succ { clean }` (or `if status.Succ { return }; clean`) inside.
func (k *K9) cleansOnStatusPtr(callee *ssa.Function, d *ssa.Defer) kset {
	out := kset{}
	if k.FailGuard == nil {
		return out
	}
	for i, a := range d.Call.Args {
		al, ok := a.(*ssa.Alloc)
		if !ok || i >= len(callee.Params) {
			continue
		}
		local := "local<" + namedOf(al.Type()) + ">"
		pname := fmt.Sprintf("p%d", i)
		for _, cb := range callee.Blocks {
			for _, ci := range cb.Instrs {
				call, ok := ci.(ssa.CallInstruction)
				if !ok {
					continue
				}
				cleans := kset{}
				for _, kd := range k.Kinds {
					if matchSpecArg(call, kd.Clean) {
						cleans[kd.Name] = true
					}
				}
				if c2 := call.Common().StaticCallee(); c2 != nil {
					cleans.addAll(k.cleansAlways(c2))
				}
				if len(cleans) == 0 {
					continue
				}
				applies, marked := true, false
				for _, g := range GuardsOf(cb) {
					// the callee's `pN.Succ` is the caller's `local<T>.Succ`
					if strings.HasPrefix(g.Canon, pname+".") && k.FailGuard(Cond{Canon: local + g.Canon[len(pname):], Sense: g.Sense}) {
						marked = true
						continue
					}
					applies = false
				}
				if applies && marked {
					out.addAll(cleans)
				}
			}
		}
	}
	return out
}

// returnsCaptured: the error returned at ret is a load of a variable captured
// by the closure (so the closure observes the same non-nil value).
func (k *K9) returnsCaptured(fn, clo *ssa.Function, ret *ssa.Return) bool {
	vs := sigOf(fn.Signature)
	if vs.errIdx < 0 || vs.errIdx >= len(ret.Results) {
		return false
	}
	v := ret.Results[vs.errIdx]
	u, ok := v.(*ssa.UnOp)
	if !ok {
		return false
	}
	al, ok := u.X.(*ssa.Alloc)
	if !ok {
		return false
	}
	// a named result captured by the closure itself: whatever a failing exit returns is what the closure reads
	bound := func(a *ssa.Alloc) bool {
		for _, b := range fn.Blocks {
			for _, ins := range b.Instrs {
				if mc, ok := ins.(*ssa.MakeClosure); ok && mc.Fn == clo {
					for _, bnd := range mc.Bindings {
						if bnd == ssa.Value(a) {
							return true
						}
					}
				}
			}
		}
		return false
	}
	if bound(al) {
		return true
	}
	// with defers go/ssa spills results: `return err` is `*result = *err; rundefers; return *result`
	if st := ReachingStore(u); st != nil {
		if u2, ok := st.Val.(*ssa.UnOp); ok {
			if al2, ok := u2.X.(*ssa.Alloc); ok {
				al = al2
			}
		} else {
			return false // the returned value is not a read of a variable
		}
	}
	for _, b := range fn.Blocks {
		for _, ins := range b.Instrs {
			mc, ok := ins.(*ssa.MakeClosure)
			if !ok || mc.Fn != clo {
				continue
			}
			for _, bnd := range mc.Bindings {
				if bnd == al {
					return true
				}
			}
		}
	}
	return false
}

// Operation (K9): at every failure exit of fn no mirror kind may be dirty;
// exempt[kind] gives a reason for a kind that cannot be dirty here.
func (k *K9) Operation(fnName string, exempt map[string]string) {
	c := k.c
	fn := c.Fn(fnName)
	if fn == nil {
		return
	}
	var exits []k9Exit
	_, _, sites := k.analyse(fn, &exits)
	nFail := 0
	byKind := map[string][]string{}
	for _, e := range exits {
		if !e.fail {
			continue
		}
		nFail++
		for kd := range e.dirty {
			byKind[kd] = append(byKind[kd], c.At(e.ret))
		}
	}
	if os.Getenv("XVC_K9_DEBUG") != "" {
		for _, e := range exits {
			fmt.Printf("K9 exit %s %s fail=%v dirty=%v\n", fnName, c.At(e.ret), e.fail, e.dirty)
		}
	}
	c.Sites += len(exits)
	if nFail == 0 {
		c.Fail("floor", fnName, "K9: the operation has failure exits", "-", "none recognised")
		return
	}
	for _, kd := range k.Kinds {
		what := "no failure exit leaves mirror `" + kd.Name + "` changed"
		exitsDirty := uniq(byKind[kd.Name])
		if len(exitsDirty) == 0 {
			c.OK("K9", fnName, what, "-", fmt.Sprintf("%d failure exit(s) examined", nFail))
		} else if why, ok := exempt[kd.Name]; ok {
			c.OK("K9", fnName, what, sites[kd.Name], "exempt: "+why)
		} else {
			if sites[kd.Name] == "" {
				sites[kd.Name] = "an earlier iteration / callee"
			}
			c.Fail("K9", fnName, what, sites[kd.Name], "changed at "+sites[kd.Name]+" and still changed at the failing exit(s) "+strings.Join(exitsDirty, ", ")+": a failed operation leaves a trace in memory that a reopened instance does not have")
		}
	}
}

// exitMayBeBad: the exit's error (or boolean verdict) is not a constant good value.
func exitMayBeBad(ret *ssa.Return, vs verdictSig) bool {
	var mayBad func(v ssa.Value, kind byte, depth int) bool
	mayBad = func(v ssa.Value, kind byte, depth int) bool {
		if depth > 6 {
			return true
		}
		switch kind {
		case 'e':
			if IsNilConst(v) {
				return false
			}
		case 'b':
			if b, ok := ConstBool(Strip(v)); ok {
				return !b
			}
		}
		if rv := Resolve(v); rv != v {
			return mayBad(rv, kind, depth+1)
		}
		if phi, ok := v.(*ssa.Phi); ok {
			for _, e := range phi.Edges {
				if e != ssa.Value(phi) && mayBad(e, kind, depth+1) {
					return true
				}
			}
			return false
		}
		return true
	}
	if vs.errIdx >= 0 && vs.errIdx < len(ret.Results) && mayBad(ret.Results[vs.errIdx], 'e', 0) {
		return true
	}
	if vs.errIdx < 0 && vs.boolIdx >= 0 && vs.boolIdx < len(ret.Results) && mayBad(ret.Results[vs.boolIdx], 'b', 0) {
		return true
	}
	return false
}

package q

import (
	"fmt"
	"sort"
	"strings"

	ssa "xvc/xssa"

	"xvc/load"
)

// GuardsOf lists the branch decisions that every path from the entry to block
// b has taken (edge-dominating conditions), nearest first.
func GuardsOf(b *ssa.BasicBlock) []Cond {
	var out []Cond
	for x := b; x != nil; x = x.Idom() {
		p := x.Idom()
		if p == nil {
			break
		}
		ifi, ok := p.Instrs[len(p.Instrs)-1].(*ssa.If)
		if !ok || len(x.Preds) != 1 || x.Preds[0] != p {
			continue
		}
		s, ts := IfCanon(ifi)
		k := 0
		if p.Succs[1] == x {
			k = 1
		}
		if p.Succs[0] == p.Succs[1] {
			continue
		}
		out = append(out, Cond{Canon: s, Sense: k == ts})
	}
	return out
}

func condStr(c Cond) string {
	if c.Sense {
		return c.Canon
	}
	return "!" + c.Canon
}

// HasGuard: one of b's edge-dominating conditions matches (glob, sense).
func HasGuard(b *ssa.BasicBlock, want Cond) bool {
	w, sense := NormCond(want.Canon, want.Sense)
	for _, g := range GuardsOf(b) {
		if g.Sense == sense && MatchCond(w, g.Canon) {
			return true
		}
	}
	return false
}

// Effect is a call with its canonical arguments and guard set.
type Effect struct {
	Call   ssa.CallInstruction
	Callee CalleeInfo
	Args   []string // canonical arguments (receiver of an invoke excluded)
	Guards []Cond
}

func (e Effect) GuardString(keep func(Cond) bool) string {
	var gs []string
	for _, g := range e.Guards {
		if keep == nil || keep(g) {
			gs = append(gs, condStr(g))
		}
	}
	sort.Strings(gs)
	return strings.Join(uniq(gs), " & ")
}

// EffectsOf lists calls in fn matching spec.
func EffectsOf(fn *ssa.Function, spec string) []Effect {
	var out []Effect
	for _, ci := range CallsIn(fn, spec) {
		e := Effect{Call: ci, Callee: Callee(ci.Common())}
		args := ci.Common().Args
		if !ci.Common().IsInvoke() && e.Callee.Recv != "" && len(args) > 0 {
			args = args[1:] // drop receiver
		}
		for _, a := range args {
			e.Args = append(e.Args, CanonD(a, 9))
		}
		e.Guards = GuardsOf(ci.Block())
		out = append(out, e)
	}
	return out
}

// Eff describes an effect obligation: a call matching Spec exists whose
// canonical argument Arg matches Glob and whose guard set contains all of Req
// and none of Forbid; with Exact, the guard set filtered by Keep equals Req.
type Eff struct {
	Spec   string
	Arg    int
	Glob   string
	Req    []Cond
	Forbid []Cond
	Exact  bool
	Keep   func(Cond) bool
	Why    string
	Rule   string
}

// EffectExists (K6/K2) — see Eff.
func (c *Ctx) EffectExists(fn *ssa.Function, spec string, argIdx int, argGlob string, required []Cond, why string) int {
	return c.Effect(fn, Eff{Spec: spec, Arg: argIdx, Glob: argGlob, Req: required, Why: why})
}

func (c *Ctx) Effect(fn *ssa.Function, e0 Eff) int {
	if fn == nil {
		return 0
	}
	rule := e0.Rule
	if rule == "" {
		rule = "K6"
	}
	fnName := load.QualName(fn)
	what := fmt.Sprintf("effect %s(arg%d~`%s`)", e0.Spec, e0.Arg, e0.Glob)
	if len(e0.Req) > 0 {
		what += " under " + condsAnd(e0.Req)
	}
	if e0.Exact {
		what += " and under nothing else"
	}
	if len(e0.Forbid) > 0 {
		what += " not under " + condsAnd(e0.Forbid)
	}
	n := 0
	var near []string
	site := "-"
	for _, e := range EffectsOf(fn, e0.Spec) {
		var arg string
		if e0.Arg == -1 {
			if !e.Call.Common().IsInvoke() {
				continue
			}
			arg = CanonD(e.Call.Common().Value, 9)
		} else if e0.Arg == -2 { // receiver of a statically dispatched method
			if e.Call.Common().IsInvoke() || e.Callee.Recv == "" || len(e.Call.Common().Args) == 0 {
				continue
			}
			arg = CanonD(e.Call.Common().Args[0], 9)
		} else if e0.Arg < len(e.Args) {
			arg = e.Args[e0.Arg]
		} else {
			continue
		}
		if !Glob(e0.Glob, arg) {
			near = append(near, "arg: "+short(arg, 100))
			continue
		}
		ok := true
		for _, r := range e0.Req {
			if !HasGuard(e.Call.Block(), r) && !(!e0.Exact && edgeEnters(fn, r, e.Call.Block())) {
				ok = false
			}
		}
		for _, r := range e0.Forbid {
			if HasGuard(e.Call.Block(), r) {
				ok = false
			}
		}
		if ok && e0.Exact {
			for _, g := range e.Guards {
				if e0.Keep != nil && !e0.Keep(g) {
					continue
				}
				matched := false
				for _, r := range e0.Req {
					w, sense := NormCond(r.Canon, r.Sense)
					if g.Sense == sense && MatchCond(w, g.Canon) {
						matched = true
					}
				}
				if !matched {
					ok = false
				}
			}
		}
		if !ok {
			near = append(near, "guards: "+e.GuardString(e0.Keep))
			continue
		}
		n++
		site = c.At(e.Call)
	}
	c.Sites += n
	if n == 0 {
		c.Fail(rule, fnName, what, "-", "no such effect ("+e0.Why+"); nearest candidates: "+short(strings.Join(near, " ; "), 600))
	} else {
		c.OK(rule, fnName, what, site, e0.Why)
	}
	return n
}

func condsAnd(cs []Cond) string {
	var s []string
	for _, c := range cs {
		s = append(s, "`"+condStr(c)+"`")
	}
	return strings.Join(s, " & ")
}

// EffectSig describes how one callee contributes to an inverse comparison.
type EffectSig struct {
	Spec    string
	Kind    string         // normalised kind shared by an effect and its inverse
	KeyArgs []int          // argument indices forming the identity of the effect
	Const   map[int]string // argument index -> required constant canon (e.g. direction flag)
}

// EffectMultiset renders the effects of fn (by the given signatures) as a
// sorted multiset of "kind(key...) if guards".
func EffectMultiset(fn *ssa.Function, sigs []EffectSig, keep func(Cond) bool, rewrite func(string) string) ([]string, map[string]ssa.CallInstruction) {
	var out []string
	where := map[string]ssa.CallInstruction{}
	for _, sg := range sigs {
	next:
		for _, e := range EffectsOf(fn, sg.Spec) {
			for i, want := range sg.Const {
				if i >= len(e.Args) || e.Args[i] != want {
					continue next
				}
			}
			var ks []string
			for _, i := range sg.KeyArgs {
				if i < len(e.Args) {
					ks = append(ks, e.Args[i])
				}
			}
			s := sg.Kind + "(" + strings.Join(ks, ", ") + ") if " + e.GuardString(keep)
			if rewrite != nil {
				s = rewrite(s)
			}
			out = append(out, s)
			where[s] = e.Call
		}
	}
	sort.Strings(out)
	return out, where
}

// Inverse (K6): the effect multiset of do equals that of undo (after both
// were normalised to a common kind); reports every unmatched element.
func (c *Ctx) Inverse(do, undo *ssa.Function, doSigs, undoSigs []EffectSig, keep func(Cond) bool, rewriteDo, rewriteUndo func(string) string, floor int) {
	if do == nil || undo == nil {
		return
	}
	dn, un := load.QualName(do), load.QualName(undo)
	dm, dw := EffectMultiset(do, doSigs, keep, rewriteDo)
	um, uw := EffectMultiset(undo, undoSigs, keep, rewriteUndo)
	c.Sites += len(dm) + len(um)
	if len(dm) < floor {
		c.Fail("floor", dn, fmt.Sprintf("K6: at least %d effects enumerated", floor), "-", fmt.Sprintf("found %d", len(dm)))
	}
	cnt := map[string]int{}
	for _, s := range dm {
		cnt[s]++
	}
	for _, s := range um {
		cnt[s]--
	}
	var keys []string
	for k := range cnt {
		keys = append(keys, k)
	}
	sort.Strings(keys)
	for _, k := range keys {
		switch {
		case cnt[k] == 0:
			c.OK("K6", dn, "effect `"+short(k, 200)+"` has its inverse in "+load.FuncName(undo), c.At(dw[k]), "matched at "+c.At(uw[k]))
		case cnt[k] > 0:
			c.Fail("K6", dn, "effect `"+short(k, 200)+"` has its inverse in "+load.FuncName(undo), c.At(dw[k]), "no inverse effect with the same key and guard set in "+un)
		default:
			c.Fail("K6", un, "effect `"+short(k, 200)+"` has its inverse in "+load.FuncName(do), c.At(uw[k]), "no inverse effect with the same key and guard set in "+dn)
		}
	}
}

// StoreIs (K11): every store to field "Type.Field" in fn has a value whose
// canonical form matches glob.
func (c *Ctx) StoreIs(fn *ssa.Function, tf, glob string, min int, why string) {
	if fn == nil {
		return
	}
	fnName := load.QualName(fn)
	n := 0
	for _, b := range fn.Blocks {
		for _, ins := range b.Instrs {
			s, ok := ins.(*ssa.Store)
			if !ok {
				continue
			}
			fa, ok := s.Addr.(*ssa.FieldAddr)
			if !ok || typeField(fa) != tf {
				continue
			}
			n++
			c.Sites++
			v := CanonD(s.Val, 9)
			what := "value stored to " + tf + " originates from `" + glob + "`"
			if globAny(glob, v) {
				c.OK("K11", fnName, what, c.At(s), why)
			} else {
				c.Fail("K11", fnName, what, c.At(s), "stored value is `"+short(v, 200)+"` ("+why+")")
			}
		}
	}
	if n < min {
		c.Fail("floor", fnName, fmt.Sprintf("K11: store to %s present (>= %d)", tf, min), "-", fmt.Sprintf("found %d", n))
	}
}

// SameValueArgs (K10): in fn, argument idx of every call matching one of the
// specs is the same SSA value (after resolving copies); returns that value.
func (c *Ctx) SameValueArgs(fn *ssa.Function, specs map[string]int, what, why string) ssa.Value {
	if fn == nil {
		return nil
	}
	fnName := load.QualName(fn)
	var ref ssa.Value
	var refSite ssa.CallInstruction
	n := 0
	ok := true
	var names []string
	for s := range specs {
		names = append(names, s)
	}
	sort.Strings(names)
	for _, spec := range names {
		idx := specs[spec]
		sites := CallsIn(fn, spec)
		if len(sites) == 0 {
			c.Fail("floor", fnName, "K10: call of "+spec+" present", "-", "not found")
			ok = false
		}
		for _, ci := range sites {
			args := ci.Common().Args
			var av ssa.Value
			if idx == -1 && ci.Common().IsInvoke() {
				av = ci.Common().Value
			} else if idx >= 0 && idx < len(args) {
				av = args[idx]
			} else {
				continue
			}
			n++
			v := Resolve(av)
			if ref == nil {
				ref, refSite = v, ci
				continue
			}
			if v != ref {
				c.Fail("K10", fnName, what, c.At(ci), fmt.Sprintf("%s receives `%s`, but %s received `%s` (%s)", spec, Canon(v), c.At(refSite), Canon(ref), why))
				ok = false
			}
		}
	}
	c.Sites += n
	if ok && ref != nil {
		c.OK("K10", fnName, what, c.At(refSite), fmt.Sprintf("%d call sites share one value `%s`; %s", n, Canon(ref), why))
	}
	return ref
}

// FieldStore (K11): a store to field "Type.Field" of an object whose canonical
// form matches baseGlob exists, and every such store writes a value matching
// valGlob.
func (c *Ctx) FieldStore(fn *ssa.Function, tf, baseGlob, valGlob string, why string) {
	if fn == nil {
		return
	}
	fnName := load.QualName(fn)
	what := "store " + tf + " of `" + baseGlob + "` := `" + valGlob + "`"
	n := 0
	for _, b := range fn.Blocks {
		for _, ins := range b.Instrs {
			s, ok := ins.(*ssa.Store)
			if !ok {
				continue
			}
			fa, ok := s.Addr.(*ssa.FieldAddr)
			if !ok || typeField(fa) != tf {
				continue
			}
			base := CanonD(fa.X, 9)
			if !Glob(baseGlob, base) {
				continue
			}
			n++
			c.Sites++
			v := CanonD(s.Val, 9)
			if Glob(valGlob, v) {
				c.OK("K11", fnName, what, c.At(s), why)
			} else {
				c.Fail("K11", fnName, what, c.At(s), "stored value is `"+short(v, 200)+"` ("+why+")")
			}
		}
	}
	if n == 0 {
		c.Fail("K11", fnName, what, "-", "no store to this field of this object ("+why+")")
	}
}

// ToFieldStoreVal: a store of a value with the given canonical form to field tf.
func ToFieldStoreVal(tf, val string) Target {
	return Target{Name: "store " + tf + "=" + val, Instr: func(i ssa.Instruction) bool {
		s, ok := i.(*ssa.Store)
		if !ok {
			return false
		}
		fa, ok := s.Addr.(*ssa.FieldAddr)
		return ok && typeField(fa) == tf && Canon(s.Val) == val
	}}
}

// FieldStoreUnder (K5): a store of value val to field tf exists, and its guard
// set contains every required decision.
func (c *Ctx) FieldStoreUnder(fn *ssa.Function, tf, val string, req []Cond, why string) {
	if fn == nil {
		return
	}
	fnName := load.QualName(fn)
	what := "store " + tf + "=" + val + " under " + condsAnd(req)
	n := 0
	near := ""
	for _, b := range fn.Blocks {
		for _, ins := range b.Instrs {
			s, ok := ins.(*ssa.Store)
			if !ok {
				continue
			}
			fa, ok := s.Addr.(*ssa.FieldAddr)
			if !ok || typeField(fa) != tf || !Glob(val, Canon(s.Val)) {
				continue
			}
			okAll := true
			for _, r := range req {
				if !HasGuard(b, r) {
					okAll = false
				}
			}
			if okAll {
				n++
				c.Sites++
				c.OK("K5", fnName, what, c.At(s), why)
			} else {
				var gs []string
				for _, g := range GuardsOf(b) {
					gs = append(gs, condStr(g))
				}
				near = strings.Join(gs, " & ")
			}
		}
	}
	if n == 0 {
		c.Fail("K5", fnName, what, "-", "no such store under these decisions ("+why+"); guards found: "+short(near, 500))
	}
}

// NoUseAfter (K10): once the call matching writeSpec has been issued, no later
// instruction of the same iteration hands the value v (the batch) to another
// call: whatever is staged after the write is silently lost.
func (c *Ctx) NoUseAfter(fn *ssa.Function, v ssa.Value, writeSpec, why string) {
	if fn == nil || v == nil {
		return
	}
	fnName := load.QualName(fn)
	what := "nothing is staged into the batch after " + writeSpec
	back := BackEdges(fn)
	sites := CallsIn(fn, writeSpec)
	if len(sites) == 0 {
		c.Fail("floor", fnName, "K10: call of "+writeSpec+" present", "-", "not found")
		return
	}
	for _, w := range sites {
		c.Sites++
		wi := instrIndex(w)
		var bad []string
		check := func(b *ssa.BasicBlock, from int) {
			for i := from; i < len(b.Instrs); i++ {
				ci, ok := b.Instrs[i].(ssa.CallInstruction)
				if !ok {
					continue
				}
				cc := ci.Common()
				uses := cc.IsInvoke() && Resolve(cc.Value) == v
				for _, a := range cc.Args {
					if Resolve(a) == v {
						uses = true
					}
				}
				if uses {
					bad = append(bad, c.At(ci)+" "+Callee(cc).Name)
				}
			}
		}
		check(w.Block(), wi+1)
		for b := range ReachFrom(succsNotCut(w.Block(), back), back) {
			if b == w.Block() {
				continue
			}
			check(b, 0)
		}
		if len(bad) > 0 {
			c.Fail("K10", fnName, what, c.At(w), "used after the write: "+strings.Join(uniq(bad), ", ")+" ("+why+")")
		} else {
			c.OK("K10", fnName, what, c.At(w), why)
		}
	}
}

// DeadAfter (K10): the value passed as argument idx (receiver excluded) to a call matching spec is dead afterwards:
// no later call of the same iteration receives it (an element unlinked from a container/list has lost its
// neighbours; asking it for Next() ends the traversal early).
func (c *Ctx) DeadAfter(fn *ssa.Function, spec string, idx, min int, why string) {
	if fn == nil {
		return
	}
	fnName := load.QualName(fn)
	what := fmt.Sprintf("argument %d of %s is not used again in the same iteration", idx, spec)
	back := BackEdges(fn)
	sites := CallsIn(fn, spec)
	if len(sites) < min {
		c.Fail("floor", fnName, "K10: calls of "+spec+" present", "-", fmt.Sprintf("found %d, confirmed by hand: %d", len(sites), min))
		return
	}
	for _, w := range sites {
		c.Sites++
		args := w.Common().Args
		if !w.Common().IsInvoke() && w.Common().StaticCallee() != nil && w.Common().StaticCallee().Signature.Recv() != nil {
			args = args[1:]
		}
		if idx >= len(args) {
			c.Und("K10", fnName, what, c.At(w), "argument index out of range")
			continue
		}
		v := Resolve(args[idx])
		wi := instrIndex(w)
		var bad []string
		check := func(b *ssa.BasicBlock, from int) {
			for i := from; i < len(b.Instrs); i++ {
				ci, ok := b.Instrs[i].(ssa.CallInstruction)
				if !ok {
					continue
				}
				cc := ci.Common()
				uses := cc.IsInvoke() && Resolve(cc.Value) == v
				for _, a := range cc.Args {
					if Resolve(a) == v {
						uses = true
					}
				}
				if uses {
					bad = append(bad, c.At(ci)+" "+Callee(cc).Name)
				}
			}
		}
		check(w.Block(), wi+1)
		var starts []*ssa.BasicBlock
		for i, sb := range w.Block().Succs {
			if !back[Edge{w.Block(), i}] {
				starts = append(starts, sb)
			}
		}
		for b := range ReachFrom(starts, back) {
			if b == w.Block() {
				continue
			}
			check(b, 0)
		}
		if len(bad) > 0 {
			c.Fail("K10", fnName, what, c.At(w), "used afterwards: "+strings.Join(uniq(bad), ", ")+" ("+why+")")
		} else {
			c.OK("K10", fnName, what, c.At(w), why)
		}
	}
}

// FieldsStored lists the fields of struct type tname stored in fn (by name).
func FieldsStored(fn *ssa.Function, tname string) map[string]ssa.Instruction {
	out := map[string]ssa.Instruction{}
	for _, b := range fn.Blocks {
		for _, ins := range b.Instrs {
			s, ok := ins.(*ssa.Store)
			if !ok {
				continue
			}
			fa, ok := s.Addr.(*ssa.FieldAddr)
			if !ok || namedOf(fa.X.Type()) != tname {
				continue
			}
			out[fieldName(fa.X.Type(), fa.Field)] = s
		}
	}
	return out
}

// FieldStoreAny (K11): every store to field tf in fn writes a value matching glob.
func (c *Ctx) FieldStoreAny(fn *ssa.Function, tf, glob, why string) {
	c.StoreIs(fn, tf, glob, 1, why)
}

// FieldStoreIdx (K11): fn stores a value with canonical form valGlob into an
// indexed element (slice/array) at least once.
func (c *Ctx) FieldStoreIdx(fn *ssa.Function, valGlob, why string) {
	if fn == nil {
		return
	}
	fnName := load.QualName(fn)
	n := 0
	site := "-"
	for _, b := range fn.Blocks {
		for _, ins := range b.Instrs {
			s, ok := ins.(*ssa.Store)
			if !ok {
				continue
			}
			if _, ok := s.Addr.(*ssa.IndexAddr); !ok {
				continue
			}
			if Glob(valGlob, CanonD(s.Val, 9)) {
				n++
				site = c.At(s)
			}
		}
	}
	c.Sites += n
	c.Check(n > 0, "K11", fnName, "an element store of `"+valGlob+"` exists", site, why)
}

func globAny(globs, s string) bool {
	for _, g := range strings.Split(globs, " OR ") {
		if Glob(g, s) {
			return true
		}
	}
	return false
}

// FieldNameOf renders "Type.Field" of a field address.
func FieldNameOf(fa *ssa.FieldAddr) string { return typeField(fa) }

// MapStoreKeys (K12): the keys stored into the map(s) whose canonical form matches
// mapGlob are exactly the wanted ones (canonical forms, globs allowed) - e.g. the
// visited set of a graph search is seeded with BOTH start nodes and extended with
// every node that is appended to a result list.
func (c *Ctx) MapStoreKeys(fn *ssa.Function, mapGlob string, want []string, why string) {
	if fn == nil {
		return
	}
	fnName := load.QualName(fn)
	got := map[string]ssa.Instruction{}
	for _, f := range WithClosures(fn) {
		for _, b := range f.Blocks {
			for _, ins := range b.Instrs {
				mu, ok := ins.(*ssa.MapUpdate)
				if !ok || !Glob(mapGlob, CanonD(mu.Map, 6)) {
					continue
				}
				got[CanonD(mu.Key, 9)] = ins
			}
		}
	}
	c.Sites += len(got)
	for _, w := range want {
		found := ""
		for g := range got {
			if Glob(w, g) {
				found = g
				break
			}
		}
		what := "key `" + short(w, 140) + "` is recorded in `" + mapGlob + "`"
		if found != "" {
			c.OK("K12", fnName, what, c.At(got[found]), why)
			delete(got, found)
		} else {
			var have []string
			for g := range got {
				have = append(have, short(g, 160))
			}
			sort.Strings(have)
			c.Fail("K12", fnName, what, "-", "no such store ("+why+"); keys stored: "+strings.Join(have, " ; "))
		}
	}
	for g, ins := range got {
		c.Fail("K12", fnName, "only the listed keys are recorded in `"+mapGlob+"`", c.At(ins), "unexpected key `"+short(g, 200)+"` ("+why+")")
	}
}

// edgeEnters: the edge taken when cond holds leads straight into block b (directly, or through blocks that only jump):
// the effect in b happens whenever cond holds, although b is also entered over other edges (`if c1 || c2 { effect }`).
func edgeEnters(fn *ssa.Function, cond Cond, b *ssa.BasicBlock) bool {
	for _, e := range CondEdges(fn, cond) {
		t := e.To()
		for i := 0; i < 4 && t != nil; i++ {
			if t == b {
				return true
			}
			if len(t.Instrs) == 1 && len(t.Succs) == 1 {
				t = t.Succs[0]
				continue
			}
			break
		}
	}
	return false
}

package q

import (
	"go/token"
	"go/types"
	"strings"

	ssa "xvc/xssa"

	"xvc/load"
)

type Edge struct {
	From *ssa.BasicBlock
	Succ int
}

func (e Edge) To() *ssa.BasicBlock { return e.From.Succs[e.Succ] }

type EdgeSet map[Edge]bool

// ReachFrom floods forward from starts (inclusive). cut edges are not taken.
func ReachFrom(starts []*ssa.BasicBlock, cut EdgeSet) map[*ssa.BasicBlock]bool {
	seen := map[*ssa.BasicBlock]bool{}
	var stack []*ssa.BasicBlock
	for _, s := range starts {
		if !seen[s] {
			seen[s] = true
			stack = append(stack, s)
		}
	}
	for len(stack) > 0 {
		b := stack[len(stack)-1]
		stack = stack[:len(stack)-1]
		for i, s := range b.Succs {
			if cut != nil && cut[Edge{b, i}] {
				continue
			}
			if !seen[s] {
				seen[s] = true
				stack = append(stack, s)
			}
		}
	}
	return seen
}

// succsNotCut: the successors of b that are reached over an edge that is not cut.
func succsNotCut(b *ssa.BasicBlock, cut EdgeSet) []*ssa.BasicBlock {
	var out []*ssa.BasicBlock
	for i, s := range b.Succs {
		if cut == nil || !cut[Edge{b, i}] {
			out = append(out, s)
		}
	}
	return out
}

// BackEdges: edges whose target dominates their source.
func BackEdges(fn *ssa.Function) EdgeSet {
	out := EdgeSet{}
	for _, b := range fn.Blocks {
		for i, s := range b.Succs {
			if s.Dominates(b) {
				out[Edge{b, i}] = true
			}
		}
	}
	return out
}

func union(a, b EdgeSet) EdgeSet {
	out := EdgeSet{}
	for e := range a {
		out[e] = true
	}
	for e := range b {
		out[e] = true
	}
	return out
}

// EdgeDominates: every path from entry to b takes edge e.
func EdgeDominates(fn *ssa.Function, e Edge, b *ssa.BasicBlock) bool {
	r := ReachFrom([]*ssa.BasicBlock{fn.Blocks[0]}, EdgeSet{e: true})
	return !r[b]
}

type tri int

const (
	unk tri = iota
	tTrue
	tFalse
)

func not(t tri) tri {
	switch t {
	case tTrue:
		return tFalse
	case tFalse:
		return tTrue
	}
	return unk
}

// CallRes classifies the verdict-carrying results of one call.
type CallRes struct {
	Call ssa.Value
	Bool map[ssa.Value]bool // bool results: good = true
	Err  map[ssa.Value]bool // error results: good = nil
	Int  map[ssa.Value]bool // integer results (Cmp/Compare): good = 0
	Ptr  map[ssa.Value]bool // pointer/other results (good = non-nil), only used on request
}

func isErrorType(t types.Type) bool {
	return types.TypeString(t, nil) == "error"
}

func Results(call ssa.Value) *CallRes {
	r := &CallRes{Call: call, Bool: map[ssa.Value]bool{}, Err: map[ssa.Value]bool{}, Int: map[ssa.Value]bool{}, Ptr: map[ssa.Value]bool{}}
	classify := func(v ssa.Value, t types.Type) {
		if b, ok := t.Underlying().(*types.Basic); ok {
			if b.Kind() == types.Bool {
				r.Bool[v] = true
			} else if b.Info()&types.IsInteger != 0 {
				r.Int[v] = true
			}
		} else if isErrorType(t) {
			r.Err[v] = true
		} else {
			switch t.Underlying().(type) {
			case *types.Pointer, *types.Slice, *types.Map, *types.Interface:
				r.Ptr[v] = true
			}
		}
	}
	if tup, ok := call.Type().(*types.Tuple); ok {
		if refs := call.Referrers(); refs != nil {
			for _, ref := range *refs {
				if ex, ok := ref.(*ssa.Extract); ok {
					classify(ex, tup.At(ex.Index).Type())
				}
			}
		}
	} else {
		classify(call, call.Type())
	}
	return r
}

func (r *CallRes) isRes(v ssa.Value) (kind byte) {
	v = Resolve(v)
	if ph, ok := v.(*ssa.Phi); ok {
		// a variable assigned from this call on one arm and from a sibling call
		// on the other (`if c { v, err = f() } else { v, err = g() }`)
		for _, e := range ph.Edges {
			if _, isPhi := Resolve(e).(*ssa.Phi); isPhi {
				continue
			}
			if k := r.isRes(e); k != 0 {
				return k
			}
		}
		return 0
	}
	switch {
	case r.Bool[v]:
		return 'b'
	case r.Err[v]:
		return 'e'
	case r.Int[v]:
		return 'i'
	case r.Ptr[v]:
		return 'p'
	}
	return 0
}

// IsResult reports whether v is (a copy of) one of the call's results.
func (r *CallRes) IsResult(v ssa.Value) bool { return r.isRes(v) != 0 }

// Eval evaluates a branch condition under the hypothesis that every result of
// the call is good (true / nil / 0). usePtr additionally assumes pointer-like
// results are non-nil.
func (r *CallRes) Eval(v ssa.Value, usePtr bool, depth int) tri {
	if depth > 8 {
		return unk
	}
	v = Resolve(v)
	if r.isRes(v) == 'b' {
		return tTrue
	}
	switch x := v.(type) {
	case *ssa.UnOp:
		if x.Op == token.NOT {
			return not(r.Eval(x.X, usePtr, depth+1))
		}
	case *ssa.BinOp:
		l, rr := Resolve(x.X), Resolve(x.Y)
		for i := 0; i < 2; i++ {
			if r.isRes(l) == 'e' && IsNilConst(rr) {
				if x.Op == token.EQL {
					return tTrue
				}
				if x.Op == token.NEQ {
					return tFalse
				}
			}
			if usePtr && r.isRes(l) == 'p' && IsNilConst(rr) {
				if x.Op == token.EQL {
					return tFalse
				}
				if x.Op == token.NEQ {
					return tTrue
				}
			}
			if r.isRes(l) == 'b' {
				if b, ok := ConstBool(rr); ok {
					if x.Op == token.EQL {
						if b {
							return tTrue
						}
						return tFalse
					}
					if x.Op == token.NEQ {
						if b {
							return tFalse
						}
						return tTrue
					}
				}
			}
			if r.isRes(l) == 'i' {
				if n, ok := ConstInt(rr); ok {
					good := int64(0)
					a, b := good, n
					if i == 1 { // operands were swapped: expression is n op good
						a, b = n, good
					}
					var res bool
					switch x.Op {
					case token.EQL:
						res = a == b
					case token.NEQ:
						res = a != b
					case token.LSS:
						res = a < b
					case token.GTR:
						res = a > b
					case token.LEQ:
						res = a <= b
					case token.GEQ:
						res = a >= b
					default:
						return unk
					}
					if res {
						return tTrue
					}
					return tFalse
				}
			}
			l, rr = rr, l
		}
	}
	return unk
}

func (r *CallRes) Depends(v ssa.Value, usePtr bool, depth int) bool {
	if depth > 8 {
		return false
	}
	v = Resolve(v)
	if k := r.isRes(v); k == 'b' || k == 'e' || k == 'i' || (usePtr && k == 'p') {
		return true
	}
	switch x := v.(type) {
	case *ssa.UnOp:
		if x.Op == token.NOT {
			return r.Depends(x.X, usePtr, depth+1)
		}
	case *ssa.BinOp:
		return r.Depends(x.X, usePtr, depth+1) || r.Depends(x.Y, usePtr, depth+1)
	}
	return false
}

// Tests lists the branches that test the call's results, with the edge taken
// when the results are good and the one taken when they are bad.
type Test struct {
	If   *ssa.If
	Good Edge
	Bad  Edge
	Dec  bool // polarity decided
}

func (r *CallRes) Tests(fn *ssa.Function, usePtr bool) []Test {
	var out []Test
	for _, b := range fn.Blocks {
		ifi, ok := b.Instrs[len(b.Instrs)-1].(*ssa.If)
		if !ok || !r.Depends(ifi.Cond, usePtr, 0) {
			continue
		}
		t := Test{If: ifi}
		switch r.Eval(ifi.Cond, usePtr, 0) {
		case tTrue:
			t.Good, t.Bad, t.Dec = Edge{b, 0}, Edge{b, 1}, true
		case tFalse:
			t.Good, t.Bad, t.Dec = Edge{b, 1}, Edge{b, 0}, true
		}
		out = append(out, t)
	}
	return out
}

// ---------- exits ----------

type verdictSig struct {
	boolIdx, errIdx int
}

func sigOf(sig *types.Signature) verdictSig {
	v := verdictSig{-1, -1}
	res := sig.Results()
	for i := 0; i < res.Len(); i++ {
		if b, ok := res.At(i).Type().Underlying().(*types.Basic); ok && b.Kind() == types.Bool && v.boolIdx < 0 {
			v.boolIdx = i
		}
	}
	for i := res.Len() - 1; i >= 0; i-- {
		if isErrorType(res.At(i).Type()) {
			v.errIdx = i
			break
		}
	}
	return v
}

func Returns(fn *ssa.Function) []*ssa.Return {
	var out []*ssa.Return
	for _, b := range fn.Blocks {
		if ret, ok := b.Instrs[len(b.Instrs)-1].(*ssa.Return); ok {
			out = append(out, ret)
		}
	}
	return out
}

// knownNonNil: block b is only reachable through the non-nil edge of a test of v.
func knownNonNil(v ssa.Value, b *ssa.BasicBlock) bool {
	rv := Resolve(v)
	for d := b; d != nil; d = d.Idom() {
		p := d.Idom()
		if p == nil {
			break
		}
		ifi, ok := p.Instrs[len(p.Instrs)-1].(*ssa.If)
		if !ok {
			continue
		}
		bo, ok := Resolve(ifi.Cond).(*ssa.BinOp)
		if !ok {
			continue
		}
		x, y := Resolve(bo.X), Resolve(bo.Y)
		if IsNilConst(x) {
			x, y = y, x
		}
		if !IsNilConst(y) || !sameValue(x, rv) {
			continue
		}
		var succ int
		switch bo.Op {
		case token.NEQ:
			succ = 0
		case token.EQL:
			succ = 1
		default:
			continue
		}
		s := p.Succs[succ]
		if s == d && len(s.Preds) == 1 {
			return true
		}
	}
	return false
}

// knownFalse: block b is dominated by the false edge of a branch on v itself (`if !ok { return ok, err }`).
func knownFalse(v ssa.Value, b *ssa.BasicBlock) bool {
	rv := Resolve(v)
	for d := b; d != nil; d = d.Idom() {
		p := d.Idom()
		if p == nil {
			break
		}
		ifi, ok := p.Instrs[len(p.Instrs)-1].(*ssa.If)
		if !ok {
			continue
		}
		cond, succ := Resolve(ifi.Cond), 1
		for {
			u, ok := cond.(*ssa.UnOp)
			if !ok || u.Op != token.NOT {
				break
			}
			cond, succ = Resolve(u.X), 1-succ
		}
		if !sameValue(cond, rv) {
			continue
		}
		if s := p.Succs[succ]; s == d && len(s.Preds) == 1 && p.Succs[1-succ] != s {
			return true
		}
	}
	return false
}

// edgeNonNil: the edge pred->succ is the non-nil edge of a test of v in pred.
func edgeNonNil(v ssa.Value, pred, succ *ssa.BasicBlock) bool {
	ifi, ok := pred.Instrs[len(pred.Instrs)-1].(*ssa.If)
	if !ok {
		return false
	}
	bo, ok := Resolve(ifi.Cond).(*ssa.BinOp)
	if !ok {
		return false
	}
	x, y := Resolve(bo.X), Resolve(bo.Y)
	if IsNilConst(x) {
		x, y = y, x
	}
	if !IsNilConst(y) || !sameValue(x, Resolve(v)) {
		return false
	}
	switch bo.Op {
	case token.NEQ:
		return pred.Succs[0] == succ && pred.Succs[1] != succ
	case token.EQL:
		return pred.Succs[1] == succ && pred.Succs[0] != succ
	}
	return false
}

// sameValue: identical SSA value, or loads of the same local/field address with
// the same canonical form (go/ssa does not CSE loads).
func sameValue(a, b ssa.Value) bool {
	if a == b {
		return true
	}
	ua, ok1 := a.(*ssa.UnOp)
	ub, ok2 := b.(*ssa.UnOp)
	if ok1 && ok2 && ua.Op == token.MUL && ub.Op == token.MUL && ua.X == ub.X {
		return true
	}
	return false
}

// DefinitelyNonNilErr is the exported form used as the normaliser's oracle.
func DefinitelyNonNilErr(v ssa.Value) bool { return definitelyNonNilErr(v) }

// definitelyNonNilErr: constructors of errors and error globals.
func definitelyNonNilErr(v ssa.Value) bool {
	switch x := v.(type) {
	case *ssa.MakeInterface:
		return true
	case *ssa.Call:
		if fn := x.Call.StaticCallee(); fn != nil && fn.Pkg != nil {
			n := fn.Pkg.Pkg.Path() + "." + fn.Name()
			switch n {
			case "errors.New", "fmt.Errorf":
				return true
			}
			if strings.HasSuffix(n, "/errors.New") || strings.HasSuffix(n, "/errors.Errorf") || strings.HasSuffix(n, "/errors.Wrap") {
				return true
			}
		}
	case *ssa.UnOp:
		if x.Op == token.MUL {
			if g, ok := x.X.(*ssa.Global); ok && (strings.HasPrefix(g.Name(), "Err") || sentinelErr(g)) {
				return true
			}
		}
	}
	return false
}

var sentinelCache = map[*ssa.Global]bool{}

// sentinelErr: a package-level error variable that the package initialiser
// sets to errors.New/fmt.Errorf(...) and that no other function assigns.
func sentinelErr(g *ssa.Global) bool {
	if v, ok := sentinelCache[g]; ok {
		return v
	}
	res := false
	if pt, ok := g.Type().(*types.Pointer); ok && isErrorType(pt.Elem()) && g.Pkg != nil {
		if init := g.Pkg.Func("init"); init != nil {
			for _, b := range init.Blocks {
				for _, ins := range b.Instrs {
					if st, ok := ins.(*ssa.Store); ok && st.Addr == g {
						res = definitelyNonNilErr(st.Val)
					}
				}
			}
		}
		if res {
			if refs := g.Referrers(); refs != nil {
				for _, r := range *refs {
					if st, ok := r.(*ssa.Store); ok && st.Addr == g && st.Parent().Name() != "init" {
						res = false
					}
				}
			}
		}
	}
	sentinelCache[g] = res
	return res
}

// MayReturnFalseNil: fn (bool, error)-style can answer (false, nil) - then a
// caller that only looks at the error accepts a rejected input. Interface and
// external callees are assumed able to (e.g. VerifyECDSA does).
func MayReturnFalseNil(fn *ssa.Function, depth int) bool {
	if fn == nil || len(fn.Blocks) == 0 || depth > 4 {
		return true
	}
	vs := sigOf(fn.Signature)
	if vs.boolIdx < 0 || vs.errIdx < 0 {
		return false
	}
	for _, ret := range Returns(fn) {
		bv, ev := ret.Results[vs.boolIdx], ret.Results[vs.errIdx]
		// both propagated from one call
		if be, ok := Resolve(bv).(*ssa.Extract); ok {
			if ee, ok := Resolve(ev).(*ssa.Extract); ok && ee.Tuple == be.Tuple {
				if call, ok := be.Tuple.(*ssa.Call); ok {
					if MayReturnFalseNil(call.Call.StaticCallee(), depth+1) {
						return true
					}
					continue
				}
			}
		}
		bFalse := true
		if b, ok := ConstBool(Strip(bv)); ok && b {
			bFalse = false
		}
		eNil := true
		if !IsNilConst(ev) && (definitelyNonNilErr(ev) || definitelyNonNilErr(Resolve(ev)) || knownNonNil(ev, ret.Block())) {
			eNil = false
		}
		if bFalse && eNil {
			return true
		}
	}
	return false
}

// ExitInfo classifies one return under an optional call hypothesis.
// mayGood: the verdict returned may be "good" (true / nil).
func exitMayBeGood(ret *ssa.Return, vs verdictSig, r *CallRes, reached map[*ssa.BasicBlock]bool) bool {
	if vs.boolIdx >= 0 && vs.boolIdx < len(ret.Results) {
		if !valMayBeGood(ret.Results[vs.boolIdx], 'b', ret.Block(), r, reached, 0) {
			return false
		}
	}
	if vs.errIdx >= 0 && vs.errIdx < len(ret.Results) {
		if !valMayBeGood(ret.Results[vs.errIdx], 'e', ret.Block(), r, reached, 0) {
			return false
		}
	}
	return true
}

func valMayBeGood(v ssa.Value, kind byte, at *ssa.BasicBlock, r *CallRes, reached map[*ssa.BasicBlock]bool, depth int) bool {
	if depth > 6 {
		return true
	}
	if r != nil && r.isRes(v) != 0 {
		return false // returns the (bad) result itself: propagated
	}
	switch kind {
	case 'b':
		if b, ok := ConstBool(Strip(v)); ok {
			return b
		}
		if knownFalse(v, at) {
			return false
		}
	case 'e':
		if IsNilConst(v) {
			return true
		}
		if definitelyNonNilErr(v) || definitelyNonNilErr(Resolve(v)) {
			return false
		}
		if knownNonNil(v, at) {
			return false
		}
	}
	rv := Resolve(v)
	if rv != v {
		return valMayBeGood(rv, kind, at, r, reached, depth+1)
	}
	if phi, ok := v.(*ssa.Phi); ok {
		for i, e := range phi.Edges {
			pred := phi.Block().Preds[i]
			if reached != nil && !reached[pred] {
				continue
			}
			if kind == 'e' && edgeNonNil(e, pred, phi.Block()) {
				continue
			}
			if valMayBeGood(e, kind, pred, r, reached, depth+1) {
				return true
			}
		}
		return false
	}
	// load of a variable with several stores: good if any store may be good
	if u, ok := v.(*ssa.UnOp); ok && u.Op == token.MUL {
		if a, ok := u.X.(*ssa.Alloc); ok && !capturedAndWritten(a) {
			sts := storesTo(a)
			if len(sts) > 0 {
				for _, s := range sts {
					if reached != nil && !reached[s.Block()] && !s.Block().Dominates(at) {
						continue
					}
					if valMayBeGood(s.Val, kind, s.Block(), r, reached, depth+1) {
						return true
					}
				}
				// zero value of the variable (never stored on some path)
				return false
			}
		}
	}
	return true
}

// SuccessExits lists returns whose verdict may be good (no hypothesis).
func SuccessExits(fn *ssa.Function) []*ssa.Return {
	vs := sigOf(fn.Signature)
	var out []*ssa.Return
	for _, ret := range Returns(fn) {
		if exitMayBeGood(ret, vs, nil, nil) {
			out = append(out, ret)
		}
	}
	return out
}

// ---------- call matching ----------

// CalleeInfo describes the resolved callee of a call instruction.
type CalleeInfo struct {
	Pkg    string // package path
	Recv   string // receiver named type (no pointer) or interface name; "" for functions
	Name   string
	Fn     *ssa.Function // static callee (nil for invoke / dynamic)
	Invoke bool
}

func Callee(cc *ssa.CallCommon) CalleeInfo {
	if cc.IsInvoke() {
		ci := CalleeInfo{Name: cc.Method.Name(), Invoke: true, Recv: namedOf(cc.Value.Type())}
		if cc.Method.Pkg() != nil {
			ci.Pkg = cc.Method.Pkg().Path()
		}
		return ci
	}
	if fn := cc.StaticCallee(); fn != nil {
		ci := CalleeInfo{Name: fn.Name(), Fn: fn}
		if fn.Parent() != nil {
			ci.Name = load.QualName(fn)
		}
		if fn.Pkg != nil {
			ci.Pkg = fn.Pkg.Pkg.Path()
		} else if fn.Object() != nil && fn.Object().Pkg() != nil {
			ci.Pkg = fn.Object().Pkg().Path()
		}
		if fn.Signature != nil && fn.Signature.Recv() != nil {
			ci.Recv = namedOf(fn.Signature.Recv().Type())
		}
		return ci
	}
	if b, ok := cc.Value.(*ssa.Builtin); ok {
		return CalleeInfo{Name: b.Name(), Pkg: "builtin"}
	}
	return CalleeInfo{}
}

// Match tests a callee against a spec "[pkgsuffix::][Recv.]Name". Alternatives
// are separated by "|".
func (ci CalleeInfo) Match(spec string) bool {
	for _, alt := range strings.Split(spec, "|") {
		if ci.match1(strings.TrimSpace(alt)) {
			return true
		}
	}
	return false
}

func (ci CalleeInfo) match1(spec string) bool {
	if ci.Name == "" {
		return false
	}
	pkg := ""
	if i := strings.Index(spec, "::"); i >= 0 {
		pkg, spec = spec[:i], spec[i+2:]
	}
	recv := ""
	if i := strings.LastIndex(spec, "."); i >= 0 {
		recv, spec = spec[:i], spec[i+1:]
	}
	if spec != ci.Name {
		return false
	}
	if recv != "" && recv != ci.Recv {
		return false
	}
	if pkg != "" && !(ci.Pkg == pkg || strings.HasSuffix(ci.Pkg, "/"+pkg)) {
		return false
	}
	return true
}

// CallInstr is a Call, Go or Defer.
func CallsIn(fn *ssa.Function, spec string) []ssa.CallInstruction {
	var out []ssa.CallInstruction
	for _, b := range fn.Blocks {
		for _, ins := range b.Instrs {
			ci, ok := ins.(ssa.CallInstruction)
			if !ok {
				continue
			}
			if Callee(ci.Common()).Match(spec) {
				out = append(out, ci)
			}
		}
	}
	return out
}

// WithClosures returns fn and all functions nested in it.
func WithClosures(fn *ssa.Function) []*ssa.Function {
	out := []*ssa.Function{fn}
	for _, a := range fn.AnonFuncs {
		out = append(out, WithClosures(a)...)
	}
	return out
}

// AxiomNoTrueErr: interface methods of the crypto client that never answer
// (true, non-nil) - confirmed by reading github.com/xuperchain/crypto
// core/sign/ecdsa.go (VerifyECDSA returns (false, err) or (ecdsa.Verify(..), nil)).
var AxiomNoTrueErr = map[string]bool{"VerifyECDSA": true}

// MayReturnTrueErr: a (bool, error) function may answer (true, non-nil), so a
// caller that looks only at the boolean can miss a failure.
func MayReturnTrueErr(fn *ssa.Function, depth int) bool {
	if fn == nil || len(fn.Blocks) == 0 || depth > 4 {
		return true
	}
	vs := sigOf(fn.Signature)
	if vs.boolIdx < 0 || vs.errIdx < 0 {
		return false
	}
	for _, ret := range Returns(fn) {
		bv, ev := ret.Results[vs.boolIdx], ret.Results[vs.errIdx]
		if IsNilConst(ev) {
			continue
		}
		if b, ok := ConstBool(Strip(bv)); ok && !b {
			continue
		}
		if be, ok := Resolve(bv).(*ssa.Extract); ok {
			if ee, ok := Resolve(ev).(*ssa.Extract); ok && ee.Tuple == be.Tuple {
				if call, ok := be.Tuple.(*ssa.Call); ok {
					if call.Call.IsInvoke() && AxiomNoTrueErr[call.Call.Method.Name()] {
						continue
					}
					if !MayReturnTrueErr(call.Call.StaticCallee(), depth+1) {
						continue
					}
				}
			}
		}
		return true
	}
	return false
}

// Package q is the query library: obligations, SSA value canonicalisation,
// CFG edges/reachability, verdict discipline, must-pass-through, who-may,
// lock sets, field coverage. Nothing here executes analysed code.
package q

import (
	"fmt"
	"go/token"
	"sort"
	"strings"

	ssa "xvc/xssa"

	"xvc/load"
)

type Status string

const (
	Discharged Status = "discharged"
	Violated   Status = "violated"
	Undecided  Status = "undecided"
)

// Obligation is one decided instance of a rule. Key never contains a line
// number or a local-variable name.
type Obligation struct {
	Key    string `json:"key"` // rule|function|construct
	Rule   string `json:"rule"`
	Fn     string `json:"function"`
	What   string `json:"construct"`
	Status Status `json:"status"`
	Site   string `json:"site,omitempty"`
	Detail string `json:"detail,omitempty"`
	Known  bool   `json:"known_finding,omitempty"`
}

// Ctx is one run of one property's rules over a loaded program.
type Ctx struct {
	P     *load.Program
	Prop  string
	Tier  string
	Obs   []Obligation
	Fns   map[string]bool // functions analysed
	Sites int             // call sites / instructions matched by rule instances
	Notes []string
	seen  map[string]int
	// MustPassUsed: rows of the must-pass table that armed a guard rule in this run
	MustPassUsed map[string]bool
}

// MustPassAccount: every row of the must-pass table that belongs to this property armed a guard rule (a row that
// matches no rule any more - the rule's pattern was edited - would otherwise lapse silently).
func (c *Ctx) MustPassAccount() {
	if len(c.P.Notes) > 0 {
		return // fall-back (non-normalised) run: pattern-dependent rules are skipped
	}
	var rows []string
	for k := range MustPass {
		if strings.HasPrefix(k, c.Prop+"\t") && !c.MustPassUsed[k] {
			rows = append(rows, k)
		}
	}
	sort.Strings(rows)
	for _, k := range rows {
		f := strings.SplitN(k, "\t", 4)
		c.Fail("floor", f[1], "must-pass table row arms a guard rule: `"+f[3]+"`", "-", "no Guard rule with this function, sense and condition was evaluated")
	}
}

func NewCtx(p *load.Program, prop, tier string) *Ctx {
	return &Ctx{P: p, Prop: prop, Tier: tier, Fns: map[string]bool{}, seen: map[string]int{}}
}

func (c *Ctx) add(rule, fn, what string, st Status, site, detail string) {
	key := rule + "|" + fn + "|" + what
	if n := c.seen[key]; n > 0 {
		// several sites of the same construct in one function: number them in
		// source order so keys stay unique but position-independent.
		c.seen[key] = n + 1
		key = fmt.Sprintf("%s#%d", key, n+1)
	} else {
		c.seen[key] = 1
	}
	c.Obs = append(c.Obs, Obligation{Key: key, Rule: rule, Fn: fn, What: what, Status: st, Site: site, Detail: detail})
}

func (c *Ctx) OK(rule, fn, what, site, detail string) {
	c.add(rule, fn, what, Discharged, site, detail)
}
func (c *Ctx) Fail(rule, fn, what, site, detail string) {
	c.add(rule, fn, what, Violated, site, detail)
}
func (c *Ctx) Und(rule, fn, what, site, detail string) {
	c.add(rule, fn, what, Undecided, site, detail)
}

// Check records discharged/violated from a boolean.
func (c *Ctx) Check(ok bool, rule, fn, what, site, detail string) bool {
	if ok {
		c.OK(rule, fn, what, site, detail)
	} else {
		c.Fail(rule, fn, what, site, detail)
	}
	return ok
}

// Fn resolves an anchor function "<pkg suffix>::<name>"; a missing anchor is
// a violated obligation of kind "anchor" (an edit that deletes a check
// altogether shows up exactly like this).
func (c *Ctx) Fn(name string) *ssa.Function {
	fn := c.P.Funcs[name]
	if fn == nil || len(fn.Blocks) == 0 {
		c.Fail("anchor", name, "function resolves", "-", "anchor function not found (renamed, removed or has no body)")
		return nil
	}
	c.Fns[name] = true
	return fn
}

// Floor asserts that a rule matched at least n sites (a rule matching zero
// sites passes vacuously forever).
func (c *Ctx) Floor(rule, fn, what string, got, want int) {
	if got < want {
		c.Fail("floor", fn, fmt.Sprintf("%s: %s matches >= %d sites", rule, what, want), "-", fmt.Sprintf("matched %d site(s), confirmed by hand: %d", got, want))
	}
}

func (c *Ctx) At(ins ssa.Instruction) string {
	if ins == nil {
		return "-"
	}
	if ins.Pos().IsValid() {
		return c.P.Pos(ins.Pos())
	}
	if ifi, ok := ins.(*ssa.If); ok {
		if p := valuePos(ifi.Cond); p.IsValid() {
			return c.P.Pos(p)
		}
	}
	// fall back to any positioned instruction in the block, then the function
	for _, j := range ins.Block().Instrs {
		if j.Pos().IsValid() {
			return c.P.Pos(j.Pos()) + "~"
		}
	}
	return c.P.Pos(ins.Parent().Pos()) + "~"
}

func valuePos(v ssa.Value) token.Pos {
	for i := 0; i < 6 && v != nil; i++ {
		if v.Pos().IsValid() {
			return v.Pos()
		}
		switch x := v.(type) {
		case *ssa.UnOp:
			v = x.X
		case *ssa.BinOp:
			if x.X.Pos().IsValid() {
				return x.X.Pos()
			}
			v = x.Y
		case *ssa.Extract:
			v = x.Tuple
		case *ssa.Phi:
			if len(x.Edges) > 0 {
				v = x.Edges[0]
			} else {
				return token.NoPos
			}
		default:
			return token.NoPos
		}
	}
	return token.NoPos
}

func (c *Ctx) Counts() (total, discharged, violated, undecided int) {
	for _, o := range c.Obs {
		total++
		switch o.Status {
		case Discharged:
			discharged++
		case Violated:
			violated++
		default:
			undecided++
		}
	}
	return
}

func (c *Ctx) SortedFns() []string {
	var out []string
	for f := range c.Fns {
		out = append(out, f)
	}
	sort.Strings(out)
	return out
}

func short(s string, n int) string {
	s = strings.ReplaceAll(s, "\n", " ")
	if len(s) > n {
		return s[:n] + "…"
	}
	return s
}

// Normalised reports whether the program was analysed with the normalising transforms; when it was not (fallback after
// a failure of the normaliser, or XVC_NO_NORMALISE), a rule that can only be stated on the normalised form records that
// it was not decided in this run (visible in the evidence) instead of raising an alarm on the un-normalised shape.
func (c *Ctx) Normalised(rule, fn, what string) bool {
	if len(c.P.Notes) == 0 {
		return true
	}
	c.OK(rule, fn, what, "-", "NOT DECIDED in this run: analysed without the normalising transforms (see notes)")
	return false
}

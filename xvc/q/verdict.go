package q

import (
	"fmt"
	"go/token"
	"go/types"
	"os"
	"sort"
	"strings"

	ssa "xvc/xssa"

	"xvc/load"
)

// Target: what a bad edge must not reach / what must be gated.
type Target struct {
	Name     string
	Success  bool                       // success exits of the function
	Instr    func(ssa.Instruction) bool // or: instructions matching
	SameIter bool                       // do not follow loop back edges when flooding
	Blocks   func(*ssa.Function) []*ssa.BasicBlock
}

func ToSuccess() Target { return Target{Name: "success exit", Success: true} }

func ToCall(spec string) Target {
	return Target{Name: "call " + spec, Instr: func(i ssa.Instruction) bool {
		ci, ok := i.(ssa.CallInstruction)
		return ok && Callee(ci.Common()).Match(spec)
	}}
}

// ToReturn: every return instruction.
func ToReturn() Target {
	return Target{Name: "return", Instr: func(i ssa.Instruction) bool { _, ok := i.(*ssa.Return); return ok }}
}

func ToCallSameIter(spec string) Target {
	t := ToCall(spec)
	t.SameIter = true
	return t
}

// ToFieldStore: store through a FieldAddr of the named field ("Type.Field").
func ToFieldStore(tf string) Target {
	return Target{Name: "store " + tf, Instr: func(i ssa.Instruction) bool {
		s, ok := i.(*ssa.Store)
		if !ok {
			return false
		}
		fa, ok := s.Addr.(*ssa.FieldAddr)
		return ok && typeField(fa) == tf
	}}
}

func typeField(fa *ssa.FieldAddr) string {
	return namedOf(fa.X.Type()) + "." + fieldName(fa.X.Type(), fa.Field)
}

func (t Target) instrs(fn *ssa.Function) []ssa.Instruction {
	var out []ssa.Instruction
	if t.Success {
		for _, r := range SuccessExits(fn) {
			out = append(out, r)
		}
		return out
	}
	for _, b := range fn.Blocks {
		for _, ins := range b.Instrs {
			if t.Instr != nil && t.Instr(ins) {
				out = append(out, ins)
			}
		}
	}
	return out
}

// Cond identifies branch edges by the canonical form of the condition.
type Cond struct {
	Canon string
	Sense bool // the edge taken when the condition has this value
}

// NormCond strips leading negations from a canonical condition.
func NormCond(s string, sense bool) (string, bool) {
	for strings.HasPrefix(s, "!") {
		s = s[1:]
		sense = !sense
	}
	return normRel(s, sense)
}

// normRel rewrites comparisons whose operands have a known small range into one
// spelling, so that `len(x) > 0` / `len(x) != 0` / `len(x) >= 1`, `a.Cmp(b) == -1` /
// `a.Cmp(b) < 0`, `bytes.Compare(a,b) == 0` / `bytes.Equal(a,b)` denote the same
// condition. Applied to the canonical form of every branch and to every pattern.
func normRel(s string, sense bool) (string, bool) {
	l, op, r, ok := splitTopRel(s)
	if !ok {
		return s, sense
	}
	// x.Sign() is x.Cmp(0): one spelling
	sign := func(x string) string {
		const pre = "big.(*Int).Sign("
		if strings.HasPrefix(x, pre) && strings.HasSuffix(x, ")") {
			return "big.(*Int).Cmp(" + x[len(pre):len(x)-1] + ",big.NewInt(0))"
		}
		return x
	}
	if l2, r2 := sign(l), sign(r); l2 != l || r2 != r {
		l, r = l2, r2
		s = "(" + l + " " + op + " " + r + ")"
	}
	is3 := func(x string) bool {
		return strings.HasPrefix(x, "big.(*Int).Cmp(") || strings.HasPrefix(x, "bytes.Compare(") || strings.HasPrefix(x, "strings.Compare(")
	}
	isLen := func(x string) bool { return strings.HasPrefix(x, "len(") }
	switch op {
	case "==":
		for _, pr := range [][2]string{{l, r}, {r, l}} {
			a, b := pr[0], pr[1]
			if !is3(b) {
				continue
			}
			switch a {
			case "0":
				if strings.HasPrefix(b, "bytes.Compare(") {
					return "bytes.Equal(" + strings.TrimPrefix(b, "bytes.Compare("), sense
				}
			case "-1":
				return "(" + b + " < 0)", sense
			case "1":
				return normRel("(0 < "+b+")", sense)
			}
		}
	case "<":
		// a.Cmp(b) > 0  ==  b.Cmp(a) < 0: one orientation
		if l == "0" && (strings.HasPrefix(r, "big.(*Int).Cmp(") || strings.HasPrefix(r, "bytes.Compare(")) {
			if sw := swapCallArgs(r); sw != "" {
				return "(" + sw + " < 0)", sense
			}
		}
		switch {
		case l == "0" && isLen(r):
			return "(0 == " + r + ")", !sense
		case isLen(l) && r == "1":
			return "(0 == " + l + ")", sense
		case is3(l) && r == "1":
			return normRel("(0 < "+l+")", !sense)
		case l == "-1" && is3(r):
			return "(" + r + " < 0)", !sense
		}
	}
	return s, sense
}

// swapCallArgs: f(a,b) -> f(b,a) for a two-argument call in canonical form.
func swapCallArgs(c string) string {
	i := strings.Index(c, "(")
	// the callee spelling itself may contain parentheses: big.(*Int).Cmp(
	for _, pre := range []string{"big.(*Int).Cmp(", "bytes.Compare(", "bytes.Equal(", "strings.Compare("} {
		if strings.HasPrefix(c, pre) {
			i = len(pre) - 1
		}
	}
	if i < 0 || !strings.HasSuffix(c, ")") {
		return ""
	}
	body := c[i+1 : len(c)-1]
	depth := 0
	for j := 0; j < len(body); j++ {
		switch body[j] {
		case '(', '{', '[':
			depth++
		case ')', '}', ']':
			depth--
		case ',':
			if depth == 0 {
				return c[:i+1] + body[j+1:] + "," + body[:j] + ")"
			}
		}
	}
	return ""
}

func splitTopRel(s string) (l, op, r string, ok bool) {
	if !strings.HasPrefix(s, "(") || !strings.HasSuffix(s, ")") {
		return
	}
	depth := 0
	for i := 0; i < len(s)-3; i++ {
		switch s[i] {
		case '(', '{', '[':
			depth++
		case ')', '}', ']':
			depth--
		}
		if depth == 1 {
			if strings.HasPrefix(s[i:], " == ") {
				return s[1:i], "==", s[i+4 : len(s)-1], true
			}
			if strings.HasPrefix(s[i:], " < ") {
				return s[1:i], "<", s[i+3 : len(s)-1], true
			}
		}
	}
	return
}

// IfCanon returns the canonical condition of an If in normal form: negations,
// `!=`, `>=`, `<=` and `>` are folded away so that only `==` and `<` remain;
// trueSucc is the successor index taken when the normal-form condition holds.
func IfCanon(ifi *ssa.If) (canon string, trueSucc int) {
	s, pos := condCanon(ifi.Cond)
	if pos {
		return s, 0
	}
	return s, 1
}

func condCanon(v ssa.Value) (string, bool) {
	pos := true
	for {
		v = Resolve(v)
		if u, ok := v.(*ssa.UnOp); ok && u.Op == token.NOT {
			v = u.X
			pos = !pos
			continue
		}
		break
	}
	if bo, ok := v.(*ssa.BinOp); ok && (bo.Op == token.EQL || bo.Op == token.NEQ) {
		// `x == false`, `x != true`, ... fold into the polarity of x
		for _, pr := range [][2]ssa.Value{{bo.X, bo.Y}, {bo.Y, bo.X}} {
			if b, isC := ConstBool(Strip(pr[1])); isC {
				s, p2 := condCanon(pr[0])
				if (bo.Op == token.EQL) != b {
					p2 = !p2
				}
				if !pos {
					p2 = !p2
				}
				return s, p2
			}
		}
	}
	if bo, ok := v.(*ssa.BinOp); ok {
		l, r := CanonD(bo.X, 8), CanonD(bo.Y, 8)
		switch bo.Op {
		case token.EQL, token.NEQ:
			if l > r {
				l, r = r, l
			}
			if bo.Op == token.NEQ {
				pos = !pos
			}
			return normRel("("+l+" == "+r+")", pos)
		case token.LSS:
			return normRel("("+l+" < "+r+")", pos)
		case token.GTR:
			return normRel("("+r+" < "+l+")", pos)
		case token.GEQ: // l >= r  ==  !(l < r)
			return normRel("("+l+" < "+r+")", !pos)
		case token.LEQ: // l <= r  ==  !(r < l)
			return normRel("("+r+" < "+l+")", !pos)
		}
	}
	s := CanonD(v, 9)
	return NormCond(s, pos)
}

// pureValue: depends only on parameters, constants and fields reached from
// them (getter calls included) - the same canonical form then denotes the same
// run-time value at two program points unless a field was stored in between.
func pureValue(v ssa.Value, d int) bool {
	if d > 8 {
		return false
	}
	v = Strip(v)
	switch x := v.(type) {
	case *ssa.Const, *ssa.Parameter:
		return true
	case *ssa.UnOp:
		if x.Op == token.NOT || x.Op == token.SUB {
			return pureValue(x.X, d+1)
		}
		if x.Op == token.MUL {
			switch a := x.X.(type) {
			case *ssa.FieldAddr:
				return pureValue(a.X, d+1)
			case *ssa.Alloc:
				if p := spilledParam(a); p != nil && len(storesTo(a)) == 1 && !capturedAndWritten(a) {
					return true
				}
			}
		}
	case *ssa.Field:
		return pureValue(x.X, d+1)
	case *ssa.BinOp:
		return pureValue(x.X, d+1) && pureValue(x.Y, d+1)
	case *ssa.Call:
		if b, ok := x.Call.Value.(*ssa.Builtin); ok && b.Name() == "len" {
			return pureValue(x.Call.Args[0], d+1)
		}
		if fn := x.Call.StaticCallee(); fn != nil && GetterField(fn) != nil && len(x.Call.Args) == 1 {
			return pureValue(x.Call.Args[0], d+1)
		}
	}
	return false
}

var infeasibleCache = map[*ssa.Function]EdgeSet{}

// InfeasibleEdges: an edge that contradicts the decision taken on the same
// pure condition at a dominating branch (e.g. `x == nil || (x != nil && ...)`).
func InfeasibleEdges(fn *ssa.Function) EdgeSet {
	if es, ok := infeasibleCache[fn]; ok {
		return es
	}
	out := EdgeSet{}
	type info struct {
		s  string
		ts int
	}
	conds := map[*ssa.BasicBlock]info{}
	for _, b := range fn.Blocks {
		ifi, ok := b.Instrs[len(b.Instrs)-1].(*ssa.If)
		if !ok || !pureValue(ifi.Cond, 0) {
			continue
		}
		s, ts := IfCanon(ifi)
		conds[b] = info{s, ts}
	}
	for b, bi := range conds {
		for d := b.Idom(); d != nil; d = d.Idom() {
			di, ok := conds[d]
			if !ok || di.s != bi.s {
				continue
			}
			for k := 0; k < 2; k++ {
				succ := d.Succs[k]
				if len(succ.Preds) != 1 || !succ.Dominates(b) {
					continue
				}
				val := k == di.ts // value of the condition along this edge
				// edge of b taken when cond == !val is infeasible
				if val {
					out[Edge{b, 1 - bi.ts}] = true
				} else {
					out[Edge{b, bi.ts}] = true
				}
			}
			break
		}
	}
	infeasibleCache[fn] = out
	return out
}

// CondEdges finds the edges taken when a condition with the given canonical
// form has the given value.
func CondEdges(fn *ssa.Function, c Cond) []Edge {
	want, sense := NormCond(c.Canon, c.Sense)
	var out []Edge
	for _, b := range fn.Blocks {
		ifi, ok := b.Instrs[len(b.Instrs)-1].(*ssa.If)
		if !ok {
			continue
		}
		s, ts := IfCanon(ifi)
		if !MatchCond(want, s) {
			continue
		}
		if sense {
			out = append(out, Edge{b, ts})
		} else {
			out = append(out, Edge{b, 1 - ts})
		}
	}
	return out
}

// MustPass is the frozen table of success-exit guards that every path from the function's entry has to pass
// (rules/mustpass.txt: property, function, rejecting sense, canonical condition). Guard arms Opt.Entry for them.
var MustPass = map[string]bool{}

type Opt struct {
	Unless []Cond // alternative acceptance edges (cut in both K1 and K2)
	UsePtr bool   // a nil pointer-like result counts as "bad"
	Min    int    // floor on matched call sites (default 1)
	K1Only bool
	Rule   string
	// Arg, when set, restricts matched call sites to those whose canonical
	// argument list contains this substring (distinguishes several calls of one callee).
	Arg string
	// AllowUnchecked: results that are never branched on are not a violation
	// (used when the call is matched only as a K2 waypoint).
	Waypoint bool
	// IgnoreBool: the callee's boolean result is data (e.g. "is confirmed"), not a verdict.
	IgnoreBool bool
	// Under: (Guard only) consider only branches that sit under all these decisions.
	Under []Cond
	// From: (Guard only) callee spec; additionally every path from a call of it to the target must take the
	// non-rejecting edge of the guard (the guard cannot be by-passed or moved under another decision).
	From string
	// Entry: (Guard only) additionally every path from the function's entry to the target takes the non-rejecting
	// edge of the guard: the target cannot be reached before the guard or around it (an early acceptance).
	Entry bool
}

func (c *Ctx) unlessEdges(fn *ssa.Function, fnName string, conds []Cond) EdgeSet {
	cut := EdgeSet{}
	for _, u := range conds {
		es := CondEdges(fn, u)
		if len(es) == 0 {
			c.Fail("anchor", fnName, "alternative-acceptance condition `"+u.Canon+"` present", "-", "the exemption names a branch that no longer exists; the exemption table must be re-confirmed")
		}
		for _, e := range es {
			cut[e] = true
		}
	}
	return cut
}

func callArgsCanon(ci ssa.CallInstruction) string {
	var parts []string
	cc := ci.Common()
	if cc.IsInvoke() {
		parts = append(parts, Canon(cc.Value))
	}
	for _, a := range cc.Args {
		parts = append(parts, Canon(a))
	}
	return strings.Join(parts, ",")
}

// Gate checks, for calls in fn matching spec:
//
//	K1  from the bad edge of every test of the call's results the target is
//	    unreachable; a verdict that is never tested nor propagated is a violation;
//	K2  with the good edges of all tests removed the target is unreachable from
//	    the entry (every path to the target passes the check).
func (c *Ctx) Gate(fn *ssa.Function, spec string, tgt Target, opt Opt) {
	if fn == nil {
		return
	}
	fnName := load.QualName(fn)
	rule := opt.Rule
	var sites []ssa.CallInstruction
	for _, ci := range CallsIn(fn, spec) {
		if opt.Arg != "" && !strings.Contains(callArgsCanon(ci), opt.Arg) {
			continue
		}
		sites = append(sites, ci)
	}
	min := opt.Min
	if min == 0 {
		min = 1
	}
	what := spec
	if opt.Arg != "" {
		what += "(" + opt.Arg + ")"
	}
	if len(sites) < min {
		c.Fail("floor", fnName, fmt.Sprintf("call of %s present (>= %d)", what, min), "-", fmt.Sprintf("found %d call site(s); the check this rule is anchored on is gone", len(sites)))
		if len(sites) == 0 {
			return
		}
	}
	c.Sites += len(sites)
	cut := union(c.unlessEdges(fn, fnName, opt.Unless), InfeasibleEdges(fn))
	back := EdgeSet{}
	if tgt.SameIter {
		back = BackEdges(fn)
	}
	tins := tgt.instrs(fn)
	if len(tins) == 0 {
		c.Fail("anchor", fnName, "target `"+tgt.Name+"` present", "-", "no instruction matches the target of this rule")
		return
	}
	vs := sigOf(fn.Signature)
	allGood := EdgeSet{}
	for e := range cut {
		allGood[e] = true
	}
	propRets := map[ssa.Instruction]bool{}
	for _, ci := range sites {
		val, ok := ci.(ssa.Value)
		if !ok {
			continue
		}
		r := Results(val)
		tests := r.Tests(fn, opt.UsePtr)
		site := c.At(ci)
		k1 := "K1"
		if rule != "" {
			k1 = rule
		}
		if len(tests) == 0 {
			// propagated?
			prop := false
			for _, ret := range Returns(fn) {
				for _, rv := range ret.Results {
					if r.IsResult(rv) {
						prop = true
						propRets[ret] = true
					}
				}
			}
			if prop {
				c.OK(k1, fnName, "verdict of "+what+" propagated to the caller", site, "returned unchanged")
				// for K2 purposes a propagated verdict gates nothing here
				continue
			}
			if opt.Waypoint {
				continue
			}
			c.Fail(k1, fnName, "verdict of "+what+" obeyed before "+tgt.Name, site, "the result is never branched on nor returned (discarded verdict)")
			continue
		}
		// sufficiency: a (bool, error) callee that can answer (false, nil) must have its boolean looked at
		if len(r.Bool) > 0 && len(r.Err) > 0 && !opt.IgnoreBool {
			boolUsed := false
			for _, t := range tests {
				if condUses(t.If.Cond, r, 'b', 0) {
					boolUsed = true
				}
			}
			for _, ret := range Returns(fn) {
				for _, rv := range ret.Results {
					if r.isRes(rv) == 'b' {
						boolUsed = true
					}
				}
			}
			if !boolUsed && MayReturnFalseNil(ci.Common().StaticCallee(), 0) {
				c.Fail(k1, fnName, "verdict of "+what+" obeyed before "+tgt.Name, site, "only the error is tested, the boolean is discarded, and the callee can answer (false, nil)")
				continue
			}
		}
		und, nbad := 0, 0
		reached := map[*ssa.BasicBlock]bool{}
		for _, t := range tests {
			if !t.Dec {
				und++
				continue
			}
			allGood[t.Good] = true
			if back[t.Bad] {
				continue
			}
			nbad++
			// The bad successor is entered only through the bad edge here; flood.
			// While the tested value is not recomputed, a later branch on the very
			// same value (`if err != nil {..}; ...; if err == nil {target}`) cannot
			// take its good edge: those edges are cut until the flood re-enters the
			// block that defines the value.
			op := testedOperand(t.If.Cond, r, 0)
			extra := EdgeSet{}
			var def *ssa.BasicBlock
			if op != nil {
				if ins, ok := op.(ssa.Instruction); ok {
					def = ins.Block()
				}
			}
			if def != nil {
				for _, t2 := range tests {
					if t2.If != t.If && t2.Dec && testedOperand(t2.If.Cond, r, 0) == op {
						extra[t2.Good] = true
					}
				}
				for i := range def.Succs {
					extra[Edge{def, i}] = true
				}
			}
			ra := ReachFrom([]*ssa.BasicBlock{t.Bad.To()}, union(union(cut, back), extra))
			for b := range ra {
				reached[b] = true
			}
			if def != nil && ra[def] {
				for b := range ReachFrom([]*ssa.BasicBlock{def}, union(cut, back)) {
					reached[b] = true
				}
			}
		}
		if und > 0 && nbad == 0 && len(tests) == und {
			c.Und(k1, fnName, "verdict of "+what+" obeyed before "+tgt.Name, site, "branch polarity on the result could not be decided")
			continue
		}
		var hit []string
		for _, ti := range tins {
			if !reached[ti.Block()] {
				continue
			}
			if tgt.Success {
				if !exitMayBeGood(ti.(*ssa.Return), vs, r, reached) {
					continue
				}
			}
			hit = append(hit, c.At(ti))
		}
		if len(hit) > 0 {
			sort.Strings(hit)
			c.Fail(k1, fnName, "verdict of "+what+" obeyed before "+tgt.Name, site, "bad edge reaches "+tgt.Name+" at "+strings.Join(hit, ", "))
		} else {
			c.OK(k1, fnName, "verdict of "+what+" obeyed before "+tgt.Name, site, fmt.Sprintf("%d test(s); bad edges lead to rejecting exits only", len(tests)))
		}
	}
	if opt.K1Only {
		return
	}
	// K2
	k2 := "K2"
	reached := ReachFrom([]*ssa.BasicBlock{fn.Blocks[0]}, allGood)
	var hit []string
	for _, ti := range tins {
		if reached[ti.Block()] && !propRets[ti] {
			hit = append(hit, c.At(ti))
		}
	}
	if len(hit) > 0 {
		sort.Strings(hit)
		c.Fail(k2, fnName, tgt.Name+" only after "+what+" succeeded", c.At(sites[0]), "target reachable without passing the check: "+strings.Join(uniq(hit), ", "))
	} else {
		c.OK(k2, fnName, tgt.Name+" only after "+what+" succeeded", c.At(sites[0]), fmt.Sprintf("%d target instruction(s), all cut off when the good edges are removed", len(tins)))
	}
}

// testedOperand: the call result (resolved SSA value) a simple branch condition
// compares with a constant, or nil when the condition has another shape.
func testedOperand(v ssa.Value, r *CallRes, depth int) ssa.Value {
	if depth > 4 {
		return nil
	}
	v = Resolve(v)
	if r.isRes(v) != 0 {
		return v
	}
	switch x := v.(type) {
	case *ssa.UnOp:
		if x.Op == token.NOT {
			return testedOperand(x.X, r, depth+1)
		}
	case *ssa.BinOp:
		l, rr := Resolve(x.X), Resolve(x.Y)
		for i := 0; i < 2; i++ {
			if r.isRes(l) != 0 {
				if _, ok := rr.(*ssa.Const); ok {
					return l
				}
			}
			l, rr = rr, l
		}
	}
	return nil
}

// condUses: the condition mentions a result of the given kind.
func condUses(v ssa.Value, r *CallRes, kind byte, depth int) bool {
	if depth > 8 {
		return false
	}
	v = Resolve(v)
	if r.isRes(v) == kind {
		return true
	}
	switch x := v.(type) {
	case *ssa.UnOp:
		return condUses(x.X, r, kind, depth+1)
	case *ssa.BinOp:
		return condUses(x.X, r, kind, depth+1) || condUses(x.Y, r, kind, depth+1)
	}
	return false
}

// ToValue: the instruction computing a value whose canonical form matches glob.
func ToValue(glob string) Target {
	return Target{Name: "value `" + glob + "`", Instr: func(i ssa.Instruction) bool {
		v, ok := i.(ssa.Value)
		if !ok {
			return false
		}
		switch i.(type) {
		case *ssa.BinOp, *ssa.Call:
			return Glob(glob, Canon(v))
		}
		return false
	}}
}

// ToGo: a `go` statement (goroutine launch), within the same loop iteration.
func ToGoSameIter() Target {
	return Target{Name: "goroutine launch", SameIter: true, Instr: func(i ssa.Instruction) bool { _, ok := i.(*ssa.Go); return ok }}
}

func ToValueSameIter(glob string) Target {
	t := ToValue(glob)
	t.SameIter = true
	return t
}

// ReturnIs (K5): the set of canonical forms of result idx over all returns of
// fn equals the expected set.
func (c *Ctx) ReturnIs(fn *ssa.Function, idx int, want []string, why string) {
	if fn == nil {
		return
	}
	fnName := load.QualName(fn)
	got := map[string]ssa.Instruction{}
	for _, ret := range Returns(fn) {
		if idx < len(ret.Results) {
			got[CanonD(ret.Results[idx], 9)] = ret
		}
	}
	c.Sites += len(got)
	// a value merged by a phi and the same values returned from separate exits are one set of returned values:
	// `r := nil; for {if m {r = x; break}}; return r` and `for {if m {return x}}; return nil`
	matched := map[string]bool{} // got entries (or members) accounted for
	matches := func(w, g string) bool {
		for _, alt := range strings.Split(w, " OR ") {
			if MatchCond(alt, g) {
				return true
			}
			for _, m := range phiMembers(alt) {
				if MatchCond(m, g) {
					return true
				}
			}
		}
		return false
	}
	var gotMembers []string
	site := map[string]ssa.Instruction{}
	for g, ins := range got {
		ms := phiMembers(g)
		if len(ms) == 0 {
			ms = []string{g}
		}
		for _, m := range ms {
			gotMembers = append(gotMembers, m)
			site[m] = ins
		}
		site[g] = ins
	}
	sort.Strings(gotMembers)
	for _, w := range want {
		found := false
		// whole value first
		for g, ins := range got {
			for _, alt := range strings.Split(w, " OR ") {
				if MatchCond(alt, g) {
					found = true
					c.OK("K5", fnName, "returns `"+w+"`", c.At(ins), why)
					matched[g] = true
					for _, m := range phiMembers(g) {
						matched[m] = true
					}
				}
			}
			if found {
				break
			}
		}
		if !found {
			// member-wise: some alternative has every member returned somewhere
			for _, alt := range strings.Split(w, " OR ") {
				ms := phiMembers(alt)
				if len(ms) == 0 {
					ms = []string{alt}
				}
				all := true
				var hits []string
				for _, m := range ms {
					hit := ""
					for _, g := range gotMembers {
						if MatchCond(m, g) {
							hit = g
							break
						}
					}
					if hit == "" {
						all = false
						break
					}
					hits = append(hits, hit)
				}
				if all {
					found = true
					for _, h := range hits {
						matched[h] = true
					}
					c.OK("K5", fnName, "returns `"+w+"`", c.At(site[hits[0]]), why+" (member-wise)")
					break
				}
			}
		}
		if !found {
			c.Fail("K5", fnName, "returns `"+w+"`", "-", "no return computes this value ("+why+")")
		}
	}
	for _, g := range gotMembers {
		if matched[g] {
			continue
		}
		ok := false
		for _, w := range want {
			if matches(w, g) {
				ok = true
			}
		}
		if !ok {
			c.Fail("K5", fnName, "returns only the listed values", c.At(site[g]), "unexpected return value `"+short(g, 200)+"` ("+why+")")
		}
	}
}

// phiMembers: the members of a top-level canonical phi set `phi{a|b|c}`; nil for anything else.
func phiMembers(s string) []string {
	if !strings.HasPrefix(s, "phi{") || !strings.HasSuffix(s, "}") {
		return nil
	}
	body := s[4 : len(s)-1]
	var out []string
	depth, start := 0, 0
	for i := 0; i < len(body); i++ {
		switch body[i] {
		case '(', '{', '[':
			depth++
		case ')', '}', ']':
			depth--
			if depth < 0 {
				return nil // the closing brace belongs to an inner phi: not a single top-level set
			}
		case '|':
			if depth == 0 {
				out = append(out, body[start:i])
				start = i + 1
			}
		}
	}
	out = append(out, body[start:])
	return out
}

func uniq(s []string) []string {
	sort.Strings(s)
	out := s[:0]
	for i, a := range s {
		if i == 0 || a != s[i-1] {
			out = append(out, a)
		}
	}
	return out
}

// Guard (K5): a branch whose canonical condition equals cond.Canon exists, and
// the edge taken when it evaluates to cond.Sense cannot reach the target
// (cond.Sense is the rejecting value).
func (c *Ctx) Guard(fn *ssa.Function, cond Cond, tgt Target, opt Opt) bool {
	if fn == nil {
		return false
	}
	fnName := load.QualName(fn)
	what := "guard `" + cond.Canon + "`=" + fmt.Sprint(cond.Sense) + " rejects (" + tgt.Name + ")"
	edges := CondEdges(fn, cond)
	if len(edges) == 0 && tgt.Success {
		// the decision may be returned as the verdict itself (`return a.Cmp(b) != 1`): such an exit
		// answers true exactly when the condition does not have its rejecting value
		want, sense := NormCond(cond.Canon, cond.Sense)
		vs := sigOf(fn.Signature)
		if vs.boolIdx >= 0 {
			for _, ret := range Returns(fn) {
				if vs.boolIdx >= len(ret.Results) {
					continue
				}
				rv := Resolve(ret.Results[vs.boolIdx])
				if _, isConst := rv.(*ssa.Const); isConst {
					continue
				}
				s, pos := condCanon(rv)
				// the returned value is (s == pos); it must be false when (want == sense)
				if MatchCond(want, s) && pos != sense {
					c.Sites++
					c.OK("K5", fnName, what, c.At(ret), "the verdict returned is the negation of the rejecting condition")
					if opt.Entry || (len(opt.Under) == 0 && opt.From == "" && len(opt.Unless) == 0 && MustPass[c.Prop+"\t"+fnName+"\t"+fmt.Sprint(cond.Sense)+"\t"+cond.Canon]) {
						// must-pass form: the exit that returns the decision plays the accepting edge; no OTHER exit that
						// may answer `good` is reachable from the entry (unless over an alternative edge)
						if c.MustPassUsed == nil {
							c.MustPassUsed = map[string]bool{}
						}
						c.MustPassUsed[c.Prop+"\t"+fnName+"\t"+fmt.Sprint(cond.Sense)+"\t"+cond.Canon] = true
						cut := union(c.unlessEdges(fn, fnName, opt.Unless), InfeasibleEdges(fn))
						reached := ReachFrom([]*ssa.BasicBlock{fn.Blocks[0]}, cut)
						var hit []string
						for _, other := range Returns(fn) {
							if other == ret || !reached[other.Block()] || !exitMayBeGood(other, vs, nil, reached) {
								continue
							}
							hit = append(hit, c.At(other))
						}
						what2 := tgt.Name + " only through guard `" + cond.Canon + "`=" + fmt.Sprint(!cond.Sense) + " (from entry)"
						if len(hit) > 0 {
							c.Fail("K2", fnName, what2, hit[0], "another exit may answer good without the decision: "+strings.Join(uniq(hit), ", "))
							return false
						}
						c.OK("K2", fnName, what2, "-", "the only exit that may answer good returns the decision itself")
					}
					return true
				}
			}
		}
	}
	if len(edges) == 0 {
		c.Fail("K5", fnName, what, "-", "no branch with this operator and operand provenance exists (check deleted, operator or operand changed)")
		return false
	}
	c.Sites += len(edges)
	cut := union(c.unlessEdges(fn, fnName, opt.Unless), InfeasibleEdges(fn))
	if tgt.SameIter {
		cut = union(cut, BackEdges(fn))
	}
	tins := tgt.instrs(fn)
	if len(tins) == 0 {
		c.Fail("anchor", fnName, "target `"+tgt.Name+"` present", "-", "no instruction matches the target of this rule")
		return false
	}
	vs := sigOf(fn.Signature)
	ok := true
	for _, e := range edges {
		skip := false
		for _, u := range opt.Under {
			if !HasGuard(e.From, u) {
				skip = true
			}
		}
		if skip {
			continue
		}
		reached := ReachFrom([]*ssa.BasicBlock{e.To()}, cut)
		if tgt.SameIter && BackEdges(fn)[e] {
			reached = map[*ssa.BasicBlock]bool{} // the rejecting edge is itself the jump to the next iteration
		}
		// the successor may have other predecessors (shared error block): fine,
		// we only ask where this edge can lead.
		var hit []string
		for _, ti := range tins {
			if !reached[ti.Block()] {
				continue
			}
			if tgt.Success && !exitMayBeGood(ti.(*ssa.Return), vs, nil, reached) {
				continue
			}
			hit = append(hit, c.At(ti))
		}
		site := c.At(e.From.Instrs[len(e.From.Instrs)-1])
		if len(hit) > 0 {
			ok = false
			c.Fail("K5", fnName, what, site, "rejecting edge reaches "+tgt.Name+" at "+strings.Join(uniq(hit), ", "))
		} else {
			c.OK("K5", fnName, what, site, "rejecting edge leads to failure exits only")
		}
	}
	if tgt.Success && len(opt.Unless) == 0 && len(opt.Under) == 0 && opt.From == "" {
		// XVC_ENTRY_ALL: authoring aid that lists which guards hold from entry today (candidates for the table)
		if os.Getenv("XVC_ENTRY_ALL") != "" || MustPass[c.Prop+"\t"+fnName+"\t"+fmt.Sprint(cond.Sense)+"\t"+cond.Canon] {
			opt.Entry = true
			if c.MustPassUsed == nil {
				c.MustPassUsed = map[string]bool{}
			}
			c.MustPassUsed[c.Prop+"\t"+fnName+"\t"+fmt.Sprint(cond.Sense)+"\t"+cond.Canon] = true
		}
	}
	if opt.Entry {
		what2 := tgt.Name + " only through guard `" + cond.Canon + "`=" + fmt.Sprint(!cond.Sense) + " (from entry)"
		pass := union(EdgeSet{}, cut)
		for _, e := range CondEdges(fn, Cond{Canon: cond.Canon, Sense: !cond.Sense}) {
			pass[e] = true
		}
		reached := ReachFrom([]*ssa.BasicBlock{fn.Blocks[0]}, pass)
		var hit []string
		for _, ti := range tins {
			if !reached[ti.Block()] {
				continue
			}
			if tgt.Success && !exitMayBeGood(ti.(*ssa.Return), vs, nil, reached) {
				continue
			}
			hit = append(hit, c.At(ti))
		}
		if len(hit) > 0 {
			ok = false
			c.Fail("K2", fnName, what2, hit[0], "reachable without taking the guard's accepting edge: "+strings.Join(uniq(hit), ", "))
		} else {
			c.OK("K2", fnName, what2, "-", "every path from entry to the target takes the accepting edge")
		}
	}
	if opt.From != "" {
		what2 := "from " + opt.From + ", " + tgt.Name + " only through guard `" + cond.Canon + "`=" + fmt.Sprint(!cond.Sense)
		calls := CallsIn(fn, opt.From)
		if len(calls) == 0 {
			c.Fail("anchor", fnName, what2, "-", "no call of "+opt.From)
			return false
		}
		pass := union(EdgeSet{}, cut)
		for _, e := range CondEdges(fn, Cond{Canon: cond.Canon, Sense: !cond.Sense}) {
			pass[e] = true
		}
		for _, ci := range calls {
			var starts []*ssa.BasicBlock
			for i, sb := range ci.Block().Succs {
				if !pass[Edge{ci.Block(), i}] {
					starts = append(starts, sb)
				}
			}
			reached := ReachFrom(starts, pass)
			var hit []string
			for _, ti := range tins {
				if ti.Block() == ci.Block() && instrIndex(ti) > instrIndex(ci) {
					hit = append(hit, c.At(ti))
					continue
				}
				if !reached[ti.Block()] {
					continue
				}
				if tgt.Success && !exitMayBeGood(ti.(*ssa.Return), vs, nil, reached) {
					continue
				}
				hit = append(hit, c.At(ti))
			}
			if len(hit) > 0 {
				ok = false
				c.Fail("K2", fnName, what2, c.At(ci), "reachable without taking the guard's accepting edge: "+strings.Join(uniq(hit), ", "))
			} else {
				c.OK("K2", fnName, what2, c.At(ci), "every path to the target takes the accepting edge")
			}
		}
	}
	return ok
}

// Dominated (K2): every instruction matching tgt is only reachable through
// one of the given condition edges.
func (c *Ctx) OnlyUnder(fn *ssa.Function, tgt Target, conds []Cond, why string) {
	if fn == nil {
		return
	}
	fnName := load.QualName(fn)
	what := tgt.Name + " only under " + condsString(conds)
	cut := union(EdgeSet{}, InfeasibleEdges(fn))
	for _, cd := range conds {
		es := CondEdges(fn, cd)
		if len(es) == 0 {
			c.Fail("K2", fnName, what, "-", "condition `"+cd.Canon+"` not found")
			return
		}
		for _, e := range es {
			cut[e] = true
		}
	}
	tins := tgt.instrs(fn)
	if len(tins) == 0 {
		c.Fail("anchor", fnName, "target `"+tgt.Name+"` present", "-", "no instruction matches the target of this rule")
		return
	}
	c.Sites += len(tins)
	reached := ReachFrom([]*ssa.BasicBlock{fn.Blocks[0]}, cut)
	var hit []string
	for _, ti := range tins {
		if reached[ti.Block()] {
			hit = append(hit, c.At(ti))
		}
	}
	if len(hit) > 0 {
		c.Fail("K2", fnName, what, hit[0], "reachable without taking the guarding edge: "+strings.Join(uniq(hit), ", ")+" ("+why+")")
	} else {
		c.OK("K2", fnName, what, c.At(tins[0]), fmt.Sprintf("%d site(s); %s", len(tins), why))
	}
}

func condsString(cs []Cond) string {
	var s []string
	for _, c := range cs {
		s = append(s, fmt.Sprintf("`%s`=%v", c.Canon, c.Sense))
	}
	return strings.Join(s, " or ")
}

// Before (K2 ordering): every path from entry to an instruction matching
// `later` passes an instruction matching `earlier` first.
func (c *Ctx) Before(fn *ssa.Function, earlier, later Target, why string, unless ...Cond) {
	if fn == nil {
		return
	}
	cutE := union(EdgeSet{}, InfeasibleEdges(fn))
	for _, u := range unless {
		for _, e := range CondEdges(fn, u) {
			cutE[e] = true
		}
	}
	fnName := load.QualName(fn)
	what := earlier.Name + " precedes " + later.Name
	eins := earlier.instrs(fn)
	lins := later.instrs(fn)
	if len(eins) == 0 || len(lins) == 0 {
		c.Fail("anchor", fnName, what, "-", fmt.Sprintf("matched %d earlier / %d later instruction(s)", len(eins), len(lins)))
		return
	}
	c.Sites += len(eins) + len(lins)
	// blocks containing an earlier instruction stop the flood; within a block
	// compare indices.
	stop := map[*ssa.BasicBlock]int{}
	for _, e := range eins {
		i := instrIndex(e)
		if j, ok := stop[e.Block()]; !ok || i < j {
			stop[e.Block()] = i
		}
	}
	seen := map[*ssa.BasicBlock]bool{}
	var bad []string
	var dfs func(b *ssa.BasicBlock)
	dfs = func(b *ssa.BasicBlock) {
		if seen[b] {
			return
		}
		seen[b] = true
		lim := len(b.Instrs)
		if i, ok := stop[b]; ok {
			lim = i
		}
		for _, l := range lins {
			if l.Block() == b && instrIndex(l) < lim {
				bad = append(bad, c.At(l))
			}
		}
		if _, ok := stop[b]; ok {
			return
		}
		for i, s := range b.Succs {
			if cutE[Edge{b, i}] {
				continue
			}
			dfs(s)
		}
	}
	dfs(fn.Blocks[0])
	if len(bad) > 0 {
		c.Fail("K2", fnName, what, bad[0], "reachable without passing "+earlier.Name+": "+strings.Join(uniq(bad), ", ")+" ("+why+")")
	} else {
		c.OK("K2", fnName, what, c.At(lins[0]), why)
	}
}

// GuardDump lists every branch of fn with its canonical condition and where
// each edge can lead (used to author and review the frozen tables).
func GuardDump(c *Ctx, fn *ssa.Function) []string {
	var out []string
	vs := sigOf(fn.Signature)
	rets := Returns(fn)
	for _, b := range fn.Blocks {
		ifi, ok := b.Instrs[len(b.Instrs)-1].(*ssa.If)
		if !ok {
			continue
		}
		s, ts := IfCanon(ifi)
		desc := func(e Edge) string {
			reached := ReachFrom([]*ssa.BasicBlock{e.To()}, nil)
			good, badn := 0, 0
			for _, r := range rets {
				if !reached[r.Block()] {
					continue
				}
				if exitMayBeGood(r, vs, nil, reached) {
					good++
				} else {
					badn++
				}
			}
			if good == 0 {
				return fmt.Sprintf("REJECT(%d)", badn)
			}
			return fmt.Sprintf("cont(ok=%d,rej=%d)", good, badn)
		}
		out = append(out, fmt.Sprintf("%s  %-60s  true->%s false->%s", c.At(ifi), s, desc(Edge{b, ts}), desc(Edge{b, 1 - ts})))
	}
	return out
}

// VerdictSweep (K1): every call in the module to a callee matching spec has its
// boolean result looked at (tested by a branch or returned to the caller);
// discarding it, or testing only the error of a callee that can answer
// (false, nil), is a violation. Returns the number of call sites.
func (c *Ctx) VerdictSweep(spec string, skip map[string]string) int {
	n := 0
	for _, fn := range c.P.AllFns {
		for _, ci := range CallsIn(fn, spec) {
			val, ok := ci.(ssa.Value)
			if !ok {
				continue
			}
			n++
			c.Sites++
			name := load.QualName(fn)
			what := "boolean verdict of " + Callee(ci.Common()).Name + " is looked at"
			if why, ok := skip[load.QualName(Top(fn))]; ok {
				c.OK("K1", name, what, c.At(ci), "exempt: "+why)
				continue
			}
			r := Results(val)
			used := false
			for _, t := range r.Tests(fn, false) {
				if condUses(t.If.Cond, r, 'b', 0) {
					used = true
				}
			}
			for _, ret := range Returns(fn) {
				for _, rv := range ret.Results {
					if r.isRes(rv) == 'b' {
						used = true
					}
				}
			}
			// stored into a variable/field that is read later (e.g. passed on): accept when any non-extract referrer exists
			if !used {
				for bv := range r.Bool {
					if refs := bv.Referrers(); refs != nil {
						for _, x := range *refs {
							switch x.(type) {
							case *ssa.Store, *ssa.Phi, ssa.CallInstruction, *ssa.MakeInterface:
								used = true
							}
						}
					}
				}
			}
			if used {
				c.OK("K1", name, what, c.At(ci), "")
			} else {
				c.Fail("K1", name, what, c.At(ci), "the boolean is discarded: a well-formed but wrong signature/key answers (false, nil)")
			}
		}
	}
	return n
}

// NeverAfter (K2): no CFG path leads from an instruction matching `first` to one
// matching `then` (e.g. dependants are never rolled back after the transaction itself).
func (c *Ctx) NeverAfter(fn *ssa.Function, first, then Target, why string) {
	if fn == nil {
		return
	}
	fnName := load.QualName(fn)
	what := then.Name + " never after " + first.Name
	fins, tins := first.instrs(fn), then.instrs(fn)
	if len(fins) == 0 || len(tins) == 0 {
		c.Fail("anchor", fnName, what, "-", fmt.Sprintf("matched %d / %d instruction(s)", len(fins), len(tins)))
		return
	}
	c.Sites += len(fins) + len(tins)
	cut := InfeasibleEdges(fn)
	var bad []string
	for _, f := range fins {
		var starts []*ssa.BasicBlock
		for i, s := range f.Block().Succs {
			if !cut[Edge{f.Block(), i}] {
				starts = append(starts, s)
			}
		}
		reached := ReachFrom(starts, cut)
		for _, t := range tins {
			if (t.Block() == f.Block() && instrIndex(t) > instrIndex(f)) || reached[t.Block()] {
				bad = append(bad, c.At(t))
			}
		}
	}
	if len(bad) > 0 {
		c.Fail("K2", fnName, what, bad[0], "reachable after "+first.Name+": "+strings.Join(uniq(bad), ", ")+" ("+why+")")
	} else {
		c.OK("K2", fnName, what, c.At(tins[0]), why)
	}
}

// ResultSweep (K1, thorough tier): every call in the module to a callee
// matching spec has its verdict (boolean and/or error result) looked at: tested
// by a branch, returned to the caller, or handed on (stored, passed, merged).
// A call statement whose results are all dropped, `_ =`-style extraction of the
// verdict only into nothing, or a `go`/`defer` of a verdict-bearing callee is a
// discarded verdict. skip: enclosing function -> reason (frozen exemptions).
func (c *Ctx) ResultSweep(spec string, skip map[string]string) int {
	n := 0
	for _, fn := range c.P.AllFns {
		for _, ci := range CallsIn(fn, spec) {
			sig := ci.Common().Signature()
			hasVerdict := false
			for i := 0; i < sig.Results().Len(); i++ {
				t := sig.Results().At(i).Type()
				if isErrorType(t) {
					hasVerdict = true
				}
				if b, ok := t.Underlying().(*types.Basic); ok && b.Kind() == types.Bool {
					hasVerdict = true
				}
			}
			if !hasVerdict {
				continue
			}
			n++
			c.Sites++
			name := load.QualName(fn)
			cal := Callee(ci.Common())
			what := "verdict of " + strings.TrimPrefix(cal.Recv+"."+cal.Name, ".") + " is looked at"
			if why, ok := skip[load.QualName(Top(fn))+"|"+cal.Name]; ok {
				c.OK("K1s", name, what, c.At(ci), "exempt: "+why)
				continue
			}
			val, ok := ci.(ssa.Value)
			if !ok { // go / defer
				c.Fail("K1s", name, what, c.At(ci), "the call is deferred or spawned: its verdict cannot be observed")
				continue
			}
			r := Results(val)
			used := map[byte]bool{}
			for _, t := range r.Tests(fn, false) {
				for _, k := range []byte{'b', 'e'} {
					if condUses(t.If.Cond, r, k, 0) {
						used[k] = true
					}
				}
			}
			for _, ret := range Returns(fn) {
				for _, rv := range ret.Results {
					if k := r.isRes(rv); k != 0 {
						used[k] = true
					}
				}
			}
			handed := func(m map[ssa.Value]bool, k byte) {
				for v := range m {
					if refs := v.Referrers(); refs != nil {
						for _, x := range *refs {
							switch x.(type) {
							case *ssa.Store, *ssa.Phi, ssa.CallInstruction, *ssa.MakeInterface, *ssa.BinOp, *ssa.UnOp, *ssa.MakeClosure, *ssa.ChangeInterface, *ssa.TypeAssert, *ssa.Send:
								used[k] = true
							}
						}
					}
				}
			}
			handed(r.Bool, 'b')
			handed(r.Err, 'e')
			var missing []string
			if hasErr(sig) && (len(r.Err) == 0 || !used['e']) {
				// a (bool, error) callee that never answers (true, non-nil) is fully judged by its boolean
				if !(hasBool(sig) && used['b'] && ci.Common().StaticCallee() != nil && !MayReturnTrueErr(ci.Common().StaticCallee(), 0)) {
					missing = append(missing, "error")
				}
			}
			if hasBool(sig) && (len(r.Bool) == 0 || !used['b']) {
				// a (bool, error) callee whose boolean is redundant with the error is accepted
				if !(hasErr(sig) && !MayReturnFalseNil(ci.Common().StaticCallee(), 0) && ci.Common().StaticCallee() != nil) {
					missing = append(missing, "boolean")
				}
			}
			if len(missing) == 0 {
				c.OK("K1s", name, what, c.At(ci), "")
			} else {
				c.Fail("K1s", name, what, c.At(ci), "discarded: "+strings.Join(missing, ", ")+" result is neither tested, returned nor handed on")
			}
		}
	}
	return n
}

func hasErr(sig *types.Signature) bool {
	for i := 0; i < sig.Results().Len(); i++ {
		if isErrorType(sig.Results().At(i).Type()) {
			return true
		}
	}
	return false
}

func hasBool(sig *types.Signature) bool {
	for i := 0; i < sig.Results().Len(); i++ {
		if b, ok := sig.Results().At(i).Type().Underlying().(*types.Basic); ok && b.Kind() == types.Bool {
			return true
		}
	}
	return false
}

// Then (K2): from every instruction matching `from`, every path to an instruction
// matching `to` passes one matching `must`, unless it takes one of the `unless`
// edges (e.g. once the highest marker was moved, no exit is reached without the
// dependent marker being re-derived, unless the ancestor does not exist).
func (c *Ctx) Then(fn *ssa.Function, from, must, to Target, unless []Cond, why string) {
	if fn == nil {
		return
	}
	fnName := load.QualName(fn)
	what := "after " + from.Name + ", " + to.Name + " only through " + must.Name
	if len(unless) > 0 {
		what += " unless " + condsString(unless)
	}
	fins, mins, tins := from.instrs(fn), must.instrs(fn), to.instrs(fn)
	if len(fins) == 0 || len(mins) == 0 || len(tins) == 0 {
		c.Fail("anchor", fnName, what, "-", fmt.Sprintf("matched %d / %d / %d instruction(s)", len(fins), len(mins), len(tins)))
		return
	}
	cut := union(c.unlessEdges(fn, fnName, unless), InfeasibleEdges(fn))
	mustAt := map[*ssa.BasicBlock]int{}
	for _, m := range mins {
		if i, ok := mustAt[m.Block()]; !ok || instrIndex(m) < i {
			mustAt[m.Block()] = instrIndex(m)
		}
	}
	for _, f := range fins {
		c.Sites++
		var bad []string
		seen := map[*ssa.BasicBlock]bool{}
		var walk func(b *ssa.BasicBlock, start int)
		walk = func(b *ssa.BasicBlock, start int) {
			lim := len(b.Instrs)
			stop := false
			if i, ok := mustAt[b]; ok && i >= start {
				lim, stop = i, true
			}
			for _, t := range tins {
				if t.Block() == b && instrIndex(t) >= start && instrIndex(t) < lim {
					bad = append(bad, c.At(t))
				}
			}
			if stop {
				return
			}
			for i, s := range b.Succs {
				if cut[Edge{b, i}] || seen[s] {
					continue
				}
				seen[s] = true
				walk(s, 0)
			}
		}
		walk(f.Block(), instrIndex(f)+1)
		if len(bad) > 0 {
			c.Fail("K2", fnName, what, c.At(f), "reached without it: "+strings.Join(uniq(bad), ", ")+" ("+why+")")
		} else {
			c.OK("K2", fnName, what, c.At(f), why)
		}
	}
}

// ToAnyReturn: every return instruction.
func ToAnyReturn() Target {
	return Target{Name: "return", Instr: func(i ssa.Instruction) bool { _, ok := i.(*ssa.Return); return ok }}
}

// TypeField: "Type.Field" of a field address (exported for rule-local targets).
func TypeField(fa *ssa.FieldAddr) string { return typeField(fa) }

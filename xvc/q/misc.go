package q

import (
	"fmt"

	"golang.org/x/tools/go/ssa"

	"xvc/load"
)

// MapDedup (K12): a membership test `m[key]` (or `_, ok := m[key]`) on a map
// exists whose hit edge cannot reach the target, and the same map is updated
// with the same key on the miss path; the map must be allocated outside the
// loop that performs the test (otherwise it forgets what it has seen).
func (c *Ctx) MapDedup(fn *ssa.Function, keyGlob string, tgt Target, what string) bool {
	if fn == nil {
		return false
	}
	fnName := load.QualName(fn)
	ob := "distinctness: " + what
	type hit struct {
		ifi  *ssa.If
		m    ssa.Value
		key  string
		succ int // successor index when the key is present
	}
	var hits []hit
	for _, b := range fn.Blocks {
		ifi, ok := b.Instrs[len(b.Instrs)-1].(*ssa.If)
		if !ok {
			continue
		}
		cond := Resolve(ifi.Cond)
		succ := 0
		for {
			if u, ok := cond.(*ssa.UnOp); ok && u.Op.String() == "!" {
				cond = Resolve(u.X)
				succ = 1 - succ
				continue
			}
			if bo, ok := cond.(*ssa.BinOp); ok {
				// m[k] == true / == false
				if bv, isC := ConstBool(Strip(bo.Y)); isC {
					if (bo.Op.String() == "==") != bv {
						succ = 1 - succ
					}
					cond = Resolve(bo.X)
					continue
				}
			}
			break
		}
		var lk *ssa.Lookup
		switch x := cond.(type) {
		case *ssa.Lookup:
			lk = x
		case *ssa.Extract:
			if l, ok := x.Tuple.(*ssa.Lookup); ok && x.Index == 1 {
				lk = l
			}
		}
		if lk == nil {
			continue
		}
		k := CanonD(lk.Index, 9)
		if !Glob(keyGlob, k) {
			continue
		}
		hits = append(hits, hit{ifi, Resolve(lk.X), k, succ})
	}
	if len(hits) == 0 {
		c.Fail("K12", fnName, ob, "-", "no membership test on a key `"+keyGlob+"` found")
		return false
	}
	okAll := true
	for _, h := range hits {
		c.Sites++
		site := c.At(h.ifi)
		// hit edge must not reach the target
		cut := EdgeSet{}
		if tgt.SameIter {
			cut = BackEdges(fn)
		}
		reached := ReachFrom([]*ssa.BasicBlock{h.ifi.Block().Succs[h.succ]}, cut)
		vs := sigOf(fn.Signature)
		bad := ""
		for _, ti := range tgt.instrs(fn) {
			if !reached[ti.Block()] {
				continue
			}
			if tgt.Success && !exitMayBeGood(ti.(*ssa.Return), vs, nil, reached) {
				continue
			}
			bad = c.At(ti)
		}
		if bad != "" {
			c.Fail("K12", fnName, ob, site, "a repeated key still reaches "+tgt.Name+" at "+bad)
			okAll = false
			continue
		}
		// same map updated with the same key
		upd := false
		for _, b := range fn.Blocks {
			for _, ins := range b.Instrs {
				mu, ok := ins.(*ssa.MapUpdate)
				if !ok || Resolve(mu.Map) != h.m {
					continue
				}
				if CanonD(mu.Key, 9) == h.key {
					upd = true
				}
			}
		}
		if !upd {
			c.Fail("K12", fnName, ob, site, "the tested map is never updated with the tested key")
			okAll = false
			continue
		}
		// the map must not be re-created inside the loop containing the test
		if mm, ok := h.m.(*ssa.MakeMap); ok {
			if inSameLoop(mm.Block(), h.ifi.Block()) {
				c.Fail("K12", fnName, ob, site, "the map is allocated inside the loop that tests it")
				okAll = false
				continue
			}
		}
		c.OK("K12", fnName, ob, site, fmt.Sprintf("key `%s`: hit edge rejects, miss path records the key", short(h.key, 120)))
	}
	return okAll
}

// inSameLoop: every cycle through the test block b passes the allocation
// block a (the map is re-created on each iteration that tests it), or b is in
// no cycle at all.
func inSameLoop(a, b *ssa.BasicBlock) bool {
	cut := EdgeSet{}
	for _, p := range a.Preds {
		for i, s := range p.Succs {
			if s == a {
				cut[Edge{p, i}] = true
			}
		}
	}
	if a == b {
		return true
	}
	r := ReachFrom(b.Succs, cut)
	return !r[b]
}

// ConstArg (K3): every call of spec in the module passes the given constant
// boolean as argument idx.
func (c *Ctx) ConstBoolArg(spec string, idx int, want bool, why string) {
	n := 0
	for _, fn := range c.P.AllFns {
		for _, ci := range CallsIn(fn, spec) {
			n++
			c.Sites++
			args := ci.Common().Args
			name := load.QualName(Top(fn))
			what := fmt.Sprintf("passes constant %v as argument %d of %s", want, idx, spec)
			if idx >= len(args) {
				c.Fail("K3", name, what, c.At(ci), "no such argument")
				continue
			}
			if b, ok := ConstBool(Strip(args[idx])); ok && b == want {
				c.OK("K3", name, what, c.At(ci), why)
			} else {
				c.Fail("K3", name, what, c.At(ci), "argument is `"+Canon(args[idx])+"` ("+why+")")
			}
		}
	}
	if n == 0 {
		c.Fail("floor", spec, "K3: call sites of "+spec, "-", "none found")
	}
}

// StaysInLoop (K2): the edge taken when `skip` holds proceeds to the next
// iteration of the loop whose condition is `loop` (a `continue`), it does not
// leave that loop (a `break` would silently drop the remaining elements).
func (c *Ctx) StaysInLoop(fn *ssa.Function, skip Cond, loop Cond, why string) {
	if fn == nil {
		return
	}
	fnName := load.QualName(fn)
	what := "`" + condStr(skip) + "` skips one element of the loop `" + loop.Canon + "`, not the rest of it"
	les := CondEdges(fn, Cond{Canon: loop.Canon, Sense: true})
	ses := CondEdges(fn, skip)
	if len(les) == 0 || len(ses) == 0 {
		c.Fail("K2", fnName, what, "-", fmt.Sprintf("loop condition matched %d, skip condition matched %d branch(es)", len(les), len(ses)))
		return
	}
	c.Sites += len(ses)
	for _, le := range les {
		header := le.From
		cut := EdgeSet{}
		for e := range BackEdges(fn) {
			if e.To() != header {
				cut[e] = true
			}
		}
		for i := range header.Succs {
			if (Edge{header, i}) != le {
				cut[Edge{header, i}] = true // loop exit
			}
		}
		for _, se := range ses {
			// only skip edges inside this loop
			if !header.Dominates(se.From) {
				continue
			}
			r := ReachFrom([]*ssa.BasicBlock{se.To()}, cut)
			site := c.At(se.From.Instrs[len(se.From.Instrs)-1])
			if r[header] {
				c.OK("K2", fnName, what, site, why)
			} else {
				c.Fail("K2", fnName, what, site, "the skip edge leaves the loop ("+why+")")
			}
		}
	}
}

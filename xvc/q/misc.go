package q

import (
	"fmt"
	"go/token"
	"go/types"
	"sort"
	"strings"

	ssa "xvc/xssa"

	"xvc/load"
)

// MapDedup (K12): a membership test `m[key]` (or `_, ok := m[key]`) on a map
// exists whose hit edge cannot reach the target, and the same map is updated
// with the same key on the miss path; the map must be allocated outside the
// loop that performs the test (otherwise it forgets what it has seen).
// scope (optional): canonical loop conditions of the loops the map must span; an
// allocation inside such a loop (a set that forgets between its iterations) fails.
func (c *Ctx) MapDedup(fn *ssa.Function, keyGlob string, tgt Target, what string, scope ...string) bool {
	if fn == nil {
		return false
	}
	fnName := load.QualName(fn)
	ob := "distinctness: " + what
	type hit struct {
		ifi  *ssa.If
		m    ssa.Value
		key  string
		succ int // successor index when the key is present
	}
	var hits []hit
	for _, b := range fn.Blocks {
		ifi, ok := b.Instrs[len(b.Instrs)-1].(*ssa.If)
		if !ok {
			continue
		}
		cond := Resolve(ifi.Cond)
		succ := 0
		for {
			if u, ok := cond.(*ssa.UnOp); ok && u.Op.String() == "!" {
				cond = Resolve(u.X)
				succ = 1 - succ
				continue
			}
			if bo, ok := cond.(*ssa.BinOp); ok {
				// m[k] == true / == false
				if bv, isC := ConstBool(Strip(bo.Y)); isC {
					if (bo.Op.String() == "==") != bv {
						succ = 1 - succ
					}
					cond = Resolve(bo.X)
					continue
				}
			}
			break
		}
		var lk *ssa.Lookup
		switch x := cond.(type) {
		case *ssa.Lookup:
			lk = x
		case *ssa.Extract:
			if l, ok := x.Tuple.(*ssa.Lookup); ok && x.Index == 1 {
				lk = l
			}
		}
		if lk == nil {
			continue
		}
		k := CanonD(lk.Index, 9)
		if !Glob(keyGlob, k) {
			continue
		}
		hits = append(hits, hit{ifi, Resolve(lk.X), k, succ})
	}
	if len(hits) == 0 {
		c.Fail("K12", fnName, ob, "-", "no membership test on a key `"+keyGlob+"` found")
		return false
	}
	okAll := true
	for _, h := range hits {
		c.Sites++
		site := c.At(h.ifi)
		// hit edge must not reach the target
		cut := EdgeSet{}
		if tgt.SameIter {
			cut = BackEdges(fn)
		}
		reached := ReachFrom([]*ssa.BasicBlock{h.ifi.Block().Succs[h.succ]}, cut)
		if cut[Edge{h.ifi.Block(), h.succ}] {
			reached = map[*ssa.BasicBlock]bool{}
		}
		vs := sigOf(fn.Signature)
		bad := ""
		for _, ti := range tgt.instrs(fn) {
			if !reached[ti.Block()] {
				continue
			}
			if tgt.Success && !exitMayBeGood(ti.(*ssa.Return), vs, nil, reached) {
				continue
			}
			bad = c.At(ti)
		}
		if bad != "" {
			c.Fail("K12", fnName, ob, site, "a repeated key still reaches "+tgt.Name+" at "+bad)
			okAll = false
			continue
		}
		// same map updated with the same key
		upd := false
		for _, b := range fn.Blocks {
			for _, ins := range b.Instrs {
				mu, ok := ins.(*ssa.MapUpdate)
				if !ok || (Resolve(mu.Map) != h.m && Canon(mu.Map) != Canon(h.m)) {
					continue
				}
				if CanonD(mu.Key, 9) == h.key {
					upd = true
				}
			}
		}
		if !upd {
			c.Fail("K12", fnName, ob, site, "the tested map is never updated with the tested key")
			okAll = false
			continue
		}
		// the map must not be re-created inside the loop containing the test
		if mm, ok := h.m.(*ssa.MakeMap); ok {
			if inSameLoop(mm.Block(), h.ifi.Block()) {
				c.Fail("K12", fnName, ob, site, "the map is allocated inside the loop that tests it")
				okAll = false
				continue
			}
		}
		if mm, ok := h.m.(*ssa.MakeMap); ok && len(scope) > 0 {
			bad := ""
			for _, sc := range scope {
				found := false
				for _, hb := range fn.Blocks {
					ifi, ok := hb.Instrs[len(hb.Instrs)-1].(*ssa.If)
					if !ok {
						continue
					}
					if s, _ := IfCanon(ifi); MatchCond(sc, s) {
						found = true
						if hb != mm.Block() && hb.Dominates(mm.Block()) {
							bad = "the set is allocated inside the loop `" + sc + "`: it forgets what earlier iterations recorded"
						}
					}
				}
				if !found {
					bad = "the loop `" + sc + "` the set must span was not found"
				}
			}
			if bad != "" {
				c.Fail("K12", fnName, ob, site, bad)
				okAll = false
				continue
			}
		} else if len(scope) > 0 {
			c.Fail("K12", fnName, ob, site, "the tested set is not a map allocated in this function; its scope cannot be established")
			okAll = false
			continue
		}
		c.OK("K12", fnName, ob, site, fmt.Sprintf("key `%s`: hit edge rejects, miss path records the key", short(h.key, 120)))
	}
	return okAll
}

// inSameLoop: every cycle through the test block b passes the allocation
// block a (the map is re-created on each iteration that tests it), or b is in
// no cycle at all.
func inSameLoop(a, b *ssa.BasicBlock) bool {
	cut := EdgeSet{}
	for _, p := range a.Preds {
		for i, s := range p.Succs {
			if s == a {
				cut[Edge{p, i}] = true
			}
		}
	}
	if a == b {
		return true
	}
	r := ReachFrom(succsNotCut(b, cut), cut)
	return !r[b]
}

// ConstArg (K3): every call of spec in the module passes the given constant
// boolean as argument idx.
func (c *Ctx) ConstBoolArg(spec string, idx int, want bool, why string) {
	n := 0
	for _, fn := range c.P.AllFns {
		for _, ci := range CallsIn(fn, spec) {
			n++
			c.Sites++
			args := ci.Common().Args
			name := load.QualName(Top(fn))
			what := fmt.Sprintf("passes constant %v as argument %d of %s", want, idx, spec)
			if idx >= len(args) {
				c.Fail("K3", name, what, c.At(ci), "no such argument")
				continue
			}
			if b, ok := ConstBool(Strip(args[idx])); ok && b == want {
				c.OK("K3", name, what, c.At(ci), why)
			} else {
				c.Fail("K3", name, what, c.At(ci), "argument is `"+Canon(args[idx])+"` ("+why+")")
			}
		}
	}
	if n == 0 {
		c.Fail("floor", spec, "K3: call sites of "+spec, "-", "none found")
	}
}

// StaysInLoop (K2): the edge taken when `skip` holds proceeds to the next
// iteration of the loop whose condition is `loop` (a `continue`), it does not
// leave that loop (a `break` would silently drop the remaining elements).
func (c *Ctx) StaysInLoop(fn *ssa.Function, skip Cond, loop Cond, why string) {
	if fn == nil {
		return
	}
	fnName := load.QualName(fn)
	what := "`" + condStr(skip) + "` skips one element of the loop `" + loop.Canon + "`, not the rest of it"
	les := CondEdges(fn, Cond{Canon: loop.Canon, Sense: true})
	ses := CondEdges(fn, skip)
	if len(les) == 0 || len(ses) == 0 {
		c.Fail("K2", fnName, what, "-", fmt.Sprintf("loop condition matched %d, skip condition matched %d branch(es)", len(les), len(ses)))
		return
	}
	c.Sites += len(ses)
	for _, le := range les {
		header := le.From
		cut := EdgeSet{}
		for e := range BackEdges(fn) {
			if e.To() != header {
				cut[e] = true
			}
		}
		for i := range header.Succs {
			if (Edge{header, i}) != le {
				cut[Edge{header, i}] = true // loop exit
			}
		}
		for _, se := range ses {
			// only skip edges inside this loop
			if !header.Dominates(se.From) {
				continue
			}
			r := ReachFrom([]*ssa.BasicBlock{se.To()}, cut)
			site := c.At(se.From.Instrs[len(se.From.Instrs)-1])
			if r[header] {
				c.OK("K2", fnName, what, site, why)
			} else {
				c.Fail("K2", fnName, what, site, "the skip edge leaves the loop ("+why+")")
			}
		}
	}
}

// TypeOf looks up a named type of a module package ("<pkg suffix>", "Name").
func (c *Ctx) TypeOf(pkgSuffix, name string) types.Type {
	pk := c.P.ByPath[load.Mod+pkgSuffix]
	if pk == nil || pk.Types == nil {
		c.Fail("anchor", pkgSuffix, "package resolves", "-", "package not loaded")
		return nil
	}
	o := pk.Types.Scope().Lookup(name)
	if o == nil {
		c.Fail("anchor", pkgSuffix+"."+name, "type resolves", "-", "type not found")
		return nil
	}
	return o.Type()
}

// DecisionTable (K13): for every assignment of the given atomic conditions
// (canonical forms), the target call is reachable from the entry only through
// a block that calls one of the verifiers; assignments listed in exempt are
// reported as discharged with the reason.
func (c *Ctx) DecisionTable(fn *ssa.Function, atoms []string, names []string, verifiers, target string, exempt map[string]string, why string, loopCond ...string) {
	if fn == nil {
		return
	}
	fnName := load.QualName(fn)
	starts := []*ssa.BasicBlock{fn.Blocks[0]}
	var header *ssa.BasicBlock
	if len(loopCond) > 0 {
		es := CondEdges(fn, Cond{Canon: loopCond[0], Sense: true})
		if len(es) != 1 {
			c.Fail("anchor", fnName, "K13: loop `"+loopCond[0]+"` present once", "-", fmt.Sprintf("matched %d", len(es)))
			return
		}
		starts = []*ssa.BasicBlock{es[0].To()}
		header = es[0].From
	}
	// resolve atoms to branches
	type br struct {
		b  *ssa.BasicBlock
		ts int
	}
	atomBr := make([][]br, len(atoms))
	for _, b := range fn.Blocks {
		ifi, ok := b.Instrs[len(b.Instrs)-1].(*ssa.If)
		if !ok {
			continue
		}
		s, ts := IfCanon(ifi)
		for i, a := range atoms {
			if MatchCond(a, s) {
				atomBr[i] = append(atomBr[i], br{b, ts})
			}
		}
	}
	for i, a := range atoms {
		if len(atomBr[i]) == 0 {
			c.Fail("anchor", fnName, "K13: dispatch atom `"+a+"` present", "-", "the dispatch no longer branches on this predicate; the decision table must be re-confirmed")
			return
		}
	}
	okRets := map[ssa.Instruction]bool{}
	for _, r := range SuccessExits(fn) {
		okRets[r] = true
	}
	isCall := func(b *ssa.BasicBlock, spec string) ssa.Instruction {
		if spec == "return" {
			if last := b.Instrs[len(b.Instrs)-1]; okRets[last] {
				return last
			}
			return nil
		}
		for _, ins := range b.Instrs {
			if ci, ok := ins.(ssa.CallInstruction); ok && Callee(ci.Common()).Match(spec) {
				return ins
			}
		}
		return nil
	}
	infeasible := InfeasibleEdges(fn)
	for mask := 0; mask < 1<<len(atoms); mask++ {
		var label []string
		cut := union(EdgeSet{}, infeasible)
		for i := range atoms {
			val := mask&(1<<i) != 0
			label = append(label, fmt.Sprintf("%s=%v", names[i], val))
			for _, x := range atomBr[i] {
				// cut the edge that contradicts the assignment
				if val {
					cut[Edge{x.b, 1 - x.ts}] = true
				} else {
					cut[Edge{x.b, x.ts}] = true
				}
			}
		}
		cls := strings.Join(label, ",")
		// flood, stopping at verifier blocks
		seen := map[*ssa.BasicBlock]bool{}
		var hit ssa.Instruction
		var dfs func(b *ssa.BasicBlock)
		dfs = func(b *ssa.BasicBlock) {
			if seen[b] || hit != nil {
				return
			}
			seen[b] = true
			if b == header {
				// the iteration completed without meeting a verifier
				hit = b.Instrs[len(b.Instrs)-1]
				return
			}
			vi := isCall(b, verifiers)
			ti := isCall(b, target)
			if ti != nil && (vi == nil || instrIndex(ti) < instrIndex(vi)) {
				hit = ti
				return
			}
			if vi != nil {
				return
			}
			for i, s := range b.Succs {
				if !cut[Edge{b, i}] {
					dfs(s)
				}
			}
		}
		for _, sb := range starts {
			dfs(sb)
		}
		c.Sites++
		what := "class {" + cls + "} reaches a verifier before " + target
		if hit == nil {
			c.OK("K13", fnName, what, "-", why)
		} else if reason, ok := exempt[cls]; ok {
			c.OK("K13", fnName, what, c.At(hit), "exempt: "+reason)
		} else {
			c.Fail("K13", fnName, what, c.At(hit), "this class of transaction is applied without any verifier ("+why+")")
		}
	}
}

// CondCount (K5): exactly n branches of fn test the given canonical condition.
func (c *Ctx) CondCount(fn *ssa.Function, canon string, n int, why string) {
	if fn == nil {
		return
	}
	es := CondEdges(fn, Cond{Canon: canon, Sense: true})
	c.Sites += len(es)
	site := "-"
	if len(es) > 0 {
		site = c.At(es[0].From.Instrs[len(es[0].From.Instrs)-1])
	}
	c.Check(len(es) == n, "K5", load.QualName(fn), fmt.Sprintf("%d branch(es) decide on `%s`", n, canon), site, fmt.Sprintf("found %d (%s)", len(es), why))
}

// EdgeReturns (K2): every return reachable from the edge taken when cond has
// the given value returns, as result idx, a value whose canonical form matches want.
func (c *Ctx) EdgeReturns(fn *ssa.Function, cond Cond, idx int, want, why string) {
	if fn == nil {
		return
	}
	fnName := load.QualName(fn)
	what := "after `" + condStr(cond) + "` every exit returns `" + want + "`"
	es := CondEdges(fn, cond)
	if len(es) == 0 {
		c.Fail("K2", fnName, what, "-", "condition not found")
		return
	}
	for _, e := range es {
		c.Sites++
		reached := ReachFrom([]*ssa.BasicBlock{e.To()}, BackEdges(fn))
		bad := ""
		for _, r := range Returns(fn) {
			if reached[r.Block()] && idx < len(r.Results) && !globAny(want, Canon(r.Results[idx])) {
				bad = c.At(r) + " returns `" + Canon(r.Results[idx]) + "`"
			}
		}
		site := c.At(e.From.Instrs[len(e.From.Instrs)-1])
		if bad != "" {
			c.Fail("K2", fnName, what, site, bad+" ("+why+")")
		} else {
			c.OK("K2", fnName, what, site, why)
		}
	}
}

// EveryClass (K13): inside the loop(s) whose canonical condition is loopCond and
// that branch on the given atoms, every assignment of the atoms meets a call of
// `must` before the iteration completes (an iteration that ends in a return is a
// rejection and is fine). Unlike a guard-set comparison this is path based, so a
// class skipped through a disjunction or an early `continue` is seen.
func (c *Ctx) EveryClass(fn *ssa.Function, atoms, names []string, must, loopCond, why string) {
	if fn == nil {
		return
	}
	fnName := load.QualName(fn)
	type br struct {
		b  *ssa.BasicBlock
		ts int
	}
	atomBr := make([][]br, len(atoms))
	for _, b := range fn.Blocks {
		ifi, ok := b.Instrs[len(b.Instrs)-1].(*ssa.If)
		if !ok {
			continue
		}
		s, ts := IfCanon(ifi)
		for i, a := range atoms {
			if MatchCond(a, s) {
				atomBr[i] = append(atomBr[i], br{b, ts})
			}
		}
	}
	calls := func(b *ssa.BasicBlock) bool {
		for _, ins := range b.Instrs {
			if ci, ok := ins.(ssa.CallInstruction); ok && Callee(ci.Common()).Match(must) {
				return true
			}
		}
		return false
	}
	infeasible := InfeasibleEdges(fn)
	loops := 0
	for _, he := range CondEdges(fn, Cond{Canon: loopCond, Sense: true}) {
		header, body := he.From, he.To()
		// the blocks of one iteration
		iter := ReachFrom([]*ssa.BasicBlock{body}, EdgeSet{Edge{header, 0}: true, Edge{header, 1}: true})
		hasMust := false
		for b := range iter {
			if calls(b) {
				hasMust = true
			}
		}
		if !hasMust {
			continue
		}
		loops++
		n := 0
		for i := range atoms {
			for _, x := range atomBr[i] {
				if iter[x.b] {
					n++
				}
			}
		}
		for mask := 0; mask < 1<<len(atoms); mask++ {
			var label []string
			cut := union(EdgeSet{}, infeasible)
			for i := range atoms {
				val := mask&(1<<i) != 0
				label = append(label, fmt.Sprintf("%s=%v", names[i], val))
				for _, x := range atomBr[i] {
					if val {
						cut[Edge{x.b, 1 - x.ts}] = true
					} else {
						cut[Edge{x.b, x.ts}] = true
					}
				}
			}
			seen := map[*ssa.BasicBlock]bool{}
			completed := false
			var dfs func(b *ssa.BasicBlock)
			dfs = func(b *ssa.BasicBlock) {
				if seen[b] || completed {
					return
				}
				seen[b] = true
				if b == header {
					completed = true
					return
				}
				if calls(b) {
					return
				}
				for i, s := range b.Succs {
					if !cut[Edge{b, i}] {
						dfs(s)
					}
				}
			}
			dfs(body)
			c.Sites++
			what := "class {" + strings.Join(label, ",") + "} meets " + must + " in every iteration of `" + short(loopCond, 80) + "`"
			if completed {
				c.Fail("K13", fnName, what, c.At(header.Instrs[len(header.Instrs)-1]), "an iteration can complete without it ("+why+")")
			} else {
				c.OK("K13", fnName, what, c.At(header.Instrs[len(header.Instrs)-1]), fmt.Sprintf("%s (%d class branch(es) inside the loop)", why, n))
			}
		}
	}
	if loops == 0 {
		c.Fail("anchor", fnName, "K13: a loop `"+short(loopCond, 80)+"` calling "+must+" is present", "-", "not found")
	}
}

// FullLoop (K2): the level-th loop around the anchor instruction (0 = innermost) is left only through its header
// (the loop condition failing) or towards failure exits - no `break`, no early `return ok`: every element the loop
// ranges over is processed (a path component that is skipped, a signer list that is cut short). The loop is named by
// what it contains, not by the spelling of its condition (index loop, range, range over a sub-slice).
func (c *Ctx) FullLoop(fn *ssa.Function, anchor Target, level int, why string) {
	if fn == nil {
		return
	}
	fnName := load.QualName(fn)
	what := fmt.Sprintf("loop %d around %s is left only when its condition fails (or towards failure exits)", level, anchor.Name)
	ains := anchor.instrs(fn)
	if len(ains) == 0 {
		c.Fail("anchor", fnName, what, "-", "anchor instruction not found")
		return
	}
	vs := sigOf(fn.Signature)
	toB := map[*ssa.BasicBlock]map[*ssa.BasicBlock]bool{}
	reaches := func(from, to *ssa.BasicBlock) bool {
		m, ok := toB[to]
		if !ok {
			m = reachTo(to)
			toB[to] = m
		}
		return from == to || m[from]
	}
	for _, ai := range ains {
		c.Sites++
		ab := ai.Block()
		// loop headers around the anchor: h dominates ab and some back edge t->h has ab reaching t
		hs := map[*ssa.BasicBlock]bool{}
		for e := range BackEdges(fn) {
			h := e.To()
			if h.Dominates(ab) && reaches(ab, e.From) {
				hs[h] = true
			}
		}
		var headers []*ssa.BasicBlock
		for h := range hs {
			headers = append(headers, h)
		}
		// innermost first: a header dominated by another is deeper
		sort.Slice(headers, func(i, j int) bool { return headers[j].Dominates(headers[i]) && headers[i] != headers[j] })
		if level >= len(headers) {
			c.Fail("K2", fnName, what, c.At(ai), fmt.Sprintf("the anchor sits in %d loop(s) only", len(headers)))
			continue
		}
		header := headers[level]
		inLoop := func(b *ssa.BasicBlock) bool {
			if b == header {
				return true
			}
			if !header.Dominates(b) {
				return false
			}
			for e := range BackEdges(fn) {
				if e.To() == header && reaches(b, e.From) {
					return true
				}
			}
			return false
		}
		var bad []string
		for _, b := range fn.Blocks {
			if !inLoop(b) || b == header {
				continue
			}
			for _, sb := range b.Succs {
				if inLoop(sb) {
					continue
				}
				reach := ReachFrom([]*ssa.BasicBlock{sb}, nil)
				for _, ret := range Returns(fn) {
					if reach[ret.Block()] && exitMayBeGood(ret, vs, nil, reach) {
						bad = append(bad, c.At(b.Instrs[len(b.Instrs)-1]))
						break
					}
				}
			}
		}
		site := c.At(header.Instrs[len(header.Instrs)-1])
		if len(bad) > 0 {
			c.Fail("K2", fnName, what, site, "left early at "+strings.Join(uniq(bad), ", ")+" ("+why+")")
		} else {
			c.OK("K2", fnName, what, site, why)
		}
	}
}

// StickyFlag (K12): the effect (call matching spec whose canonical argument idx matches glob) happens only when a
// found-flag is false, and that flag is STICKY: initialised false and only ever set to true (`phi{false|loop|true}`, or
// `phi{false|true}` when the scan breaks at the first hit) - a flag that is re-assigned by every iteration
// (`found = a == b`) remembers only the last element scanned. Where the scan has no flag at all, the edge taken on a
// hit (condition `hit`) must not reach the effect.
func (c *Ctx) StickyFlag(fn *ssa.Function, spec string, idx int, glob string, hit Cond, why string) {
	if fn == nil {
		return
	}
	fnName := load.QualName(fn)
	what := fmt.Sprintf("%s(arg%d~`%s`) happens only while a sticky found-flag is still false", spec, idx, glob)
	n := 0
	for _, e := range EffectsOf(fn, spec) {
		if idx >= len(e.Args) || !Glob(glob, e.Args[idx]) {
			continue
		}
		n++
		c.Sites++
		okFlag, seen := false, ""
		for _, g := range e.Guards {
			if !strings.HasPrefix(g.Canon, "phi{") {
				continue
			}
			seen += " " + condStr(g)
			if !g.Sense && (g.Canon == "phi{false|loop|true}" || g.Canon == "phi{false|true}") {
				okFlag = true
			}
		}
		// or no flag at all: the hit leaves the scan on a path that cannot reach the effect (`return true` of an
		// absorbed predicate, `goto skip`)
		if !okFlag && seen == "" {
			if hes := CondEdges(fn, hit); len(hes) > 0 {
				okFlag = true
				for _, he := range hes {
					if ReachFrom([]*ssa.BasicBlock{he.To()}, nil)[e.Call.Block()] {
						okFlag = false
					}
				}
			}
		}
		if okFlag {
			c.OK("K12", fnName, what, c.At(e.Call), why)
		} else {
			c.Fail("K12", fnName, what, c.At(e.Call), "no sticky flag guards it (flag conditions seen:"+seen+"): "+why)
		}
	}
	if n == 0 {
		c.Fail("floor", fnName, what, "-", "no such effect")
	}
}

// resolveObj: the object a pointer expression denotes, through local variables and fields of locally built structs.
func resolveObj(v ssa.Value) ssa.Value {
	for i := 0; i < 8; i++ {
		v = Resolve(v)
		u, ok := v.(*ssa.UnOp)
		if !ok || u.Op != token.MUL {
			return v
		}
		fa, ok := u.X.(*ssa.FieldAddr)
		if !ok {
			return v
		}
		s := localFieldStore(fa)
		if s == nil {
			return v
		}
		v = s.Val
	}
	return v
}

// LinearChain (K12): within each block of fn, the stores `X.tf = append(X.tf, Y)` link every object X to at most one
// child and the links of a block form one path (child of one link is the parent of the next): a constructor that
// rebuilds a chain root -> ... -> tip must not hang two nodes under one parent or leave a node unlinked.
func (c *Ctx) LinearChain(fn *ssa.Function, tf string, min int, why string) {
	if fn == nil {
		return
	}
	fnName := load.QualName(fn)
	total := 0
	for _, b := range fn.Blocks {
		type link struct {
			base, elem ssa.Value
			at         ssa.Instruction
		}
		var links []link
		for _, ins := range b.Instrs {
			s, ok := ins.(*ssa.Store)
			if !ok {
				continue
			}
			fa, ok := s.Addr.(*ssa.FieldAddr)
			if !ok || typeField(fa) != tf {
				continue
			}
			call, ok := s.Val.(*ssa.Call)
			if !ok {
				continue
			}
			if bi, ok := call.Call.Value.(*ssa.Builtin); !ok || bi.Name() != "append" || len(call.Call.Args) != 2 {
				continue
			}
			sl, ok := call.Call.Args[1].(*ssa.Slice)
			if !ok {
				continue
			}
			al, ok := sl.X.(*ssa.Alloc)
			if !ok {
				continue
			}
			el := arrayElems(al)
			if len(el) != 1 {
				continue
			}
			links = append(links, link{resolveObj(fa.X), resolveObj(el[0]), s})
		}
		if len(links) == 0 {
			continue
		}
		total += len(links)
		c.Sites += len(links)
		same := func(a, b ssa.Value) bool {
			if a == b {
				return true
			}
			_, la := a.(*ssa.UnOp)
			_, lb := b.(*ssa.UnOp)
			return la && lb && CanonD(a, 9) == CanonD(b, 9)
		}
		bad := ""
		for i := range links {
			for j := i + 1; j < len(links); j++ {
				if same(links[i].base, links[j].base) {
					bad = c.At(links[j].at) + ": `" + Canon(links[j].base) + "` gets a second child in the same construction"
				}
				if same(links[i].elem, links[j].elem) {
					bad = c.At(links[j].at) + ": `" + Canon(links[j].elem) + "` is linked under two parents"
				}
			}
		}
		// one path: exactly one link whose parent is nobody's child
		heads := 0
		for i := range links {
			isChild := false
			for j := range links {
				if i != j && same(links[i].base, links[j].elem) {
					isChild = true
				}
			}
			if !isChild {
				heads++
			}
		}
		if bad == "" && heads != 1 {
			bad = c.At(links[0].at) + fmt.Sprintf(": the %d links of this construction form %d separate pieces", len(links), heads)
		}
		what := fmt.Sprintf("the %d %s link(s) built at %s form one linear chain", len(links), tf, c.At(links[0].at))
		if bad != "" {
			c.Fail("K12", fnName, what, c.At(links[0].at), bad+" ("+why+")")
		} else {
			c.OK("K12", fnName, what, c.At(links[0].at), why)
		}
	}
	if total < min {
		c.Fail("floor", fnName, fmt.Sprintf("K12: %s links present (>= %d)", tf, min), "-", fmt.Sprintf("found %d", total))
	}
}

package q

import (
	"fmt"
	"go/types"
	"reflect"
	"sort"
	"strings"

	ssa "xvc/xssa"

	"xvc/load"
)

// Enc is one value handed to a hash/encoder sink, as a canonical path from
// the encoded message, with the decisions under which it is encoded.
type Enc struct {
	Path   string
	Guards []Cond
	Site   ssa.Instruction
}

// EncodedPaths lists the canonical forms of argument argIdx (raw index,
// receiver included) of every call matching sinkSpec in fn; closures defined
// in fn and called from it are expanded with their first parameter bound to
// the call-site argument (one level).
func EncodedPaths(fn *ssa.Function, sinkSpec string, argIdx int) []Enc {
	var out []Enc
	for _, ci := range CallsIn(fn, sinkSpec) {
		args := ci.Common().Args
		if argIdx >= len(args) {
			continue
		}
		out = append(out, Enc{Path: CanonD(args[argIdx], 10), Guards: GuardsOf(ci.Block()), Site: ci})
	}
	for _, anon := range fn.AnonFuncs {
		inner := EncodedPaths(anon, sinkSpec, argIdx)
		if len(inner) == 0 {
			continue
		}
		// call sites of the closure in fn
		for _, b := range fn.Blocks {
			for _, ins := range b.Instrs {
				ci, ok := ins.(ssa.CallInstruction)
				if !ok || ci.Common().StaticCallee() != anon {
					continue
				}
				var bind []string
				for _, a := range ci.Common().Args {
					bind = append(bind, CanonD(a, 10))
				}
				og := GuardsOf(b)
				for _, e := range inner {
					p := e.Path
					for i := len(bind) - 1; i >= 0; i-- {
						p = replaceParam(p, i, bind[i])
					}
					out = append(out, Enc{Path: p, Guards: append(append([]Cond{}, e.Guards...), og...), Site: e.Site})
				}
			}
		}
	}
	return out
}

// RebaseEncs rewrites parameter i of helper encodes to the caller's root.
func RebaseEncs(encs []Enc, i int, with string) []Enc {
	out := make([]Enc, len(encs))
	for k, e := range encs {
		e.Path = replaceParam(e.Path, i, with)
		gs := make([]Cond, len(e.Guards))
		for j, g := range e.Guards {
			gs[j] = Cond{Canon: replaceParam(g.Canon, i, with), Sense: g.Sense}
		}
		e.Guards = gs
		out[k] = e
	}
	return out
}

func replaceParam(s string, i int, with string) string {
	tok := fmt.Sprintf("p%d", i)
	var b strings.Builder
	for j := 0; j < len(s); {
		if strings.HasPrefix(s[j:], tok) {
			prevOK := j == 0 || !isIdent(s[j-1])
			k := j + len(tok)
			nextOK := k >= len(s) || !(s[k] >= '0' && s[k] <= '9')
			if prevOK && nextOK {
				b.WriteString(with)
				j = k
				continue
			}
		}
		b.WriteByte(s[j])
		j++
	}
	return b.String()
}

func isIdent(c byte) bool {
	return c == '_' || (c >= 'a' && c <= 'z') || (c >= 'A' && c <= 'Z') || (c >= '0' && c <= '9')
}

// Leaf is a protobuf leaf field reachable from a message type.
type Leaf struct {
	Path     string   // canonical path, e.g. p0.TxInputs[].RefTxid
	Repeated []string // canonical paths of the repeated fields on the way (need a length prefix)
}

// LeafPaths walks the protobuf-tagged fields of message type t.
func LeafPaths(t types.Type, root string) []Leaf {
	var out []Leaf
	var walk func(t types.Type, path string, rep []string, depth int)
	walk = func(t types.Type, path string, rep []string, depth int) {
		if depth > 6 {
			return
		}
		if p, ok := t.Underlying().(*types.Pointer); ok {
			t = p.Elem()
		}
		st, ok := t.Underlying().(*types.Struct)
		if !ok {
			return
		}
		for i := 0; i < st.NumFields(); i++ {
			f := st.Field(i)
			tag := reflect.StructTag(st.Tag(i))
			if _, ok := tag.Lookup("protobuf"); !ok {
				continue
			}
			fp := path + "." + f.Name()
			ft := f.Type()
			switch u := ft.Underlying().(type) {
			case *types.Pointer:
				walk(ft, fp, rep, depth+1)
			case *types.Slice:
				if b, ok := u.Elem().Underlying().(*types.Basic); ok && b.Kind() == types.Byte {
					out = append(out, Leaf{fp, rep}) // []byte
					continue
				}
				r2 := append(append([]string{}, rep...), fp)
				switch e := u.Elem().Underlying().(type) {
				case *types.Pointer:
					walk(u.Elem(), fp+"[]", r2, depth+1)
				case *types.Slice, *types.Basic:
					_ = e
					out = append(out, Leaf{fp + "[]", r2})
				default:
					out = append(out, Leaf{fp + "[]", r2})
				}
			default:
				out = append(out, Leaf{fp, rep})
			}
		}
	}
	walk(t, root, nil, 0)
	sort.Slice(out, func(i, j int) bool { return out[i].Path < out[j].Path })
	return out
}

// FieldCoverage (K4): every leaf field of the message is handed to the sink
// (directly, or through a whole-message/whole-slice encode of a prefix when
// wholeOK), every repeated field on the way has its length encoded (when
// needLen), excluded[path prefix] gives the reason a field is not covered,
// cond(path) returns the decision an encode of that path must (exactly) sit
// under - nil means unconditional.
type Coverage struct {
	Msg       types.Type
	Root      string
	Sink      string
	ArgIdx    int
	WholeOK   bool
	NeedLen   bool
	Excluded  map[string]string
	CondFor   func(path string) []Cond       // required guards (besides loop conditions)
	AllowCond func(path string, g Cond) bool // extra guards tolerated (e.g. `len(x) > 0` omissions of the v1 encoding)
	Extra     []Enc                          // encodes performed by helper functions, already rewritten to Root
}

func (c *Ctx) FieldCoverage(fn *ssa.Function, cv Coverage) {
	if fn == nil {
		return
	}
	fnName := load.QualName(fn)
	encs := append(EncodedPaths(fn, cv.Sink, cv.ArgIdx), cv.Extra...)
	if len(encs) == 0 {
		c.Fail("floor", fnName, "K4: encoder sink calls present", "-", "no call matching "+cv.Sink)
		return
	}
	c.Sites += len(encs)
	byPath := map[string][]Enc{}
	for _, e := range encs {
		byPath[e.Path] = append(byPath[e.Path], e)
	}
	excl := func(p string) (string, bool) {
		for pre, why := range cv.Excluded {
			if p == pre || strings.HasPrefix(p, pre+".") || strings.HasPrefix(p, pre+"[") {
				return why, true
			}
		}
		return "", false
	}
	isLoop := func(g Cond) bool { return strings.Contains(g.Canon, "#i") || strings.Contains(g.Canon, "more(") }
	checkGuards := func(path string, e Enc) string {
		var req []Cond
		if cv.CondFor != nil {
			req = cv.CondFor(path)
		}
		for _, r := range req {
			if !HasGuardIn(e.Guards, r) {
				return "must be encoded under `" + condStr(r) + "`"
			}
		}
		for _, g := range e.Guards {
			if isLoop(g) {
				continue
			}
			ok := false
			for _, r := range req {
				w, s := NormCond(r.Canon, r.Sense)
				if g.Sense == s && MatchCond(w, g.Canon) {
					ok = true
				}
			}
			if !ok && cv.AllowCond != nil && cv.AllowCond(path, g) {
				ok = true
			}
			if !ok {
				return "is encoded only under `" + condStr(g) + "`"
			}
		}
		return ""
	}
	leaves := LeafPaths(cv.Msg, cv.Root)
	if len(leaves) == 0 {
		c.Fail("anchor", fnName, "K4: message type has protobuf fields", "-", "no tagged fields found")
		return
	}
	lenSeen := map[string]bool{}
	for _, lf := range leaves {
		if why, ok := excl(lf.Path); ok {
			c.OK("K4", fnName, "field "+lf.Path+" excluded from the hash", "-", why)
			continue
		}
		// direct encode, or whole-prefix encode
		var hit *Enc
		if es := byPath[lf.Path]; len(es) > 0 {
			hit = &es[0]
		} else if cv.WholeOK {
			for p, es := range byPath {
				if strings.HasPrefix(lf.Path, p+".") || strings.HasPrefix(lf.Path, p+"[") {
					hit = &es[0]
				}
			}
		}
		if hit == nil {
			c.Fail("K4", fnName, "field "+lf.Path+" is covered by the hash", "-", "no encoder call receives this field: two messages differing only here share a pre-image")
			continue
		}
		if msg := checkGuards(lf.Path, *hit); msg != "" {
			c.Fail("K4", fnName, "field "+lf.Path+" is covered by the hash", c.At(hit.Site), "field "+msg)
			continue
		}
		c.OK("K4", fnName, "field "+lf.Path+" is covered by the hash", c.At(hit.Site), "")
		if cv.NeedLen {
			for _, r := range lf.Repeated {
				if lenSeen[r] {
					continue
				}
				lenSeen[r] = true
				if _, ok := excl(r); ok {
					continue
				}
				if es := byPath["len("+r+")"]; len(es) > 0 {
					if msg := checkGuards(r, es[0]); msg != "" {
						c.Fail("K4", fnName, "length of repeated field "+r+" is covered", c.At(es[0].Site), "length "+msg)
					} else {
						c.OK("K4", fnName, "length of repeated field "+r+" is covered", c.At(es[0].Site), "element boundaries are part of the pre-image")
					}
				} else {
					c.Fail("K4", fnName, "length of repeated field "+r+" is covered", "-", "no length prefix: elements of adjacent lists can be moved across the boundary without changing the pre-image")
				}
			}
		}
	}
}

func HasGuardIn(gs []Cond, want Cond) bool {
	w, sense := NormCond(want.Canon, want.Sense)
	for _, g := range gs {
		if g.Sense == sense && MatchCond(w, g.Canon) {
			return true
		}
	}
	return false
}

// NoMapOrder (K4): no value produced by ranging over a map reaches the sink
// in iteration order (the loop that ranges over a map must not call the sink).
func (c *Ctx) NoMapOrder(fn *ssa.Function, sinkSpec string) {
	if fn == nil {
		return
	}
	for _, f := range WithClosures(fn) {
		fnName := load.QualName(f)
		for _, b := range f.Blocks {
			for _, ins := range b.Instrs {
				rg, ok := ins.(*ssa.Range)
				if !ok {
					continue
				}
				if _, isMap := rg.X.Type().Underlying().(*types.Map); !isMap {
					continue
				}
				c.Sites++
				// loop blocks: reachable from the block holding Next and able to reach it again
				var nextB *ssa.BasicBlock
				if refs := rg.Referrers(); refs != nil {
					for _, r := range *refs {
						if n, ok := r.(*ssa.Next); ok {
							nextB = n.Block()
						}
					}
				}
				if nextB == nil {
					continue
				}
				fwd := ReachFrom(nextB.Succs, nil)
				bwd := reachTo(nextB)
				bad := ""
				for lb := range fwd {
					if !bwd[lb] && lb != nextB {
						continue
					}
					for _, li := range lb.Instrs {
						if ci, ok := li.(ssa.CallInstruction); ok && Callee(ci.Common()).Match(sinkSpec) {
							bad = c.At(ci)
						}
					}
				}
				what := "map `" + Canon(rg.X) + "` is not fed to the hash in iteration order"
				if bad != "" {
					c.Fail("K4", fnName, what, bad, "Go map iteration order is random: the digest would not be a function of the message")
				} else {
					c.OK("K4", fnName, what, c.At(rg), "the loop over the map does not write to the hash")
				}
			}
		}
	}
}

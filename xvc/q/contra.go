package q

import (
	"go/token"
	"go/types"
	"sort"
	"strings"

	ssa "xvc/xssa"

	"xvc/load"
)

// ErrValueTests (contradiction rule, Engler et al.): for a call `v, err := f(...)`, a branch that tests v and is
// reachable ONLY over the `err != nil` edge of the same call tests a value that carries no information there (Go
// callees answer the zero value beside a non-nil error) - typically a conjunction written with the wrong polarity
// (`if err != nil && ok { skip }` never skips). Returns the sites, keyed by enclosing function.
type ErrValueSite struct {
	Fn     *ssa.Function
	Call   *ssa.Call
	Branch *ssa.If
}

func ErrValueTests(p *load.Program, inPkg func(string) bool) []ErrValueSite {
	var out []ErrValueSite
	for _, fn := range p.AllFns {
		if fn.Pkg == nil || (inPkg != nil && !inPkg(fn.Pkg.Pkg.Path())) {
			continue
		}
		for _, b := range fn.Blocks {
			for _, ins := range b.Instrs {
				call, ok := ins.(*ssa.Call)
				if !ok {
					continue
				}
				tup, ok := call.Type().(*types.Tuple)
				if !ok || tup.Len() < 2 || !isErrorType(tup.At(tup.Len()-1).Type()) {
					continue
				}
				var errX *ssa.Extract
				var vals []*ssa.Extract
				if refs := call.Referrers(); refs != nil {
					for _, r := range *refs {
						if e, ok := r.(*ssa.Extract); ok {
							if e.Index == tup.Len()-1 {
								errX = e
							} else {
								vals = append(vals, e)
							}
						}
					}
				}
				if errX == nil || len(vals) == 0 {
					continue
				}
				// edges on which err is known non-nil
				var nonNil []Edge
				for _, bb := range fn.Blocks {
					ifi, ok := bb.Instrs[len(bb.Instrs)-1].(*ssa.If)
					if !ok {
						continue
					}
					bo, ok := Resolve(ifi.Cond).(*ssa.BinOp)
					if !ok {
						continue
					}
					x, y := Resolve(bo.X), Resolve(bo.Y)
					if IsNilConst(x) {
						x, y = y, x
					}
					if !IsNilConst(y) || x != ssa.Value(errX) {
						continue
					}
					switch bo.Op {
					case token.NEQ:
						nonNil = append(nonNil, Edge{bb, 0})
					case token.EQL:
						nonNil = append(nonNil, Edge{bb, 1})
					}
				}
				if len(nonNil) == 0 {
					continue
				}
				cut := EdgeSet{}
				for _, e := range nonNil {
					cut[e] = true
				}
				// blocks reachable from the call without taking a non-nil edge
				reach := ReachFrom(succsNotCut(call.Block(), cut), cut)
				reach[call.Block()] = true
				for _, v := range vals {
					for _, bb := range fn.Blocks {
						ifi, ok := bb.Instrs[len(bb.Instrs)-1].(*ssa.If)
						if !ok || reach[bb] {
							continue
						}
						if condTests(ifi.Cond, v, 0) {
							out = append(out, ErrValueSite{fn, call, ifi})
						}
					}
				}
			}
		}
	}
	sort.Slice(out, func(i, j int) bool {
		a, b := out[i], out[j]
		if load.QualName(a.Fn) != load.QualName(b.Fn) {
			return load.QualName(a.Fn) < load.QualName(b.Fn)
		}
		return a.Branch.Block().Index < b.Branch.Block().Index
	})
	return out
}

// condTests: the condition is v itself, its negation, or a comparison of v with a constant / nil.
func condTests(c ssa.Value, v ssa.Value, depth int) bool {
	if depth > 3 {
		return false
	}
	c = Resolve(c)
	if c == v {
		return true
	}
	switch x := c.(type) {
	case *ssa.UnOp:
		if x.Op == token.NOT {
			return condTests(x.X, v, depth+1)
		}
	case *ssa.BinOp:
		l, r := Resolve(x.X), Resolve(x.Y)
		if _, ok := r.(*ssa.Const); ok && l == v {
			return true
		}
		if _, ok := l.(*ssa.Const); ok && r == v {
			return true
		}
	}
	return false
}

// LoopCaptures: a closure created inside a loop captures a variable cell that lives OUTSIDE the loop and is
// re-assigned inside it. Unless the closure runs before the next assignment (called at once, or handed to a callee
// that runs it synchronously), every closure sees the value of the last iteration (a deferred cache insertion that
// inserts the last output only; a goroutine per subscriber that all deliver to the last subscriber).
type LoopCapture struct {
	Fn      *ssa.Function
	Closure *ssa.MakeClosure
	Var     *ssa.Alloc
	Use     ssa.Instruction // how the closure is consumed (go, defer, call argument, store)
}

func LoopCaptures(p *load.Program, inPkg func(string) bool) []LoopCapture {
	var out []LoopCapture
	for _, fn := range p.AllFns {
		if fn.Pkg == nil || (inPkg != nil && !inPkg(fn.Pkg.Pkg.Path())) {
			continue
		}
		back := BackEdges(fn)
		if len(back) == 0 {
			continue
		}
		for _, b := range fn.Blocks {
			for _, ins := range b.Instrs {
				mc, ok := ins.(*ssa.MakeClosure)
				if !ok {
					continue
				}
				// the innermost loops that contain the closure: headers h with a back edge t->h, h dominates b, b reaches t
				for e := range back {
					h := e.To()
					if !h.Dominates(b) {
						continue
					}
					if !(b == e.From || ReachFrom([]*ssa.BasicBlock{b}, nil)[e.From]) {
						continue
					}
					inLoop := func(x *ssa.BasicBlock) bool {
						return h.Dominates(x) && (x == e.From || ReachFrom([]*ssa.BasicBlock{x}, nil)[e.From])
					}
					for _, bnd := range mc.Bindings {
						a, ok := bnd.(*ssa.Alloc)
						if !ok || inLoop(a.Block()) {
							continue
						}
						stored := false
						for _, s := range storesTo(a) {
							if inLoop(s.Block()) {
								stored = true
							}
						}
						if !stored {
							continue
						}
						use := closureEscape(mc)
						if use == nil {
							continue
						}
						out = append(out, LoopCapture{fn, mc, a, use})
					}
				}
			}
		}
	}
	// de-duplicate (several back edges of one loop)
	seen := map[string]bool{}
	var uniqOut []LoopCapture
	for _, l := range out {
		k := load.QualName(l.Fn) + "|" + l.Closure.Name() + "|" + l.Var.Name()
		if !seen[k] {
			seen[k] = true
			uniqOut = append(uniqOut, l)
		}
	}
	sort.Slice(uniqOut, func(i, j int) bool {
		return load.QualName(uniqOut[i].Fn)+uniqOut[i].Closure.Name() < load.QualName(uniqOut[j].Fn)+uniqOut[j].Closure.Name()
	})
	return uniqOut
}

// closureEscape: nil if the closure is only called directly (runs at once); else the instruction that lets it outlive
// the iteration (go, defer, argument of a call, store, return).
func closureEscape(mc *ssa.MakeClosure) ssa.Instruction {
	refs := mc.Referrers()
	if refs == nil {
		return nil
	}
	for _, r := range *refs {
		switch x := r.(type) {
		case *ssa.Call:
			if x.Call.Value == ssa.Value(mc) {
				continue // called at once
			}
			return x
		case *ssa.DebugRef:
			continue
		default:
			return r
		}
	}
	return nil
}

// FreshPerIteration: v (seen through interface/pointer conversions) is an object allocated inside the innermost loop
// that contains the instruction at (or at is in no loop): each iteration hands on its own object.
func FreshPerIteration(at ssa.Instruction, v ssa.Value) bool {
	for i := 0; i < 6; i++ {
		switch x := v.(type) {
		case *ssa.MakeInterface:
			v = x.X
			continue
		case *ssa.ChangeType:
			v = x.X
			continue
		case *ssa.ChangeInterface:
			v = x.X
			continue
		}
		break
	}
	al, ok := v.(*ssa.Alloc)
	if !ok {
		return false
	}
	fn := at.Parent()
	b := at.Block()
	toB := reachTo(b)
	var inner *ssa.BasicBlock
	for e := range BackEdges(fn) {
		h := e.To()
		if !h.Dominates(b) {
			continue
		}
		// b is in the loop of h if b reaches the latch
		if !(b == e.From || reachTo(e.From)[b]) {
			continue
		}
		if inner == nil || inner.Dominates(h) {
			inner = h
		}
	}
	_ = toB
	if inner == nil {
		return true
	}
	ab := al.Block()
	if ab == inner || !inner.Dominates(ab) {
		return false
	}
	// the allocation block lies on a path header -> ... -> b within the loop
	return ab == b || reachTo(b)[ab]
}

// SelfComparisons: a comparison whose two operands are the same value (`a.X() == a.X()`): it decides nothing - one side
// was meant to be another object (want/got, old/new).
type SelfCmp struct {
	Fn  *ssa.Function
	Op  *ssa.BinOp
	Txt string
}

func SelfComparisons(p *load.Program, inPkg func(string) bool) []SelfCmp {
	var out []SelfCmp
	for _, fn := range p.AllFns {
		if fn.Pkg == nil || (inPkg != nil && !inPkg(fn.Pkg.Pkg.Path())) {
			continue
		}
		for _, b := range fn.Blocks {
			for _, ins := range b.Instrs {
				bo, ok := ins.(*ssa.BinOp)
				if !ok {
					continue
				}
				switch bo.Op {
				case token.EQL, token.NEQ, token.LSS, token.GTR, token.LEQ, token.GEQ:
				default:
					continue
				}
				if _, isConst := bo.X.(*ssa.Const); isConst {
					continue
				}
				if !sameSSA(bo.X, bo.Y, 0) {
					continue
				}
				l := Canon(bo.X)
				// float NaN idiom x != x is legitimate
				if bt, ok := bo.X.Type().Underlying().(*types.Basic); ok && bt.Info()&types.IsFloat != 0 {
					continue
				}
				out = append(out, SelfCmp{fn, bo, l})
			}
		}
	}
	return out
}

// impureCall: the value is the result of a call that is not a plain getter / pure accessor (conservative: any call
// other than a method whose name starts with Get, or len/cap).
func impureCall(v ssa.Value) bool {
	c, ok := v.(*ssa.Call)
	if !ok {
		if e, ok := v.(*ssa.Extract); ok {
			return impureCall(e.Tuple)
		}
		return false
	}
	if b, ok := c.Call.Value.(*ssa.Builtin); ok {
		return !(b.Name() == "len" || b.Name() == "cap")
	}
	name := ""
	if c.Call.IsInvoke() {
		name = c.Call.Method.Name()
	} else if f := c.Call.StaticCallee(); f != nil {
		name = f.Name()
	}
	return !strings.HasPrefix(name, "Get")
}

// sameSSA: the two values are provably the same value: the same SSA value, or the same pure construction (field / index
// selection, conversion, getter call) over the same values. Two separate loads are never identified (a store may lie
// between them); a load is the same only when it is the same instruction.
func sameSSA(a, b ssa.Value, depth int) bool {
	if a == b {
		_, isConst := a.(*ssa.Const)
		return !isConst
	}
	if depth > 6 {
		return false
	}
	switch x := a.(type) {
	case *ssa.Call:
		y, ok := b.(*ssa.Call)
		if !ok || impureCall(x) || impureCall(y) || len(x.Call.Args) != len(y.Call.Args) {
			return false
		}
		if x.Call.IsInvoke() != y.Call.IsInvoke() {
			return false
		}
		if x.Call.IsInvoke() {
			if x.Call.Method != y.Call.Method || !sameSSA(x.Call.Value, y.Call.Value, depth+1) {
				return false
			}
		} else {
			fx, fy := x.Call.StaticCallee(), y.Call.StaticCallee()
			if fx == nil || fx != fy {
				if bx, ok := x.Call.Value.(*ssa.Builtin); ok {
					if by, ok := y.Call.Value.(*ssa.Builtin); !ok || bx.Name() != by.Name() {
						return false
					}
				} else {
					return false
				}
			}
		}
		for i := range x.Call.Args {
			if !sameSSA(x.Call.Args[i], y.Call.Args[i], depth+1) {
				if cx, ok := x.Call.Args[i].(*ssa.Const); ok {
					if cy, ok := y.Call.Args[i].(*ssa.Const); ok && cx.Value == cy.Value {
						continue
					}
				}
				return false
			}
		}
		return true
	case *ssa.Extract:
		y, ok := b.(*ssa.Extract)
		return ok && x.Index == y.Index && x.Tuple == y.Tuple
	case *ssa.Field:
		y, ok := b.(*ssa.Field)
		return ok && x.Field == y.Field && sameSSA(x.X, y.X, depth+1)
	case *ssa.Convert:
		y, ok := b.(*ssa.Convert)
		return ok && types.Identical(x.Type(), y.Type()) && sameSSA(x.X, y.X, depth+1)
	case *ssa.ChangeType:
		y, ok := b.(*ssa.ChangeType)
		return ok && types.Identical(x.Type(), y.Type()) && sameSSA(x.X, y.X, depth+1)
	}
	return false
}

// IterBufferRetained (K17): the byte slice an iterator hands out as Key()/Value() is only good until the next Next()
// (goleveldb re-uses one buffer): a function that KEEPS it - stores it into a field, an element (append as element), a
// map, boxes it into an interface or sends it - without copying keeps an alias that silently turns into a later entry.
// Converting to string, `append(dst, k...)`, copy() and passing it to a call are copies or uses, not retention.
type IterRetain struct {
	Fn   *ssa.Function
	At   ssa.Instruction
	Call ssa.Value
	How  string
}

func isIterBufCall(v ssa.Value) bool {
	c, ok := v.(*ssa.Call)
	if !ok || len(c.Call.Args) > 1 {
		return false
	}
	name := ""
	var recv types.Type
	if c.Call.IsInvoke() {
		if len(c.Call.Args) != 0 {
			return false
		}
		name = c.Call.Method.Name()
		recv = c.Call.Value.Type()
	} else if f := c.Call.StaticCallee(); f != nil && f.Signature.Recv() != nil && len(c.Call.Args) == 1 {
		name = f.Name()
		recv = f.Signature.Recv().Type()
	}
	if name != "Key" && name != "Value" {
		return false
	}
	sl, ok := c.Type().Underlying().(*types.Slice)
	if !ok {
		return false
	}
	if b, ok := sl.Elem().Underlying().(*types.Basic); !ok || b.Kind() != types.Uint8 {
		return false
	}
	// the receiver is an iterator: it has Next() bool
	ms := types.NewMethodSet(recv)
	for i := 0; i < ms.Len(); i++ {
		if ms.At(i).Obj().Name() == "Next" {
			return true
		}
	}
	if _, isPtr := recv.(*types.Pointer); !isPtr {
		ms = types.NewMethodSet(types.NewPointer(recv))
		for i := 0; i < ms.Len(); i++ {
			if ms.At(i).Obj().Name() == "Next" {
				return true
			}
		}
	}
	return false
}

func IterBufferRetained(p *load.Program, inPkg func(string) bool) (out []IterRetain, calls int) {
	for _, fn := range p.AllFns {
		if fn.Pkg == nil || (inPkg != nil && !inPkg(fn.Pkg.Pkg.Path())) {
			continue
		}
		for _, b := range fn.Blocks {
			for _, ins := range b.Instrs {
				v, ok := ins.(ssa.Value)
				if !ok || !isIterBufCall(v) {
					continue
				}
				calls++
				seen := map[ssa.Value]bool{}
				var walk func(x ssa.Value)
				walk = func(x ssa.Value) {
					if seen[x] {
						return
					}
					seen[x] = true
					refs := x.Referrers()
					if refs == nil {
						return
					}
					for _, r := range *refs {
						switch u := r.(type) {
						case *ssa.Slice:
							if u.X == x {
								walk(u)
							}
						case *ssa.Phi:
							walk(u)
						case *ssa.ChangeType:
							walk(u)
						case *ssa.Store:
							if u.Val != x {
								continue
							}
							switch a := u.Addr.(type) {
							case *ssa.FieldAddr:
								// a field of the iterator wrapper itself (m.key = inner.Key()) is the wrapper's own
								// hand-out, as short-lived as the inner one
								if fn.Signature.Recv() != nil && len(fn.Params) > 0 && rootOf(a.X) == ssa.Value(fn.Params[0]) {
									continue
								}
								if hasNextMethod(a.X.Type()) { // likewise when the wrapper's constructor pre-fetches
									continue
								}
								out = append(out, IterRetain{fn, u, v, "stored into field " + typeField(a)})
							case *ssa.IndexAddr:
								out = append(out, IterRetain{fn, u, v, "stored as an element (append / index assignment)"})
							}
						case *ssa.MakeInterface:
							// boxed and handed on as a direct argument (cache.Add(k, v), list.PushBack(v), m.Store(k, v))
							// or stored: kept. Boxed into a variadic ...interface{} (logging, formatting): a use.
							if mr := u.Referrers(); mr != nil {
								for _, r2 := range *mr {
									switch w := r2.(type) {
									case ssa.CallInstruction:
										out = append(out, IterRetain{fn, w, v, "boxed and handed to " + Callee(w.Common()).Recv + "." + Callee(w.Common()).Name})
									case *ssa.MapUpdate:
										out = append(out, IterRetain{fn, w, v, "boxed and stored in a map"})
									case *ssa.Store:
										if fa, ok := w.Addr.(*ssa.FieldAddr); ok && w.Val == ssa.Value(u) {
											out = append(out, IterRetain{fn, w, v, "boxed and stored into field " + typeField(fa)})
										}
									}
								}
							}
						case *ssa.MapUpdate:
							if u.Value == x {
								out = append(out, IterRetain{fn, u, v, "stored as a map value"})
							}
						case *ssa.Send:
							out = append(out, IterRetain{fn, u, v, "sent on a channel"})
						}
					}
				}
				walk(v)
			}
		}
	}
	return
}

func rootOf(v ssa.Value) ssa.Value {
	for i := 0; i < 8; i++ {
		switch x := v.(type) {
		case *ssa.FieldAddr:
			v = x.X
		case *ssa.UnOp:
			v = x.X
		case *ssa.IndexAddr:
			v = x.X
		default:
			return v
		}
	}
	return v
}

// NarrowedArgs: calls in fn (closures included) matching spec whose argument idx is - through boxing - an integer
// conversion to a NARROWER type (int64 -> int32): the upper bits of the source never reach the callee. Returns the
// offending calls and the number of calls inspected.
func NarrowedArgs(fn *ssa.Function, spec string, idx int) (bad []ssa.CallInstruction, n int) {
	size := func(t types.Type) int {
		b, ok := t.Underlying().(*types.Basic)
		if !ok || b.Info()&types.IsInteger == 0 {
			return 0
		}
		switch b.Kind() {
		case types.Int8, types.Uint8:
			return 1
		case types.Int16, types.Uint16:
			return 2
		case types.Int32, types.Uint32:
			return 4
		default:
			return 8
		}
	}
	for _, ci := range CallsIn(fn, spec) {
		n++
		args := ci.Common().Args
		if idx >= len(args) {
			continue
		}
		v := args[idx]
		if mi, ok := v.(*ssa.MakeInterface); ok {
			v = mi.X
		}
		cv, ok := v.(*ssa.Convert)
		if !ok {
			continue
		}
		from, to := size(cv.X.Type()), size(cv.Type())
		if from > 0 && to > 0 && to < from {
			bad = append(bad, ci)
		}
	}
	return
}

func hasNextMethod(t types.Type) bool {
	ms := types.NewMethodSet(t)
	for i := 0; i < ms.Len(); i++ {
		if ms.At(i).Obj().Name() == "Next" {
			return true
		}
	}
	return false
}

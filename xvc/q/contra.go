package q

import (
	"go/token"
	"go/types"
	"sort"

	ssa "xvc/xssa"

	"xvc/load"
)

// ErrValueTests (contradiction rule, Engler et al.): for a call `v, err := f(...)`, a branch that tests v and is
// reachable ONLY over the `err != nil` edge of the same call tests a value that carries no information there (Go
// callees answer the zero value beside a non-nil error) - typically a conjunction written with the wrong polarity
// (`if err != nil && ok { skip }` never skips). Returns the sites, keyed by enclosing function.
type ErrValueSite struct {
	Fn     *ssa.Function
	Call   *ssa.Call
	Branch *ssa.If
}

func ErrValueTests(p *load.Program, inPkg func(string) bool) []ErrValueSite {
	var out []ErrValueSite
	for _, fn := range p.AllFns {
		if fn.Pkg == nil || (inPkg != nil && !inPkg(fn.Pkg.Pkg.Path())) {
			continue
		}
		for _, b := range fn.Blocks {
			for _, ins := range b.Instrs {
				call, ok := ins.(*ssa.Call)
				if !ok {
					continue
				}
				tup, ok := call.Type().(*types.Tuple)
				if !ok || tup.Len() < 2 || !isErrorType(tup.At(tup.Len()-1).Type()) {
					continue
				}
				var errX *ssa.Extract
				var vals []*ssa.Extract
				if refs := call.Referrers(); refs != nil {
					for _, r := range *refs {
						if e, ok := r.(*ssa.Extract); ok {
							if e.Index == tup.Len()-1 {
								errX = e
							} else {
								vals = append(vals, e)
							}
						}
					}
				}
				if errX == nil || len(vals) == 0 {
					continue
				}
				// edges on which err is known non-nil
				var nonNil []Edge
				for _, bb := range fn.Blocks {
					ifi, ok := bb.Instrs[len(bb.Instrs)-1].(*ssa.If)
					if !ok {
						continue
					}
					bo, ok := Resolve(ifi.Cond).(*ssa.BinOp)
					if !ok {
						continue
					}
					x, y := Resolve(bo.X), Resolve(bo.Y)
					if IsNilConst(x) {
						x, y = y, x
					}
					if !IsNilConst(y) || x != ssa.Value(errX) {
						continue
					}
					switch bo.Op {
					case token.NEQ:
						nonNil = append(nonNil, Edge{bb, 0})
					case token.EQL:
						nonNil = append(nonNil, Edge{bb, 1})
					}
				}
				if len(nonNil) == 0 {
					continue
				}
				cut := EdgeSet{}
				for _, e := range nonNil {
					cut[e] = true
				}
				// blocks reachable from the call without taking a non-nil edge
				reach := ReachFrom(succsNotCut(call.Block(), cut), cut)
				reach[call.Block()] = true
				for _, v := range vals {
					for _, bb := range fn.Blocks {
						ifi, ok := bb.Instrs[len(bb.Instrs)-1].(*ssa.If)
						if !ok || reach[bb] {
							continue
						}
						if condTests(ifi.Cond, v, 0) {
							out = append(out, ErrValueSite{fn, call, ifi})
						}
					}
				}
			}
		}
	}
	sort.Slice(out, func(i, j int) bool {
		a, b := out[i], out[j]
		if load.QualName(a.Fn) != load.QualName(b.Fn) {
			return load.QualName(a.Fn) < load.QualName(b.Fn)
		}
		return a.Branch.Block().Index < b.Branch.Block().Index
	})
	return out
}


// condTests: the condition is v itself, its negation, or a comparison of v with a constant / nil.
func condTests(c ssa.Value, v ssa.Value, depth int) bool {
	if depth > 3 {
		return false
	}
	c = Resolve(c)
	if c == v {
		return true
	}
	switch x := c.(type) {
	case *ssa.UnOp:
		if x.Op == token.NOT {
			return condTests(x.X, v, depth+1)
		}
	case *ssa.BinOp:
		l, r := Resolve(x.X), Resolve(x.Y)
		if _, ok := r.(*ssa.Const); ok && l == v {
			return true
		}
		if _, ok := l.(*ssa.Const); ok && r == v {
			return true
		}
	}
	return false
}

package q

import (
	"fmt"
	"go/constant"
	"go/token"
	"go/types"
	"sort"
	"strconv"
	"strings"

	ssa "xvc/xssa"

	"xvc/load"
)

// Strip removes representation-only wrappers.
func Strip(v ssa.Value) ssa.Value {
	for {
		switch x := v.(type) {
		case *ssa.ChangeType:
			v = x.X
		case *ssa.Convert:
			v = x.X
		case *ssa.MakeInterface:
			v = x.X
		case *ssa.ChangeInterface:
			v = x.X
		default:
			return v
		}
	}
}

func IsNilConst(v ssa.Value) bool {
	c, ok := v.(*ssa.Const)
	return ok && c.Value == nil && !isBasic(c.Type())
}

func isBasic(t types.Type) bool {
	_, ok := t.Underlying().(*types.Basic)
	return ok
}

func ConstBool(v ssa.Value) (val, ok bool) {
	c, isC := v.(*ssa.Const)
	if !isC || c.Value == nil || c.Value.Kind() != constant.Bool {
		return false, false
	}
	return constant.BoolVal(c.Value), true
}

func ConstInt(v ssa.Value) (int64, bool) {
	c, isC := Strip(v).(*ssa.Const)
	if !isC || c.Value == nil || c.Value.Kind() != constant.Int {
		return 0, false
	}
	n, ok := constant.Int64Val(c.Value)
	return n, ok
}

// instrIndex returns the index of ins in its block.
func instrIndex(ins ssa.Instruction) int {
	for i, j := range ins.Block().Instrs {
		if j == ins {
			return i
		}
	}
	return -1
}

// storesTo lists Store instructions whose address is exactly a.
func storesTo(a ssa.Value) []*ssa.Store {
	var out []*ssa.Store
	refs := a.Referrers()
	if refs == nil {
		return nil
	}
	for _, r := range *refs {
		if s, ok := r.(*ssa.Store); ok && s.Addr == a {
			out = append(out, s)
		}
	}
	return out
}

// ReachingStore finds, for a load of a local Alloc, the unique store that
// reaches it, or nil when ambiguous. Closure captures make it ambiguous unless
// the alloc is only read by closures.
func ReachingStore(load *ssa.UnOp) *ssa.Store {
	a, ok := load.X.(*ssa.Alloc)
	if !ok {
		return nil
	}
	stores := storesTo(a)
	if len(stores) == 0 {
		return nil
	}
	// stores inside closures (through FreeVar) are invisible here: be conservative
	if capturedAndWritten(a) {
		return nil
	}
	b := load.Block()
	li := instrIndex(load)
	// same block, before the load
	var best *ssa.Store
	bi := -1
	for _, s := range stores {
		if s.Block() == b {
			if i := instrIndex(s); i < li && i > bi {
				best, bi = s, i
			}
		}
	}
	if best != nil {
		return best
	}
	// nearest dominating store
	var cand *ssa.Store
	for d := b.Idom(); d != nil; d = d.Idom() {
		ci := -1
		for _, s := range stores {
			if s.Block() == d {
				if i := instrIndex(s); i > ci {
					cand, ci = s, i
				}
			}
		}
		if cand != nil {
			break
		}
	}
	if cand == nil {
		return nil
	}
	// no other store may lie on a path cand.Block -> b
	// paths that re-enter cand's block re-execute the store: cut them
	cutIn := EdgeSet{}
	for _, pb := range cand.Block().Preds {
		for i, sx := range pb.Succs {
			if sx == cand.Block() {
				cutIn[Edge{pb, i}] = true
			}
		}
	}
	fromD := ReachFrom(cand.Block().Succs, cutIn)
	delete(fromD, cand.Block())
	if b == cand.Block() {
		return nil
	}
	toB := reachToAvoid(b, cand.Block())
	for _, s := range stores {
		if s == cand {
			continue
		}
		sb := s.Block()
		if sb == b && instrIndex(s) > li {
			// a later store in the load's own block matters only if the block can be entered again without
			// passing the candidate store
			if !ReachFrom(b.Succs, cutIn)[b] {
				continue
			}
			return nil
		}
		if sb == cand.Block() {
			if instrIndex(s) > instrIndex(cand) {
				return nil
			}
			// earlier store in the same block; only matters if block is in a cycle
			if fromD[sb] {
				return nil
			}
			continue
		}
		if fromD[sb] && (toB[sb] || sb == b) {
			return nil
		}
	}
	return cand
}

func capturedAndWritten(a *ssa.Alloc) bool {
	refs := a.Referrers()
	if refs == nil {
		return false
	}
	for _, r := range *refs {
		mc, ok := r.(*ssa.MakeClosure)
		if !ok {
			continue
		}
		fn := mc.Fn.(*ssa.Function)
		for i, bnd := range mc.Bindings {
			if bnd != a || i >= len(fn.FreeVars) {
				continue
			}
			if fvWritten(fn.FreeVars[i]) {
				return true
			}
		}
	}
	return false
}

func fvWritten(fv *ssa.FreeVar) bool {
	refs := fv.Referrers()
	if refs == nil {
		return false
	}
	for _, r := range *refs {
		switch x := r.(type) {
		case *ssa.Store:
			if x.Addr == fv {
				return true
			}
		case *ssa.MakeClosure:
			fn := x.Fn.(*ssa.Function)
			for i, b := range x.Bindings {
				if b == fv && i < len(fn.FreeVars) && fvWritten(fn.FreeVars[i]) {
					return true
				}
			}
		}
	}
	return false
}

func reachToAvoid(b, avoid *ssa.BasicBlock) map[*ssa.BasicBlock]bool {
	seen := map[*ssa.BasicBlock]bool{}
	var dfs func(x *ssa.BasicBlock)
	dfs = func(x *ssa.BasicBlock) {
		for _, p := range x.Preds {
			if p != avoid && !seen[p] {
				seen[p] = true
				dfs(p)
			}
		}
	}
	dfs(b)
	return seen
}

func reachTo(b *ssa.BasicBlock) map[*ssa.BasicBlock]bool {
	seen := map[*ssa.BasicBlock]bool{}
	var dfs func(x *ssa.BasicBlock)
	dfs = func(x *ssa.BasicBlock) {
		for _, p := range x.Preds {
			if !seen[p] {
				seen[p] = true
				dfs(p)
			}
		}
	}
	dfs(b)
	return seen
}

// Resolve looks through wrappers and unambiguous local loads.
func Resolve(v ssa.Value) ssa.Value {
	for i := 0; i < 20; i++ {
		v = Strip(v)
		u, ok := v.(*ssa.UnOp)
		if !ok || u.Op != token.MUL {
			return v
		}
		s := ReachingStore(u)
		if s == nil {
			return v
		}
		v = s.Val
	}
	return v
}

// GetterField reports the struct field a trivial getter returns
// (protobuf-style: `if m != nil { return m.X }; return zero`).
func GetterField(fn *ssa.Function) *types.Var {
	if fn == nil || len(fn.Blocks) == 0 || len(fn.Blocks) > 4 || fn.Signature.Recv() == nil || fn.Signature.Params().Len() != 0 {
		return nil
	}
	if fn.Signature.Results().Len() != 1 {
		return nil
	}
	var found *types.Var
	for _, b := range fn.Blocks {
		ret, ok := b.Instrs[len(b.Instrs)-1].(*ssa.Return)
		if !ok {
			continue
		}
		r := ret.Results[0]
		if c, ok := r.(*ssa.Const); ok && (c.Value == nil || isZeroConst(c)) {
			continue
		}
		u, ok := r.(*ssa.UnOp)
		if !ok || u.Op != token.MUL {
			return nil
		}
		fa, ok := u.X.(*ssa.FieldAddr)
		if !ok {
			return nil
		}
		if _, isParam := fa.X.(*ssa.Parameter); !isParam {
			return nil
		}
		f := fieldOf(fa.X.Type(), fa.Field)
		if found != nil && found != f {
			return nil
		}
		found = f
	}
	// no other effects
	for _, b := range fn.Blocks {
		for _, ins := range b.Instrs {
			switch ins.(type) {
			case *ssa.Call, *ssa.Store, *ssa.Go, *ssa.Defer, *ssa.MapUpdate, *ssa.Send:
				return nil
			}
		}
	}
	return found
}

func isZeroConst(c *ssa.Const) bool {
	if c.Value == nil {
		return true
	}
	switch c.Value.Kind() {
	case constant.Bool:
		return !constant.BoolVal(c.Value)
	case constant.String:
		return constant.StringVal(c.Value) == ""
	case constant.Int, constant.Float:
		return constant.Sign(c.Value) == 0
	}
	return false
}

func fieldOf(t types.Type, idx int) *types.Var {
	if p, ok := t.Underlying().(*types.Pointer); ok {
		t = p.Elem()
	}
	st, ok := t.Underlying().(*types.Struct)
	if !ok || idx >= st.NumFields() {
		return nil
	}
	return st.Field(idx)
}

func namedOf(t types.Type) string {
	for {
		if p, ok := t.(*types.Pointer); ok {
			t = p.Elem()
			continue
		}
		break
	}
	if n, ok := t.(*types.Named); ok {
		return n.Obj().Name()
	}
	return types.TypeString(t, func(*types.Package) string { return "" })
}

// Canon renders a value as a position- and name-independent expression over
// parameters, fields, constants and calls. Equal strings mean "computed the
// same way"; it is the operand-provenance part of rule kinds K5/K11.
type canon struct {
	depth int
	phis  map[*ssa.Phi]bool
}

func Canon(v ssa.Value) string { return CanonD(v, 6) }

func CanonD(v ssa.Value, depth int) string {
	c := &canon{phis: map[*ssa.Phi]bool{}}
	return c.val(v, depth)
}

func paramIndex(p *ssa.Parameter) int {
	for i, q := range p.Parent().Params {
		if q == p {
			return i
		}
	}
	return -1
}

func (c *canon) val(v ssa.Value, d int) string {
	if v == nil {
		return "?"
	}
	if d <= 0 {
		return "_"
	}
	v = Strip(v)
	switch x := v.(type) {
	case *ssa.Const:
		if x.Value == nil {
			if isBasic(x.Type()) {
				return "0"
			}
			return "nil"
		}
		return x.Value.ExactString()
	case *ssa.Parameter:
		return fmt.Sprintf("p%d", paramIndex(x))
	case *ssa.FreeVar:
		if b := freeVarBinding(x); b != nil {
			return c.val(b, d)
		}
		return "fv<" + namedOf(x.Type()) + ">"
	case *ssa.Alloc:
		if p := spilledParam(x); p != nil {
			return fmt.Sprintf("&p%d", paramIndex(p))
		}
		// `new(big.Int)` is the zero big integer: the same accumulator as big.NewInt(0)
		if pt, ok := x.Type().(*types.Pointer); ok && types.TypeString(pt.Elem(), nil) == "math/big.Int" && len(storesTo(x)) == 0 {
			return "big.NewInt(0)" + c.feeds(x, d)
		}
		return "local<" + namedOf(x.Type()) + ">"
	case *ssa.Global:
		return "g:" + x.Name()
	case *ssa.Function:
		return "fn:" + load.QualName(x)
	case *ssa.MakeClosure:
		return "closure:" + load.QualName(x.Fn.(*ssa.Function))
	case *ssa.UnOp:
		switch x.Op {
		case token.MUL:
			switch a := x.X.(type) {
			case *ssa.FieldAddr:
				if st := localFieldStore(a); st != nil {
					return c.val(st.Val, d)
				}
				if al, ok := a.X.(*ssa.Alloc); ok {
					// struct value returned by a call and kept in a local: `st := f(); st.Field`
					if sts := storesTo(al); len(sts) == 1 && !capturedAndWritten(al) {
						return c.val(sts[0].Val, d) + "." + fieldName(a.X.Type(), a.Field)
					}
				}
				return c.val(a.X, d) + "." + fieldName(a.X.Type(), a.Field)
			case *ssa.IndexAddr:
				return c.elem(a.X, a.Index, d)
			case *ssa.Alloc:
				if p := spilledParam(a); p != nil && len(storesTo(a)) == 1 {
					return fmt.Sprintf("p%d", paramIndex(p))
				}
				if s := ReachingStore(x); s != nil {
					return c.val(s.Val, d)
				}
				// multiple reaching stores: union of stored values
				var alts []string
				for _, s := range storesTo(a) {
					alts = append(alts, c.val(s.Val, d-1))
				}
				if len(alts) > 0 && !capturedAndWritten(a) {
					return "var{" + joinSet(alts) + "}"
				}
				return "var<" + namedOf(a.Type()) + ">"
			case *ssa.FreeVar:
				if b := freeVarBinding(a); b != nil {
					if al, ok := b.(*ssa.Alloc); ok {
						if p := spilledParam(al); p != nil && len(storesTo(al)) == 1 && !capturedAndWritten(al) {
							return fmt.Sprintf("^p%d", paramIndex(p))
						}
						var alts []string
						for _, s := range storesTo(al) {
							alts = append(alts, c.val(s.Val, d-1))
						}
						if len(alts) > 0 {
							return "^var{" + joinSet(alts) + "}"
						}
					}
				}
				return "fv<" + namedOf(a.Type()) + ">"
			case *ssa.Global:
				return "g:" + a.Name()
			}
			return "*" + c.val(x.X, d-1)
		case token.NOT:
			return "!" + c.val(x.X, d)
		case token.SUB:
			return "-" + c.val(x.X, d)
		case token.ARROW:
			return "<-" + c.val(x.X, d-1)
		case token.XOR:
			return "^" + c.val(x.X, d)
		}
	case *ssa.FieldAddr:
		return "&" + c.val(x.X, d) + "." + fieldName(x.X.Type(), x.Field)
	case *ssa.Field:
		return c.val(x.X, d) + "." + fieldName(x.X.Type(), x.Field)
	case *ssa.IndexAddr:
		return "&" + c.elem(x.X, x.Index, d)
	case *ssa.Index:
		return c.elem(x.X, x.Index, d)
	case *ssa.Lookup:
		// a local map that only ever stores `true` is a set: `m[k]` and `_, ok := m[k]` are one membership test
		if !x.CommaOk && isLocalSet(x.X) {
			return "has(" + c.val(x.X, d) + "," + c.val(x.Index, d-1) + ")"
		}
		return c.val(x.X, d) + "[" + c.val(x.Index, d-1) + "]"
	case *ssa.Slice:
		if al, ok := x.X.(*ssa.Alloc); ok && x.Low == nil && x.High == nil {
			// variadic argument pack: [N]T array filled element by element
			if elems := arrayElems(al); elems != nil {
				var es []string
				for _, e := range elems {
					es = append(es, c.val(e, d-1))
				}
				return "[" + strings.Join(es, ",") + "]"
			}
		}
		s := c.val(x.X, d) + "["
		if x.Low != nil {
			s += c.val(x.Low, d-1)
		}
		s += ":"
		if x.High != nil {
			s += c.val(x.High, d-1)
		}
		return s + "]"
	case *ssa.Extract:
		if l, ok := x.Tuple.(*ssa.Lookup); ok {
			if x.Index == 1 {
				return "has(" + c.val(l.X, d) + "," + c.val(l.Index, d-1) + ")"
			}
			return c.val(l, d)
		}
		if ta, ok := x.Tuple.(*ssa.TypeAssert); ok {
			if x.Index == 1 {
				return "is<" + namedOf(ta.AssertedType) + ">(" + c.val(ta.X, d) + ")"
			}
			return c.val(ta.X, d)
		}
		if nx, ok := x.Tuple.(*ssa.Next); ok {
			if r, ok := nx.Iter.(*ssa.Range); ok {
				switch x.Index {
				case 0:
					return "more(" + c.val(r.X, d) + ")"
				case 1:
					return "key(" + c.val(r.X, d) + ")"
				default:
					return c.val(unsliced(r.X), d) + "[]"
				}
			}
		}
		if u, ok := x.Tuple.(*ssa.UnOp); ok && u.Op == token.ARROW {
			return c.val(u, d) + fmt.Sprintf("#%d", x.Index)
		}
		if call, ok := x.Tuple.(*ssa.Call); ok {
			s := c.call(call, d)
			if call.Call.Signature().Results().Len() > 1 {
				return s + fmt.Sprintf("#%d", x.Index)
			}
			return s
		}
		return c.val(x.Tuple, d) + fmt.Sprintf("#%d", x.Index)
	case *ssa.TypeAssert:
		return c.val(x.X, d)
	case *ssa.Call:
		return c.call(x, d)
	case *ssa.BinOp:
		if x.Op == token.ADD {
			if ph, ok := x.X.(*ssa.Phi); ok && isLoopCounter(ph) == -1 {
				if n, ok := ConstInt(x.Y); ok && n == 1 {
					return "#i" // index of a range loop
				}
			}
		}
		l, r := c.val(x.X, d-1), c.val(x.Y, d-1)
		op := x.Op
		switch op {
		case token.GTR:
			op, l, r = token.LSS, r, l
		case token.GEQ:
			op, l, r = token.LEQ, r, l
		case token.EQL, token.NEQ, token.ADD, token.MUL, token.AND, token.OR, token.XOR:
			if _, isStr := x.X.Type().Underlying().(*types.Basic); op == token.ADD && isStr && x.X.Type().Underlying().(*types.Basic).Info()&types.IsString != 0 {
				break // string concatenation is not commutative
			}
			if l > r {
				l, r = r, l
			}
		}
		return "(" + l + " " + op.String() + " " + r + ")"
	case *ssa.Phi:
		if k := isLoopCounter(x); k == 0 {
			return "#i" // counter of a `for i := 0; ...; i++` loop
		} else if k == -1 {
			return "(#i - 1)"
		}
		if of := isDownCounter(x); of != nil {
			return "#down(" + c.val(of, d-1) + ")"
		}
		if c.phis[x] {
			return "loop"
		}
		// the set of values that can arrive: nested merges are flattened (phi{a|phi{b|c}} = phi{a|b|c}),
		// so that the form does not depend on how many join points the source happens to have
		var alts []string
		var opened []*ssa.Phi
		var expand func(ph *ssa.Phi)
		expand = func(ph *ssa.Phi) {
			c.phis[ph] = true
			opened = append(opened, ph)
			for _, e := range ph.Edges {
				if in, ok := e.(*ssa.Phi); ok && !c.phis[in] && isLoopCounter(in) == 99 && isDownCounter(in) == nil {
					expand(in)
					continue
				}
				alts = append(alts, c.val(e, d-1))
			}
		}
		expand(x)
		for _, ph := range opened {
			delete(c.phis, ph)
		}
		set := joinSet(alts)
		if !strings.Contains(set, "|") && set != "loop" && set != "" {
			return set
		}
		return "phi{" + set + "}"
	case *ssa.MakeMap:
		n := namedOf(x.Type())
		if strings.HasSuffix(n, "]struct{}") { // map[K]struct{} is the other spelling of a set
			n = strings.TrimSuffix(n, "struct{}") + "bool"
		}
		return "newmap<" + n + ">"
	case *ssa.MakeSlice:
		// `d := make([]T, len(s)); copy(d, s)` is the copy `append([]T{}, s...)`
		if src := soleCopySource(x); src != nil {
			return "append([]," + c.val(src, d) + ")"
		}
		// `k := make([]T, len(a)+len(b)); copy(k, a); copy(k[len(a):], b)` is the concatenation append(a, b...)
		if a, b := twoCopySources(x); a != nil {
			return "append(" + c.val(a, d) + "," + c.val(b, d) + ")"
		}
		return "newslice<" + namedOf(x.Type()) + ">"
	case *ssa.MakeChan:
		return "newchan"
	case *ssa.Range:
		return "range(" + c.val(x.X, d) + ")"
	case *ssa.Next:
		return "next(" + c.val(x.Iter, d) + ")"
	case *ssa.Builtin:
		return x.Name()
	}
	return "<" + namedOf(v.Type()) + ">"
}

// arrayElems: values stored at constant indices of a local array (each index once).
func arrayElems(al *ssa.Alloc) []ssa.Value {
	pt, ok := al.Type().(*types.Pointer)
	if !ok {
		return nil
	}
	at, ok := pt.Elem().Underlying().(*types.Array)
	if !ok || at.Len() > 16 {
		return nil
	}
	out := make([]ssa.Value, at.Len())
	refs := al.Referrers()
	if refs == nil {
		return nil
	}
	for _, r := range *refs {
		ia, ok := r.(*ssa.IndexAddr)
		if !ok {
			continue
		}
		n, ok := ConstInt(ia.Index)
		if !ok || n < 0 || n >= at.Len() {
			return nil
		}
		if irefs := ia.Referrers(); irefs != nil {
			for _, rr := range *irefs {
				if st, ok := rr.(*ssa.Store); ok && st.Addr == ia {
					if out[n] != nil {
						return nil
					}
					out[n] = st.Val
				}
			}
		}
	}
	for _, v := range out {
		if v == nil {
			return nil
		}
	}
	return out
}

// isLoopCounter: phi{init, phi+1} with constant init 0 (classic loop) or -1
// (range loop, where phi+1 is the index). Returns the init or 99.
func isLoopCounter(ph *ssa.Phi) int {
	init := int64(99)
	nInit := 0
	for _, e := range ph.Edges {
		if n, ok := ConstInt(e); ok {
			if _, isC := e.(*ssa.Const); isC {
				init = n
				nInit++
				continue
			}
		}
		bo, ok := e.(*ssa.BinOp)
		if !ok || bo.Op != token.ADD || bo.X != ph {
			return 99
		}
		if n, ok := ConstInt(bo.Y); !ok || n != 1 {
			return 99
		}
	}
	if nInit != 1 || (init != 0 && init != -1) || len(ph.Edges) < 2 {
		return 99
	}
	return int(init)
}

// isDownCounter: phi{len(X)-1, phi-1}: index of a loop that visits X from
// the last element to the first. Returns X.
func isDownCounter(ph *ssa.Phi) ssa.Value {
	var of ssa.Value
	for _, e := range ph.Edges {
		bo, ok := e.(*ssa.BinOp)
		if !ok || bo.Op != token.SUB {
			return nil
		}
		if n, ok := ConstInt(bo.Y); !ok || n != 1 {
			return nil
		}
		if bo.X == ph {
			continue
		}
		call, ok := bo.X.(*ssa.Call)
		if !ok {
			return nil
		}
		if b, ok := call.Call.Value.(*ssa.Builtin); !ok || b.Name() != "len" || of != nil {
			return nil
		}
		of = call.Call.Args[0]
	}
	return of
}

// elem renders base[idx]; "some element" of a sub-slice is some element of the
// sliced value (loop bounds are not part of the form either).
func (c *canon) elem(base, idx ssa.Value, d int) string {
	ix := c.indexOf(base, idx, d)
	if ix == "[]" {
		return c.val(unsliced(base), d) + ix
	}
	return c.val(base, d) + ix
}

func unsliced(v ssa.Value) ssa.Value {
	for i := 0; i < 4; i++ {
		sl, ok := Strip(v).(*ssa.Slice)
		if !ok {
			break
		}
		if _, isAlloc := sl.X.(*ssa.Alloc); isAlloc {
			break // variadic pack / local array
		}
		v = sl.X
	}
	// a variable that holds a slice or a sub-slice of the same slice (`l := f(); if c { l = l[1:] }`): "some
	// element" of it is some element of that slice
	if ph, ok := Strip(v).(*ssa.Phi); ok {
		var only ssa.Value
		for _, e := range ph.Edges {
			if e == ssa.Value(ph) {
				continue
			}
			if _, isPhi := Strip(e).(*ssa.Phi); isPhi {
				return v
			}
			u := unsliced(e)
			if only == nil {
				only = u
			} else if only != u {
				return v
			}
		}
		if only != nil {
			return only
		}
	}
	return v
}

// indexOf: like index, but recognises `x[len(x)-1]` as "[last]".
func (c *canon) indexOf(base, idx ssa.Value, d int) string {
	if bo, ok := Strip(idx).(*ssa.BinOp); ok && bo.Op == token.SUB {
		if n, ok := ConstInt(bo.Y); ok && n == 1 {
			if call, ok := bo.X.(*ssa.Call); ok {
				if b, ok := call.Call.Value.(*ssa.Builtin); ok && b.Name() == "len" && c.val(call.Call.Args[0], d-1) == c.val(base, d-1) {
					return "[last]"
				}
			}
		}
	}
	return c.index(idx, d)
}

func (c *canon) index(idx ssa.Value, d int) string {
	if n, ok := ConstInt(idx); ok {
		return fmt.Sprintf("[%d]", n)
	}
	if ph, ok := Strip(idx).(*ssa.Phi); ok && isDownCounter(ph) != nil {
		return "[#down]"
	}
	return "[]"
}

func joinSet(alts []string) string {
	sort.Strings(alts)
	out := alts[:0]
	for i, a := range alts {
		if i == 0 || a != alts[i-1] {
			out = append(out, a)
		}
	}
	return strings.Join(out, "|")
}

func fieldName(t types.Type, idx int) string {
	if f := fieldOf(t, idx); f != nil {
		return f.Name()
	}
	return fmt.Sprintf("f%d", idx)
}

// localFieldStore: for a load of field f of a struct allocated in this
// function (`x := &T{}; x.f = v; ... x.f`), the unique store to that field.
func localFieldStore(fa *ssa.FieldAddr) *ssa.Store {
	al, ok := Resolve(fa.X).(*ssa.Alloc)
	if !ok || !al.Heap && false {
		return nil
	}
	if _, isStruct := al.Type().(*types.Pointer).Elem().Underlying().(*types.Struct); !isStruct {
		return nil
	}
	var found *ssa.Store
	for _, b := range al.Parent().Blocks {
		for _, ins := range b.Instrs {
			s, ok := ins.(*ssa.Store)
			if !ok {
				continue
			}
			o, ok := s.Addr.(*ssa.FieldAddr)
			if !ok || o.Field != fa.Field {
				continue
			}
			if o.X != al && Resolve(o.X) != al {
				continue
			}
			if found != nil {
				return nil
			}
			found = s
		}
	}
	return found
}

// spilledParam: an Alloc whose first store (entry block) saves a parameter.
func spilledParam(a *ssa.Alloc) *ssa.Parameter {
	for _, s := range storesTo(a) {
		if p, ok := s.Val.(*ssa.Parameter); ok && s.Block() == a.Parent().Blocks[0] {
			return p
		}
	}
	return nil
}

// freeVarBinding returns the value bound to fv in the (unique) MakeClosure of
// its function inside the parent.
func freeVarBinding(fv *ssa.FreeVar) ssa.Value {
	fn := fv.Parent()
	par := fn.Parent()
	if par == nil {
		return nil
	}
	idx := -1
	for i, f := range fn.FreeVars {
		if f == fv {
			idx = i
		}
	}
	if idx < 0 {
		return nil
	}
	var found ssa.Value
	n := 0
	for _, b := range par.Blocks {
		for _, ins := range b.Instrs {
			if mc, ok := ins.(*ssa.MakeClosure); ok && mc.Fn == fn && idx < len(mc.Bindings) {
				found = mc.Bindings[idx]
				n++
			}
		}
	}
	if n == 1 {
		return found
	}
	return nil
}

func (c *canon) call(call *ssa.Call, d int) string {
	cc := &call.Call
	var args []string
	name := ""
	if cc.IsInvoke() {
		name = "i:" + namedOf(cc.Value.Type()) + "." + cc.Method.Name()
		args = append(args, c.val(cc.Value, d-1))
	} else if b, ok := cc.Value.(*ssa.Builtin); ok {
		name = b.Name()
	} else if fn := cc.StaticCallee(); fn != nil {
		if f := GetterField(fn); f != nil && len(cc.Args) == 1 {
			return c.val(cc.Args[0], d) + "." + f.Name()
		}
		if fn.Pkg != nil && fn.Pkg.Pkg.Path() == "math/big" && namedOf(call.Type()) == "Int" && len(cc.Args) > 0 && bigMutator(fn.Name()) {
			return c.val(cc.Args[0], d) // x.SetBytes(b) returns x
		}
		name = calleeShort(fn)
	} else {
		name = "dyn:" + c.val(cc.Value, d-1)
	}
	for _, a := range cc.Args {
		args = append(args, c.val(a, d-1))
	}
	// appending to a fresh empty slice is the appended list itself: `l := make([]T, 0); l = append(l, x)` and
	// `l := []T{x}` are one form
	if name == "append" && len(args) == 2 && strings.HasPrefix(args[0], "local<[0]") && strings.HasSuffix(args[0], ">[:0]") {
		return args[1]
	}
	if name == "append" && len(args) == 2 {
		// appending to `make([]T, 0, n)` likewise
		if ms, ok := cc.Args[0].(*ssa.MakeSlice); ok {
			if n, isC := ConstInt(ms.Len); isC && n == 0 {
				return args[1]
			}
		}
		// two literals: the folded literal (what the compiler makes of `"M" + "key"`)
		if isPlainQuoted(args[0]) && isPlainQuoted(args[1]) {
			return args[0][:len(args[0])-1] + args[1][1:]
		}
	}
	// Sprintf("%s<rest>", a, ...) is a ++ Sprintf("<rest>", ...): the append form of the same bytes
	if name == "fmt.Sprintf" && len(cc.Args) == 2 {
		if k, ok := cc.Args[0].(*ssa.Const); ok && k.Value != nil && k.Value.Kind() == constant.String {
			format := constant.StringVal(k.Value)
			if sl, ok := cc.Args[1].(*ssa.Slice); ok && strings.HasPrefix(format, "%s") {
				if al, ok := sl.X.(*ssa.Alloc); ok {
					if elems := arrayElems(al); len(elems) >= 1 && isBytesOrString(Strip(elems[0]).Type()) {
						first, rest := c.val(elems[0], d-1), format[2:]
						var more []string
						for _, e := range elems[1:] {
							more = append(more, c.val(e, d-1))
						}
						switch {
						case rest == "" && len(more) == 0:
							return first
						case !strings.Contains(rest, "%") && len(more) == 0:
							return "append(" + first + "," + strconv.Quote(rest) + ")"
						default:
							return "append(" + first + ",fmt.Sprintf(" + strconv.Quote(rest) + ",[" + strings.Join(more, ",") + "]))"
						}
					}
				}
			}
		}
	}
	return name + "(" + strings.Join(args, ",") + ")" + c.feeds(call, d)
}

// feeds: a *big.Int is mutated in place (x.Add(x, y), x.SetBytes(b)); the
// provenance of such an accumulator is its constructor plus everything fed
// into it through receiver-mutating math/big methods.
func (c *canon) feeds(v ssa.Value, d int) string {
	if d <= 1 || namedOf(v.Type()) != "Int" {
		return ""
	}
	if p, ok := v.Type().(*types.Pointer); !ok || types.TypeString(p.Elem(), nil) != "math/big.Int" {
		return ""
	}
	aliases := []ssa.Value{v}
	if refs := v.Referrers(); refs != nil {
		for _, r := range *refs {
			st, ok := r.(*ssa.Store)
			if !ok || st.Val != v {
				continue
			}
			fa, ok := st.Addr.(*ssa.FieldAddr)
			if !ok {
				continue
			}
			al, ok := Resolve(fa.X).(*ssa.Alloc)
			if !ok || localFieldStore(fa) != st {
				continue
			}
			for _, b := range al.Parent().Blocks {
				for _, ins := range b.Instrs {
					u, ok := ins.(*ssa.UnOp)
					if !ok || u.Op != token.MUL {
						continue
					}
					o, ok := u.X.(*ssa.FieldAddr)
					if ok && o.Field == fa.Field && (o.X == al || Resolve(o.X) == al) {
						aliases = append(aliases, u)
					}
				}
			}
		}
	}
	var fs []string
	isAlias := func(x ssa.Value) bool {
		for _, a := range aliases {
			if a == x {
				return true
			}
		}
		return false
	}
	for _, al := range aliases {
		refs := al.Referrers()
		if refs == nil {
			continue
		}
		for _, r := range *refs {
			call, ok := r.(*ssa.Call)
			if !ok || call.Call.IsInvoke() || len(call.Call.Args) == 0 || call.Call.Args[0] != al {
				continue
			}
			fn := call.Call.StaticCallee()
			if fn == nil || fn.Pkg == nil || fn.Pkg.Pkg.Path() != "math/big" {
				continue
			}
			switch fn.Name() {
			case "Add", "Sub", "Mul", "Div", "Quo", "Rem", "Mod", "Neg", "Set", "SetBytes", "SetString", "SetInt64", "SetUint64", "Exp", "Lsh", "Rsh", "Abs":
			default:
				continue
			}
			var as []string
			for _, a := range call.Call.Args[1:] {
				if isAlias(a) {
					as = append(as, "self")
				} else {
					as = append(as, c.val(a, d-2))
				}
			}
			fs = append(fs, fn.Name()+"("+strings.Join(as, ",")+")")
		}
	}
	if len(fs) == 0 {
		return ""
	}
	return "{" + joinSet(fs) + "}"
}

func bigMutator(n string) bool {
	switch n {
	case "Add", "Sub", "Mul", "Div", "Quo", "Rem", "Mod", "Neg", "Set", "SetBytes", "SetInt64", "SetUint64", "Exp", "Lsh", "Rsh", "Abs":
		return true
	}
	return false
}

func calleeShort(fn *ssa.Function) string {
	if fn.Parent() != nil {
		return "closure:" + load.QualName(fn)
	}
	pk := ""
	if fn.Pkg != nil {
		pk = fn.Pkg.Pkg.Name()
	} else if fn.Object() != nil && fn.Object().Pkg() != nil {
		pk = fn.Object().Pkg().Name()
	}
	return pk + "." + load.FuncName(fn)
}

// isLocalSet: v is a map made in this function with bool values whose every update stores the constant true.
func isLocalSet(v ssa.Value) bool {
	mm, ok := Resolve(v).(*ssa.MakeMap)
	if !ok {
		return false
	}
	mt, ok := mm.Type().Underlying().(*types.Map)
	if !ok {
		return false
	}
	if b, ok := mt.Elem().Underlying().(*types.Basic); !ok || b.Kind() != types.Bool {
		return false
	}
	refs := mm.Referrers()
	if refs == nil {
		return false
	}
	n := 0
	for _, r := range *refs {
		switch u := r.(type) {
		case *ssa.MapUpdate:
			if u.Map != ssa.Value(mm) {
				continue
			}
			if b, isC := ConstBool(u.Value); !isC || !b {
				return false
			}
			n++
		case *ssa.Lookup, *ssa.Range, *ssa.DebugRef, *ssa.Return:
		case *ssa.Call:
			if bi, ok := u.Call.Value.(*ssa.Builtin); !ok || (bi.Name() != "len" && bi.Name() != "delete") {
				return false // handed to another function: it may store false
			}
		default:
			return false
		}
	}
	return n > 0
}

// soleCopySource: ms is `make([]T, len(src))` and the destination of exactly one whole-slice copy(ms, src).
func soleCopySource(ms *ssa.MakeSlice) ssa.Value {
	refs := ms.Referrers()
	if refs == nil {
		return nil
	}
	var src ssa.Value
	for _, r := range *refs {
		call, ok := r.(*ssa.Call)
		if !ok {
			continue
		}
		bi, ok := call.Call.Value.(*ssa.Builtin)
		if !ok || bi.Name() != "copy" || len(call.Call.Args) != 2 {
			continue
		}
		if call.Call.Args[0] != ssa.Value(ms) {
			continue
		}
		if src != nil {
			return nil
		}
		src = call.Call.Args[1]
	}
	if src == nil {
		return nil
	}
	// the length is len(src)
	lc, ok := ms.Len.(*ssa.Call)
	if !ok {
		return nil
	}
	if bi, ok := lc.Call.Value.(*ssa.Builtin); !ok || bi.Name() != "len" || len(lc.Call.Args) != 1 {
		return nil
	}
	if lc.Call.Args[0] != src && Canon(lc.Call.Args[0]) != Canon(src) {
		return nil
	}
	return src
}

func isPlainQuoted(s string) bool {
	return len(s) >= 2 && s[0] == '"' && s[len(s)-1] == '"' && !strings.Contains(s[1:len(s)-1], "\\") && !strings.Contains(s[1:len(s)-1], "\"")
}

func isBytesOrString(t types.Type) bool {
	switch u := t.Underlying().(type) {
	case *types.Basic:
		return u.Info()&types.IsString != 0
	case *types.Slice:
		b, ok := u.Elem().Underlying().(*types.Basic)
		return ok && b.Kind() == types.Uint8
	}
	return false
}

// twoCopySources: ms is `make([]T, len(a)+len(b))`, filled by exactly copy(ms, a) and copy(ms[len(a):], b).
func twoCopySources(ms *ssa.MakeSlice) (ssa.Value, ssa.Value) {
	refs := ms.Referrers()
	if refs == nil {
		return nil, nil
	}
	isLenOf := func(v, of ssa.Value) bool {
		lc, ok := v.(*ssa.Call)
		if !ok {
			return false
		}
		bi, ok := lc.Call.Value.(*ssa.Builtin)
		return ok && bi.Name() == "len" && len(lc.Call.Args) == 1 && (lc.Call.Args[0] == of || Canon(lc.Call.Args[0]) == Canon(of))
	}
	var a, b ssa.Value
	n := 0
	for _, r := range *refs {
		switch u := r.(type) {
		case *ssa.Call:
			bi, ok := u.Call.Value.(*ssa.Builtin)
			if !ok || bi.Name() != "copy" || len(u.Call.Args) != 2 || u.Call.Args[0] != ssa.Value(ms) {
				continue
			}
			if a != nil {
				return nil, nil
			}
			a = u.Call.Args[1]
			n++
		case *ssa.Slice:
			if u.X != ssa.Value(ms) || u.High != nil || u.Low == nil {
				continue
			}
			srefs := u.Referrers()
			if srefs == nil {
				continue
			}
			for _, sr := range *srefs {
				call, ok := sr.(*ssa.Call)
				if !ok {
					continue
				}
				bi, ok := call.Call.Value.(*ssa.Builtin)
				if !ok || bi.Name() != "copy" || len(call.Call.Args) != 2 || call.Call.Args[0] != ssa.Value(u) {
					continue
				}
				if b != nil {
					return nil, nil
				}
				b = call.Call.Args[1]
				n++
			}
		}
	}
	if a == nil || b == nil || n != 2 {
		return nil, nil
	}
	// the tail slice starts at len(a) and the length is len(a)+len(b)
	for _, r := range *refs {
		if u, ok := r.(*ssa.Slice); ok && u.X == ssa.Value(ms) && u.Low != nil && !isLenOf(u.Low, a) {
			return nil, nil
		}
	}
	sum, ok := ms.Len.(*ssa.BinOp)
	if !ok || sum.Op != token.ADD {
		return nil, nil
	}
	if !(isLenOf(sum.X, a) && isLenOf(sum.Y, b)) && !(isLenOf(sum.X, b) && isLenOf(sum.Y, a)) {
		return nil, nil
	}
	return a, b
}

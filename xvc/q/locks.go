package q

import (
	"fmt"
	"go/token"
	"go/types"
	"sort"
	"strings"

	ssa "xvc/xssa"

	"xvc/load"
)

// ---- K8: lock discipline -------------------------------------------------
//
// A lock is identified by the struct field that holds the mutex ("Type.field").
// The analysis is a forward must-hold dataflow over the CFG of each function:
// Lock/RLock add, Unlock/RUnlock remove, a deferred Unlock keeps the lock
// held until the exit and marks it as released-on-exit. Wrapper methods
// (a method that only locks or only unlocks a field of its receiver, such as
// UtxoCache.Lock) are summarised and treated like the primitive.

type lockMode byte

const (
	modeR lockMode = 'R'
	modeW lockMode = 'W'
)

type lockState struct {
	held     map[string]lockMode // must-hold
	deferred map[string]bool     // a deferred release was registered on every path
}

func (s lockState) clone() lockState {
	n := lockState{held: map[string]lockMode{}, deferred: map[string]bool{}}
	for k, v := range s.held {
		n.held[k] = v
	}
	for k := range s.deferred {
		n.deferred[k] = true
	}
	return n
}

func meet(a, b lockState) lockState {
	n := lockState{held: map[string]lockMode{}, deferred: map[string]bool{}}
	for k, v := range a.held {
		if w, ok := b.held[k]; ok {
			if v == modeW && w == modeW {
				n.held[k] = modeW
			} else {
				n.held[k] = modeR
			}
		}
	}
	for k := range a.deferred {
		if b.deferred[k] {
			n.deferred[k] = true
		}
	}
	return n
}

func (s lockState) equal(o lockState) bool {
	if len(s.held) != len(o.held) || len(s.deferred) != len(o.deferred) {
		return false
	}
	for k, v := range s.held {
		if o.held[k] != v {
			return false
		}
	}
	for k := range s.deferred {
		if !o.deferred[k] {
			return false
		}
	}
	return true
}

// lockOp classifies a call: +W, +R, -, for a lock field; "" if none.
type lockOp struct {
	field string
	op    byte // 'W' acquire exclusive, 'R' acquire shared, 'U' release
}

// mutexField: the receiver argument of a sync method is &x.f -> "T.f".
func mutexField(v ssa.Value) string {
	v = Strip(v)
	if fa, ok := v.(*ssa.FieldAddr); ok {
		return typeField(fa)
	}
	// embedded mutex promoted through a load (rare) or a pointer field *sync.Mutex
	if u, ok := v.(*ssa.UnOp); ok {
		if fa, ok := u.X.(*ssa.FieldAddr); ok {
			return typeField(fa)
		}
	}
	return ""
}

type LockAnalysis struct {
	c         *Ctx
	wrappers  map[*ssa.Function]lockOp
	entry     map[*ssa.Function]lockState
	in        map[*ssa.BasicBlock]lockState
	fns       []*ssa.Function
	callIndex map[*ssa.Function][]*ssa.Function
	invoked   map[string]bool
}

func syncOp(fn *ssa.Function) byte {
	if fn == nil || fn.Pkg == nil || fn.Pkg.Pkg.Path() != "sync" || fn.Signature.Recv() == nil {
		return 0
	}
	rt := namedOf(fn.Signature.Recv().Type())
	if rt != "Mutex" && rt != "RWMutex" {
		return 0
	}
	switch fn.Name() {
	case "Lock":
		return 'W'
	case "RLock":
		return 'R'
	case "Unlock", "RUnlock":
		return 'U'
	}
	return 0
}

func (la *LockAnalysis) opOf(ci ssa.CallInstruction) (lockOp, bool) {
	cc := ci.Common()
	fn := cc.StaticCallee()
	if fn == nil {
		return lockOp{}, false
	}
	if op := syncOp(fn); op != 0 && len(cc.Args) > 0 {
		if f := mutexField(cc.Args[0]); f != "" {
			return lockOp{f, op}, true
		}
		return lockOp{}, false
	}
	if w, ok := la.wrappers[fn]; ok {
		return w, true
	}
	return lockOp{}, false
}

// NewLockAnalysis analyses the functions of the given packages (suffixes).
func (c *Ctx) NewLockAnalysis(pkgSuffixes ...string) *LockAnalysis {
	la := &LockAnalysis{c: c, wrappers: map[*ssa.Function]lockOp{}, entry: map[*ssa.Function]lockState{}, in: map[*ssa.BasicBlock]lockState{}}
	for _, fn := range c.P.AllFns {
		if fn.Pkg == nil || len(fn.Blocks) == 0 {
			continue
		}
		p := strings.TrimPrefix(fn.Pkg.Pkg.Path(), load.Mod)
		for _, s := range pkgSuffixes {
			if p == s {
				la.fns = append(la.fns, fn)
			}
		}
	}
	// wrapper summaries: a method whose only sync operation(s) are acquires (or releases) of one field of its receiver
	for _, fn := range la.fns {
		if fn.Signature.Recv() == nil || fn.Parent() != nil {
			continue
		}
		var ops []lockOp
		for _, b := range fn.Blocks {
			for _, ins := range b.Instrs {
				ci, ok := ins.(ssa.CallInstruction)
				if !ok {
					continue
				}
				if _, isDefer := ins.(*ssa.Defer); isDefer {
					ops = append(ops, lockOp{"", 'X'}) // a deferred op disqualifies
					continue
				}
				if op := syncOp(ci.Common().StaticCallee()); op != 0 {
					f := mutexField(ci.Common().Args[0])
					ops = append(ops, lockOp{f, op})
				}
			}
		}
		if len(ops) == 1 && ops[0].field != "" && len(fn.Blocks) == 1 {
			la.wrappers[fn] = ops[0]
		}
	}
	// entry locksets: intersection over static call sites (unexported, non-method-value functions only)
	for round := 0; round < 4; round++ {
		la.in = map[*ssa.BasicBlock]lockState{}
		for _, fn := range la.fns {
			la.flow(fn)
		}
		changed := false
		newEntry := map[*ssa.Function]lockState{}
		seenCall := map[*ssa.Function]bool{}
		for _, fn := range la.fns {
			for _, b := range fn.Blocks {
				st, ok := la.in[b]
				if !ok {
					continue
				}
				st = st.clone()
				for _, ins := range b.Instrs {
					if ci, ok := ins.(ssa.CallInstruction); ok {
						callee := ci.Common().StaticCallee()
						_, isGo := ins.(*ssa.Go)
						_, isDefer := ins.(*ssa.Defer)
						if callee != nil && !isGo && !isDefer && la.isLocal(callee) {
							cs := lockState{held: st.held, deferred: map[string]bool{}}
							if prev, ok := newEntry[callee]; ok {
								newEntry[callee] = meet(prev, cs)
							} else {
								newEntry[callee] = cs.clone()
							}
							seenCall[callee] = true
						} else if callee != nil && (isGo || isDefer) && la.isLocal(callee) {
							newEntry[callee] = lockState{held: map[string]lockMode{}, deferred: map[string]bool{}}
						}
					}
					la.step(&st, ins)
				}
			}
		}
		for _, fn := range la.fns {
			var ne lockState
			if la.escapes(fn) || !seenCall[fn] {
				ne = lockState{held: map[string]lockMode{}, deferred: map[string]bool{}}
			} else {
				ne = newEntry[fn]
				ne.deferred = map[string]bool{}
			}
			if old, ok := la.entry[fn]; !ok || !old.equal(ne) {
				changed = true
			}
			la.entry[fn] = ne
		}
		if !changed {
			break
		}
	}
	la.in = map[*ssa.BasicBlock]lockState{}
	for _, fn := range la.fns {
		la.flow(fn)
	}
	return la
}

func (la *LockAnalysis) isLocal(fn *ssa.Function) bool {
	for _, f := range la.fns {
		if f == fn {
			return true
		}
	}
	return false
}

// escapes: exported, or used as a value (method value, stored, passed), or a
// closure that is not only called directly: callers unknown -> empty entry set.
func (la *LockAnalysis) escapes(fn *ssa.Function) bool {
	if fn.Parent() == nil && fn.Object() != nil && fn.Object().Exported() {
		// whole-program view: an exported function whose every call site is a
		// static call inside the analysed packages has known callers.
		if !la.onlyLocalStaticCallers(fn) {
			return true
		}
	}
	if refs := fn.Referrers(); refs != nil {
		for _, r := range *refs {
			if ci, ok := r.(ssa.CallInstruction); ok && ci.Common().Value == fn {
				continue
			}
			return true
		}
	}
	if fn.Parent() != nil {
		// closure: find MakeClosure uses
		for _, b := range fn.Parent().Blocks {
			for _, ins := range b.Instrs {
				mc, ok := ins.(*ssa.MakeClosure)
				if !ok || mc.Fn != fn {
					continue
				}
				if refs := mc.Referrers(); refs != nil {
					for _, r := range *refs {
						if ci, ok := r.(ssa.CallInstruction); ok && ci.Common().Value == mc {
							if _, isGo := r.(*ssa.Go); isGo {
								return true
							}
							continue
						}
						return true
					}
				}
			}
		}
	}
	return false
}

func (la *LockAnalysis) onlyLocalStaticCallers(fn *ssa.Function) bool {
	if la.callIndex == nil {
		la.callIndex = map[*ssa.Function][]*ssa.Function{}
		la.invoked = map[string]bool{}
		for _, f := range la.c.P.AllFns {
			for _, b := range f.Blocks {
				for _, ins := range b.Instrs {
					ci, ok := ins.(ssa.CallInstruction)
					if !ok {
						continue
					}
					if ci.Common().IsInvoke() {
						la.invoked[ci.Common().Method.Name()] = true
					} else if callee := ci.Common().StaticCallee(); callee != nil {
						la.callIndex[callee] = append(la.callIndex[callee], f)
					}
				}
			}
		}
	}
	if fn.Signature.Recv() != nil && la.invoked[fn.Name()] {
		return false // may be reached through an interface
	}
	callers := la.callIndex[fn]
	if len(callers) == 0 {
		return false
	}
	for _, f := range callers {
		if !la.isLocal(Top(f)) && !la.isLocal(f) {
			return false
		}
	}
	return true
}

func derefNamed(t types.Type) (*types.Named, bool) {
	if p, ok := t.(*types.Pointer); ok {
		t = p.Elem()
	}
	n, ok := t.(*types.Named)
	return n, ok
}

func (la *LockAnalysis) step(st *lockState, ins ssa.Instruction) {
	ci, ok := ins.(ssa.CallInstruction)
	if !ok {
		return
	}
	if _, isGo := ins.(*ssa.Go); isGo {
		return
	}
	_, isDefer := ins.(*ssa.Defer)
	op, ok := la.opOf(ci)
	if !ok {
		// deferred closure that releases: `defer func(){ ...; mu.Unlock() }()`
		if isDefer {
			if fn := ci.Common().StaticCallee(); fn != nil && fn.Parent() != nil {
				for _, b := range fn.Blocks {
					for _, j := range b.Instrs {
						if cj, ok := j.(ssa.CallInstruction); ok {
							if o2, ok := la.opOf(cj); ok && o2.op == 'U' {
								st.deferred[o2.field] = true
							}
						}
					}
				}
			}
		}
		return
	}
	if isDefer {
		if op.op == 'U' {
			st.deferred[op.field] = true
		}
		return
	}
	switch op.op {
	case 'W':
		st.held[op.field] = modeW
	case 'R':
		st.held[op.field] = modeR
	case 'U':
		delete(st.held, op.field)
	}
}

func (la *LockAnalysis) flow(fn *ssa.Function) {
	entry, ok := la.entry[fn]
	if !ok {
		entry = lockState{held: map[string]lockMode{}, deferred: map[string]bool{}}
	}
	out := map[*ssa.BasicBlock]lockState{}
	work := []*ssa.BasicBlock{fn.Blocks[0]}
	la.in[fn.Blocks[0]] = entry.clone()
	for len(work) > 0 {
		b := work[0]
		work = work[1:]
		st := la.in[b].clone()
		for _, ins := range b.Instrs {
			la.step(&st, ins)
		}
		if prev, ok := out[b]; ok && prev.equal(st) {
			continue
		}
		out[b] = st
		for _, s := range b.Succs {
			if cur, ok := la.in[s]; ok {
				m := meet(cur, st)
				if !m.equal(cur) {
					la.in[s] = m
					work = append(work, s)
				} else if _, done := out[s]; !done {
					work = append(work, s)
				}
			} else {
				la.in[s] = st.clone()
				work = append(work, s)
			}
		}
	}
}

// HeldAt returns the must-hold lockset just before ins.
func (la *LockAnalysis) HeldAt(ins ssa.Instruction) map[string]lockMode {
	st, ok := la.in[ins.Block()]
	if !ok {
		return map[string]lockMode{}
	}
	st = st.clone()
	for _, j := range ins.Block().Instrs {
		if j == ins {
			break
		}
		la.step(&st, j)
	}
	return st.held
}

// Pairing (K8a): every lock acquired in a function is released on all exits
// (directly or by a deferred release); wrapper methods are exempt.
// PairExempt exempts, in one function, the exits that sit under a decision.
type PairExempt struct {
	Under Cond
	Why   string
}

func (la *LockAnalysis) Pairing(exempt map[string]PairExempt) {
	c := la.c
	n := 0
	for _, fn := range la.fns {
		if _, isW := la.wrappers[fn]; isW {
			continue
		}
		acquires := false
		for _, b := range fn.Blocks {
			for _, ins := range b.Instrs {
				if ci, ok := ins.(ssa.CallInstruction); ok {
					if _, isDefer := ins.(*ssa.Defer); isDefer {
						continue
					}
					if op, ok := la.opOf(ci); ok && op.op != 'U' {
						acquires = true
					}
				}
			}
		}
		if !acquires {
			continue
		}
		name := load.QualName(fn)
		entry := la.entry[fn]
		var leaks, exempted []string
		for _, ret := range Returns(fn) {
			st, ok := la.in[ret.Block()]
			if !ok {
				continue
			}
			st = st.clone()
			for _, j := range ret.Block().Instrs {
				la.step(&st, j)
			}
			for f := range st.held {
				if st.deferred[f] {
					continue
				}
				if _, atEntry := entry.held[f]; atEntry {
					continue
				}
				if ex, ok := exempt[name]; ok && HasGuard(ret.Block(), ex.Under) {
					exempted = append(exempted, f+" at "+c.At(ret))
					continue
				}
				leaks = append(leaks, f+" still held at "+c.At(ret))
			}
		}
		n++
		c.Sites++
		sort.Strings(leaks)
		if len(leaks) == 0 {
			detail := ""
			if len(exempted) > 0 {
				detail = "exempt exit(s): " + strings.Join(uniq(exempted), "; ") + " - " + exempt[name].Why
			}
			c.OK("K8a", name, "every lock acquired is released on all exits", c.P.Pos(fn.Pos()), detail)
		} else {
			c.Fail("K8a", name, "every lock acquired is released on all exits", c.P.Pos(fn.Pos()), strings.Join(uniq(leaks), "; "))
		}
	}
	c.Floor("K8a", "packages", "functions acquiring a lock", n, 1)
}

// GuardedBy (K8b): every access to field tf (reads need the lock in any mode,
// writes need it exclusively) happens with lock field lf held. Functions in
// exempt (constructors, single-threaded initialisation) are skipped with a reason.
func (la *LockAnalysis) GuardedBy(tf, lf string, exempt map[string]string, minSites int) {
	c := la.c
	n := 0
	type acc struct {
		ins   ssa.Instruction
		write bool
	}
	for _, fn := range la.fns {
		name := load.QualName(fn)
		top := load.QualName(Top(fn))
		var accs []acc
		for _, b := range fn.Blocks {
			for _, ins := range b.Instrs {
				fa, ok := ins.(*ssa.FieldAddr)
				if !ok || typeField(fa) != tf {
					continue
				}
				// classify every use of the field address
				refs := fa.Referrers()
				if refs == nil {
					continue
				}
				for _, r := range *refs {
					switch u := r.(type) {
					case *ssa.Store:
						if u.Addr == fa {
							accs = append(accs, acc{u, true})
						}
					case *ssa.UnOp: // load of the field value; writes through it (map update, delete) are writes to the guarded structure
						w := false
						var firstUse ssa.Instruction = u
						var nestedW []ssa.Instruction
						isMapWrite := func(m ssa.Value, x ssa.Instruction) bool {
							switch y := x.(type) {
							case *ssa.MapUpdate:
								return y.Map == m
							case ssa.CallInstruction:
								if b, ok := y.Common().Value.(*ssa.Builtin); ok && b.Name() == "delete" && len(y.Common().Args) > 0 && y.Common().Args[0] == m {
									return true
								}
							}
							return false
						}
						if lr := u.Referrers(); lr != nil {
							for _, x := range *lr {
								if isMapWrite(u, x) {
									w = true
									firstUse = x
								}
								// nested containers: d.mc[k][s] = v / delete(d.mc[k], s)
								if lk, ok := x.(*ssa.Lookup); ok && lk.X == u {
									inner := []ssa.Value{lk}
									if lrefs := lk.Referrers(); lrefs != nil {
										for _, e := range *lrefs {
											if ex, ok := e.(*ssa.Extract); ok && ex.Index == 0 {
												inner = append(inner, ex)
											}
										}
									}
									for _, iv := range inner {
										if ir := iv.Referrers(); ir != nil {
											for _, y := range *ir {
												if isMapWrite(iv, y) {
													nestedW = append(nestedW, y)
												}
											}
										}
									}
								}
							}
						}
						accs = append(accs, acc{firstUse, w})
						for _, nw := range nestedW {
							accs = append(accs, acc{nw, true})
						}
						if !w {
							// reads through the loaded value happen at their own instructions
							if lr := u.Referrers(); lr != nil {
								for _, x := range *lr {
									if xi, ok := x.(ssa.Instruction); ok {
										switch x.(type) {
										case *ssa.Lookup, *ssa.Range, *ssa.Next, *ssa.Index:
											accs = append(accs, acc{xi, false})
										}
									}
								}
							}
						}
					}
				}
			}
		}
		for _, a := range accs {
			n++
			c.Sites++
			kind := "read"
			if a.write {
				kind = "write"
			}
			what := kind + " of " + tf + " holds " + lf
			if why, ok := exempt[top]; ok {
				c.OK("K8b", name, what, c.At(a.ins), "exempt: "+why)
				continue
			}
			held := la.HeldAt(a.ins)
			m, ok := held[lf]
			if ok && (!a.write || m == modeW) {
				c.OK("K8b", name, what, c.At(a.ins), fmt.Sprintf("held in mode %c", m))
			} else if ok {
				c.Fail("K8b", name, what, c.At(a.ins), "the structure is modified while the lock is only held shared")
			} else {
				c.Fail("K8b", name, what, c.At(a.ins), "the lock is not held on every path to this access")
			}
		}
	}
	if n < minSites {
		c.Fail("floor", tf, fmt.Sprintf("K8b: accesses of %s found (>= %d)", tf, minSites), "-", fmt.Sprintf("found %d", n))
	}
}

// GuardedElems (K8b): the objects stored IN the guarded container tf (obtained through a call matching getSpec on
// the container, e.g. the *big.Int handed out by LRUCache.Get) are shared too: every call that receives such an object
// happens with lock lf held, and the object never leaves the function (returned, stored, captured) - a holder outside
// the critical section would read or update it concurrently with the guarded updates.
func (la *LockAnalysis) GuardedElems(tf, lf, getSpec string, minSites int) {
	c := la.c
	n := 0
	for _, fn := range la.fns {
		name := load.QualName(fn)
		derived := map[ssa.Value]bool{}
		var work []ssa.Value
		for _, b := range fn.Blocks {
			for _, ins := range b.Instrs {
				ci, ok := ins.(*ssa.Call)
				if !ok || !Callee(ci.Common()).Match(getSpec) {
					continue
				}
				var recv ssa.Value
				if ci.Common().IsInvoke() {
					recv = ci.Common().Value
				} else if len(ci.Common().Args) > 0 {
					recv = ci.Common().Args[0]
				}
				u, ok := Resolve(recv).(*ssa.UnOp)
				if !ok || u.Op != token.MUL {
					continue
				}
				fa, ok := u.X.(*ssa.FieldAddr)
				if !ok || typeField(fa) != tf {
					continue
				}
				derived[ci] = true
				work = append(work, ci)
			}
		}
		for len(work) > 0 {
			v := work[len(work)-1]
			work = work[:len(work)-1]
			refs := v.Referrers()
			if refs == nil {
				continue
			}
			for _, r := range *refs {
				what := "element of " + tf + " is used with " + lf + " held and stays inside the critical section"
				switch x := r.(type) {
				case *ssa.Extract:
					if x.Index == 0 && !derived[x] {
						derived[x] = true
						work = append(work, x)
					}
				case *ssa.TypeAssert, *ssa.ChangeType, *ssa.ChangeInterface, *ssa.Phi, *ssa.MakeInterface:
					if xv := r.(ssa.Value); !derived[xv] {
						derived[xv] = true
						work = append(work, xv)
					}
				case *ssa.If, *ssa.BinOp, *ssa.DebugRef:
				case ssa.CallInstruction:
					if _, isDefer := x.(*ssa.Defer); isDefer {
						n++
						c.Sites++
						c.Fail("K8b", name, what, c.At(x), "handed to a deferred call")
						continue
					}
					if _, isGo := x.(*ssa.Go); isGo {
						n++
						c.Sites++
						c.Fail("K8b", name, what, c.At(x), "handed to a goroutine")
						continue
					}
					n++
					c.Sites++
					if _, ok := la.HeldAt(x)[lf]; ok {
						c.OK("K8b", name, what, c.At(x), "call with the lock held")
					} else {
						c.Fail("K8b", name, what, c.At(x), "the lock is not held on every path to this use")
					}
				default:
					n++
					c.Sites++
					c.Fail("K8b", name, what, c.At(r), fmt.Sprintf("the element leaves the critical section (%T)", r))
				}
			}
		}
	}
	if n < minSites {
		c.Fail("floor", tf, fmt.Sprintf("K8b: uses of elements of %s found (>= %d)", tf, minSites), "-", fmt.Sprintf("found %d", n))
	}
}

// NotHeldAtCalls (K8c): no call matching spec inside fn happens while lock lf is held in any mode (waiting for other
// goroutines, or calling out to handlers, under a lock that those goroutines or handlers may need).
func (la *LockAnalysis) NotHeldAtCalls(fn *ssa.Function, spec, lf string, why string) {
	c := la.c
	if fn == nil {
		return
	}
	name := load.QualName(fn)
	sites := CallsIn(fn, spec)
	if len(sites) == 0 {
		c.Fail("floor", name, "K8c: call of "+spec+" present", "-", "not found")
		return
	}
	for _, ci := range sites {
		c.Sites++
		what := "call " + spec + " runs with " + lf + " released"
		if _, held := la.HeldAt(ci)[lf]; held {
			c.Fail("K8c", name, what, c.At(ci), "the lock is still held here ("+why+")")
		} else {
			c.OK("K8c", name, what, c.At(ci), why)
		}
	}
}

// HeldAtCalls (K8b/K2): every call matching spec inside function fn happens
// with lock lf held in at least the given mode.
func (la *LockAnalysis) HeldAtCalls(fn *ssa.Function, spec, lf string, excl bool, why string) {
	c := la.c
	if fn == nil {
		return
	}
	name := load.QualName(fn)
	sites := CallsIn(fn, spec)
	if len(sites) == 0 {
		c.Fail("floor", name, "K8b: call of "+spec+" present", "-", "not found")
		return
	}
	for _, ci := range sites {
		c.Sites++
		m, ok := la.HeldAt(ci)[lf]
		mode := "shared or exclusive"
		if excl {
			mode = "exclusive"
		}
		what := "call " + spec + " runs with " + lf + " held (" + mode + ")"
		if ok && (!excl || m == modeW) {
			c.OK("K8b", name, what, c.At(ci), why)
		} else {
			c.Fail("K8b", name, what, c.At(ci), "lock not held in the required mode ("+why+")")
		}
	}
}

// Order (K8c): the acquired-while-holding graph over the analysed functions
// (closed over static callees) is acyclic.
func (la *LockAnalysis) Order() {
	c := la.c
	// may-acquire summaries
	acq := map[*ssa.Function]map[string]bool{}
	for _, fn := range la.fns {
		acq[fn] = map[string]bool{}
	}
	for changed := true; changed; {
		changed = false
		for _, fn := range la.fns {
			for _, b := range fn.Blocks {
				for _, ins := range b.Instrs {
					ci, ok := ins.(ssa.CallInstruction)
					if !ok {
						continue
					}
					if _, isGo := ins.(*ssa.Go); isGo {
						continue
					}
					if op, ok := la.opOf(ci); ok {
						if op.op != 'U' && !acq[fn][op.field] {
							acq[fn][op.field] = true
							changed = true
						}
						continue
					}
					if callee := ci.Common().StaticCallee(); callee != nil {
						for f := range acq[callee] {
							if !acq[fn][f] {
								acq[fn][f] = true
								changed = true
							}
						}
					}
				}
			}
		}
	}
	var reacq [][2]string
	edges := map[string]map[string]string{}
	add := func(a, b, site string) {
		if a == b {
			return
		}
		if edges[a] == nil {
			edges[a] = map[string]string{}
		}
		if _, ok := edges[a][b]; !ok {
			edges[a][b] = site
		}
	}
	for _, fn := range la.fns {
		for _, b := range fn.Blocks {
			for _, ins := range b.Instrs {
				ci, ok := ins.(ssa.CallInstruction)
				if !ok {
					continue
				}
				if _, isGo := ins.(*ssa.Go); isGo {
					continue
				}
				if _, isDefer := ins.(*ssa.Defer); isDefer {
					continue
				}
				held := la.HeldAt(ins)
				if len(held) == 0 {
					continue
				}
				var news []string
				if op, ok := la.opOf(ci); ok {
					if op.op != 'U' {
						news = append(news, op.field)
					}
				} else if callee := ci.Common().StaticCallee(); callee != nil {
					for f := range acq[callee] {
						news = append(news, f)
					}
				}
				for _, nf := range news {
					for h := range held {
						if h == nf {
							// acquired again while held: a sync.Mutex / write lock blocks for ever; two read locks
							// deadlock as soon as a writer queues between them (RWMutex prefers writers)
							reacq = append(reacq, [2]string{nf, c.At(ins) + " in " + load.QualName(fn)})
						}
						add(h, nf, c.At(ins))
					}
				}
			}
		}
	}
	// cycle detection
	var nodes []string
	for a := range edges {
		nodes = append(nodes, a)
	}
	sort.Strings(nodes)
	color := map[string]int{}
	var cyc []string
	var dfs func(a string, path []string) bool
	dfs = func(a string, path []string) bool {
		color[a] = 1
		var outs []string
		for b := range edges[a] {
			outs = append(outs, b)
		}
		sort.Strings(outs)
		for _, b := range outs {
			if color[b] == 1 {
				cyc = append(append([]string{}, path...), a+" -> "+b+" @"+edges[a][b])
				return true
			}
			if color[b] == 0 && dfs(b, append(path, a+" -> "+b+" @"+edges[a][b])) {
				return true
			}
		}
		color[a] = 2
		return false
	}
	found := false
	for _, a := range nodes {
		if color[a] == 0 && dfs(a, nil) {
			found = true
			break
		}
	}
	ne := 0
	for _, a := range nodes {
		var outs []string
		for b := range edges[a] {
			outs = append(outs, b)
		}
		sort.Strings(outs)
		for _, b := range outs {
			ne++
			c.OK("K8c", "lock-order", a+" is acquired before "+b, edges[a][b], "edge of the acquired-while-holding graph")
		}
	}
	c.Sites += ne
	if len(reacq) == 0 {
		c.OK("K8c", "lock-order", "no lock is acquired again while it is held", "-", "neither directly nor through a callee (a second read lock deadlocks behind a queued writer)")
	}
	for _, r := range reacq {
		c.Fail("K8c", "lock-order", "no lock is acquired again while it is held", r[1], r[0]+" is acquired while already held: a write lock blocks for ever, a second read lock deadlocks as soon as a writer queues between the two")
	}
	if found {
		c.Fail("K8c", "lock-order", "the acquired-while-holding graph is acyclic", "-", "cycle: "+strings.Join(cyc, " ; "))
	} else {
		c.OK("K8c", "lock-order", "the acquired-while-holding graph is acyclic", "-", fmt.Sprintf("%d edges over %d locks", ne, len(nodes)))
	}
}

// GuardedByAny (K8d): in the listed functions, every access to field tf
// happens with at least one lock held (whichever); reports one obligation per
// function. Used for structures that have no designated lock at all.
func (la *LockAnalysis) GuardedByAny(tf string, fns []string, why string) {
	c := la.c
	for _, name := range fns {
		fn := c.P.Funcs[name]
		if fn == nil {
			c.Fail("anchor", name, "function resolves", "-", "")
			continue
		}
		n, unlocked := 0, ""
		for _, b := range fn.Blocks {
			for _, ins := range b.Instrs {
				fa, ok := ins.(*ssa.FieldAddr)
				if !ok || typeField(fa) != tf {
					continue
				}
				n++
				if len(la.HeldAt(ins)) == 0 {
					unlocked = c.At(ins)
				}
			}
		}
		if n == 0 {
			continue
		}
		c.Sites += n
		what := "accesses of " + tf + " hold a common lock"
		if unlocked == "" {
			c.OK("K8d", name, what, "-", why)
		} else {
			c.Fail("K8d", name, what, unlocked, "no lock is held ("+why+")")
		}
	}
}

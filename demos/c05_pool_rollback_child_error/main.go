// C02/C03/C05: undoUnconfirmedTx discards the error of the recursive undo of a dependant.
// History: pool holds P (Bob's genesis output -> Alice 1000 + Bob's change O) and its child C
// (spends O, and overwrites the contract key b/K); the node restarts (the pool is reloaded from
// disk, the version cache is cold); the pool is rolled back (what every Walk does first) and ONE
// ledger read fails while C is being undone as P's dependant. The error is dropped, P is undone
// anyway (O deleted), then the outer loop reaches C, whose undo now succeeds and puts O back
// AFTER P's undo deleted it - in the same batch, which is written and reported as a success.
// Result: P is gone but its output O exists again next to P's restored input.
package main

import (
	"errors"
	"fmt"
	"math/big"
	"time"

	"demos/internal/env"

	"github.com/xuperchain/xupercore/bcs/ledger/xledger/state"
	"github.com/xuperchain/xupercore/bcs/ledger/xledger/state/context"
	"github.com/xuperchain/xupercore/bcs/ledger/xledger/state/utxo/txhash"
	pb "github.com/xuperchain/xupercore/bcs/ledger/xledger/xldgpb"
	"github.com/xuperchain/xupercore/kernel/mock"
	"github.com/xuperchain/xupercore/lib/storage/kvdb"
	ldb "github.com/xuperchain/xupercore/lib/storage/kvdb/leveldb"
	"github.com/xuperchain/xupercore/protos"
)

var failKey string // the next Get of this key fails once
var failed int

type db struct{ kvdb.Database }

func (d *db) Get(k []byte) ([]byte, error) {
	if failKey != "" && string(k) == failKey {
		failKey = ""
		failed++
		return nil, errors.New("injected storage read error")
	}
	return d.Database.Get(k)
}

func attempt(n int) bool {
	e := env.New(true, func(root *pb.Transaction) {
		root.TxInputsExt = []*protos.TxInputExt{{Bucket: "b", Key: []byte("K")}}
		root.TxOutputsExt = []*protos.TxOutputExt{{Bucket: "b", Key: []byte("K"), Value: []byte("v0")}}
	})
	defer e.Close()
	b1 := e.Block(e.Root.Blockid, 1, "b1")
	if !e.Ledger.ConfirmBlock(b1, false).Succ {
		panic("b1")
	}
	env.Must(e.State.Walk(b1.Blockid, false))
	P := e.BobSpendsGenesisOutput(0, 1000, "p")
	env.Must(e.State.DoTx(P))
	change := big.NewInt(10000000 - 1000).Bytes()
	C := &pb.Transaction{Version: 1, Nonce: "c", Timestamp: time.Now().UnixNano(), Initiator: env.Bob}
	C.TxInputs = []*protos.TxInput{{RefTxid: P.Txid, RefOffset: 1, FromAddr: []byte(env.Bob), Amount: change}}
	C.TxOutputs = []*protos.TxOutput{{ToAddr: []byte(env.Alice), Amount: change}}
	C.TxInputsExt = []*protos.TxInputExt{{Bucket: "b", Key: []byte("K"), RefTxid: e.RootTx.Txid, RefOffset: 0}}
	C.TxOutputsExt = []*protos.TxOutputExt{{Bucket: "b", Key: []byte("K"), Value: []byte("v1")}}
	C.Txid, _ = txhash.MakeTransactionID(C)
	env.Must(e.State.DoTx(C))

	// restart the state machine: pool reloaded from disk, caches cold
	e.State.Close()
	econf, err := mock.NewEnvConfForTest()
	env.Must(err)
	sctx, err := context.NewStateCtx(econf, "xuper", e.Ledger, e.Crypt)
	env.Must(err)
	sctx.EnvCfg.ChainDir = e.Dir
	s2, err := state.NewState(sctx)
	env.Must(err)
	e.State = s2

	failKey = "C" + string(e.RootTx.Txid) // the confirmed-table row of the transaction that wrote b/K before C
	failed = 0
	_, undone, rbErr := s2.RollBackUnconfirmedTx()
	if rbErr != nil {
		// the outer loop met C first: its error was propagated and nothing was written (correct)
		fmt.Printf("attempt %d: RollBackUnconfirmedTx = %v (injected faults: %d; nothing written)\n", n, rbErr, failed)
		return failed > 0 && undoneOrder(undone) == "" && false
	}
	if failed == 0 {
		fmt.Printf("attempt %d: the read was served from a cache, no fault injected\n", n)
		return false
	}
	fmt.Printf("attempt %d: RollBackUnconfirmedTx = <nil> although one read failed; undo order = %s\n", n, undoneOrder2(undone, P, C))
	s2.ClearCache()
	bob, _ := s2.GetBalance(env.Bob)
	alice, _ := s2.GetBalance(env.Alice)
	pending, _ := s2.GetUnconfirmedTx(false)
	fmt.Printf("   pool now holds %d transaction(s); bob=%s alice=%s  (chain state: bob=10000000 alice=20000000)\n", len(pending), bob, alice)
	return true
}

func undoneOrder(l []*pb.Transaction) string { return "" }

func undoneOrder2(l []*pb.Transaction, P, C *pb.Transaction) string {
	s := ""
	for _, t := range l {
		if string(t.Txid) == string(P.Txid) {
			s += "P "
		} else if string(t.Txid) == string(C.Txid) {
			s += "C "
		}
	}
	return s
}

func main() {
	kvdb.Register("failldb", func(p *kvdb.KVParameter) (kvdb.Database, error) {
		d, err := ldb.NewKVDBInstance(p)
		if err != nil {
			return nil, err
		}
		return &db{d}, nil
	})
	env.LedgerEngine = "failldb"
	for i := 1; i <= 12; i++ {
		if attempt(i) {
			return
		}
	}
	fmt.Println("no attempt visited the parent first")
}

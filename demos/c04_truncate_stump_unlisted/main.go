// C04: Truncate cuts EVERY branch down to the target's height but records the target as the new tip of each of
// them. A side branch that forked below the target keeps a stump (its block at the target's height) that no
// branch record names: GetBranchInfo does not list it, so the next truncation does not cut it, and a stored
// block then sits ABOVE the recorded tip.
package main

import (
	"fmt"

	"demos/internal/env"
)

func main() {
	e := env.New(false, nil)
	defer e.Close()
	confirm := func(name string, pre []byte) []byte {
		b := e.Block(pre, 1, name)
		if !e.Ledger.ConfirmBlock(b, false).Succ {
			panic(name)
		}
		return b.Blockid
	}
	m1 := confirm("m1", e.Root.Blockid)
	m2 := confirm("m2", m1)
	m3 := confirm("m3", m2)
	confirm("m4", m3)
	s1 := confirm("s1", e.Root.Blockid) // side branch from genesis, never the longest
	s2 := confirm("s2", s1)
	s3 := confirm("s3", s2)
	tips := func(tag string) {
		ids, _ := e.Ledger.GetBranchInfo(e.Root.Blockid, 0)
		fmt.Printf("%-34s trunk height %d, branch tips listed: %d", tag, e.Ledger.GetMeta().TrunkHeight, len(ids))
		for _, id := range ids {
			h, _ := e.Ledger.QueryBlockHeader([]byte(id))
			fmt.Printf("  [height %d]", h.Height)
		}
		fmt.Println()
	}
	tips("before:")
	fmt.Println("Truncate(m2):", e.Ledger.Truncate(m2))
	tips("after Truncate(m2):")
	fmt.Printf("   s3 stored: %v   s2 stored: %v (the stump of the side branch at height 2)\n", e.Ledger.ExistBlock(s3), e.Ledger.ExistBlock(s2))
	fmt.Println("Truncate(m1):", e.Ledger.Truncate(m1))
	tips("after Truncate(m1):")
	h, _ := e.Ledger.QueryBlockHeader(s2)
	fmt.Printf("   s2 still stored: %v at height %d  >  recorded tip height %d\n", e.Ledger.ExistBlock(s2), h.GetHeight(), e.Ledger.GetMeta().TrunkHeight)
}

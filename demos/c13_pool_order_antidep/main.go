// C13: the pool's packing order can put the writer of a key before a transaction that only
// READ the version the writer supersedes; replayed in that order the reader is stale.
package main

import (
	"fmt"
	"time"

	"demos/internal/env"

	"github.com/xuperchain/xupercore/bcs/ledger/xledger/state/utxo/txhash"
	pb "github.com/xuperchain/xupercore/bcs/ledger/xledger/xldgpb"
	"github.com/xuperchain/xupercore/protos"
)

func genesisWithK(root *pb.Transaction) {
	root.TxInputsExt = []*protos.TxInputExt{{Bucket: "b", Key: []byte("K")}, {Bucket: "b", Key: []byte("other")}}
	root.TxOutputsExt = []*protos.TxOutputExt{{Bucket: "b", Key: []byte("K"), Value: []byte("v0")}, {Bucket: "b", Key: []byte("other"), Value: []byte("o0")}}
}

// node at height 1: genesis (creates b/K) plus one empty block, so that no block batch that
// touched K is the "last batch" any more (this keeps finding C03/stale-batchCache out of the picture).
func node() *env.Env {
	e := env.New(true, genesisWithK)
	b := e.Block(e.Root.Blockid, 1, "b1")
	if !e.Ledger.ConfirmBlock(b, false).Succ {
		panic("b1")
	}
	env.Must(e.State.Walk(b.Blockid, false))
	return e
}

func main() {
	wBeforeR, trials := 0, 12
	for i := 0; i < trials; i++ {
		e := node()
		in := func(key string, off int32) *protos.TxInputExt {
			return &protos.TxInputExt{Bucket: "b", Key: []byte(key), RefTxid: e.RootTx.Txid, RefOffset: off}
		}
		// R only reads K (and writes an unrelated key); W reads and overwrites K. R is admitted first.
		R := &pb.Transaction{Version: 1, Nonce: "r", Timestamp: time.Now().UnixNano(), Initiator: "x"}
		R.TxInputsExt = []*protos.TxInputExt{in("K", 0), in("other", 1)}
		R.TxOutputsExt = []*protos.TxOutputExt{{Bucket: "b", Key: []byte("other"), Value: []byte("o1")}}
		R.Txid, _ = txhash.MakeTransactionID(R)
		W := &pb.Transaction{Version: 1, Nonce: "w", Timestamp: time.Now().UnixNano(), Initiator: "x"}
		W.TxInputsExt = []*protos.TxInputExt{in("K", 0)}
		W.TxOutputsExt = []*protos.TxOutputExt{{Bucket: "b", Key: []byte("K"), Value: []byte("v1")}}
		W.Txid, _ = txhash.MakeTransactionID(W)
		env.Must(e.State.DoTx(R))
		env.Must(e.State.DoTx(W))
		order, err := e.State.GetUnconfirmedTx(false)
		env.Must(err)
		if len(order) == 2 && string(order[0].Txid) == string(W.Txid) {
			wBeforeR++
			if wBeforeR == 1 {
				// replay the yielded order on a fresh replica that never saw the transactions
				f := node()
				fmt.Println("pool yields [W, R]; applying that order on a fresh replica:")
				for _, tx := range order {
					c := *tx
					c.ReceivedTimestamp = 0
					fmt.Printf("   DoTx(%s) -> %v\n", c.Nonce, f.State.DoTx(&c))
				}
				f.Close()
			}
		}
		e.Close()
	}
	fmt.Printf("writer packed before the read-only sharer in %d of %d pools\n", wBeforeR, trials)
}

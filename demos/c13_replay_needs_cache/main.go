// C13: replaying a valid block depends on the capacity of the output cache. A block is replayed in ONE batch that is
// written at the end, so a transaction that spends an output created earlier in the same block finds that output only in
// UtxoCache.All (CheckInputEqualOutput: cache, then database). The cache is an LRU of `utxo.cachesize` entries (1000 by
// default): when more than that many outputs are created between the producing and the spending transaction, the
// producing entry has been evicted and the replay fails with "utxo can not be found" - on every node that did not have
// the transactions in its own pool. The producer (one batch per pool transaction) never notices.
package main

import (
	"fmt"
	"math/big"
	"time"

	"github.com/xuperchain/xupercore/bcs/ledger/xledger/state/utxo/txhash"
	pb "github.com/xuperchain/xupercore/bcs/ledger/xledger/xldgpb"
	"github.com/xuperchain/xupercore/protos"

	"demos/internal/env"
)

func spend(e *env.Env, ref []byte, off int32, have int64, toFirst string, first int64, nonce string) *pb.Transaction {
	tx := &pb.Transaction{Version: 1, Nonce: nonce, Timestamp: time.Now().UnixNano(), Initiator: env.Bob, AuthRequire: []string{env.Bob}}
	tx.TxInputs = []*protos.TxInput{{RefTxid: ref, RefOffset: off, FromAddr: []byte(env.Bob), Amount: big.NewInt(have).Bytes()}}
	tx.TxOutputs = []*protos.TxOutput{{ToAddr: []byte(toFirst), Amount: big.NewInt(first).Bytes()}}
	if have > first {
		tx.TxOutputs = append(tx.TxOutputs, &protos.TxOutput{ToAddr: []byte(env.Bob), Amount: big.NewInt(have - first).Bytes()})
	}
	sig, err := txhash.ProcessSignTx(e.Crypt, tx, []byte(env.BobPrivateKey))
	env.Must(err)
	tx.InitiatorSigns = []*protos.SignatureInfo{{PublicKey: env.BobPubkey, Sign: sig}}
	tx.AuthRequireSigns = tx.InitiatorSigns
	tx.Txid, _ = txhash.MakeTransactionID(tx)
	return tx
}

// history: T0 splits Bob's genesis output into [Bob 5, Bob rest]; T1..Tn each spend the previous change and pay 1 to
// Alice; the last transaction spends T0's first output. Every transaction is correctly signed.
func history(e *env.Env, n int) []*pb.Transaction {
	var txs []*pb.Transaction
	t0 := spend(e, e.RootTx.Txid, 0, 10000000, env.Bob, 5, "t0")
	txs = append(txs, t0)
	prev, have := t0, int64(10000000-5)
	for i := 1; i <= n; i++ {
		t := spend(e, prev.Txid, 1, have, env.Alice, 1, fmt.Sprintf("t%d", i))
		txs = append(txs, t)
		prev, have = t, have-1
	}
	// the last transaction needs T0's first output AND Tn's change: the pool order has to place it after Tn
	last := spend(e, t0.Txid, 0, 5, env.Alice, 5, "last")
	last.TxInputs = append(last.TxInputs, &protos.TxInput{RefTxid: prev.Txid, RefOffset: 1, FromAddr: []byte(env.Bob), Amount: big.NewInt(have).Bytes()})
	last.TxOutputs[0].Amount = big.NewInt(5 + have).Bytes()
	sig, err := txhash.ProcessSignTx(e.Crypt, last, []byte(env.BobPrivateKey))
	env.Must(err)
	last.InitiatorSigns = []*protos.SignatureInfo{{PublicKey: env.BobPubkey, Sign: sig}}
	last.AuthRequireSigns = last.InitiatorSigns
	last.Txid, _ = txhash.MakeTransactionID(last)
	txs = append(txs, last)
	return txs
}

func run(n int) {
	// the producer: every transaction is verified and admitted to the pool, the block is packed in pool order
	p := env.New(true, nil)
	defer p.Close()
	txs := history(p, n)
	for i, tx := range txs {
		if ok, err := p.State.VerifyTx(tx); !ok || err != nil {
			panic(fmt.Sprint("producer VerifyTx ", i, err))
		}
		env.Must(p.State.DoTx(tx))
	}
	pool, _ := p.State.GetUnconfirmedTx(false)
	blk := p.Block(p.Root.Blockid, 1, "b1", pool...)
	fmt.Printf("n=%d: producer admitted %d transactions; block valid: %v; ConfirmBlock: %v; PlayForMiner: %v\n",
		n, len(pool), p.Accepts(blk), p.Ledger.ConfirmBlock(blk, false).Succ, p.State.PlayForMiner(blk.Blockid))

	// a replica that never saw the transactions: same genesis, receives the block
	r := env.New(true, nil)
	defer r.Close()
	if string(r.Root.Blockid) != string(p.Root.Blockid) {
		panic("genesis differs")
	}
	valid, conf := r.Accepts(blk), r.Ledger.ConfirmBlock(blk, false).Succ
	err := r.State.Walk(blk.Blockid, false)
	fmt.Printf("n=%d: replica block valid: %v; ConfirmBlock: %v; Walk: %v; pointer at the block: %v\n", n, valid, conf, err, string(r.State.GetLatestBlockid()) == string(blk.Blockid))
}

func main() {
	run(990)  // fewer outputs than the cache holds: replays
	run(1100) // more than utxo.cachesize (1000) outputs between producer and spender
}
